// Package fedcat holds the Go mirror of the TLA+ catalog forms used by C01 (spec/fed): tagged values,
// schemas/layouts, data universes, documents; plus printers (SDL, GraphQL operations) and the converter
// GraphQL text -> spec document form (through gqlparser, independent of the code under test).
package fedcat

import (
	"bytes"
	"encoding/json"
	"fmt"
	"io"
	"sort"
	"strconv"
	"strings"
)

// Val is a tagged value (DESIGN 2.3): t = n|x|s|i|b|f|e|l|o|r|v|fn|ctr.
//
//	n null, x absent, s string, i int, b bool, f float (as string), e enum (as string), l list, o ordered object,
//	r reference to an object of the universe, v variable reference, fn value depending on one argument,
//	ctr root mutation field that adds its Int argument A to the world's counter and returns the new value.
type Val struct {
	T string
	S string // s, f, e, r, v
	I int64
	B bool
	L []Val    // l: items; o: values
	K []string // o: keys
	// fn
	A string
	M []FnCase
	D *Val
}

type FnCase struct {
	K Val `json:"k"`
	V Val `json:"v"`
}

var (
	Null   = Val{T: "n"}
	Absent = Val{T: "x"}
)

func Str(s string) Val { return Val{T: "s", S: s} }
func Int(i int64) Val  { return Val{T: "i", I: i} }
func Bool(b bool) Val  { return Val{T: "b", B: b} }
func List(l []Val) Val {
	if l == nil {
		l = []Val{}
	}
	return Val{T: "l", L: l}
}
func Object(k []string, v []Val) Val {
	if k == nil {
		k = []string{}
	}
	if v == nil {
		v = []Val{}
	}
	return Val{T: "o", K: k, L: v}
}

func (v Val) IsNull() bool   { return v.T == "n" }
func (v Val) IsAbsent() bool { return v.T == "x" }

// Get returns the member of an object value (Absent if missing / not an object).
func (v Val) Get(name string) Val {
	if v.T != "o" {
		return Absent
	}
	for i, k := range v.K {
		if k == name {
			return v.L[i]
		}
	}
	return Absent
}

func (v Val) MarshalJSON() ([]byte, error) {
	switch v.T {
	case "n", "x":
		return []byte(`{"t":"` + v.T + `"}`), nil
	case "s", "f", "e", "r", "v":
		s, _ := json.Marshal(v.S)
		return []byte(`{"t":"` + v.T + `","v":` + string(s) + `}`), nil
	case "i":
		return []byte(`{"t":"i","v":` + strconv.FormatInt(v.I, 10) + `}`), nil
	case "b":
		return []byte(`{"t":"b","v":` + strconv.FormatBool(v.B) + `}`), nil
	case "l":
		l := v.L
		if l == nil {
			l = []Val{}
		}
		b, err := json.Marshal(l)
		if err != nil {
			return nil, err
		}
		return []byte(`{"t":"l","v":` + string(b) + `}`), nil
	case "o":
		k := v.K
		if k == nil {
			k = []string{}
		}
		l := v.L
		if l == nil {
			l = []Val{}
		}
		kb, _ := json.Marshal(k)
		vb, err := json.Marshal(l)
		if err != nil {
			return nil, err
		}
		return []byte(`{"t":"o","k":` + string(kb) + `,"v":` + string(vb) + `}`), nil
	case "ctr":
		a, _ := json.Marshal(v.A)
		return []byte(`{"t":"ctr","a":` + string(a) + `}`), nil
	case "fn":
		m, _ := json.Marshal(v.M)
		d, _ := json.Marshal(v.D)
		a, _ := json.Marshal(v.A)
		return []byte(`{"t":"fn","a":` + string(a) + `,"m":` + string(m) + `,"d":` + string(d) + `}`), nil
	}
	return nil, fmt.Errorf("fedcat: cannot marshal value with tag %q", v.T)
}

func (v *Val) UnmarshalJSON(b []byte) error {
	var raw struct {
		T string          `json:"t"`
		V json.RawMessage `json:"v"`
		K []string        `json:"k"`
		A string          `json:"a"`
		M []FnCase        `json:"m"`
		D *Val            `json:"d"`
	}
	if err := json.Unmarshal(b, &raw); err != nil {
		return err
	}
	*v = Val{T: raw.T}
	switch raw.T {
	case "n", "x":
	case "s", "f", "e", "r", "v":
		return json.Unmarshal(raw.V, &v.S)
	case "i":
		return json.Unmarshal(raw.V, &v.I)
	case "b":
		return json.Unmarshal(raw.V, &v.B)
	case "l":
		v.L = []Val{}
		return json.Unmarshal(raw.V, &v.L)
	case "o":
		v.K = raw.K
		if v.K == nil {
			v.K = []string{}
		}
		v.L = []Val{}
		return json.Unmarshal(raw.V, &v.L)
	case "ctr":
		v.A = raw.A
	case "fn":
		v.A, v.M, v.D = raw.A, raw.M, raw.D
	default:
		return fmt.Errorf("fedcat: unknown value tag %q", raw.T)
	}
	return nil
}

// FromJSON converts plain JSON text into a tagged value (object key order preserved; non-integral numbers -> f).
func FromJSON(b []byte) (Val, error) {
	dec := json.NewDecoder(bytes.NewReader(b))
	dec.UseNumber()
	v, err := decodeVal(dec)
	if err != nil {
		return Val{}, err
	}
	if _, err := dec.Token(); err != io.EOF {
		return Val{}, fmt.Errorf("fedcat: trailing data after JSON value")
	}
	return v, nil
}

func decodeVal(dec *json.Decoder) (Val, error) {
	tok, err := dec.Token()
	if err != nil {
		return Val{}, err
	}
	switch t := tok.(type) {
	case nil:
		return Null, nil
	case bool:
		return Bool(t), nil
	case string:
		return Str(t), nil
	case json.Number:
		if i, err := strconv.ParseInt(t.String(), 10, 64); err == nil {
			return Int(i), nil
		}
		return Val{T: "f", S: t.String()}, nil
	case json.Delim:
		switch t {
		case '[':
			out := []Val{}
			for dec.More() {
				x, err := decodeVal(dec)
				if err != nil {
					return Val{}, err
				}
				out = append(out, x)
			}
			if _, err := dec.Token(); err != nil {
				return Val{}, err
			}
			return List(out), nil
		case '{':
			ks := []string{}
			vs := []Val{}
			for dec.More() {
				kt, err := dec.Token()
				if err != nil {
					return Val{}, err
				}
				k, ok := kt.(string)
				if !ok {
					return Val{}, fmt.Errorf("fedcat: object key is not a string")
				}
				x, err := decodeVal(dec)
				if err != nil {
					return Val{}, err
				}
				ks = append(ks, k)
				vs = append(vs, x)
			}
			if _, err := dec.Token(); err != nil {
				return Val{}, err
			}
			return Object(ks, vs), nil
		}
	}
	return Val{}, fmt.Errorf("fedcat: unexpected JSON token %v", tok)
}

// Plain renders a tagged value as plain JSON (key order kept). r/v/fn/x are not JSON values.
func (v Val) Plain() string {
	var sb strings.Builder
	v.plain(&sb)
	return sb.String()
}

func (v Val) plain(sb *strings.Builder) {
	switch v.T {
	case "n", "x":
		sb.WriteString("null")
	case "s", "e", "r", "v":
		b, _ := json.Marshal(v.S)
		sb.Write(b)
	case "f":
		sb.WriteString(v.S)
	case "i":
		sb.WriteString(strconv.FormatInt(v.I, 10))
	case "b":
		sb.WriteString(strconv.FormatBool(v.B))
	case "l":
		sb.WriteByte('[')
		for i, x := range v.L {
			if i > 0 {
				sb.WriteByte(',')
			}
			x.plain(sb)
		}
		sb.WriteByte(']')
	case "o":
		sb.WriteByte('{')
		for i, x := range v.L {
			if i > 0 {
				sb.WriteByte(',')
			}
			b, _ := json.Marshal(v.K[i])
			sb.Write(b)
			sb.WriteByte(':')
			x.plain(sb)
		}
		sb.WriteByte('}')
	default:
		sb.WriteString("null")
	}
}

// Canon is a canonical string of a JSON-like value with object keys sorted (for order-insensitive comparison).
func (v Val) Canon() string {
	var sb strings.Builder
	v.canon(&sb)
	return sb.String()
}

func (v Val) canon(sb *strings.Builder) {
	switch v.T {
	case "l":
		sb.WriteByte('[')
		for i, x := range v.L {
			if i > 0 {
				sb.WriteByte(',')
			}
			x.canon(sb)
		}
		sb.WriteByte(']')
	case "o":
		idx := make([]int, len(v.K))
		for i := range idx {
			idx[i] = i
		}
		sort.SliceStable(idx, func(a, b int) bool { return v.K[idx[a]] < v.K[idx[b]] })
		sb.WriteByte('{')
		for n, i := range idx {
			if n > 0 {
				sb.WriteByte(',')
			}
			b, _ := json.Marshal(v.K[i])
			sb.Write(b)
			sb.WriteByte(':')
			v.L[i].canon(sb)
		}
		sb.WriteByte('}')
	default:
		v.plain(sb)
	}
}

// Equal: same tagged value (objects: same keys in any order).
func (v Val) Equal(w Val) bool { return v.T == w.T && v.Canon() == w.Canon() }
