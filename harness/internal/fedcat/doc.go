package fedcat

import (
	"encoding/json"
	"fmt"
	"strconv"
	"strings"

	"github.com/vektah/gqlparser/v2/ast"
	"github.com/vektah/gqlparser/v2/parser"
)

// Document form of spec/fed/FedSchema.tla (uniform selection records).
type Arg struct {
	Name string `json:"name"`
	Val  Val    `json:"val"`
}

type Sel struct {
	K     string `json:"k"` // f field, i inline fragment, s fragment spread
	Name  string `json:"name"`
	Alias string `json:"alias"`
	On    string `json:"on"`
	Args  []Arg  `json:"args"`
	Dirs  []Arg  `json:"dirs"`
	Sel   []Sel  `json:"sel"`
}

type Frag struct {
	Name string `json:"name"`
	On   string `json:"on"`
	Sel  []Sel  `json:"sel"`
}

type VarDef struct {
	Name string  `json:"name"`
	Type TypeRef `json:"type"`
	Def  Val     `json:"def"`
}

type Doc struct {
	Sel   []Sel    `json:"sel"`
	Frags []Frag   `json:"frags"`
	Vars  []VarDef `json:"vars"`
	Op    string   `json:"op"` // query | mutation
}

// Binding is one variable of an assignment.
type Binding struct {
	Name string `json:"name"`
	Val  Val    `json:"val"`
}

// ---------------------------------------------------------------- printing

func literal(v Val) string {
	switch v.T {
	case "v":
		return "$" + v.S
	case "e":
		return v.S
	case "s":
		b, _ := json.Marshal(v.S)
		return string(b)
	case "l":
		parts := make([]string, len(v.L))
		for i, x := range v.L {
			parts[i] = literal(x)
		}
		return "[" + strings.Join(parts, ", ") + "]"
	case "o":
		parts := make([]string, len(v.L))
		for i, x := range v.L {
			parts[i] = v.K[i] + ": " + literal(x)
		}
		return "{" + strings.Join(parts, ", ") + "}"
	}
	return v.Plain()
}

func printSels(sb *strings.Builder, sels []Sel, indent string) {
	for _, s := range sels {
		sb.WriteString(indent)
		switch s.K {
		case "f":
			if s.Alias != "" {
				sb.WriteString(s.Alias + ": ")
			}
			sb.WriteString(s.Name)
			if len(s.Args) > 0 {
				parts := make([]string, len(s.Args))
				for i, a := range s.Args {
					parts[i] = a.Name + ": " + literal(a.Val)
				}
				sb.WriteString("(" + strings.Join(parts, ", ") + ")")
			}
		case "i":
			sb.WriteString("...")
			if s.On != "" {
				sb.WriteString(" on " + s.On)
			}
		default:
			sb.WriteString("..." + s.Name)
		}
		for _, d := range s.Dirs {
			sb.WriteString(" @" + d.Name + "(if: " + literal(d.Val) + ")")
		}
		if len(s.Sel) > 0 {
			sb.WriteString(" {\n")
			printSels(sb, s.Sel, indent+"  ")
			sb.WriteString(indent + "}")
		}
		sb.WriteString("\n")
	}
}

// Print renders the document as GraphQL text (one anonymous or named query + fragment definitions).
func (d *Doc) Print(opName string) string {
	var sb strings.Builder
	if d.Op == "mutation" {
		sb.WriteString("mutation")
	} else {
		sb.WriteString("query")
	}
	if opName != "" {
		sb.WriteString(" " + opName)
	}
	if len(d.Vars) > 0 {
		parts := make([]string, len(d.Vars))
		for i, v := range d.Vars {
			parts[i] = "$" + v.Name + ": " + v.Type.String()
			if !v.Def.IsAbsent() && v.Def.T != "" {
				parts[i] += " = " + literal(v.Def)
			}
		}
		sb.WriteString("(" + strings.Join(parts, ", ") + ")")
	}
	sb.WriteString(" {\n")
	printSels(&sb, d.Sel, "  ")
	sb.WriteString("}\n")
	for _, f := range d.Frags {
		sb.WriteString("fragment " + f.Name + " on " + f.On + " {\n")
		printSels(&sb, f.Sel, "  ")
		sb.WriteString("}\n")
	}
	return sb.String()
}

// VarsJSON renders an assignment as the JSON object sent with the request.
func VarsJSON(bs []Binding) string {
	var sb strings.Builder
	sb.WriteByte('{')
	for i, b := range bs {
		if i > 0 {
			sb.WriteByte(',')
		}
		k, _ := json.Marshal(b.Name)
		sb.Write(k)
		sb.WriteByte(':')
		sb.WriteString(b.Val.Plain())
	}
	sb.WriteByte('}')
	return sb.String()
}

// ---------------------------------------------------------------- GraphQL text -> spec form (gqlparser)

func typeRef(t *ast.Type) TypeRef {
	var w []string
	for t != nil {
		if t.NonNull {
			w = append(w, "N")
		}
		if t.Elem != nil {
			w = append(w, "L")
			t = t.Elem
			continue
		}
		if w == nil {
			w = []string{}
		}
		return TypeRef{N: t.NamedType, W: w}
	}
	return TypeRef{W: []string{}}
}

func valueOf(v *ast.Value) (Val, error) {
	if v == nil {
		return Absent, nil
	}
	switch v.Kind {
	case ast.Variable:
		return Val{T: "v", S: v.Raw}, nil
	case ast.IntValue:
		i, err := strconv.ParseInt(v.Raw, 10, 64)
		if err != nil {
			return Val{}, err
		}
		return Int(i), nil
	case ast.FloatValue:
		return Val{T: "f", S: v.Raw}, nil
	case ast.StringValue, ast.BlockValue:
		return Str(v.Raw), nil
	case ast.BooleanValue:
		return Bool(v.Raw == "true"), nil
	case ast.NullValue:
		return Null, nil
	case ast.EnumValue:
		return Val{T: "e", S: v.Raw}, nil
	case ast.ListValue:
		out := make([]Val, 0, len(v.Children))
		for _, c := range v.Children {
			x, err := valueOf(c.Value)
			if err != nil {
				return Val{}, err
			}
			out = append(out, x)
		}
		return List(out), nil
	case ast.ObjectValue:
		ks := make([]string, 0, len(v.Children))
		vs := make([]Val, 0, len(v.Children))
		for _, c := range v.Children {
			x, err := valueOf(c.Value)
			if err != nil {
				return Val{}, err
			}
			ks = append(ks, c.Name)
			vs = append(vs, x)
		}
		return Object(ks, vs), nil
	}
	return Val{}, fmt.Errorf("fedcat: unknown value kind %d", v.Kind)
}

func dirsOf(ds ast.DirectiveList) ([]Arg, error) {
	out := []Arg{}
	for _, d := range ds {
		var val Val = Absent
		if a := d.Arguments.ForName("if"); a != nil {
			x, err := valueOf(a.Value)
			if err != nil {
				return nil, err
			}
			val = x
		}
		out = append(out, Arg{Name: d.Name, Val: val})
	}
	return out, nil
}

func selsOf(ss ast.SelectionSet) ([]Sel, error) {
	out := []Sel{}
	for _, s := range ss {
		switch x := s.(type) {
		case *ast.Field:
			ds, err := dirsOf(x.Directives)
			if err != nil {
				return nil, err
			}
			args := []Arg{}
			for _, a := range x.Arguments {
				v, err := valueOf(a.Value)
				if err != nil {
					return nil, err
				}
				args = append(args, Arg{Name: a.Name, Val: v})
			}
			sub, err := selsOf(x.SelectionSet)
			if err != nil {
				return nil, err
			}
			alias := x.Alias
			if alias == x.Name {
				alias = ""
			}
			out = append(out, Sel{K: "f", Name: x.Name, Alias: alias, Args: args, Dirs: ds, Sel: sub})
		case *ast.InlineFragment:
			ds, err := dirsOf(x.Directives)
			if err != nil {
				return nil, err
			}
			sub, err := selsOf(x.SelectionSet)
			if err != nil {
				return nil, err
			}
			out = append(out, Sel{K: "i", On: x.TypeCondition, Args: []Arg{}, Dirs: ds, Sel: sub})
		case *ast.FragmentSpread:
			ds, err := dirsOf(x.Directives)
			if err != nil {
				return nil, err
			}
			out = append(out, Sel{K: "s", Name: x.Name, Args: []Arg{}, Dirs: ds, Sel: []Sel{}})
		}
	}
	return out, nil
}

// ParseQuery converts GraphQL text into the spec document form with gqlparser's parser (no schema needed).
// Only single-operation query documents are expected from the gateway.
func ParseQuery(text string) (*Doc, string, error) {
	qd, err := parser.ParseQuery(&ast.Source{Input: text})
	if err != nil {
		return nil, "", err
	}
	if len(qd.Operations) != 1 {
		return nil, "", fmt.Errorf("fedcat: expected exactly one operation, got %d", len(qd.Operations))
	}
	op := qd.Operations[0]
	sels, err := selsOf(op.SelectionSet)
	if err != nil {
		return nil, "", err
	}
	d := &Doc{Sel: sels, Frags: []Frag{}, Vars: []VarDef{}, Op: string(op.Operation)}
	for _, v := range op.VariableDefinitions {
		def, err := valueOf(v.DefaultValue)
		if err != nil {
			return nil, "", err
		}
		d.Vars = append(d.Vars, VarDef{Name: v.Variable, Type: typeRef(v.Type), Def: def})
	}
	for _, f := range qd.Fragments {
		fs, err := selsOf(f.SelectionSet)
		if err != nil {
			return nil, "", err
		}
		d.Frags = append(d.Frags, Frag{Name: f.Name, On: f.TypeCondition, Sel: fs})
	}
	return d, string(op.Operation), nil
}

// BindingsFromJSON converts a JSON variables object into an assignment (order of the object kept).
func BindingsFromJSON(b []byte) ([]Binding, error) {
	out := []Binding{}
	if len(b) == 0 || string(b) == "null" {
		return out, nil
	}
	v, err := FromJSON(b)
	if err != nil {
		return nil, err
	}
	if v.T != "o" {
		return nil, fmt.Errorf("fedcat: variables are not a JSON object")
	}
	for i, k := range v.K {
		out = append(out, Binding{Name: k, Val: v.L[i]})
	}
	return out, nil
}
