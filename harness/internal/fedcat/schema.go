package fedcat

import (
	"fmt"
	"strings"
)

// TypeRef: named type + wrappers outermost first ("N" non-null, "L" list), as in spec/fed/FedSchema.tla.
type TypeRef struct {
	N string   `json:"n"`
	W []string `json:"w"`
}

func (t TypeRef) String() string {
	// wrappers outermost first: ["N","L","N"] User -> [User!]!
	var rec func(w []string) string
	rec = func(w []string) string {
		if len(w) == 0 {
			return t.N
		}
		if w[0] == "N" {
			return rec(w[1:]) + "!"
		}
		return "[" + rec(w[1:]) + "]"
	}
	return rec(t.W)
}

type ArgDef struct {
	Name string  `json:"name"`
	Type TypeRef `json:"type"`
}

// FSel is one entry of a field set (@key / @requires / @provides).
type FSel struct {
	Name string `json:"name"`
	Sel  []FSel `json:"sel"`
	// Args: literal arguments of a required field, e.g. @requires(fields: "price(cur: \"EUR\")")
	Args []FSArg `json:"args"`
}

// FSArg is one literal argument of a field-set entry (same shape as a document argument).
type FSArg struct {
	Name string `json:"name"`
	Val  Val    `json:"val"`
}

func FieldSetString(sel []FSel) string {
	parts := make([]string, 0, len(sel))
	for _, s := range sel {
		name := s.Name
		if len(s.Args) > 0 {
			as := make([]string, len(s.Args))
			for i, a := range s.Args {
				as[i] = a.Name + ": " + fieldSetLiteral(a.Val)
			}
			name += "(" + strings.Join(as, ", ") + ")"
		}
		if len(s.Sel) == 0 {
			parts = append(parts, name)
		} else {
			parts = append(parts, name+" { "+FieldSetString(s.Sel)+" }")
		}
	}
	return strings.Join(parts, " ")
}

type FieldDef struct {
	Name string   `json:"name"`
	Type TypeRef  `json:"type"`
	Args []ArgDef `json:"args"`
	Ext  bool     `json:"ext"`
	Req  []FSel   `json:"req"`
	Prov []FSel   `json:"prov"`
	// Inacc: @inaccessible (not part of the client schema; still usable as key / @requires input)
	Inacc bool `json:"inacc"`
}

type KeyDef struct {
	Sel []FSel `json:"sel"`
	Res bool   `json:"res"`
}

type TypeDef struct {
	Name    string     `json:"name"`
	Kind    string     `json:"kind"` // OBJECT | INTERFACE | UNION | ENUM (values in Members) | INPUT (fields in Fields) | SCALAR
	Keys    []KeyDef   `json:"keys"`
	Impl    []string   `json:"impl"`
	Members []string   `json:"members"`
	Fields  []FieldDef `json:"fields"`
}

func (t *TypeDef) Field(name string) *FieldDef {
	for i := range t.Fields {
		if t.Fields[i].Name == name {
			return &t.Fields[i]
		}
	}
	return nil
}

func (t *TypeDef) IsKeyField(name string) bool {
	for _, k := range t.Keys {
		for _, s := range k.Sel {
			if s.Name == name {
				return true
			}
		}
	}
	return false
}

type Subgraph struct {
	Name  string    `json:"name"`
	Types []TypeDef `json:"types"`
	// Sub = SubTypes(sg) of the spec: own types + Query._entities + union _Entity
	Sub []TypeDef `json:"sub"`
}

type Obj struct {
	Type string         `json:"type"`
	F    map[string]Val `json:"f"`
}

type Universe struct {
	Name string         `json:"name"`
	Objs map[string]Obj `json:"objs"`
}

type Entry struct {
	Name      string     `json:"name"`
	Sgs       []Subgraph `json:"sgs"`
	Super     []TypeDef  `json:"super"`
	Universes []Universe `json:"universes"`
}

func FindType(types []TypeDef, name string) *TypeDef {
	for i := range types {
		if types[i].Name == name {
			return &types[i]
		}
	}
	return nil
}

// Possible object types of a (composite) type within a schema.
func Possible(types []TypeDef, name string) []string {
	td := FindType(types, name)
	if td == nil {
		return nil
	}
	switch td.Kind {
	case "OBJECT":
		return []string{name}
	case "UNION":
		return td.Members
	}
	var out []string
	for i := range types {
		if types[i].Kind == "OBJECT" {
			for _, im := range types[i].Impl {
				if im == name {
					out = append(out, types[i].Name)
				}
			}
		}
	}
	return out
}

var builtinScalars = map[string]bool{"ID": true, "String": true, "Int": true, "Boolean": true, "Float": true}

// SubgraphSDL prints the SDL a subgraph would publish (federation v2 style: @link, @key, @external, @requires,
// @provides, @shareable on every field that is also defined in another subgraph).
func SubgraphSDL(e *Entry, idx int) string {
	sg := &e.Sgs[idx]
	var sb strings.Builder
	sb.WriteString(`extend schema @link(url: "https://specs.apollo.dev/federation/v2.5", import: ["@key", "@external", "@requires", "@provides", "@shareable", "@inaccessible"])` + "\n\n")
	for i := range sg.Types {
		td := &sg.Types[i]
		printType(&sb, td, true, func(f *FieldDef) bool { return sharedElsewhere(e, idx, td, f) })
	}
	return sb.String()
}

func sharedElsewhere(e *Entry, idx int, td *TypeDef, f *FieldDef) bool {
	if f.Ext || td.Kind != "OBJECT" || td.IsKeyField(f.Name) {
		return false
	}
	for j := range e.Sgs {
		if j == idx {
			continue
		}
		if o := FindType(e.Sgs[j].Types, td.Name); o != nil {
			if g := o.Field(f.Name); g != nil && !g.Ext {
				return true
			}
		}
	}
	return false
}

// SupergraphSDL prints the client schema of the merged supergraph (no federation directives).
func SupergraphSDL(e *Entry) string {
	var sb strings.Builder
	sb.WriteString("schema {\n  query: Query\n")
	if FindType(e.Super, "Mutation") != nil {
		sb.WriteString("  mutation: Mutation\n")
	}
	sb.WriteString("}\n\n")
	for i := range e.Super {
		printType(&sb, &e.Super[i], false, nil)
	}
	return sb.String()
}

func printType(sb *strings.Builder, td *TypeDef, directives bool, shareable func(*FieldDef) bool) {
	switch td.Kind {
	case "UNION":
		fmt.Fprintf(sb, "union %s = %s\n\n", td.Name, strings.Join(td.Members, " | "))
		return
	case "ENUM":
		fmt.Fprintf(sb, "enum %s {\n  %s\n}\n\n", td.Name, strings.Join(td.Members, "\n  "))
		return
	case "SCALAR":
		fmt.Fprintf(sb, "scalar %s\n\n", td.Name)
		return
	case "INPUT":
		fmt.Fprintf(sb, "input %s {\n", td.Name)
		for i := range td.Fields {
			fmt.Fprintf(sb, "  %s: %s\n", td.Fields[i].Name, td.Fields[i].Type.String())
		}
		sb.WriteString("}\n\n")
		return
	case "INTERFACE":
		fmt.Fprintf(sb, "interface %s", td.Name)
	default:
		fmt.Fprintf(sb, "type %s", td.Name)
	}
	if len(td.Impl) > 0 {
		fmt.Fprintf(sb, " implements %s", strings.Join(td.Impl, " & "))
	}
	if directives {
		for _, k := range td.Keys {
			if k.Res {
				fmt.Fprintf(sb, " @key(fields: %q)", FieldSetString(k.Sel))
			} else {
				fmt.Fprintf(sb, " @key(fields: %q, resolvable: false)", FieldSetString(k.Sel))
			}
		}
	}
	sb.WriteString(" {\n")
	for i := range td.Fields {
		f := &td.Fields[i]
		fmt.Fprintf(sb, "  %s", f.Name)
		if len(f.Args) > 0 {
			as := make([]string, len(f.Args))
			for j, a := range f.Args {
				as[j] = a.Name + ": " + a.Type.String()
			}
			fmt.Fprintf(sb, "(%s)", strings.Join(as, ", "))
		}
		fmt.Fprintf(sb, ": %s", f.Type.String())
		if directives {
			if f.Ext {
				sb.WriteString(" @external")
			}
			if len(f.Req) > 0 {
				fmt.Fprintf(sb, " @requires(fields: %q)", FieldSetString(f.Req))
			}
			if len(f.Prov) > 0 {
				fmt.Fprintf(sb, " @provides(fields: %q)", FieldSetString(f.Prov))
			}
			if shareable != nil && shareable(f) {
				sb.WriteString(" @shareable")
			}
			if f.Inacc {
				sb.WriteString(" @inaccessible")
			}
		}
		sb.WriteString("\n")
	}
	sb.WriteString("}\n\n")
}

// IsLeafType: a named type that is not a composite type of the given schema (scalars; enums are not modelled).
func IsLeafType(types []TypeDef, name string) bool {
	td := FindType(types, name)
	return td == nil || (td.Kind != "OBJECT" && td.Kind != "INTERFACE" && td.Kind != "UNION")
}

// fieldSetLiteral prints a literal argument value inside a field-set string.
func fieldSetLiteral(v Val) string {
	switch v.T {
	case "e":
		return v.S
	case "l":
		parts := make([]string, len(v.L))
		for i, x := range v.L {
			parts[i] = fieldSetLiteral(x)
		}
		return "[" + strings.Join(parts, ", ") + "]"
	case "o":
		parts := make([]string, len(v.L))
		for i, x := range v.L {
			parts[i] = v.K[i] + ": " + fieldSetLiteral(x)
		}
		return "{" + strings.Join(parts, ", ") + "}"
	}
	return v.Plain()
}
