package fedcfg

import (
	"context"
	"fmt"
	"net/http"
	"strings"

	"github.com/jensneuse/abstractlogger"

	"github.com/wundergraph/graphql-go-tools/execution/engine"
	"github.com/wundergraph/graphql-go-tools/execution/graphql"
	"github.com/wundergraph/graphql-go-tools/v2/pkg/engine/datasource/graphql_datasource"
	"github.com/wundergraph/graphql-go-tools/v2/pkg/engine/plan"
	"github.com/wundergraph/graphql-go-tools/v2/pkg/engine/resolve"
)

// ToPlanMetadata is the harness copy of cosmo's Loader.dataSourceMetaData (router/core/factoryresolver.go):
// router-config data source -> plan.DataSourceMetadata, field by field (incl. ExternalFieldNames and
// DisableEntityResolver, which the example factory in execution/engine drops).
func ToPlanMetadata(m *Meta) *plan.DataSourceMetadata {
	var d plan.DirectiveConfigurations = make([]plan.DirectiveConfiguration, 0)
	out := &plan.DataSourceMetadata{
		RootNodes:  make([]plan.TypeField, 0, len(m.RootNodes)),
		ChildNodes: make([]plan.TypeField, 0, len(m.ChildNodes)),
		Directives: &d,
		FederationMetaData: plan.FederationMetaData{
			Keys:             make([]plan.FederationFieldConfiguration, 0, len(m.Keys)),
			Requires:         make([]plan.FederationFieldConfiguration, 0, len(m.Requires)),
			Provides:         make([]plan.FederationFieldConfiguration, 0, len(m.Provides)),
			EntityInterfaces: make([]plan.EntityInterfaceConfiguration, 0),
			InterfaceObjects: make([]plan.EntityInterfaceConfiguration, 0),
		},
		CostConfig: plan.NewDataSourceCostConfig(),
	}
	for _, n := range m.RootNodes {
		out.RootNodes = append(out.RootNodes, plan.TypeField{TypeName: n.TypeName, FieldNames: n.FieldNames, ExternalFieldNames: n.ExternalFieldNames})
	}
	for _, n := range m.ChildNodes {
		out.ChildNodes = append(out.ChildNodes, plan.TypeField{TypeName: n.TypeName, FieldNames: n.FieldNames, ExternalFieldNames: n.ExternalFieldNames})
	}
	for _, k := range m.Keys {
		out.Keys = append(out.Keys, plan.FederationFieldConfiguration{TypeName: k.TypeName, FieldName: k.FieldName, SelectionSet: k.SelectionSet, DisableEntityResolver: k.DisableEntityResolver})
	}
	for _, k := range m.Provides {
		out.Provides = append(out.Provides, plan.FederationFieldConfiguration{TypeName: k.TypeName, FieldName: k.FieldName, SelectionSet: k.SelectionSet})
	}
	for _, k := range m.Requires {
		out.Requires = append(out.Requires, plan.FederationFieldConfiguration{TypeName: k.TypeName, FieldName: k.FieldName, SelectionSet: k.SelectionSet})
	}
	return out
}

// UpstreamSchema is what composition stores as the normalised subgraph schema: the SDL without the @link
// extension, with definitions of the federation directives it uses.
func UpstreamSchema(sdl string) string {
	var sb strings.Builder
	for _, line := range strings.Split(sdl, "\n") {
		if strings.HasPrefix(strings.TrimSpace(line), "extend schema") {
			continue
		}
		sb.WriteString(line + "\n")
	}
	body := sb.String()
	var hdr strings.Builder
	hasQ, hasM := strings.Contains(body, "type Query"), strings.Contains(body, "type Mutation")
	if hasQ || hasM {
		hdr.WriteString("schema {\n")
		if hasQ {
			hdr.WriteString("  query: Query\n")
		}
		if hasM {
			hdr.WriteString("  mutation: Mutation\n")
		}
		hdr.WriteString("}\n\n")
	}
	hdr.WriteString("directive @external on FIELD_DEFINITION | OBJECT\n\n")
	hdr.WriteString("directive @key(fields: openfed__FieldSet!, resolvable: Boolean = true) repeatable on INTERFACE | OBJECT\n\n")
	hdr.WriteString("directive @provides(fields: openfed__FieldSet!) on FIELD_DEFINITION\n\n")
	hdr.WriteString("directive @requires(fields: openfed__FieldSet!) on FIELD_DEFINITION\n\n")
	hdr.WriteString("directive @shareable on FIELD_DEFINITION | OBJECT\n\n")
	hdr.WriteString("directive @inaccessible on ARGUMENT_DEFINITION | ENUM | ENUM_VALUE | FIELD_DEFINITION | INPUT_FIELD_DEFINITION | INPUT_OBJECT | INTERFACE | OBJECT | SCALAR | UNION\n\n")
	return hdr.String() + body + "\nscalar openfed__FieldSet\n"
}

// Source is one subgraph of a federated engine.
type Source struct {
	Name string
	SDL  string // what the subgraph publishes (with federation directives)
	URL  string
}

type Options struct {
	Resolver  *resolve.ResolverOptions
	Configure func(*engine.Configuration)
}

// Gateway is a real ExecutionEngine over the given subgraphs; all subgraph traffic goes through rt.
type Gateway struct {
	Engine *engine.ExecutionEngine
	Metas  []*Meta
	cancel context.CancelFunc
}

func (g *Gateway) Close() { g.cancel() }

// NewGateway builds plan.DataSourceConfiguration per subgraph the way cosmo's loader does and starts a real engine.
func NewGateway(supergraphSDL string, sources []Source, rt http.RoundTripper, opts Options) (*Gateway, error) {
	sgs := make([]Subgraph, len(sources))
	for i, s := range sources {
		sgs[i] = Subgraph{Name: s.Name, SDL: s.SDL}
	}
	metas, err := FromSDLs(sgs)
	if err != nil {
		return nil, err
	}
	for i, m := range metas {
		if len(m.Unsupported) > 0 {
			return nil, fmt.Errorf("subgraph %s uses features outside the first version of fedcfg: %v", sources[i].Name, m.Unsupported)
		}
	}
	schema, err := graphql.NewSchemaFromString(supergraphSDL)
	if err != nil {
		return nil, fmt.Errorf("supergraph schema: %w", err)
	}
	ctx, cancel := context.WithCancel(context.Background())
	httpClient := &http.Client{Transport: rt}
	conf := engine.NewConfiguration(schema)
	var dss []plan.DataSource
	seenArgs := map[string]bool{}
	var fields plan.FieldConfigurations
	for i, s := range sources {
		subClient := (&graphql_datasource.DefaultSubscriptionClientFactory{}).NewSubscriptionClient(ctx,
			graphql_datasource.WithUpgradeClient(httpClient), graphql_datasource.WithStreamingClient(httpClient))
		factory, err := graphql_datasource.NewFactory(ctx, httpClient, subClient)
		if err != nil {
			cancel()
			return nil, err
		}
		sc, err := graphql_datasource.NewSchemaConfiguration(UpstreamSchema(s.SDL),
			&graphql_datasource.FederationConfiguration{Enabled: true, ServiceSDL: s.SDL})
		if err != nil {
			cancel()
			return nil, fmt.Errorf("subgraph %s: %w", s.Name, err)
		}
		cc, err := graphql_datasource.NewConfiguration(graphql_datasource.ConfigurationInput{
			Fetch:               &graphql_datasource.FetchConfiguration{URL: s.URL, Method: "POST", Header: http.Header{}},
			Subscription:        &graphql_datasource.SubscriptionConfiguration{URL: s.URL},
			SchemaConfiguration: sc,
		})
		if err != nil {
			cancel()
			return nil, fmt.Errorf("subgraph %s: %w", s.Name, err)
		}
		ds, err := plan.NewDataSourceConfigurationWithName[graphql_datasource.Configuration](
			fmt.Sprint(i), s.Name, factory, ToPlanMetadata(metas[i]), cc)
		if err != nil {
			cancel()
			return nil, fmt.Errorf("subgraph %s: %w", s.Name, err)
		}
		dss = append(dss, ds)
		for _, fa := range metas[i].FieldArgs {
			k := fa.TypeName + "." + fa.FieldName
			if seenArgs[k] {
				continue
			}
			seenArgs[k] = true
			fc := plan.FieldConfiguration{TypeName: fa.TypeName, FieldName: fa.FieldName}
			for _, a := range fa.Args {
				fc.Arguments = append(fc.Arguments, plan.ArgumentConfiguration{Name: a, SourceType: plan.FieldArgumentSource})
			}
			fields = append(fields, fc)
		}
	}
	conf.SetDataSources(dss)
	conf.SetFieldConfigurations(fields)
	if opts.Configure != nil {
		opts.Configure(&conf)
	}
	ro := resolve.ResolverOptions{MaxConcurrency: 1024, PropagateSubgraphErrors: true}
	if opts.Resolver != nil {
		ro = *opts.Resolver
	}
	eng, err := engine.NewExecutionEngine(ctx, abstractlogger.NoopLogger, conf, ro)
	if err != nil {
		cancel()
		return nil, err
	}
	return &Gateway{Engine: eng, Metas: metas, cancel: cancel}, nil
}
