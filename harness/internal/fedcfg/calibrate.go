package fedcfg

import (
	"encoding/json"
	"fmt"
	"sort"
	"strings"
)

type routerConfig struct {
	EngineConfig struct {
		DatasourceConfigurations []struct {
			ID            string     `json:"id"`
			Kind          string     `json:"kind"`
			RootNodes     []Node     `json:"rootNodes"`
			ChildNodes    []Node     `json:"childNodes"`
			Keys          []Required `json:"keys"`
			Requires      []Required `json:"requires"`
			Provides      []Required `json:"provides"`
			CustomGraphql struct {
				Federation struct {
					ServiceSdl string `json:"serviceSdl"`
				} `json:"federation"`
			} `json:"customGraphql"`
		} `json:"datasourceConfigurations"`
	} `json:"engineConfig"`
	Subgraphs []struct {
		ID   string `json:"id"`
		Name string `json:"name"`
	} `json:"subgraphs"`
}

func nodeSet(kind string, ns []Node) []string {
	var out []string
	for _, n := range ns {
		f := append([]string{}, n.FieldNames...)
		e := append([]string{}, n.ExternalFieldNames...)
		sort.Strings(f)
		sort.Strings(e)
		out = append(out, fmt.Sprintf("%s %s fields=%v external=%v", kind, n.TypeName, f, e))
	}
	return out
}

func reqSet(kind string, rs []Required) []string {
	var out []string
	for _, r := range rs {
		out = append(out, fmt.Sprintf("%s %s.%s {%s} disable=%v", kind, r.TypeName, r.FieldName, r.SelectionSet, r.DisableEntityResolver))
	}
	return out
}

func describe(root, child []Node, keys, req, prov []Required) []string {
	var out []string
	out = append(out, nodeSet("root", root)...)
	out = append(out, nodeSet("child", child)...)
	out = append(out, reqSet("key", keys)...)
	out = append(out, reqSet("requires", req)...)
	out = append(out, reqSet("provides", prov)...)
	sort.Strings(out)
	return out
}

// Calibrate regenerates the planner metadata of every GRAPHQL data source of a shipped router config from its
// subgraph SDL with FromSDLs and returns the differences (empty = the rule reproduces what composition wrote).
func Calibrate(configJSON []byte) (diffs []string, compared int, err error) {
	var rc routerConfig
	if err := json.Unmarshal(configJSON, &rc); err != nil {
		return nil, 0, err
	}
	names := map[string]string{}
	for _, s := range rc.Subgraphs {
		names[s.ID] = s.Name
	}
	var sgs []Subgraph
	var idx []int
	for i, ds := range rc.EngineConfig.DatasourceConfigurations {
		if ds.Kind != "GRAPHQL" {
			continue
		}
		sgs = append(sgs, Subgraph{Name: names[ds.ID], SDL: ds.CustomGraphql.Federation.ServiceSdl})
		idx = append(idx, i)
	}
	metas, err := FromSDLs(sgs)
	if err != nil {
		return nil, 0, err
	}
	for n, i := range idx {
		ds := rc.EngineConfig.DatasourceConfigurations[i]
		want := describe(ds.RootNodes, ds.ChildNodes, ds.Keys, ds.Requires, ds.Provides)
		m := metas[n]
		got := describe(m.RootNodes, m.ChildNodes, m.Keys, m.Requires, m.Provides)
		compared += len(want)
		ws := map[string]bool{}
		for _, w := range want {
			ws[w] = true
		}
		gs := map[string]bool{}
		for _, g := range got {
			gs[g] = true
		}
		for _, w := range want {
			if !gs[w] {
				diffs = append(diffs, fmt.Sprintf("ds %s (%s): shipped has   %s", ds.ID, sgs[n].Name, w))
			}
		}
		for _, g := range got {
			if !ws[g] {
				diffs = append(diffs, fmt.Sprintf("ds %s (%s): rule produces %s", ds.ID, sgs[n].Name, g))
			}
		}
		if len(m.Unsupported) > 0 {
			diffs = append(diffs, fmt.Sprintf("ds %s (%s): note: unsupported features in SDL: %s", ds.ID, sgs[n].Name, strings.Join(m.Unsupported, "; ")))
		}
	}
	return diffs, compared, nil
}
