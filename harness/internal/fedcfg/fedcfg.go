// Package fedcfg turns subgraph SDLs (federation directives included) into the planner configuration the
// cosmo router would hand to graphql-go-tools: plan.DataSourceMetadata (RootNodes, ChildNodes, external field
// names, FederationMetaData keys/requires/provides) + field argument configurations, mirroring
// router/core/factoryresolver.go (Loader.dataSourceMetaData) applied to what cosmo composition writes into
// the router config. The composition rule itself (SDL -> rootNodes/childNodes/keys/...) is calibrated against
// the shipped configs (see Calibrate): execution/engine/testdata/config_factory_federation/config.json,
// execution/federationtesting/config.json and cosmo's demo base.json.
package fedcfg

import (
	"fmt"
	"sort"
	"strings"

	"github.com/vektah/gqlparser/v2/ast"
	"github.com/vektah/gqlparser/v2/parser"
)

// Node mirrors nodev1.TypeField.
type Node struct {
	TypeName           string   `json:"typeName"`
	FieldNames         []string `json:"fieldNames,omitempty"`
	ExternalFieldNames []string `json:"externalFieldNames,omitempty"`
}

// Required mirrors nodev1.RequiredField.
type Required struct {
	TypeName              string `json:"typeName"`
	FieldName             string `json:"fieldName,omitempty"`
	SelectionSet          string `json:"selectionSet"`
	DisableEntityResolver bool   `json:"disableEntityResolver,omitempty"`
}

type ArgConfig struct {
	TypeName  string   `json:"typeName"`
	FieldName string   `json:"fieldName"`
	Args      []string `json:"args"`
}

// Meta is the per-subgraph part of a router config that the planner consumes.
type Meta struct {
	RootNodes  []Node      `json:"rootNodes,omitempty"`
	ChildNodes []Node      `json:"childNodes,omitempty"`
	Keys       []Required  `json:"keys,omitempty"`
	Requires   []Required  `json:"requires,omitempty"`
	Provides   []Required  `json:"provides,omitempty"`
	FieldArgs  []ArgConfig `json:"-"`
	// Unsupported lists features of the SDL that this first version does not translate (entity interfaces,
	// @interfaceObject, @override ...): a layout using them must not be emitted by the generator.
	Unsupported []string `json:"-"`
}

type mergedType struct {
	name       string
	kind       ast.DefinitionKind
	directives ast.DirectiveList
	fields     ast.FieldList
	extension  bool
}

// Subgraph is one input of FromSDLs.
type Subgraph struct {
	Name string
	SDL  string
}

func parseSDL(sdl string) (*ast.SchemaDocument, error) {
	return parser.ParseSchema(&ast.Source{Name: "subgraph", Input: sdl})
}

func mergeTypes(doc *ast.SchemaDocument) []*mergedType {
	var order []*mergedType
	byName := map[string]*mergedType{}
	add := func(d *ast.Definition, ext bool) {
		m := byName[d.Name]
		if m == nil {
			m = &mergedType{name: d.Name, kind: d.Kind, extension: ext}
			byName[d.Name] = m
			order = append(order, m)
		}
		m.directives = append(m.directives, d.Directives...)
		m.fields = append(m.fields, d.Fields...)
	}
	// keep textual order across definitions and extensions
	type item struct {
		d   *ast.Definition
		ext bool
	}
	var items []item
	for _, d := range doc.Definitions {
		items = append(items, item{d, false})
	}
	for _, d := range doc.Extensions {
		items = append(items, item{d, true})
	}
	sort.SliceStable(items, func(i, j int) bool {
		pi, pj := 0, 0
		if items[i].d.Position != nil {
			pi = items[i].d.Position.Start
		}
		if items[j].d.Position != nil {
			pj = items[j].d.Position.Start
		}
		return pi < pj
	})
	for _, it := range items {
		add(it.d, it.ext)
	}
	return order
}

func rootTypeNames(doc *ast.SchemaDocument) map[string]bool {
	roots := map[string]bool{"Query": true, "Mutation": true, "Subscription": true}
	custom := map[string]bool{}
	for _, s := range append(append(ast.SchemaDefinitionList{}, doc.Schema...), doc.SchemaExtension...) {
		for _, ot := range s.OperationTypes {
			custom[ot.Type] = true
		}
	}
	if len(custom) > 0 {
		return custom
	}
	return roots
}

// NormalizeFieldSet prints a field-set string the way composition does: `a b { c d }`.
func NormalizeFieldSet(fs string) (string, error) {
	qd, err := parser.ParseQuery(&ast.Source{Input: "{" + fs + "}"})
	if err != nil {
		return "", fmt.Errorf("field set %q: %w", fs, err)
	}
	return printFS(qd.Operations[0].SelectionSet), nil
}

func printFS(ss ast.SelectionSet) string {
	var parts []string
	for _, s := range ss {
		switch x := s.(type) {
		case *ast.Field:
			p := x.Name
			if len(x.Arguments) > 0 {
				var as []string
				for _, a := range x.Arguments {
					as = append(as, a.Name+": "+a.Value.String())
				}
				p += "(" + strings.Join(as, ", ") + ")"
			}
			if len(x.SelectionSet) > 0 {
				p += " { " + printFS(x.SelectionSet) + " }"
			}
			parts = append(parts, p)
		case *ast.InlineFragment:
			parts = append(parts, "... on "+x.TypeCondition+" { "+printFS(x.SelectionSet)+" }")
		}
	}
	return strings.Join(parts, " ")
}

func topLevelNames(fs string) []string {
	qd, err := parser.ParseQuery(&ast.Source{Input: "{" + fs + "}"})
	if err != nil {
		return nil
	}
	var out []string
	for _, s := range qd.Operations[0].SelectionSet {
		if f, ok := s.(*ast.Field); ok {
			out = append(out, f.Name)
		}
	}
	return out
}

func dirArg(d *ast.Directive, name string) (string, bool) {
	a := d.Arguments.ForName(name)
	if a == nil || a.Value == nil {
		return "", false
	}
	return a.Value.Raw, true
}

// FromSDLs applies the composition rule to every subgraph. The rule (calibrated, see Calibrate):
//   - object types that are a root operation type or carry @key -> rootNodes, all other object types and
//     interfaces -> childNodes (unions, enums, scalars, inputs: not listed), in textual order, `extend type`
//     merged into the definition;
//   - fieldNames = fields without @external, plus @external fields that are part of a @key of the type
//     (federation-v1 style stubs); externalFieldNames = the remaining @external fields;
//   - a field overridden by another subgraph (@override(from: this)) is dropped;
//   - keys / requires / provides: normalised field-set strings; @key(resolvable:false) -> disableEntityResolver.
func FromSDLs(sgs []Subgraph) ([]*Meta, error) {
	docs := make([]*ast.SchemaDocument, len(sgs))
	for i, sg := range sgs {
		d, err := parseSDL(sg.SDL)
		if err != nil {
			return nil, fmt.Errorf("subgraph %s: %w", sg.Name, err)
		}
		docs[i] = d
	}
	// overridden[subgraph name]["Type.field"]
	overridden := map[string]map[string]bool{}
	for i := range sgs {
		for _, t := range mergeTypes(docs[i]) {
			for _, f := range t.fields {
				if d := f.Directives.ForName("override"); d != nil {
					if from, ok := dirArg(d, "from"); ok {
						if overridden[from] == nil {
							overridden[from] = map[string]bool{}
						}
						overridden[from][t.name+"."+f.Name] = true
					}
				}
			}
		}
	}
	out := make([]*Meta, len(sgs))
	for i, sg := range sgs {
		m := &Meta{}
		roots := rootTypeNames(docs[i])
		for _, t := range mergeTypes(docs[i]) {
			if t.kind != ast.Object && t.kind != ast.Interface {
				continue
			}
			if strings.HasPrefix(t.name, "__") {
				continue
			}
			keys := t.directives.ForNames("key")
			if t.directives.ForName("interfaceObject") != nil {
				m.Unsupported = append(m.Unsupported, "@interfaceObject on "+t.name)
			}
			if t.kind == ast.Interface && len(keys) > 0 {
				m.Unsupported = append(m.Unsupported, "entity interface "+t.name)
			}
			keyFields := map[string]bool{}
			for _, k := range keys {
				fs, _ := dirArg(k, "fields")
				norm, err := NormalizeFieldSet(fs)
				if err != nil {
					return nil, err
				}
				r := Required{TypeName: t.name, SelectionSet: norm}
				if res, ok := dirArg(k, "resolvable"); ok && res == "false" {
					r.DisableEntityResolver = true
				}
				m.Keys = append(m.Keys, r)
				for _, n := range topLevelNames(fs) {
					keyFields[n] = true
				}
			}
			typeExternal := t.directives.ForName("external") != nil
			node := Node{TypeName: t.name}
			for _, f := range t.fields {
				if overridden[sg.Name][t.name+"."+f.Name] {
					continue
				}
				ext := f.Directives.ForName("external") != nil || typeExternal
				if ext && !keyFields[f.Name] {
					node.ExternalFieldNames = append(node.ExternalFieldNames, f.Name)
				} else {
					node.FieldNames = append(node.FieldNames, f.Name)
				}
				if d := f.Directives.ForName("requires"); d != nil {
					fs, _ := dirArg(d, "fields")
					norm, err := NormalizeFieldSet(fs)
					if err != nil {
						return nil, err
					}
					m.Requires = append(m.Requires, Required{TypeName: t.name, FieldName: f.Name, SelectionSet: norm})
				}
				if d := f.Directives.ForName("provides"); d != nil {
					fs, _ := dirArg(d, "fields")
					norm, err := NormalizeFieldSet(fs)
					if err != nil {
						return nil, err
					}
					m.Provides = append(m.Provides, Required{TypeName: t.name, FieldName: f.Name, SelectionSet: norm})
				}
				if len(f.Arguments) > 0 {
					ac := ArgConfig{TypeName: t.name, FieldName: f.Name}
					for _, a := range f.Arguments {
						ac.Args = append(ac.Args, a.Name)
					}
					m.FieldArgs = append(m.FieldArgs, ac)
				}
			}
			if t.kind == ast.Object && (roots[t.name] || len(keys) > 0) {
				m.RootNodes = append(m.RootNodes, node)
			} else {
				m.ChildNodes = append(m.ChildNodes, node)
			}
		}
		out[i] = m
	}
	return out, nil
}
