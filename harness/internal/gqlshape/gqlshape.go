// Package gqlshape is the Go side of spec/core/GQLShape.tla: operations in the spec's record form are
// printed to GraphQL text (+ variables), and JSON produced by the code under test is converted to the
// tagged form TLC can read (TLC's Json module has no null, truncates floats and loses key order /
// duplicate keys when objects become records).
package gqlshape

import (
	"bytes"
	"encoding/json"
	"fmt"
	"io"
	"strings"
)

// Op is one operation in spec form (see GQLShape.tla: record [kind, fed, sel]).
type Op struct {
	Kind string `json:"kind"` // query | mutation
	Dv   string `json:"dv"`   // data variant of the service this operation is asked against ("" = stock MockService)
	Fed  []Fed  `json:"fed"`
	Sel  []Sel  `json:"sel"`
}

// Fed is one plan.FederationFieldConfiguration (entity key) the datasource is configured with.
type Fed struct {
	Type  string `json:"type"`
	Field string `json:"field"` // "" = entity key, otherwise the @requires field the selection set belongs to
	Sel   string `json:"sel"`
}

// Sel is one selection: k="f" field, k="i" inline fragment, k="s" named fragment (definition + spread).
type Sel struct {
	K     string `json:"k"`
	Name  string `json:"name"`
	Alias string `json:"alias"`
	On    string `json:"on"`
	Args  []Arg  `json:"args"`
	Sel   []Sel  `json:"sel"`
}

// Arg is one argument of a field; it is always printed as a variable (the datasource is only ever handed
// operations whose argument values were extracted into variables).
type Arg struct {
	Name string `json:"name"`
	Type string `json:"type"` // GraphQL type of the variable, e.g. "ID!"
	Var  string `json:"var"`  // fixed variable name ("" = fresh name)
	Val  string `json:"val"`  // JSON text of the value
	Str  string `json:"str"`  // the value itself if it is a string (used by the spec's data rules only)
}

type printer struct {
	vars     map[string]json.RawMessage
	shared   map[string]string
	noShare  bool
	varDecls []string
	frags    []string
	nvar     int
	nfrag    int
}

func (p *printer) sels(b *strings.Builder, ss []Sel) {
	b.WriteString("{")
	for i := range ss {
		b.WriteString(" ")
		p.sel(b, &ss[i])
	}
	b.WriteString(" }")
}

func (p *printer) sel(b *strings.Builder, s *Sel) {
	switch s.K {
	case "f":
		if s.Alias != "" {
			b.WriteString(s.Alias)
			b.WriteString(": ")
		}
		b.WriteString(s.Name)
		if len(s.Args) > 0 {
			b.WriteString("(")
			for i, a := range s.Args {
				if i > 0 {
					b.WriteString(", ")
				}
				name := a.Var
				if name == "" {
					// occurrences of the same field with the same argument value share one variable: two
					// selections with the same response key must have identical arguments to be mergeable
					key := s.Name + "\x00" + a.Name + "\x00" + a.Type + "\x00" + a.Val
					if n, ok := p.shared[key]; ok && !p.noShare {
						name = n
					} else {
						p.nvar++
						name = fmt.Sprintf("v%d", p.nvar)
						p.shared[key] = name
					}
				}
				if _, dup := p.vars[name]; !dup {
					p.varDecls = append(p.varDecls, fmt.Sprintf("$%s: %s", name, a.Type))
				}
				p.vars[name] = json.RawMessage(a.Val)
				fmt.Fprintf(b, "%s: $%s", a.Name, name)
			}
			b.WriteString(")")
		}
		if len(s.Sel) > 0 {
			b.WriteString(" ")
			p.sels(b, s.Sel)
		}
	case "i":
		b.WriteString("... on ")
		b.WriteString(s.On)
		b.WriteString(" ")
		p.sels(b, s.Sel)
	case "s":
		p.nfrag++
		name := fmt.Sprintf("F%d", p.nfrag)
		var fb strings.Builder
		fmt.Fprintf(&fb, "fragment %s on %s ", name, s.On)
		p.sels(&fb, s.Sel)
		p.frags = append(p.frags, fb.String())
		b.WriteString("...")
		b.WriteString(name)
	}
}

// Print renders the operation as GraphQL text and returns the variables it uses.
func Print(op *Op) (string, map[string]json.RawMessage) {
	return PrintVars(op, true)
}

// PrintVars is Print; with share=false every argument occurrence gets its own variable, so that the text does not
// depend on which argument values happen to be equal (reuse lane: same text, other variables).
func PrintVars(op *Op, share bool) (string, map[string]json.RawMessage) {
	p := &printer{vars: map[string]json.RawMessage{}, shared: map[string]string{}, noShare: !share}
	var body strings.Builder
	p.sels(&body, op.Sel)
	var b strings.Builder
	b.WriteString(op.Kind)
	if len(p.varDecls) > 0 {
		b.WriteString("(")
		b.WriteString(strings.Join(p.varDecls, ", "))
		b.WriteString(")")
	}
	b.WriteString(" ")
	b.WriteString(body.String())
	for _, f := range p.frags {
		b.WriteString(" ")
		b.WriteString(f)
	}
	return b.String(), p.vars
}

// Tag converts JSON bytes to the tagged form:
//
//	null -> {"t":"n"}            true/false -> {"t":"b","v":true}
//	3    -> {"t":"i","v":3}      1.5 -> {"t":"f","v":"1.5"}   (any number that is not an integer literal)
//	"x"  -> {"t":"s","v":"x"}    [..] -> {"t":"l","v":[..]}
//	{..} -> {"t":"o","k":[keys in document order, duplicates kept],"v":[values]}
func Tag(data []byte) (any, error) {
	dec := json.NewDecoder(bytes.NewReader(data))
	dec.UseNumber()
	v, err := tagValue(dec)
	if err != nil {
		return nil, err
	}
	if _, err := dec.Token(); err != io.EOF {
		return nil, fmt.Errorf("trailing data after JSON value")
	}
	return v, nil
}

func tagValue(dec *json.Decoder) (any, error) {
	tok, err := dec.Token()
	if err != nil {
		return nil, err
	}
	return tagToken(dec, tok)
}

func tagToken(dec *json.Decoder, tok json.Token) (any, error) {
	switch t := tok.(type) {
	case nil:
		return map[string]any{"t": "n"}, nil
	case bool:
		return map[string]any{"t": "b", "v": t}, nil
	case string:
		return map[string]any{"t": "s", "v": t}, nil
	case json.Number:
		s := t.String()
		if isIntLiteral(s) {
			if n, err := t.Int64(); err == nil && n > -(1<<31)*2 && n < (1<<31)*2 {
				return map[string]any{"t": "i", "v": n}, nil
			}
			// integers TLC cannot hold are carried as text
			return map[string]any{"t": "I", "v": s}, nil
		}
		return map[string]any{"t": "f", "v": s}, nil
	case json.Delim:
		switch t {
		case '[':
			items := []any{}
			for dec.More() {
				v, err := tagValue(dec)
				if err != nil {
					return nil, err
				}
				items = append(items, v)
			}
			if _, err := dec.Token(); err != nil {
				return nil, err
			}
			return map[string]any{"t": "l", "v": items}, nil
		case '{':
			keys := []any{}
			vals := []any{}
			for dec.More() {
				kt, err := dec.Token()
				if err != nil {
					return nil, err
				}
				k, ok := kt.(string)
				if !ok {
					return nil, fmt.Errorf("object key is not a string")
				}
				v, err := tagValue(dec)
				if err != nil {
					return nil, err
				}
				keys = append(keys, k)
				vals = append(vals, v)
			}
			if _, err := dec.Token(); err != nil {
				return nil, err
			}
			return map[string]any{"t": "o", "k": keys, "v": vals}, nil
		}
	}
	return nil, fmt.Errorf("unexpected token %v", tok)
}

func isIntLiteral(s string) bool {
	if s == "" {
		return false
	}
	i := 0
	if s[0] == '-' {
		i = 1
	}
	if i >= len(s) {
		return false
	}
	for ; i < len(s); i++ {
		if s[i] < '0' || s[i] > '9' {
			return false
		}
	}
	return true
}
