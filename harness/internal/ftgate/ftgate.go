// Package ftgate is the gate scheduler of C08 part (b).  Actors are FETCHES (not goroutines): every
// verif hook point of resolve/loader.go (ld.*) and the harness-side data source gate (ds.load) carries the
// fetch id, a fetch parks at the points the driver asks for and is released one at a time, so the recorded
// global order of events is exact.  (harness/internal/sched keys actors by goroutine; here one goroutine
// executes several fetches of a Sequence one after the other and errgroup goroutines are anonymous.)
package ftgate

import (
	"bytes"
	"runtime"
	"strconv"
	"sync"
	"time"
)

type Event struct {
	Point string
	F     int // fetch (spec id)
	B     uint64
	Saw   []int
}

type actor struct {
	parkedAt string
	resume   chan struct{}
}

type Gate struct {
	mu     sync.Mutex
	cond   *sync.Cond
	actors map[int]*actor
	events []Event
	free   bool
	// ParkAt: points where every fetch parks; hold: one extra point for one fetch (lock probes)
	ParkAt map[string]bool
	hold   map[int]string
}

func New(parkAt ...string) *Gate {
	g := &Gate{actors: map[int]*actor{}, ParkAt: map[string]bool{}, hold: map[int]string{}}
	g.cond = sync.NewCond(&g.mu)
	for _, p := range parkAt {
		g.ParkAt[p] = true
	}
	return g
}

// Arrive records the event and parks the fetch if the point is a parking point.
func (g *Gate) Arrive(point string, f int, b uint64, saw []int) {
	g.mu.Lock()
	g.events = append(g.events, Event{Point: point, F: f, B: b, Saw: saw})
	a := g.actors[f]
	if a == nil {
		a = &actor{resume: make(chan struct{}, 1)}
		g.actors[f] = a
	}
	park := !g.free && (g.ParkAt[point] || g.hold[f] == point)
	if park {
		a.parkedAt = point
	}
	g.cond.Broadcast()
	g.mu.Unlock()
	if park {
		<-a.resume
	}
}

// Record adds an observation of the driver itself (no parking).
func (g *Gate) Record(point string, f int, b uint64) {
	g.mu.Lock()
	g.events = append(g.events, Event{Point: point, F: f, B: b})
	g.cond.Broadcast()
	g.mu.Unlock()
}

func (g *Gate) Hold(f int, point string) {
	g.mu.Lock()
	if point == "" {
		delete(g.hold, f)
	} else {
		g.hold[f] = point
	}
	g.mu.Unlock()
}

func (g *Gate) ParkedAt(f int) string {
	g.mu.Lock()
	defer g.mu.Unlock()
	if a := g.actors[f]; a != nil {
		return a.parkedAt
	}
	return ""
}

// Release lets fetch f continue from the point it is parked at; false if it is not parked at `point`.
func (g *Gate) Release(f int, point string) bool {
	g.mu.Lock()
	a := g.actors[f]
	if a == nil || a.parkedAt != point {
		g.mu.Unlock()
		return false
	}
	a.parkedAt = ""
	g.mu.Unlock()
	a.resume <- struct{}{}
	return true
}

// Wait blocks until cond() holds (evaluated under the gate's lock with the helpers *Locked) or d elapsed.
func (g *Gate) Wait(d time.Duration, cond func() bool) bool {
	deadline := time.Now().Add(d)
	g.mu.Lock()
	defer g.mu.Unlock()
	for {
		if cond() {
			return true
		}
		if !time.Now().Before(deadline) {
			return false
		}
		t := time.AfterFunc(time.Until(deadline), func() {
			g.mu.Lock()
			g.cond.Broadcast()
			g.mu.Unlock()
		})
		g.cond.Wait()
		t.Stop()
	}
}

// ParkedLocked / SeenLocked may only be called from a Wait condition.
func (g *Gate) ParkedLocked(f int, point string) bool {
	a := g.actors[f]
	return a != nil && a.parkedAt == point
}

func (g *Gate) SeenLocked(point string, f int) bool {
	for i := len(g.events) - 1; i >= 0; i-- {
		if g.events[i].F == f && g.events[i].Point == point {
			return true
		}
	}
	return false
}

// Drain opens every gate for good.
func (g *Gate) Drain() {
	g.mu.Lock()
	g.free = true
	for _, a := range g.actors {
		if a.parkedAt != "" {
			a.parkedAt = ""
			select {
			case a.resume <- struct{}{}:
			default:
			}
		}
	}
	g.cond.Broadcast()
	g.mu.Unlock()
}

func (g *Gate) Events() []Event {
	g.mu.Lock()
	defer g.mu.Unlock()
	out := make([]Event, len(g.events))
	copy(out, g.events)
	return out
}

func (g *Gate) Len() int {
	g.mu.Lock()
	defer g.mu.Unlock()
	return len(g.events)
}

// ---- schedule execution (steps of spec/resolve/Gen_FTRun.tla) ---------------------------------

type Step struct {
	F   int    `json:"f"`
	A   string `json:"a"`
	Exp []int  `json:"exp"`
}

// Timeouts are generous (the box may be heavily loaded): a step that does not complete within StepWait only makes
// the schedule "unrealised" (all gates are opened, the trace is validated anyway); only a run that does not return
// within WedgeWait after every gate was opened counts as wedged.
const (
	StepWait  = 15 * time.Second
	WedgeWait = 60 * time.Second
	BlockWait = 25 * time.Millisecond
)

// KnownPoint: the loader hook points this scheduler understands. resolve.VerifHook is shared by all checks; every
// other point (sfi.*, sfs.*, sub.*, trig.*, upd.*, ld.skipped ...) is ignored: not parked, not recorded.
func KnownPoint(point string) bool {
	switch point {
	case "ld.prepare", "ld.prepared", "ld.skipped", "ld.load", "ld.loaded", "ld.merging", "ld.merged":
		return true
	}
	return false
}

// Settle gives goroutines that must NOT be runnable (according to the specification) a chance to show up
// (time.Sleep has a granularity of about a millisecond here: spin instead).
func Settle() {
	for t := time.Now(); time.Since(t) < 40*time.Microsecond; {
		runtime.Gosched()
	}
}

func (g *Gate) allParked(fs []int, point string) func() bool {
	return func() bool {
		for _, f := range fs {
			if !g.ParkedLocked(f, point) {
				return false
			}
		}
		return true
	}
}

// RunSteps forces the schedule. dsPoint is the point at which a request is "issued" (harness-side gate).
// It returns the number of steps that could not be taken as scheduled (the caller then drains) and whether a
// probed request entered a [db] section while another request was parked inside one.
func (g *Gate) RunSteps(init []int, steps []Step, dsPoint string) (unrealised int, probeMoved bool) {
	ok := g.Wait(StepWait, g.allParked(init, "ld.prepare"))
	type pending struct {
		f, g   int
		fa, gb string
	}
	var probe pending
	for _, st := range steps {
		if !ok {
			break
		}
		Settle()
		switch st.A {
		case "P":
			// a request with nothing to ask for (skipLoad) never reaches the data source: it is merged right away
			// ... and a request that reads from a failed request is skipped (ld.skipped): whoever waited for it proceeds
			ok = g.Release(st.F, "ld.prepare") && g.Wait(StepWait, func() bool {
				return (g.ParkedLocked(st.F, dsPoint) || g.SeenLocked("ld.merged", st.F) || g.SeenLocked("ld.skipped", st.F)) &&
					g.allParked(st.Exp, "ld.prepare")()
			})
		case "F":
			skipped := false
			g.Wait(0, func() bool { skipped = g.SeenLocked("ld.merged", st.F); return true })
			ok = (skipped || g.Release(st.F, dsPoint)) && g.Wait(StepWait, func() bool {
				return g.SeenLocked("ld.merged", st.F) && g.allParked(st.Exp, "ld.prepare")()
			})
		case "PH", "FH":
			from, at := "ld.prepare", "ld.prepared"
			if st.A == "FH" {
				from, at = dsPoint, "ld.merging"
			}
			g.Hold(st.F, at)
			ok = g.Release(st.F, from) && g.Wait(StepWait, g.allParked([]int{st.F}, at))
			g.Hold(st.F, "")
			if ok {
				// recorded while f is parked inside the critical section
				g.Record("hold", st.F, 0)
			}
			probe = pending{f: st.F, fa: st.A[:1]}
		case "TP", "TF":
			// g is released while f sits inside the critical section: with a working data lock nothing
			// that needs the lock can happen before f is released
			probe.g, probe.gb = st.F, st.A[1:]
			mark := g.Len()
			from := "ld.prepare"
			if st.A == "TF" {
				from = dsPoint
			}
			ok = g.Release(st.F, from)
			time.Sleep(BlockWait)
			for _, e := range g.Events()[mark:] {
				if e.F == st.F && (e.Point == "ld.prepared" || e.Point == "ld.merging" || (e.Point == "ld.loaded" && e.B == 1)) {
					probeMoved = true
				}
			}
		case "U":
			from := "ld.prepared"
			if probe.fa == "F" {
				from = "ld.merging"
			}
			p := probe
			g.Record("unhold", st.F, 0)
			ok = g.Release(st.F, from) && g.Wait(StepWait, func() bool {
				endOf := func(f int, a string) bool {
					if a == "P" {
						return g.ParkedLocked(f, dsPoint)
					}
					return g.SeenLocked("ld.merged", f)
				}
				return endOf(p.f, p.fa) && endOf(p.g, p.gb) && g.allParked(st.Exp, "ld.prepare")()
			})
		default:
			ok = false
		}
		if !ok {
			unrealised++
		}
	}
	if ok {
		Settle()
	}
	return unrealised, probeMoved
}

// Goid is the id of the calling goroutine (correlates a hook call with a later call of a harness fake
// made by the same goroutine).
func Goid() int64 {
	var buf [64]byte
	n := runtime.Stack(buf[:], false)
	b := buf[:n]
	b = b[len("goroutine "):]
	i := bytes.IndexByte(b, ' ')
	id, _ := strconv.ParseInt(string(b[:i]), 10, 64)
	return id
}
