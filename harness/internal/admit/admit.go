// Package admit replicates the admission sequence of execution/engine.(*ExecutionEngine).Execute
// (execution_engine.go, "normalize := !operation.IsNormalized()" ... VariablesMapper) on a graphql.Request,
// stage by stage, so that a driver can observe the outcome of each stage.  checks/c04.py and checks/c03.py
// pin a hash of that source section: when Execute's admission code changes the checks become INCONCLUSIVE
// until this file is brought in line again.
package admit

import (
	"fmt"
	"runtime/debug"
	"strings"

	"github.com/wundergraph/graphql-go-tools/execution/graphql"
	"github.com/wundergraph/graphql-go-tools/v2/pkg/astnormalization"
	"github.com/wundergraph/graphql-go-tools/v2/pkg/astprinter"
	"github.com/wundergraph/graphql-go-tools/v2/pkg/astvalidation"
	"github.com/wundergraph/graphql-go-tools/v2/pkg/graphqlerrors"
	"github.com/wundergraph/graphql-go-tools/v2/pkg/operationreport"
)

// Outcome of the admission sequence.
type Outcome struct {
	Accept bool   // passed Normalize (engine option set) and ValidateForSchema
	Stage  string // stage that rejected: parse | normalize | validate | extract | remap | panic ; "" when admitted
	Msg    string // first message of the rejecting stage
	Panic  string
	Stack  string // goroutine stack of the panic
}

// EngineNormalizeOptions is the option set of the first Normalize call in Execute.
func EngineNormalizeOptions() []astnormalization.Option {
	return []astnormalization.Option{
		astnormalization.WithRemoveFragmentDefinitions(),
		astnormalization.WithRemoveUnusedVariables(),
		astnormalization.WithInlineFragmentSpreads(),
		astnormalization.WithEnableDefer(),
		astnormalization.WithPrevalidationRules(
			astvalidation.DeferStreamOnValidOperations(),
			astvalidation.DeferStreamHaveUniqueLabels(),
			astvalidation.DirectivesAreInValidLocations(),
			astvalidation.StreamAppliedToListFieldsOnly()),
	}
}

// Frames returns the innermost functions of the library found on a panic stack ("a<-b"), as a stable name for the crash site.
func Frames(stack string, n int) string {
	out := []string{}
	for _, line := range strings.Split(stack, "\n") {
		if !strings.HasPrefix(line, "github.com/wundergraph/graphql-go-tools/") {
			continue
		}
		fn := line
		if i := strings.LastIndex(fn, "("); i > 0 {
			fn = fn[:i]
		}
		fn = strings.TrimPrefix(fn, "github.com/wundergraph/graphql-go-tools/")
		if i := strings.LastIndex(fn, "/"); i >= 0 {
			fn = fn[i+1:]
		}
		out = append(out, fn)
		if len(out) == n {
			break
		}
	}
	return strings.Join(out, "<-")
}

// Validate runs Normalize (engine option set) and ValidateForSchema with default options, as Execute does.
func Validate(req *graphql.Request, schema *graphql.Schema) (out Outcome) {
	defer func() {
		if r := recover(); r != nil {
			out = Outcome{Stage: "panic", Panic: fmt.Sprint(r), Msg: fmt.Sprint(r), Stack: string(debug.Stack())}
		}
	}()
	nres, err := req.Normalize(schema, EngineNormalizeOptions()...)
	if err != nil {
		return Outcome{Stage: "normalize", Msg: err.Error()}
	}
	if !nres.Successful {
		return Outcome{Stage: "normalize", Msg: msgOf(nres.Errors)}
	}
	vres, err := req.ValidateForSchema(schema)
	if err != nil {
		return Outcome{Stage: "validate", Msg: err.Error()}
	}
	if !vres.Valid {
		return Outcome{Stage: "validate", Msg: msgOf(vres.Errors)}
	}
	return Outcome{Accept: true}
}

func msgOf(e graphqlerrors.Errors) string {
	if e == nil {
		return ""
	}
	if e.Count() > 0 {
		return e.ErrorByIndex(0).Error()
	}
	return e.Error()
}

// Normalized is what the full admission sequence leaves behind.
type Normalized struct {
	Outcome
	Text    string            // astprinter output of the normalized operation
	Vars    string            // request variables after normalization
	Mapping map[string]string // VariablesMapper: new name -> original name
}

// Full runs the complete sequence: Validate, then Normalize(WithExtractVariables, WithRemoveUnusedVariables), then VariablesMapper.
func Full(req *graphql.Request, schema *graphql.Schema) (out Normalized) {
	defer func() {
		if r := recover(); r != nil {
			out = Normalized{Outcome: Outcome{Stage: "panic", Panic: fmt.Sprint(r), Msg: fmt.Sprint(r), Stack: string(debug.Stack())}}
		}
	}()
	out.Outcome = Validate(req, schema)
	if !out.Accept {
		return out
	}
	// second Normalize call of Execute: extract variables and drop the definitions extraction made unused (repo 4c13c31)
	nres, err := req.Normalize(schema, astnormalization.WithExtractVariables(), astnormalization.WithRemoveUnusedVariables())
	if err != nil {
		out.Outcome = Outcome{Stage: "extract", Msg: err.Error()}
		return out
	}
	if !nres.Successful {
		out.Outcome = Outcome{Stage: "extract", Msg: msgOf(nres.Errors)}
		return out
	}
	var report operationreport.Report
	out.Mapping = astnormalization.NewVariablesMapper().NormalizeOperation(req.Document(), schema.Document(), &report)
	if report.HasErrors() {
		out.Outcome = Outcome{Stage: "remap", Msg: report.Error()}
		return out
	}
	text, err := astprinter.PrintString(req.Document())
	if err != nil {
		out.Outcome = Outcome{Stage: "print", Msg: err.Error()}
		return out
	}
	out.Text = text
	out.Vars = string(req.Variables)
	return out
}
