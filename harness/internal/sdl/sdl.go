// Package sdl holds the Go mirror of the JSON form of spec/core (GQLSchema.tla, GQLDoc.tla) and prints
// schemas (SDL) and executable documents (GraphQL text) from it.  It is part of the trusted base: it is
// cross-checked by re-parsing its output with gqlparser (package gqlast) and comparing with the input.
package sdl

import (
	"bytes"
	"encoding/json"
	"fmt"
	"sort"
	"strconv"
	"strings"
)

// ---------------------------------------------------------------------------------------------- values

// Value is a tagged value: {"t":"n"} null, {"t":"b","b":true}, {"t":"i","i":3}, {"t":"big","big":"2147483648"},
// {"t":"f","f":"1.5"}, {"t":"s","s":"x"}, {"t":"e","e":"RED"}, {"t":"l","l":[..]}, {"t":"o","k":[..],"o":[..]},
// {"t":"v","n":"name"} variable, {"t":"x"} absent.
type Value struct {
	T   string
	B   bool
	I   int64
	Str string // payload of big / f / s / e / v
	L   []Value
	K   []string
	O   []Value
}

func (v *Value) UnmarshalJSON(b []byte) error {
	var m map[string]json.RawMessage
	if err := json.Unmarshal(b, &m); err != nil {
		return err
	}
	if err := json.Unmarshal(m["t"], &v.T); err != nil {
		return fmt.Errorf("value without tag: %s", b)
	}
	switch v.T {
	case "n", "x":
		return nil
	case "b":
		return json.Unmarshal(m["b"], &v.B)
	case "i":
		return json.Unmarshal(m["i"], &v.I)
	case "big", "f", "s", "e":
		return json.Unmarshal(m[v.T], &v.Str)
	case "v":
		return json.Unmarshal(m["n"], &v.Str)
	case "l":
		return json.Unmarshal(m["l"], &v.L)
	case "o":
		if err := json.Unmarshal(m["k"], &v.K); err != nil {
			return err
		}
		return json.Unmarshal(m["o"], &v.O)
	}
	return fmt.Errorf("unknown value tag %q", v.T)
}

func (v Value) MarshalJSON() ([]byte, error) {
	m := map[string]any{"t": v.T}
	switch v.T {
	case "b":
		m["b"] = v.B
	case "i":
		m["i"] = v.I
	case "big", "f", "s", "e":
		m[v.T] = v.Str
	case "v":
		m["n"] = v.Str
	case "l":
		if v.L == nil {
			m["l"] = []Value{}
		} else {
			m["l"] = v.L
		}
	case "o":
		if v.K == nil {
			m["k"], m["o"] = []string{}, []Value{}
		} else {
			m["k"], m["o"] = v.K, v.O
		}
	}
	return json.Marshal(m)
}

// Literal prints the value as a GraphQL literal.
func (v Value) Literal() string {
	switch v.T {
	case "n":
		return "null"
	case "b":
		return strconv.FormatBool(v.B)
	case "i":
		return strconv.FormatInt(v.I, 10)
	case "big", "f", "e":
		return v.Str
	case "s":
		return QuoteString(v.Str)
	case "v":
		return "$" + v.Str
	case "l":
		parts := make([]string, len(v.L))
		for i := range v.L {
			parts[i] = v.L[i].Literal()
		}
		return "[" + strings.Join(parts, ", ") + "]"
	case "o":
		parts := make([]string, len(v.K))
		for i := range v.K {
			parts[i] = v.K[i] + ": " + v.O[i].Literal()
		}
		return "{" + strings.Join(parts, ", ") + "}"
	}
	panic("sdl: cannot print value with tag " + v.T)
}

// JSON prints a request-variable value (JSON kinds only; enums never occur there).
func (v Value) JSON() string {
	switch v.T {
	case "n":
		return "null"
	case "b":
		return strconv.FormatBool(v.B)
	case "i":
		return strconv.FormatInt(v.I, 10)
	case "big", "f":
		return v.Str
	case "s", "e":
		b, _ := json.Marshal(v.Str)
		return string(b)
	case "l":
		parts := make([]string, len(v.L))
		for i := range v.L {
			parts[i] = v.L[i].JSON()
		}
		return "[" + strings.Join(parts, ",") + "]"
	case "o":
		parts := make([]string, len(v.K))
		for i := range v.K {
			k, _ := json.Marshal(v.K[i])
			parts[i] = string(k) + ":" + v.O[i].JSON()
		}
		return "{" + strings.Join(parts, ",") + "}"
	}
	panic("sdl: cannot print JSON value with tag " + v.T)
}

// QuoteString prints a GraphQL (non-block) string literal.
func QuoteString(s string) string {
	var b strings.Builder
	b.WriteByte('"')
	for _, r := range s {
		switch {
		case r == '"':
			b.WriteString(`\"`)
		case r == '\\':
			b.WriteString(`\\`)
		case r == '\n':
			b.WriteString(`\n`)
		case r == '\r':
			b.WriteString(`\r`)
		case r == '\t':
			b.WriteString(`\t`)
		case r < 0x20:
			fmt.Fprintf(&b, `\u%04x`, r)
		default:
			b.WriteRune(r)
		}
	}
	b.WriteByte('"')
	return b.String()
}

// ---------------------------------------------------------------------------------------------- schema

// FMap is a JSON object that TLC prints as [] when it is empty.
type FMap[T any] map[string]T

func (m *FMap[T]) UnmarshalJSON(b []byte) error {
	b = bytes.TrimSpace(b)
	if len(b) > 0 && b[0] == '[' {
		*m = FMap[T]{}
		return nil
	}
	var x map[string]T
	if err := json.Unmarshal(b, &x); err != nil {
		return err
	}
	*m = x
	return nil
}

func (m FMap[T]) MarshalJSON() ([]byte, error) {
	if len(m) == 0 {
		return []byte("[]"), nil
	}
	return json.Marshal(map[string]T(m))
}

func (m FMap[T]) Keys() []string {
	ks := make([]string, 0, len(m))
	for k := range m {
		ks = append(ks, k)
	}
	sort.Strings(ks)
	return ks
}

type TypeRef struct {
	N string   `json:"n"`
	W []string `json:"w"` // outermost first: "N" non-null, "L" list
}

func (t TypeRef) String() string {
	s := t.N
	for i := len(t.W) - 1; i >= 0; i-- {
		if t.W[i] == "N" {
			s += "!"
		} else {
			s = "[" + s + "]"
		}
	}
	return s
}

type ArgDef struct {
	Type TypeRef `json:"type"`
	Def  Value   `json:"def"`
}

type FieldDef struct {
	Type TypeRef      `json:"type"`
	Args FMap[ArgDef] `json:"args"`
	Def  Value        `json:"def"`
}

type TypeDef struct {
	Kind    string         `json:"kind"`
	Fields  FMap[FieldDef] `json:"fields"`
	Ifaces  []string       `json:"ifaces"`
	Members []string       `json:"members"`
	Values  []string       `json:"values"`
}

type DirDef struct {
	Locs       []string     `json:"locs"`
	Args       FMap[ArgDef] `json:"args"`
	Repeatable bool         `json:"repeatable"`
}

type Schema struct {
	ID           string         `json:"id"`
	Query        string         `json:"query"`
	Mutation     string         `json:"mutation"`
	Subscription string         `json:"subscription"`
	Types        FMap[TypeDef]  `json:"types"`
	Directives   FMap[DirDef]   `json:"directives"`
}

func printArgDefs(args FMap[ArgDef]) string {
	if len(args) == 0 {
		return ""
	}
	parts := []string{}
	for _, a := range args.Keys() {
		s := a + ": " + args[a].Type.String()
		if args[a].Def.T != "x" {
			s += " = " + args[a].Def.Literal()
		}
		parts = append(parts, s)
	}
	return "(" + strings.Join(parts, ", ") + ")"
}

func sorted(xs []string) []string {
	ys := append([]string(nil), xs...)
	sort.Strings(ys)
	return ys
}

// PrintSchema prints the schema as SDL (types and fields in name order).
func PrintSchema(s *Schema) string {
	var b strings.Builder
	b.WriteString("schema {\n  query: " + s.Query + "\n")
	if s.Mutation != "" {
		b.WriteString("  mutation: " + s.Mutation + "\n")
	}
	if s.Subscription != "" {
		b.WriteString("  subscription: " + s.Subscription + "\n")
	}
	b.WriteString("}\n")
	for _, d := range s.Directives.Keys() {
		dd := s.Directives[d]
		b.WriteString("directive @" + d + printArgDefs(dd.Args))
		if dd.Repeatable {
			b.WriteString(" repeatable")
		}
		b.WriteString(" on " + strings.Join(sorted(dd.Locs), " | ") + "\n")
	}
	for _, n := range s.Types.Keys() {
		if strings.HasPrefix(n, "__") {
			continue // the introspection types (4.2) are part of every schema; the library adds its own definitions
		}
		td := s.Types[n]
		switch td.Kind {
		case "SCALAR":
			b.WriteString("scalar " + n + "\n")
		case "ENUM":
			b.WriteString("enum " + n + " {\n")
			for _, v := range sorted(td.Values) {
				b.WriteString("  " + v + "\n")
			}
			b.WriteString("}\n")
		case "UNION":
			b.WriteString("union " + n + " = " + strings.Join(sorted(td.Members), " | ") + "\n")
		case "INPUT":
			b.WriteString("input " + n + " {\n")
			for _, f := range td.Fields.Keys() {
				fd := td.Fields[f]
				b.WriteString("  " + f + ": " + fd.Type.String())
				if fd.Def.T != "x" {
					b.WriteString(" = " + fd.Def.Literal())
				}
				b.WriteString("\n")
			}
			b.WriteString("}\n")
		case "OBJECT", "INTERFACE":
			if td.Kind == "OBJECT" {
				b.WriteString("type " + n)
			} else {
				b.WriteString("interface " + n)
			}
			if len(td.Ifaces) > 0 {
				b.WriteString(" implements " + strings.Join(sorted(td.Ifaces), " & "))
			}
			b.WriteString(" {\n")
			for _, f := range td.Fields.Keys() {
				fd := td.Fields[f]
				b.WriteString("  " + f + printArgDefs(fd.Args) + ": " + fd.Type.String() + "\n")
			}
			b.WriteString("}\n")
		default:
			panic("sdl: unknown type kind " + td.Kind)
		}
	}
	return b.String()
}

// ---------------------------------------------------------------------------------------------- documents

type Arg struct {
	Name  string `json:"name"`
	Value Value  `json:"value"`
}

type Dir struct {
	Name string `json:"name"`
	Args []Arg  `json:"args"`
}

type Sel struct {
	K     string `json:"k"` // field | inline | spread
	Name  string `json:"name"`
	Alias string `json:"alias"`
	On    string `json:"on"`
	Args  []Arg  `json:"args"`
	Dirs  []Dir  `json:"dirs"`
	Sel   []Sel  `json:"sel"`
}

type VarDef struct {
	Name string  `json:"name"`
	Type TypeRef `json:"type"`
	Def  Value   `json:"def"`
	Dirs []Dir   `json:"dirs"`
}

type Op struct {
	Op   string   `json:"op"`
	Name string   `json:"name"`
	Vars []VarDef `json:"vars"`
	Dirs []Dir    `json:"dirs"`
	Sel  []Sel    `json:"sel"`
}

type Frag struct {
	Name string `json:"name"`
	On   string `json:"on"`
	Dirs []Dir  `json:"dirs"`
	Sel  []Sel  `json:"sel"`
}

type Doc struct {
	Ops    []Op   `json:"ops"`
	Frags  []Frag `json:"frags"`
	OpName string `json:"opName"`
}

// Var is one request variable.
type Var struct {
	Name  string `json:"name"`
	Value Value  `json:"value"`
}

func printArgs(args []Arg) string {
	if len(args) == 0 {
		return ""
	}
	parts := make([]string, len(args))
	for i, a := range args {
		parts[i] = a.Name + ": " + a.Value.Literal()
	}
	return "(" + strings.Join(parts, ", ") + ")"
}

func printDirs(dirs []Dir) string {
	s := ""
	for _, d := range dirs {
		s += " @" + d.Name + printArgs(d.Args)
	}
	return s
}

func printSel(b *strings.Builder, sel []Sel, indent string) {
	b.WriteString("{\n")
	for _, s := range sel {
		b.WriteString(indent + "  ")
		switch s.K {
		case "field":
			if s.Alias != "" {
				b.WriteString(s.Alias + ": ")
			}
			b.WriteString(s.Name + printArgs(s.Args) + printDirs(s.Dirs))
			if len(s.Sel) > 0 {
				b.WriteString(" ")
				printSel(b, s.Sel, indent+"  ")
			}
		case "inline":
			b.WriteString("...")
			if s.On != "" {
				b.WriteString(" on " + s.On)
			}
			b.WriteString(printDirs(s.Dirs) + " ")
			printSel(b, s.Sel, indent+"  ")
		case "spread":
			b.WriteString("..." + s.Name + printDirs(s.Dirs))
		default:
			panic("sdl: unknown selection kind " + s.K)
		}
		b.WriteString("\n")
	}
	b.WriteString(indent + "}")
}

// PrintDoc prints the document as GraphQL text.  Anonymous operations without variables and directives of kind
// query use the full form "query {" as well (the shorthand is exercised by C05).
func PrintDoc(d *Doc) string {
	var b strings.Builder
	for _, op := range d.Ops {
		b.WriteString(op.Op)
		if op.Name != "" {
			b.WriteString(" " + op.Name)
		}
		if len(op.Vars) > 0 {
			parts := make([]string, len(op.Vars))
			for i, v := range op.Vars {
				parts[i] = "$" + v.Name + ": " + v.Type.String()
				if v.Def.T != "x" {
					parts[i] += " = " + v.Def.Literal()
				}
				parts[i] += printDirs(v.Dirs)
			}
			b.WriteString("(" + strings.Join(parts, ", ") + ")")
		}
		b.WriteString(printDirs(op.Dirs) + " ")
		printSel(&b, op.Sel, "")
		b.WriteString("\n")
	}
	for _, f := range d.Frags {
		b.WriteString("fragment " + f.Name + " on " + f.On + printDirs(f.Dirs) + " ")
		printSel(&b, f.Sel, "")
		b.WriteString("\n")
	}
	return b.String()
}

// PrintVars prints request variables as a JSON object ("" for no variables at all is NOT used: an empty
// object is sent, as HTTP clients do).
func PrintVars(vars []Var) string {
	parts := make([]string, len(vars))
	for i, v := range vars {
		k, _ := json.Marshal(v.Name)
		parts[i] = string(k) + ":" + v.Value.JSON()
	}
	return "{" + strings.Join(parts, ",") + "}"
}
