// Package planfed is the second CONFIGURATION of the C09 check (harness/cmd/planx): a small hand-written
// supergraph with the planning situations the shipped federationtesting supergraph does not contain.
//
//	catalog    Query.items / a / b / me / echo(filter: Filter, n: Int) (echoes the arguments it RECEIVED: input objects);  interface Item {id owner: User} = Book | Film;  stubs User, A, B @key(id)
//	users      User @key(id)  {id name}
//	bridge-one User @key(id) @key(uuid) {id uuid}      two EQUALLY SHORT key chains lead from catalog (User.id)
//	bridge-two User @key(id) @key(uuid) {id uuid}      to titles (User.uuid): catalog -> bridge-one | bridge-two -> titles
//	titles     User @key(uuid) {uuid title}
//	wsvc       A @key(id) {id w}                        two @requires dependencies that come from DIFFERENT subgraphs
//	zsvc       B @key(id) {id z}                        and end in the same subgraph (target): with multi-fetch the two
//	target     A {x @requires(w)}  B {y @requires(z)}   target fetches are merged, with DAG scheduling re-scheduled
//
// items is an abstract list (>= 2 runtime types) whose elements carry an entity (owner) that another subgraph
// resolves: selecting owner{..} once on the interface and once inside a type fragment yields an unscoped and a
// type-scoped duplicate entity fetch (fetch de-duplication).
//
// The subgraphs are in-process handlers with static data. Every subgraph answers an _entities request (plain or
// merged/aliased by the multi-fetch stage: fN: _entities(representations: $representations_fN) @include(if: $includeFN))
// with ALL fields it owns for each representation; values that are @requires-computed are derived from the
// representation, so a representation that lacks the required field is visible in the response.
//
// Usage: env, err := fedenv.New(planfed.Options())   (the caller may set further Options fields afterwards).
package planfed

import (
	"context"
	"encoding/json"
	"fmt"
	"io"
	"net/http"
	"regexp"
	"sort"
	"strings"

	"github.com/wundergraph/graphql-go-tools/v2/pkg/engine/datasource/graphql_datasource"
	"github.com/wundergraph/graphql-go-tools/v2/pkg/engine/plan"

	"verif/harness/internal/fedenv"
)

const SupergraphSDL = `schema { query: Query }
directive @meta(in: MetaIn) on FIELD
input MetaIn { tags: [String] nested: MetaNested value: String }
input MetaNested { value: String }
type Query { items: [Item!]! a: A b: B me: User echo(filter: Filter, n: Int): String }
input Filter { kind: String min: Int owner: OwnerIn tags: [String] }
input OwnerIn { id: ID }
interface Item { id: ID! owner: User }
type Book implements Item { id: ID! owner: User pages: Int }
type Film implements Item { id: ID! owner: User minutes: Int }
type User { id: ID! uuid: ID! name: String title: String }
type A { id: ID! w: String x: String }
type B { id: ID! z: String y: String }
`

const catalogSDL = `type Query { items: [Item!]! a: A b: B me: User echo(filter: Filter, n: Int): String }
input Filter { kind: String min: Int owner: OwnerIn tags: [String] }
input OwnerIn { id: ID }
interface Item { id: ID! owner: User }
type Book implements Item { id: ID! owner: User pages: Int }
type Film implements Item { id: ID! owner: User minutes: Int }
type User @key(fields: "id") { id: ID! }
type A @key(fields: "id") { id: ID! }
type B @key(fields: "id") { id: ID! }
`
const usersSDL = `type User @key(fields: "id") { id: ID! name: String }
`
const bridgeSDL = `type User @key(fields: "id") @key(fields: "uuid") { id: ID! uuid: ID! }
`
const titlesSDL = `type User @key(fields: "uuid") { uuid: ID! title: String }
`
const wSDL = `type A @key(fields: "id") { id: ID! w: String }
`
const zSDL = `type B @key(fields: "id") { id: ID! z: String }
`
const targetSDL = `type A @key(fields: "id") { id: ID! w: String @external x: String @requires(fields: "w") }
type B @key(fields: "id") { id: ID! z: String @external y: String @requires(fields: "z") }
`

type sg struct {
	name, sdl string
	meta      *plan.DataSourceMetadata
}

func keys(kv ...string) plan.FederationFieldConfigurations {
	var out plan.FederationFieldConfigurations
	for i := 0; i+1 < len(kv); i += 2 {
		out = append(out, plan.FederationFieldConfiguration{TypeName: kv[i], SelectionSet: kv[i+1]})
	}
	return out
}

// Names lists the subgraphs (= data source ids = URL hosts "<name>.plan").
var Names = []string{"catalog", "users", "bridge-one", "bridge-two", "titles", "wsvc", "zsvc", "target"}

func subgraphs() []sg {
	return []sg{
		{"catalog", catalogSDL, &plan.DataSourceMetadata{
			RootNodes: []plan.TypeField{
				{TypeName: "Query", FieldNames: []string{"items", "a", "b", "me", "echo"}},
				{TypeName: "User", FieldNames: []string{"id"}},
				{TypeName: "A", FieldNames: []string{"id"}},
				{TypeName: "B", FieldNames: []string{"id"}},
			},
			ChildNodes: []plan.TypeField{
				{TypeName: "Item", FieldNames: []string{"id", "owner"}},
				{TypeName: "Book", FieldNames: []string{"id", "owner", "pages"}},
				{TypeName: "Film", FieldNames: []string{"id", "owner", "minutes"}},
			},
			FederationMetaData: plan.FederationMetaData{Keys: keys("User", "id", "A", "id", "B", "id")},
		}},
		{"users", usersSDL, &plan.DataSourceMetadata{
			RootNodes:          []plan.TypeField{{TypeName: "User", FieldNames: []string{"id", "name"}}},
			FederationMetaData: plan.FederationMetaData{Keys: keys("User", "id")},
		}},
		{"bridge-one", bridgeSDL, &plan.DataSourceMetadata{
			RootNodes:          []plan.TypeField{{TypeName: "User", FieldNames: []string{"id", "uuid"}}},
			FederationMetaData: plan.FederationMetaData{Keys: keys("User", "id", "User", "uuid")},
		}},
		{"bridge-two", bridgeSDL, &plan.DataSourceMetadata{
			RootNodes:          []plan.TypeField{{TypeName: "User", FieldNames: []string{"id", "uuid"}}},
			FederationMetaData: plan.FederationMetaData{Keys: keys("User", "id", "User", "uuid")},
		}},
		{"titles", titlesSDL, &plan.DataSourceMetadata{
			RootNodes:          []plan.TypeField{{TypeName: "User", FieldNames: []string{"uuid", "title"}}},
			FederationMetaData: plan.FederationMetaData{Keys: keys("User", "uuid")},
		}},
		{"wsvc", wSDL, &plan.DataSourceMetadata{
			RootNodes:          []plan.TypeField{{TypeName: "A", FieldNames: []string{"id", "w"}}},
			FederationMetaData: plan.FederationMetaData{Keys: keys("A", "id")},
		}},
		{"zsvc", zSDL, &plan.DataSourceMetadata{
			RootNodes:          []plan.TypeField{{TypeName: "B", FieldNames: []string{"id", "z"}}},
			FederationMetaData: plan.FederationMetaData{Keys: keys("B", "id")},
		}},
		{"target", targetSDL, &plan.DataSourceMetadata{
			RootNodes: []plan.TypeField{
				{TypeName: "A", FieldNames: []string{"id", "x"}, ExternalFieldNames: []string{"w"}},
				{TypeName: "B", FieldNames: []string{"id", "y"}, ExternalFieldNames: []string{"z"}},
			},
			FederationMetaData: plan.FederationMetaData{
				Keys: keys("A", "id", "B", "id"),
				Requires: plan.FederationFieldConfigurations{
					{TypeName: "A", FieldName: "x", SelectionSet: "w"},
					{TypeName: "B", FieldName: "y", SelectionSet: "z"},
				},
			},
		}},
	}
}

func host(name string) string { return name + ".plan" }

// Options returns fedenv options for the planfed supergraph.
func Options() fedenv.Options {
	subs := make([]map[string]string, 0, len(Names))
	handlers := map[string]fedenv.Subgraph{}
	for _, s := range subgraphs() {
		subs = append(subs, map[string]string{"id": s.name, "name": s.name, "routingUrl": "http://" + host(s.name)})
		handlers[host(s.name)] = fedenv.Subgraph{Name: s.name, Handler: handler(s.name)}
	}
	rc, _ := json.Marshal(map[string]any{
		"engineConfig": map[string]any{"defaultFlushInterval": "500", "graphqlSchema": SupergraphSDL},
		"version":      "planfed",
		"subgraphs":    subs,
	})
	return fedenv.Options{
		RouterConfigJSON: rc,
		Handlers:         handlers,
		ConfigurePlanner: func(c *plan.Configuration) {
			c.Fields = append(c.Fields, plan.FieldConfiguration{TypeName: "Query", FieldName: "echo", Arguments: plan.ArgumentsConfigurations{
				{Name: "filter", SourceType: plan.FieldArgumentSource},
				{Name: "n", SourceType: plan.FieldArgumentSource},
			}})
		},
		DataSources: func(ctx context.Context, client *http.Client) ([]plan.DataSource, error) {
			var out []plan.DataSource
			for _, s := range subgraphs() {
				factory, err := graphql_datasource.NewFactory(ctx, client, graphql_datasource.NewGraphQLSubscriptionClient(ctx,
					graphql_datasource.WithUpgradeClient(client), graphql_datasource.WithStreamingClient(client)))
				if err != nil {
					return nil, err
				}
				sc, err := graphql_datasource.NewSchemaConfiguration(s.sdl, &graphql_datasource.FederationConfiguration{Enabled: true, ServiceSDL: s.sdl})
				if err != nil {
					return nil, fmt.Errorf("%s: %w", s.name, err)
				}
				cfg, err := graphql_datasource.NewConfiguration(graphql_datasource.ConfigurationInput{
					Fetch:               &graphql_datasource.FetchConfiguration{URL: "http://" + host(s.name) + "/", Method: "POST"},
					SchemaConfiguration: sc,
				})
				if err != nil {
					return nil, fmt.Errorf("%s: %w", s.name, err)
				}
				ds, err := plan.NewDataSourceConfigurationWithName[graphql_datasource.Configuration](s.name, s.name, factory, s.meta, cfg)
				if err != nil {
					return nil, fmt.Errorf("%s: %w", s.name, err)
				}
				out = append(out, ds)
			}
			return out, nil
		},
	}
}

// ---------------------------------------------------------------------------------------------- the subgraphs

type obj = map[string]any

func s(v any) string {
	switch x := v.(type) {
	case string:
		return x
	case nil:
		return "<missing>"
	default:
		b, _ := json.Marshal(x)
		return string(b)
	}
}

func user(id string) obj { return obj{"__typename": "User", "id": id} }

func rootData() obj {
	return obj{
		"items": []any{
			obj{"__typename": "Book", "id": "b1", "pages": 101, "owner": user("1")},
			obj{"__typename": "Film", "id": "f1", "minutes": 92, "owner": user("2")},
			obj{"__typename": "Book", "id": "b2", "pages": 202, "owner": user("3")},
			obj{"__typename": "Film", "id": "f2", "minutes": 120, "owner": user("1")},
		},
		"a":  obj{"__typename": "A", "id": "1"},
		"b":  obj{"__typename": "B", "id": "2"},
		"me": user("7"),
	}
}

// entity answers one representation with every field the subgraph owns.
func entity(name string, rep obj) any {
	tn, _ := rep["__typename"].(string)
	switch name {
	case "catalog":
		return obj{"__typename": tn, "id": rep["id"]}
	case "users":
		return obj{"__typename": "User", "id": rep["id"], "name": "user-" + s(rep["id"])}
	case "bridge-one", "bridge-two":
		id := rep["id"]
		if id == nil && rep["uuid"] != nil {
			id = strings.TrimPrefix(s(rep["uuid"]), "uu-")
		}
		return obj{"__typename": "User", "id": id, "uuid": "uu-" + s(id)}
	case "titles":
		return obj{"__typename": "User", "uuid": rep["uuid"], "title": "title-of-" + s(rep["uuid"])}
	case "wsvc":
		return obj{"__typename": "A", "id": rep["id"], "w": "W" + s(rep["id"])}
	case "zsvc":
		return obj{"__typename": "B", "id": rep["id"], "z": "Z" + s(rep["id"])}
	case "target":
		if tn == "A" {
			return obj{"__typename": "A", "id": rep["id"], "x": "x-of-" + s(rep["w"])}
		}
		return obj{"__typename": "B", "id": rep["id"], "y": "y-of-" + s(rep["z"])}
	}
	return nil
}

var (
	echoCallRe = regexp.MustCompile(`echo\s*\(([^)]*)\)`)
	echoArgRe  = regexp.MustCompile(`([_A-Za-z][_0-9A-Za-z]*)\s*:\s*(\$[_A-Za-z][_0-9A-Za-z]*|[^,\s]+)`)
)

// echo renders the arguments the catalog subgraph RECEIVED for Query.echo (input-object / scalar arguments arrive as
// variables): "filter=<canonical JSON>;n=<JSON>", so a wrongly mapped, lost or mistyped variable is visible to the client.
func echo(query string, vars map[string]json.RawMessage) (string, bool) {
	m := echoCallRe.FindStringSubmatch(query)
	if m == nil {
		return "", false
	}
	var parts []string
	for _, a := range echoArgRe.FindAllStringSubmatch(m[1], -1) {
		val := a[2]
		if strings.HasPrefix(val, "$") {
			raw, ok := vars[val[1:]]
			if !ok {
				val = "<undefined>"
			} else {
				var v any
				_ = json.Unmarshal(raw, &v)
				b, _ := json.Marshal(v) // object keys sorted
				val = string(b)
			}
		}
		parts = append(parts, a[1]+"="+val)
	}
	sort.Strings(parts)
	return strings.Join(parts, ";"), true
}

func handler(name string) http.Handler {
	return http.HandlerFunc(func(w http.ResponseWriter, r *http.Request) {
		body, _ := io.ReadAll(r.Body)
		var req struct {
			Query     string                     `json:"query"`
			Variables map[string]json.RawMessage `json:"variables"`
		}
		_ = json.Unmarshal(body, &req)
		w.Header().Set("Content-Type", "application/json")
		data := obj{}
		if strings.Contains(req.Query, "_entities") {
			var repKeys []string
			for k := range req.Variables {
				if k == "representations" || strings.HasPrefix(k, "representations_") {
					repKeys = append(repKeys, k)
				}
			}
			sort.Strings(repKeys)
			for _, k := range repKeys {
				alias := "_entities"
				if suffix := strings.TrimPrefix(k, "representations_"); suffix != k {
					alias = suffix // merged request: fN
					var include bool
					_ = json.Unmarshal(req.Variables["includeF"+strings.TrimPrefix(suffix, "f")], &include)
					if !include {
						continue
					}
				}
				var reps []obj
				_ = json.Unmarshal(req.Variables[k], &reps)
				ents := make([]any, 0, len(reps))
				for _, rep := range reps {
					ents = append(ents, entity(name, rep))
				}
				data[alias] = ents
			}
		} else if name == "catalog" {
			data = rootData()
			if e, ok := echo(req.Query, req.Variables); ok {
				data["echo"] = e
			}
		}
		_ = json.NewEncoder(w).Encode(obj{"data": data})
	})
}
