// Package gate is a gate scheduler for code that spawns its own goroutines and blocks on its own locks.
//
// It follows the design of internal/sched (actors park at points, the controller releases exactly one
// actor at a time) and adds what the subscription registry needs:
//
//   - goroutines spawned inside the code under test are recognised at their first hook (Identify) and
//     then ADOPTED: later hooks of the same goroutine resolve by goroutine id, so hooks in shared helper
//     functions (done(), UnsubscribeSubscription, ...) need not carry the identity of their caller;
//   - terminal points: an adopted goroutine that reaches its terminal point is finished (no parking);
//   - settling: after a release the controller waits until EVERY live actor is parked, finished or
//     observably blocked (goroutine state from runtime.Stack: sync.Mutex.Lock, sync.WaitGroup.Wait,
//     chan receive, select, ...). An actor that blocks on a lock held by a parked actor is therefore
//     detected within microseconds instead of a timeout, and actors that were unblocked by the step
//     (lock released, wait group done, goroutine spawned) run to their next point before the next step.
//
// Events are appended under the controller lock in the order the hooks are called; hooks placed inside
// the lock that protects the state they report are therefore recorded in linearisation order even when
// two actors run at the same time.
package gate

import (
	"bytes"
	"runtime"
	"strconv"
	"sync"
	"time"
)

// ID names an actor: kind + two indices (e.g. {"u", sub, event}).
type ID struct {
	K    string
	I, J int
}

// Event is one recorded hook call / harness observation.
type Event struct {
	Seq   int
	Actor ID
	Point string
	A, B  uint64
	F     map[string]any // extra fields of harness-side observations
}

type actor struct {
	id     ID
	gid    int64
	resume chan struct{}
	parked bool
	silent bool // parked at an idle point of the harness (no event)
	point  string
	done   bool
	// finishing: an adopted goroutine passed its terminal point but still exists (it may yet unblock others on its
	// way out: wg.Done, deferred unlocks); it counts as running until it is gone from the runtime's goroutine list
	finishing bool
	adopted   bool
	// base: this actor is an ALIAS - a stretch of the goroutine of actor base that the specification describes as an actor of
	// its own (code that runs inline here and in a spawned goroutine elsewhere); delegated: base while its alias is active
	base      *actor
	delegated bool
	goActor   bool
}

type Outcome int

const (
	Parked   Outcome = iota // the actor is parked at its next point
	Finished                // the actor's goroutine is finished
	Blocked                 // the actor waits on a lock / wait group / channel inside the code
	NotReady                // the actor does not exist or never arrived at a point
	Timeout                 // the system did not settle within StepWait
)

func (o Outcome) String() string {
	return [...]string{"parked", "finished", "blocked", "notready", "timeout"}[o]
}

type Controller struct {
	mu       sync.Mutex
	cond     *sync.Cond
	actors   map[ID]*actor
	byGoid   map[int64]*actor
	events   []Event
	seq      int
	free     bool
	StepWait time.Duration
	// Identify maps the first hook of a goroutine spawned inside the code under test to an actor.
	Identify func(point string, a, b uint64) (ID, bool)
	// Parks decides whether actor id parks at point (true) or the call is only recorded (false).
	Parks func(id ID, point string) bool
	// Terminal: the adopted goroutine of actor id ends at this point.
	Terminal func(id ID, point string) bool
	// Alias: a registered goroutine (actor cur) reaches a point from which on it acts as another actor, until that actor's Terminal point.
	Alias    func(cur ID, point string, a, b uint64) (ID, bool)
	stackBuf []byte
}

func New() *Controller {
	c := &Controller{actors: map[ID]*actor{}, byGoid: map[int64]*actor{}, StepWait: 3 * time.Second}
	c.cond = sync.NewCond(&c.mu)
	c.stackBuf = make([]byte, 1<<18)
	return c
}

func goid() int64 {
	var buf [64]byte
	n := runtime.Stack(buf[:], false)
	b := buf[:n]
	b = b[len("goroutine "):]
	i := bytes.IndexByte(b, ' ')
	id, _ := strconv.ParseInt(string(b[:i]), 10, 64)
	return id
}

// Go starts fn as harness actor id. The actor parks silently before fn runs.
func (c *Controller) Go(id ID, fn func()) {
	a := &actor{id: id, resume: make(chan struct{}, 1), goActor: true}
	c.mu.Lock()
	c.actors[id] = a
	c.mu.Unlock()
	ready := make(chan struct{})
	go func() {
		c.mu.Lock()
		a.gid = goid()
		c.byGoid[a.gid] = a
		c.mu.Unlock()
		close(ready)
		defer func() {
			c.mu.Lock()
			a.done = true
			a.parked = false
			delete(c.byGoid, a.gid)
			c.cond.Broadcast()
			c.mu.Unlock()
		}()
		c.Idle()
		fn()
	}()
	<-ready
	c.mu.Lock()
	for !a.parked && !a.done {
		c.cond.Wait()
	}
	c.mu.Unlock()
}

// Idle parks the calling harness actor without recording an event (it waits for its next command).
func (c *Controller) Idle() {
	c.mu.Lock()
	act := c.byGoid[goid()]
	if act == nil || c.free {
		c.mu.Unlock()
		return
	}
	act.parked, act.silent, act.point = true, true, "idle"
	c.cond.Broadcast()
	c.mu.Unlock()
	<-act.resume
}

// Hook is the body of the verif hook of the code under test.
func (c *Controller) Hook(point string, a, b uint64) {
	c.at(point, a, b, nil, true)
}

// At is a harness-side point (fake data source, writer): recorded for the actor the calling goroutine
// belongs to, with extra fields; parks according to Parks.
func (c *Controller) At(point string, a, b uint64, f map[string]any) {
	c.at(point, a, b, f, true)
}

// Log records an observation of the calling goroutine's actor without parking.
func (c *Controller) Log(point string, a, b uint64, f map[string]any) {
	c.at(point, a, b, f, false)
}

// LogAs records an observation for an explicit actor (environment actions of the controller itself).
func (c *Controller) LogAs(id ID, point string, a, b uint64, f map[string]any) {
	c.mu.Lock()
	c.seq++
	c.events = append(c.events, Event{Seq: c.seq, Actor: id, Point: point, A: a, B: b, F: f})
	c.mu.Unlock()
}

func (c *Controller) at(point string, a, b uint64, f map[string]any, mayPark bool) {
	gid := goid()
	c.mu.Lock()
	act := c.byGoid[gid]
	if act == nil && c.Identify != nil {
		if id, ok := c.Identify(point, a, b); ok {
			act = c.actors[id]
			if act == nil {
				act = &actor{id: id, resume: make(chan struct{}, 1)}
				c.actors[id] = act
			}
			act.done, act.finishing, act.parked, act.adopted, act.gid = false, false, false, true, gid
			c.byGoid[gid] = act
		}
	}
	if act == nil {
		c.mu.Unlock()
		return
	}
	if !act.adopted && act.base == nil && c.Alias != nil {
		if id, ok := c.Alias(act.id, point, a, b); ok {
			al := c.actors[id]
			if al == nil {
				al = &actor{id: id, resume: make(chan struct{}, 1)}
				c.actors[id] = al
			}
			al.done, al.finishing, al.parked, al.gid, al.base = false, false, false, gid, act
			act.delegated = true
			c.byGoid[gid] = al
			act = al
		}
	}
	c.seq++
	c.events = append(c.events, Event{Seq: c.seq, Actor: act.id, Point: point, A: a, B: b, F: f})
	if act.base != nil && c.Terminal != nil && c.Terminal(act.id, point) {
		// the inline stretch is over: the goroutine is its own actor again
		act.done = true
		act.base.delegated = false
		c.byGoid[gid] = act.base
		act.base = nil
		c.cond.Broadcast()
		c.mu.Unlock()
		return
	}
	if act.adopted && c.Terminal != nil && c.Terminal(act.id, point) {
		act.finishing = true
		delete(c.byGoid, gid)
		c.cond.Broadcast()
		c.mu.Unlock()
		return
	}
	if !mayPark || c.free || (c.Parks != nil && !c.Parks(act.id, point)) {
		c.mu.Unlock()
		return
	}
	act.parked, act.silent, act.point = true, false, point
	c.cond.Broadcast()
	c.mu.Unlock()
	<-act.resume
}

// Where reports the point actor id is parked at ("" running/blocked/unknown, "done" finished).
func (c *Controller) Where(id ID) string {
	c.mu.Lock()
	defer c.mu.Unlock()
	a := c.actors[id]
	if a == nil {
		return ""
	}
	if a.done || a.finishing {
		return "done"
	}
	if a.parked {
		return a.point
	}
	return ""
}

// goroutineStates parses runtime.Stack(all) into goid -> state ("running", "chan receive", "sync.Mutex.Lock", ...).
func (c *Controller) goroutineStates() map[int64]string {
	for {
		n := runtime.Stack(c.stackBuf, true)
		if n < len(c.stackBuf) {
			return parseStates(c.stackBuf[:n])
		}
		c.stackBuf = make([]byte, 2*len(c.stackBuf))
	}
}

func parseStates(b []byte) map[int64]string {
	out := map[int64]string{}
	for len(b) > 0 {
		nl := bytes.IndexByte(b, '\n')
		var line []byte
		if nl < 0 {
			line, b = b, nil
		} else {
			line, b = b[:nl], b[nl+1:]
		}
		if !bytes.HasPrefix(line, []byte("goroutine ")) {
			continue
		}
		rest := line[len("goroutine "):]
		sp := bytes.IndexByte(rest, ' ')
		if sp < 0 {
			continue
		}
		id, err := strconv.ParseInt(string(rest[:sp]), 10, 64)
		if err != nil {
			continue
		}
		lb := bytes.IndexByte(rest, '[')
		rb := bytes.IndexByte(rest, ']')
		if lb < 0 || rb < lb {
			continue
		}
		st := rest[lb+1 : rb]
		if cm := bytes.IndexByte(st, ','); cm >= 0 {
			st = st[:cm]
		}
		out[id] = string(st)
	}
	return out
}

func blockedState(st string) bool {
	switch st {
	case "", "running", "runnable", "syscall":
		return false
	}
	if len(st) >= 2 && st[:2] == "GC" {
		return false
	}
	return true
}

// settled reports whether every live actor is parked, finished or blocked; c.mu must NOT be held.
// It returns the set of live actors that are blocked.
func (c *Controller) settle(deadline time.Time) (ok bool) {
	stable := 0
	lastSeq := -1
	sleep := 20 * time.Microsecond
	for {
		c.mu.Lock()
		var live []*actor
		for _, a := range c.actors {
			if !a.done && !a.parked && !a.delegated {
				live = append(live, a)
			}
		}
		seq := c.seq
		c.mu.Unlock()
		if len(live) == 0 {
			return true
		}
		states := c.goroutineStates()
		all := true
		for _, a := range live {
			st, found := states[a.gid]
			if a.finishing {
				if !found { // the goroutine is gone: now the actor is really finished
					c.mu.Lock()
					if a.finishing && a.gid != 0 {
						if _, again := c.byGoid[a.gid]; !again {
							a.finishing, a.done = false, true
							c.cond.Broadcast()
						}
					}
					c.mu.Unlock()
				}
				all = false
				continue
			}
			if !found && a.adopted {
				// a spawned goroutine without a terminal point that has returned
				c.mu.Lock()
				if !a.parked && !a.done {
					a.done = true
					delete(c.byGoid, a.gid)
					c.cond.Broadcast()
				}
				c.mu.Unlock()
				all = false
				continue
			}
			if !found || !blockedState(st) {
				all = false
				break
			}
		}
		// re-check under the lock that nothing moved in between
		c.mu.Lock()
		moved := c.seq != seq
		for _, a := range live {
			if a.parked || a.done {
				moved = true
			}
		}
		c.mu.Unlock()
		if all && !moved && seq == lastSeq {
			stable++
			if stable >= 2 {
				return true
			}
		} else {
			stable = 0
		}
		lastSeq = seq
		if !time.Now().Before(deadline) {
			return false
		}
		time.Sleep(sleep)
		if sleep < 2*time.Millisecond {
			sleep *= 2
		}
	}
}

// Settle waits until every live actor is parked, finished or blocked.
func (c *Controller) Settle() bool {
	return c.settle(time.Now().Add(c.StepWait))
}

// Step releases actor id from the point it is parked at and waits until the system settled.
func (c *Controller) Step(id ID) (Outcome, string) {
	deadline := time.Now().Add(c.StepWait)
	c.mu.Lock()
	a := c.actors[id]
	if a == nil || (!a.parked && !a.done) {
		// the actor may still be on its way to its point (spawned / unblocked by the previous step)
		c.mu.Unlock()
		c.settle(deadline)
		c.mu.Lock()
		a = c.actors[id]
	}
	if a == nil || a.done || !a.parked {
		c.mu.Unlock()
		return NotReady, ""
	}
	a.parked = false
	c.mu.Unlock()
	a.resume <- struct{}{}
	ok := c.settle(deadline)
	c.mu.Lock()
	defer c.mu.Unlock()
	switch {
	case a.done:
		return Finished, ""
	case a.parked:
		return Parked, a.point
	case !ok:
		return Timeout, ""
	}
	return Blocked, ""
}

// ParkedActors lists the actors currently parked at a non-idle point (sorted by kind, indices).
func (c *Controller) ParkedActors(includeIdle bool) []ID {
	c.mu.Lock()
	defer c.mu.Unlock()
	var out []ID
	for _, a := range c.actors {
		if a.parked && !a.done && (includeIdle || !a.silent) {
			out = append(out, a.id)
		}
	}
	sortIDs(out)
	return out
}

// Live lists actors that are neither finished nor parked at an idle point.
func (c *Controller) Live() []ID {
	c.mu.Lock()
	defer c.mu.Unlock()
	var out []ID
	for _, a := range c.actors {
		if !a.done && !(a.parked && a.silent) {
			out = append(out, a.id)
		}
	}
	sortIDs(out)
	return out
}

func less(x, y ID) bool {
	if x.K != y.K {
		return x.K < y.K
	}
	if x.I != y.I {
		return x.I < y.I
	}
	return x.J < y.J
}

func sortIDs(s []ID) {
	for i := 1; i < len(s); i++ {
		for j := i; j > 0 && less(s[j], s[j-1]); j-- {
			s[j], s[j-1] = s[j-1], s[j]
		}
	}
}

// FreeRun opens all gates: points no longer park. Used only when a run cannot be finished step by step.
func (c *Controller) FreeRun() {
	c.mu.Lock()
	c.free = true
	for _, a := range c.actors {
		if a.parked {
			a.parked = false
			select {
			case a.resume <- struct{}{}:
			default:
			}
		}
	}
	c.mu.Unlock()
}

// WaitAllDone waits until every harness actor finished and every adopted goroutine reached its terminal point.
func (c *Controller) WaitAllDone(d time.Duration) []ID {
	deadline := time.Now().Add(d)
	for {
		states := c.goroutineStates()
		c.mu.Lock()
		var nd []ID
		for _, a := range c.actors {
			if a.finishing {
				if _, found := states[a.gid]; !found {
					a.finishing, a.done = false, true
				}
			}
			if a.adopted && !a.done && !a.parked {
				if _, found := states[a.gid]; !found {
					a.done = true
				}
			}
			if a.parked && c.free {
				a.parked = false
				select {
				case a.resume <- struct{}{}:
				default:
				}
			}
			if !a.done {
				nd = append(nd, a.id)
			}
		}
		c.mu.Unlock()
		if len(nd) == 0 || !time.Now().Before(deadline) {
			sortIDs(nd)
			return nd
		}
		time.Sleep(200 * time.Microsecond)
	}
}

// Events returns a copy of the events recorded so far.
func (c *Controller) Events() []Event {
	c.mu.Lock()
	defer c.mu.Unlock()
	out := make([]Event, len(c.events))
	copy(out, c.events)
	return out
}
