// Package sim is the semantic subgraph simulator of C01: it answers ANY operation (incl. _entities) over
// (subgraph schema, data universe) — a Go port of Exec/Sub of spec/fed/FedExec.tla. It is NOT trusted: every
// answer it gives is re-derived by TLC in the validation pass (Trace_C01). Requests are parsed and validated
// with gqlparser (independent of the code under test).
package sim

import (
	"strconv"

	"verif/harness/internal/fedcat"
)

type Val = fedcat.Val

// Mode = Mono(types,u) / Sub(types,u) of the spec.
type Mode struct {
	Types []fedcat.TypeDef
	U     *fedcat.Universe
	Sub   bool
}

type handle struct {
	id   string
	rep  Val
	prov []fedcat.FSel
}

type ctxt struct {
	m     *Mode
	frags []fedcat.Frag
	vars  []fedcat.Binding
	errs  []ExecError
	// ctr: the world's counter (root mutation fields are executed serially in document order: execSet iterates in order)
	ctr int64
}

// ExecError is one GraphQL error of the simulated server (a non-null violation).
type ExecError struct {
	Message string        `json:"message"`
	Path    []interface{} `json:"path"`
}

type res struct {
	v    Val
	e, r bool
}

var raise = res{v: fedcat.Null, e: true, r: true}

func ok(v Val) res { return res{v: v} }

var Poison = fedcat.Str("!external")

func (c *ctxt) varVal(n string) Val {
	for _, b := range c.vars {
		if b.Name == n {
			return b.Val
		}
	}
	return fedcat.Absent
}

func withDefaults(defs []fedcat.VarDef, vars []fedcat.Binding) []fedcat.Binding {
	out := append([]fedcat.Binding{}, vars...)
	for _, d := range defs {
		has := false
		for _, b := range vars {
			if b.Name == d.Name {
				has = true
			}
		}
		if !has && d.Def.T != "x" && d.Def.T != "" {
			out = append(out, fedcat.Binding{Name: d.Name, Val: d.Def})
		}
	}
	return out
}

// valOf mirrors ValOf of the spec: variables substituted (also inside list / object literals), enum literals as strings.
func (c *ctxt) valOf(x Val) Val {
	switch x.T {
	case "v":
		return c.varVal(x.S)
	case "e":
		return fedcat.Str(x.S)
	case "l":
		out := make([]Val, len(x.L))
		for i, y := range x.L {
			out[i] = c.valOf(y)
		}
		return fedcat.List(out)
	case "o":
		out := make([]Val, len(x.L))
		for i, y := range x.L {
			out[i] = c.valOf(y)
		}
		return fedcat.Object(x.K, out)
	}
	return x
}

func (c *ctxt) argVal(args []fedcat.Arg, n string) Val {
	for _, a := range args {
		if a.Name == n {
			return c.valOf(a.Val)
		}
	}
	return fedcat.Absent
}

func (c *ctxt) skipped(dirs []fedcat.Arg) bool {
	for _, d := range dirs {
		x := c.valOf(d.Val)
		t := x.T == "b" && x.B
		if d.Name == "skip" && t {
			return true
		}
		if d.Name == "include" && !t {
			return true
		}
	}
	return false
}

func (m *Mode) fieldData(o, fn string) Val {
	if v, okk := m.U.Objs[o].F[fn]; okk {
		return v
	}
	return fedcat.Null
}

func applyFn(val, a Val) Val {
	if val.T != "fn" {
		return val
	}
	for _, c := range val.M {
		if c.K.Equal(a) {
			return c.V
		}
	}
	return *val.D
}

func names(sel []fedcat.FSel) []string {
	out := make([]string, len(sel))
	for i, s := range sel {
		out[i] = s.Name
	}
	return out
}

// dataOrDerived mirrors DataOrDerived of the spec: a required field may itself be @requires-computed (chain).
func (m *Mode) dataOrDerived(o, fn string) Val {
	if td := fedcat.FindType(m.Types, m.U.Objs[o].Type); td != nil {
		if fd := td.Field(fn); fd != nil && len(fd.Req) > 0 {
			return reqValue(fn, m.projD(fd.Req, o))
		}
	}
	return m.fieldData(o, fn)
}

func (m *Mode) projD(sel []fedcat.FSel, o string) Val {
	vs := make([]Val, len(sel))
	for i, s := range sel {
		dv := m.dataOrDerived(o, s.Name)
		if dv.T == "fn" { // a required field with literal arguments
			a := fedcat.Absent
			for _, x := range s.Args {
				if x.Name == dv.A {
					a = (&ctxt{}).valOf(x.Val)
				}
			}
			dv = applyFn(dv, a)
		}
		if len(s.Sel) == 0 {
			vs[i] = dv
		} else {
			vs[i] = m.projDV(s.Sel, dv)
		}
	}
	return fedcat.Object(names(sel), vs)
}

func (m *Mode) projDV(sel []fedcat.FSel, dv Val) Val {
	switch dv.T {
	case "r":
		return m.projD(sel, dv.S)
	case "l":
		out := make([]Val, len(dv.L))
		for i, x := range dv.L {
			out[i] = m.projDV(sel, x)
		}
		return fedcat.List(out)
	}
	return dv
}

func projRep(sel []fedcat.FSel, rv Val) Val {
	switch rv.T {
	case "o":
		vs := make([]Val, len(sel))
		for i, s := range sel {
			x := rv.Get(s.Name)
			if len(s.Sel) == 0 {
				vs[i] = x
			} else {
				vs[i] = projRep(s.Sel, x)
			}
		}
		return fedcat.Object(names(sel), vs)
	case "l":
		out := make([]Val, len(rv.L))
		for i, x := range rv.L {
			out[i] = projRep(sel, x)
		}
		return fedcat.List(out)
	}
	return rv
}

// Dig mirrors Dig of the spec.
func Dig(v Val) string {
	switch v.T {
	case "n":
		return "~"
	case "x":
		return "?"
	case "s", "e":
		return v.S
	case "i":
		return strconv.FormatInt(v.I, 10)
	case "b":
		if v.B {
			return "T"
		}
		return "F"
	case "l":
		return "[" + digSeq(v.L) + "]"
	case "o":
		return "{" + digSeq(v.L) + "}"
	}
	return "!"
}

func digSeq(s []Val) string {
	out := ""
	for i, x := range s {
		if i > 0 {
			out += ","
		}
		out += Dig(x)
	}
	return out
}

func reqValue(fn string, inputs Val) Val { return fedcat.Str(fn + ":" + Dig(inputs)) }

func (m *Mode) matchSel(sel []fedcat.FSel, o string, rep Val) bool {
	for _, s := range sel {
		rv := rep.Get(s.Name)
		dv := m.fieldData(o, s.Name)
		if len(s.Sel) == 0 {
			if !rv.Equal(dv) {
				return false
			}
		} else if dv.T != "r" || !m.matchSel(s.Sel, dv.S, rv) {
			return false
		}
	}
	return true
}

func (m *Mode) lookup(rep Val) Val {
	tnv := rep.Get("__typename")
	if tnv.T != "s" {
		return fedcat.Null
	}
	td := fedcat.FindType(m.Types, tnv.S)
	if td == nil {
		return fedcat.Null
	}
	for _, k := range td.Keys {
		if !k.Res {
			continue
		}
		all := true
		for _, s := range k.Sel {
			if rep.Get(s.Name).IsAbsent() {
				all = false
			}
		}
		if !all {
			continue
		}
		// the first usable key decides; smallest object id among the candidates (= TLC's CHOOSE on unique keys)
		best := ""
		for id, o := range m.U.Objs {
			if o.Type == tnv.S && m.matchSel(k.Sel, id, rep) {
				if best == "" || id < best {
					best = id
				}
			}
		}
		if best == "" {
			return fedcat.Null
		}
		return Val{T: "h", S: best, L: []Val{rep}}
	}
	return fedcat.Null
}

func inProv(prov []fedcat.FSel, fn string) bool {
	for _, p := range prov {
		if p.Name == fn {
			return true
		}
	}
	return false
}

func provSub(prov []fedcat.FSel, fn string) []fedcat.FSel {
	for _, p := range prov {
		if p.Name == fn {
			return p.Sel
		}
	}
	return nil
}

// Resolvable mirrors FedLayout!Resolvable.
func Resolvable(types []fedcat.TypeDef, tn, fn string, prov []fedcat.FSel) bool {
	td := fedcat.FindType(types, tn)
	if td == nil {
		return false
	}
	fd := td.Field(fn)
	if fd == nil {
		return false
	}
	return !fd.Ext || inProv(prov, fn) || td.IsKeyField(fn)
}

func (c *ctxt) resolve(tn string, h handle, fd *fedcat.FieldDef, args []fedcat.Arg) Val {
	m := c.m
	plain := func() Val {
		dv := m.fieldData(h.id, fd.Name)
		switch dv.T {
		case "fn":
			return applyFn(dv, c.argVal(args, dv.A))
		case "ctr":
			if x := c.argVal(args, dv.A); x.T == "i" {
				c.ctr += x.I
			}
			return fedcat.Int(c.ctr)
		}
		return dv
	}
	if !m.Sub {
		if len(fd.Req) > 0 {
			return reqValue(fd.Name, m.projD(fd.Req, h.id))
		}
		return plain()
	}
	if tn == "Query" && fd.Name == "_entities" {
		reps := c.argVal(args, "representations")
		if reps.T != "l" {
			return fedcat.Null
		}
		out := make([]Val, len(reps.L))
		for i, r := range reps.L {
			out[i] = m.lookup(r)
		}
		return fedcat.List(out)
	}
	if !Resolvable(m.Types, tn, fd.Name, h.prov) {
		return Poison
	}
	if len(fd.Req) > 0 {
		return reqValue(fd.Name, projRep(fd.Req, h.rep))
	}
	return plain()
}

func (c *ctxt) childProv(h handle, fd *fedcat.FieldDef) []fedcat.FSel {
	if !c.m.Sub {
		return nil
	}
	if len(fd.Prov) > 0 {
		return fd.Prov
	}
	return provSub(h.prov, fd.Name)
}

func (m *Mode) typeApplies(cond, tn string) bool {
	if cond == "" || cond == tn {
		return true
	}
	for _, p := range fedcat.Possible(m.Types, cond) {
		if p == tn {
			return true
		}
	}
	return false
}

func (c *ctxt) collect(tn string, sels []fedcat.Sel) []fedcat.Sel {
	var out []fedcat.Sel
	for _, s := range sels {
		if c.skipped(s.Dirs) {
			continue
		}
		switch s.K {
		case "f":
			out = append(out, s)
		case "i":
			if c.m.typeApplies(s.On, tn) {
				out = append(out, c.collect(tn, s.Sel)...)
			}
		default:
			for _, fr := range c.frags {
				if fr.Name == s.Name {
					if c.m.typeApplies(fr.On, tn) {
						out = append(out, c.collect(tn, fr.Sel)...)
					}
					break
				}
			}
		}
	}
	return out
}

func rkey(f fedcat.Sel) string {
	if f.Alias != "" {
		return f.Alias
	}
	return f.Name
}

func (c *ctxt) execSet(sels []fedcat.Sel, h handle, path []interface{}) res {
	tn := c.m.U.Objs[h.id].Type
	flat := c.collect(tn, sels)
	var keys []string
	groups := map[string][]fedcat.Sel{}
	for _, f := range flat {
		k := rkey(f)
		if _, seen := groups[k]; !seen {
			keys = append(keys, k)
		}
		groups[k] = append(groups[k], f)
	}
	vals := make([]Val, len(keys))
	anyE, anyR := false, false
	for i, k := range keys {
		r := c.execField(tn, h, groups[k], append(append([]interface{}{}, path...), k))
		vals[i] = r.v
		anyE = anyE || r.e
		anyR = anyR || r.r
	}
	if anyR {
		return raise
	}
	return res{v: fedcat.Object(keys, vals), e: anyE}
}

func (c *ctxt) execField(tn string, h handle, group []fedcat.Sel, path []interface{}) res {
	f := group[0]
	if f.Name == "__typename" {
		return ok(fedcat.Str(tn))
	}
	td := fedcat.FindType(c.m.Types, tn)
	var fd *fedcat.FieldDef
	if td != nil {
		fd = td.Field(f.Name)
	}
	if fd == nil {
		return ok(fedcat.Str("!undefined"))
	}
	raw := c.resolve(tn, h, fd, f.Args)
	var sub []fedcat.Sel
	for _, g := range group {
		sub = append(sub, g.Sel...)
	}
	return c.complete(fd.Type.W, fd.Type.N, sub, raw, c.childProv(h, fd), path)
}

func (c *ctxt) complete(w []string, n string, sub []fedcat.Sel, raw Val, prov []fedcat.FSel, path []interface{}) res {
	if len(w) > 0 && w[0] == "N" {
		i := c.complete(w[1:], n, sub, raw, prov, path)
		if i.r {
			return raise
		}
		if i.v.T == "n" {
			c.errs = append(c.errs, ExecError{Message: "Cannot return null for non-nullable field.", Path: path})
			return raise
		}
		return i
	}
	i := c.completeInner(w, n, sub, raw, prov, path)
	if i.r {
		return res{v: fedcat.Null, e: true}
	}
	return i
}

func (c *ctxt) completeInner(w []string, n string, sub []fedcat.Sel, raw Val, prov []fedcat.FSel, path []interface{}) res {
	if raw.T == "n" {
		return ok(fedcat.Null)
	}
	if len(w) > 0 { // list
		if raw.T != "l" {
			return ok(fedcat.Null)
		}
		out := make([]Val, len(raw.L))
		anyE := false
		for i, x := range raw.L {
			r := c.complete(w[1:], n, sub, x, prov, append(append([]interface{}{}, path...), i))
			if r.r {
				return raise
			}
			out[i] = r.v
			anyE = anyE || r.e
		}
		return res{v: fedcat.List(out), e: anyE}
	}
	if fedcat.IsLeafType(c.m.Types, n) {
		return ok(raw)
	}
	switch raw.T {
	case "r":
		if _, exists := c.m.U.Objs[raw.S]; !exists {
			return ok(fedcat.Null)
		}
		return c.execSet(sub, handle{id: raw.S, rep: fedcat.Absent, prov: prov}, path)
	case "h":
		return c.execSet(sub, handle{id: raw.S, rep: raw.L[0], prov: prov}, path)
	}
	return ok(fedcat.Null)
}

// Exec mirrors Exec(M, doc, vars) of the spec; seq0 = the world's counter before, the counter after is returned.
func Exec(m *Mode, doc *fedcat.Doc, vars []fedcat.Binding, seq0 int64) (data Val, hasErr bool, errs []ExecError, seq int64) {
	c := &ctxt{m: m, frags: doc.Frags, vars: withDefaults(doc.Vars, vars), ctr: seq0}
	root := "Q"
	if doc.Op == "mutation" {
		root = "M"
	}
	if _, ok := m.U.Objs[root]; !ok {
		return fedcat.Null, true, []ExecError{{Message: "no root object " + root}}, seq0
	}
	r := c.execSet(doc.Sel, handle{id: root, rep: fedcat.Absent}, nil)
	if r.r {
		return fedcat.Null, true, c.errs, c.ctr
	}
	return r.v, r.e, c.errs, c.ctr
}
