package sim

import (
	"bytes"
	"encoding/json"
	"fmt"
	"io"
	"net/http"
	"strings"
	"sync"

	"github.com/vektah/gqlparser/v2"
	"github.com/vektah/gqlparser/v2/ast"

	"verif/harness/internal/fedcat"
)

// Exchange is one recorded subgraph request/response.
type Exchange struct {
	Sg       int
	SgName   string
	Query    string
	Vars     json.RawMessage
	Resp     json.RawMessage
	Invalid  string // non-empty: the request was rejected (parse / validation against the subgraph schema, by gqlparser)
	Doc      *fedcat.Doc
	Bindings []fedcat.Binding
	Data     Val
	HasErr   bool
	Seq0     int64 // the world's counter when the request arrived (mutations)
}

// Router serves every subgraph of a catalog entry behind one http.RoundTripper (host "sg<i>.sim").
type Router struct {
	entry   *fedcat.Entry
	schemas []*ast.Schema
	mu      sync.Mutex
	u       *fedcat.Universe
	xs      []Exchange
	// world: the single counter all subgraphs' mutation fields add to; a mutation request holds worldMu from arrival to
	// completion, so that its Seq0 and its effects are well defined
	worldMu sync.Mutex
	world   int64
}

const fedPrelude = `
scalar _Any
scalar openfed__FieldSet
directive @external on FIELD_DEFINITION | OBJECT
directive @key(fields: openfed__FieldSet!, resolvable: Boolean = true) repeatable on INTERFACE | OBJECT
directive @provides(fields: openfed__FieldSet!) on FIELD_DEFINITION
directive @requires(fields: openfed__FieldSet!) on FIELD_DEFINITION
directive @shareable on FIELD_DEFINITION | OBJECT
directive @inaccessible on FIELD_DEFINITION | OBJECT | INTERFACE | UNION | ARGUMENT_DEFINITION | SCALAR | ENUM | ENUM_VALUE | INPUT_OBJECT | INPUT_FIELD_DEFINITION
`

// ValidationSDL is the subgraph's own schema as a server would expose it: SDL + _entities/_Entity/_Any.
func ValidationSDL(e *fedcat.Entry, idx int) string {
	var sb strings.Builder
	for _, line := range strings.Split(fedcat.SubgraphSDL(e, idx), "\n") {
		if strings.HasPrefix(strings.TrimSpace(line), "extend schema") {
			continue
		}
		sb.WriteString(line + "\n")
	}
	sb.WriteString(fedPrelude)
	sg := &e.Sgs[idx]
	var ents []string
	for _, t := range sg.Types {
		if t.Kind == "OBJECT" && len(t.Keys) > 0 {
			ents = append(ents, t.Name)
		}
	}
	hasQuery := fedcat.FindType(sg.Types, "Query") != nil
	if len(ents) > 0 {
		fmt.Fprintf(&sb, "union _Entity = %s\n", strings.Join(ents, " | "))
		if hasQuery {
			sb.WriteString("extend type Query { _entities(representations: [_Any!]!): [_Entity]! }\n")
		} else {
			sb.WriteString("type Query { _entities(representations: [_Any!]!): [_Entity]! }\n")
		}
	}
	return sb.String()
}

func NewRouter(e *fedcat.Entry) (*Router, error) {
	r := &Router{entry: e}
	for i := range e.Sgs {
		s, err := gqlparser.LoadSchema(&ast.Source{Name: e.Sgs[i].Name, Input: ValidationSDL(e, i)})
		if err != nil {
			return nil, fmt.Errorf("subgraph %s: schema does not load in gqlparser: %v", e.Sgs[i].Name, err)
		}
		r.schemas = append(r.schemas, s)
	}
	return r, nil
}

func (r *Router) URL(i int) string { return fmt.Sprintf("http://sg%d.sim/graphql", i) }

func (r *Router) SetUniverse(u *fedcat.Universe) {
	r.mu.Lock()
	r.u = u
	r.xs = nil
	r.mu.Unlock()
	r.worldMu.Lock()
	r.world = 0
	r.worldMu.Unlock()
}

// Take returns and clears the recorded exchanges.
func (r *Router) Take() []Exchange {
	r.mu.Lock()
	defer r.mu.Unlock()
	xs := r.xs
	r.xs = nil
	return xs
}

func (r *Router) RoundTrip(req *http.Request) (*http.Response, error) {
	var idx int
	if _, err := fmt.Sscanf(req.URL.Host, "sg%d.sim", &idx); err != nil || idx < 0 || idx >= len(r.entry.Sgs) {
		return nil, fmt.Errorf("sim: unknown subgraph host %q", req.URL.Host)
	}
	body, err := io.ReadAll(req.Body)
	if err != nil {
		return nil, err
	}
	_ = req.Body.Close()
	r.mu.Lock()
	u := r.u
	r.mu.Unlock()
	x := r.Answer(idx, u, body)
	r.mu.Lock()
	r.xs = append(r.xs, x)
	r.mu.Unlock()
	return &http.Response{
		StatusCode: 200, Status: "200 OK", Proto: "HTTP/1.1", ProtoMajor: 1, ProtoMinor: 1,
		Header:        http.Header{"Content-Type": []string{"application/json"}},
		Body:          io.NopCloser(bytes.NewReader(x.Resp)),
		ContentLength: int64(len(x.Resp)), Request: req,
	}, nil
}

func errorBody(msg string) json.RawMessage {
	b, _ := json.Marshal(map[string]interface{}{"errors": []map[string]string{{"message": msg}}})
	return b
}

// Answer executes one request body against subgraph idx over universe u.
func (r *Router) Answer(idx int, u *fedcat.Universe, body []byte) Exchange {
	x := Exchange{Sg: idx, SgName: r.entry.Sgs[idx].Name}
	var in struct {
		Query     string          `json:"query"`
		Variables json.RawMessage `json:"variables"`
	}
	if err := json.Unmarshal(body, &in); err != nil {
		x.Invalid = "request body is not JSON: " + err.Error()
		x.Query = string(body)
		x.Resp = errorBody(x.Invalid)
		return x
	}
	x.Query = in.Query
	x.Vars = in.Variables
	if _, errs := gqlparser.LoadQuery(r.schemas[idx], in.Query); len(errs) > 0 {
		x.Invalid = errs.Error()
		x.Resp = errorBody(x.Invalid)
		// still try to convert for the record
		if d, _, err := fedcat.ParseQuery(in.Query); err == nil {
			x.Doc = d
		}
		if bs, err := fedcat.BindingsFromJSON(in.Variables); err == nil {
			x.Bindings = bs
		}
		return x
	}
	doc, opType, err := fedcat.ParseQuery(in.Query)
	if err != nil {
		x.Invalid = err.Error()
		x.Resp = errorBody(x.Invalid)
		return x
	}
	if opType != "query" && opType != "mutation" {
		x.Invalid = "only queries and mutations are simulated, got " + opType
		x.Resp = errorBody(x.Invalid)
		return x
	}
	bs, err := fedcat.BindingsFromJSON(in.Variables)
	if err != nil {
		x.Invalid = "variables: " + err.Error()
		x.Resp = errorBody(x.Invalid)
		return x
	}
	x.Doc, x.Bindings = doc, bs
	m := &Mode{Types: r.entry.Sgs[idx].Sub, U: u, Sub: true}
	var data Val
	var hasErr bool
	var errs []ExecError
	if opType == "mutation" {
		r.worldMu.Lock()
		x.Seq0 = r.world
		data, hasErr, errs, r.world = Exec(m, doc, bs, r.world)
		r.worldMu.Unlock()
	} else {
		data, hasErr, errs, _ = Exec(m, doc, bs, 0)
	}
	x.Data, x.HasErr = data, hasErr
	var sb strings.Builder
	sb.WriteString(`{"data":`)
	sb.WriteString(data.Plain())
	if hasErr {
		if len(errs) == 0 {
			errs = []ExecError{{Message: "error"}}
		}
		eb, _ := json.Marshal(errs)
		sb.WriteString(`,"errors":`)
		sb.Write(eb)
	}
	sb.WriteString("}")
	x.Resp = json.RawMessage(sb.String())
	return x
}
