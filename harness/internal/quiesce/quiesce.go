// Package quiesce decides, without any wall-clock assumption, whether the process is quiescent: every goroutine
// except the caller is blocked (channel, select, mutex, wait group, cond). When that holds nothing can happen
// until the caller (the schedule controller) acts, so "everything that is going to arrive at a gate has arrived".
// It is the deterministic replacement for "sleep a little and hope" when a driver forces completion orders with
// harness-side gates only (no hook points inside the code under test).
package quiesce

import (
	"bytes"
	"runtime"
	"strconv"
	"time"
)

// blocked wait reasons (prefix match on the goroutine header "goroutine N [reason, 3 minutes]:").
var blockedPrefixes = [][]byte{
	[]byte("chan receive"), []byte("chan send"), []byte("select"), []byte("sync."), []byte("semacquire"),
	[]byte("IO wait"), []byte("finalizer wait"), []byte("GC "), []byte("force gc"), []byte("cleanup wait"),
	[]byte("timer goroutine"), []byte("trace reader"), []byte("debug call"),
}

// Goid returns the id of the calling goroutine.
func Goid() int64 {
	var buf [64]byte
	n := runtime.Stack(buf[:], false)
	b := buf[:n]
	b = b[len("goroutine "):]
	i := bytes.IndexByte(b, ' ')
	id, _ := strconv.ParseInt(string(b[:i]), 10, 64)
	return id
}

type Snapshot struct {
	Total   int
	Busy    int
	BusyHdr []string // headers of busy goroutines (diagnostics)
}

var dumpBuf = make([]byte, 1<<20)

// Snap takes a goroutine dump and classifies every goroutine except the caller. Not safe for concurrent use.
func Snap() Snapshot {
	self := Goid()
	var n int
	for {
		n = runtime.Stack(dumpBuf, true)
		if n < len(dumpBuf) {
			break
		}
		dumpBuf = make([]byte, 2*len(dumpBuf))
	}
	var s Snapshot
	rest := dumpBuf[:n]
	for len(rest) > 0 {
		var block []byte
		if i := bytes.Index(rest, []byte("\n\n")); i >= 0 {
			block, rest = rest[:i], rest[i+2:]
		} else {
			block, rest = rest, nil
		}
		if !bytes.HasPrefix(block, []byte("goroutine ")) {
			continue
		}
		hdrEnd := bytes.IndexByte(block, '\n')
		if hdrEnd < 0 {
			hdrEnd = len(block)
		}
		hdr := block[:hdrEnd]
		h := hdr[len("goroutine "):]
		sp := bytes.IndexByte(h, ' ')
		if sp < 0 {
			continue
		}
		id, _ := strconv.ParseInt(string(h[:sp]), 10, 64)
		if id == self {
			continue
		}
		s.Total++
		lb := bytes.IndexByte(h, '[')
		rb := bytes.LastIndexByte(h, ']')
		if lb < 0 || rb < lb {
			s.Busy++
			continue
		}
		reason := h[lb+1 : rb]
		blocked := false
		if bytes.HasPrefix(reason, []byte("GC assist")) {
			// a mutator helping the collector: it continues on its own
			s.Busy++
			continue
		}
		for _, p := range blockedPrefixes {
			if bytes.HasPrefix(reason, p) {
				blocked = true
				break
			}
		}
		// the os/signal loop sits in a syscall forever
		if !blocked && bytes.HasPrefix(reason, []byte("syscall")) && bytes.Contains(block, []byte("os/signal.")) {
			blocked = true
		}
		if !blocked {
			s.Busy++
			if len(s.BusyHdr) < 4 {
				s.BusyHdr = append(s.BusyHdr, string(hdr))
			}
		}
	}
	return s
}

// Wait polls until two consecutive snapshots show no busy goroutine (or stop() reports true, or the deadline
// passes). It returns true when quiescence (or stop) was reached. The deadline is a generous safety net only.
func Wait(deadline time.Duration, stop func() bool) bool {
	t0 := time.Now()
	calm := 0
	for i := 0; ; i++ {
		if stop != nil && stop() {
			return true
		}
		if s := Snap(); s.Busy == 0 {
			calm++
			if calm >= 2 {
				return true
			}
		} else {
			calm = 0
		}
		runtime.Gosched()
		if i > 20 {
			time.Sleep(50 * time.Microsecond)
		}
		if i&63 == 63 && time.Since(t0) > deadline {
			return false
		}
	}
}
