// Package fedenv gives a harness driver a REAL federated gateway (execution/engine.ExecutionEngine over
// the supergraph shipped in /repo/execution/federationtesting) whose subgraphs (accounts, products,
// reviews — the real gqlgen servers) run in-process behind an http.RoundTripper: no sockets, no ports.
// Every subgraph exchange is recorded and can be faulted / gated per exchange.
//
// README
//
//	env, err := fedenv.New(fedenv.Options{})                       // default: shipped config.json, 3 example subgraphs
//	body, err := env.Execute(ctx, `{me{id username}}`, ``, "")      // one JSON document (data/errors); err = engine error
//	res, err  := env.ExecuteFull(ctx, op, varsJSON, opName)         // + writer calls / frames (use this for @defer)
//	xs := env.Exchanges()                                           // recorded exchanges since New/Reset, by arrival Seq
//	env.Reset()                                                     // forget exchanges, Seq restarts at 1 (engine + plan cache kept)
//	env.SupergraphSDL() / env.ClientSchemaSDL() / env.SubgraphSDL("accounts")
//	env.LastPlan()  env.LastFetchTree()                             // plan of the last executed operation (resolve.FetchTreeNode)
//	env.SubgraphNameByID("2") == "reviews"                          // plans / error messages use the data source ids "0","1","2"
//	env.Engine  env.Config                                          // the real engine / engine.Configuration
//
// Options (all optional):
//
//	RouterConfigJSON  []byte                       cosmo router config (default federationtesting.RouterConfigJson)
//	Handlers          map[host]Subgraph            extra / replacement subgraphs, routed by URL host of the config
//	Interceptor       func(*Exchange) Action       called on ARRIVAL of every subgraph request, in the goroutine of the
//	                                               fetch (so it may itself park in a sched.Controller.Point / block on a channel);
//	                                               the returned Action selects the fault, extra headers and an optional Hold gate
//	OnDone            func(*Exchange)              called when the exchange is complete (response/err filled), before it is returned
//	ResolverOptions   *resolve.ResolverOptions     default {MaxConcurrency: 1024}
//	EnableMultiFetch, EnableScheduleFetches bool   engine.Configuration switches
//	ConfigurePlanner  func(*plan.Configuration)    MinifySubgraphOperations, DisableResolveFieldPositions, Debug ... (before NewExecutionEngine)
//	ConfigureEngine   func(*engine.Configuration)  anything else on the configuration
//	PostProcessor     []postprocess.ProcessorOption  if non-nil REPLACES the engine's postprocessor options for every Execute
//	                                               (e.g. DisableDeduplicateSingleFetches, DisableCreateParallelNodes); add
//	                                               postprocess.EnableMultiFetch()/EnableScheduleFetches() yourself if wanted
//	ResolveContext    func(*resolve.Context)       runs on the resolve.Context of every execution (SetResponseCache, LoaderHooks,
//	                                               ExecutionOptions, RateLimiter ...) — via the verif accessor engine.VerifWithResolveContext
//	ExecOptions       []engine.ExecutionOptions    appended to every Execute (WithAuthorizer, WithAdditionalHttpHeaders ...)
//	DataSources       func(ctx, client) ([]plan.DataSource, error)  replaces the data sources of the router config (own supergraphs
//	                                               with ExternalFieldNames/@requires; example: harness/internal/minifed)
//
// Faults (Action.Fault): FaultNone, FaultTransport (RoundTrip returns an error), FaultStatus500HTML, FaultEmptyBody (200 ""),
// FaultNonJSON (200 text), FaultErrorsNoData (200 {"errors":[..]}), FaultDataNull (200 {"data":null}), FaultEntitiesShort (the
// genuine response with every _entities array one element short; Exchange.FaultApplied=false when there was none),
// FaultCustom (Action.Status/Body verbatim). Action.Header is set on the delivered response for every fault kind incl. FaultNone
// (e.g. Cache-Control). Action.Rewrite(status, body) post-processes the genuine response (FaultNone only).
// Gating: Action.Hold (a channel; the exchange blocks until it is closed / receives, or the request context ends — then
// Exchange.Cancelled) — the subgraph handler itself runs AFTER the hold is released, so side effects of mutations follow the
// release order. env.NewGate() returns a (hold channel, release func) pair. Drivers that use internal/sched simply call
// ctrl.Point(..) inside the Interceptor.
//
// Determinism: each New creates fresh subgraph resolvers (reviews' addReview mutates only that Env); the data universe is static:
// users 1234 ("Me") and 7777, products top-1..3 with prices 11/22/33, three reviews. Time dependent and therefore to avoid:
// Subscription.updatedPrice / updateProductPrice (need WebSocket — not routed here, the RoundTripper rejects upgrades) and
// Mutation.setPrice (the example resolver panics "not implemented"). Exchange.Seq is the arrival order, which for parallel
// fetches is scheduler dependent: identify exchanges by (Subgraph, Query, Variables), not by Seq.
package fedenv

import (
	"bytes"
	"context"
	"encoding/json"
	"errors"
	"fmt"
	"io"
	"net/http"
	"net/http/httptest"
	"net/url"
	"regexp"
	"strings"
	"sync"
	"sync/atomic"

	"github.com/jensneuse/abstractlogger"
	nodev1 "github.com/wundergraph/cosmo/router/gen/proto/wg/cosmo/node/v1"
	"google.golang.org/protobuf/encoding/protojson"

	"github.com/wundergraph/graphql-go-tools/execution/engine"
	"github.com/wundergraph/graphql-go-tools/execution/federationtesting"
	accounts "github.com/wundergraph/graphql-go-tools/execution/federationtesting/accounts/graph"
	products "github.com/wundergraph/graphql-go-tools/execution/federationtesting/products/graph"
	reviews "github.com/wundergraph/graphql-go-tools/execution/federationtesting/reviews/graph"
	"github.com/wundergraph/graphql-go-tools/execution/graphql"
	"github.com/wundergraph/graphql-go-tools/v2/pkg/engine/plan"
	"github.com/wundergraph/graphql-go-tools/v2/pkg/engine/postprocess"
	"github.com/wundergraph/graphql-go-tools/v2/pkg/engine/resolve"
)

// Hosts of the three example subgraphs in the shipped config.json.
const (
	AccountsHost = "accounts-url-placeholder"
	ProductsHost = "products-url-placeholder"
	ReviewsHost  = "reviews-url-placeholder"
)

type Fault int

const (
	FaultNone Fault = iota
	FaultTransport
	FaultStatus500HTML
	FaultEmptyBody
	FaultNonJSON
	FaultErrorsNoData
	FaultDataNull
	FaultEntitiesShort
	FaultCustom
)

var faultNames = [...]string{"None", "Transport", "Non2xxNonJSON", "EmptyBody", "NonJSON", "ErrorsNoData", "DataNull", "WrongEntityCount", "Custom"}

func (f Fault) String() string {
	if int(f) < len(faultNames) {
		return faultNames[f]
	}
	return fmt.Sprintf("Fault(%d)", int(f))
}

// ParseFault maps the names used in spec/resolve/FetchExec.tla (Transport, Non2xxNonJSON, EmptyBody, NonJSON,
// ErrorsNoData, DataNull, WrongEntityCount, None, Custom) to a Fault.
func ParseFault(s string) (Fault, bool) {
	for i, n := range faultNames {
		if strings.EqualFold(n, s) {
			return Fault(i), true
		}
	}
	return FaultNone, false
}

// ErrTransport is the error returned by the RoundTripper for FaultTransport.
var ErrTransport = errors.New("fedenv: injected transport error (connection refused)")

// Action is the interceptor's decision for one exchange.
type Action struct {
	Fault   Fault
	Status  int                                         // FaultCustom: status (default 200)
	Body    []byte                                      // FaultCustom: body
	Header  http.Header                                 // set on the delivered response (every kind)
	Hold    <-chan struct{}                             // block until closed/receives (or request ctx done)
	Rewrite func(status int, body []byte) (int, []byte) // FaultNone: transform the genuine response
}

// Exchange is one subgraph request/response as seen by the RoundTripper.
type Exchange struct {
	Seq             int               `json:"seq"`      // arrival order, 1-based since New/Reset
	DoneSeq         int               `json:"done_seq"` // completion order, 1-based
	Subgraph        string            `json:"subgraph"`
	URL             string            `json:"url"`
	RequestHeader   http.Header       `json:"request_header,omitempty"`
	RequestBody     []byte            `json:"-"`
	Query           string            `json:"query"`               // "query" member of the request body
	Variables       json.RawMessage   `json:"variables,omitempty"` // "variables" member
	Representations []json.RawMessage `json:"representations,omitempty"`
	Fault           string            `json:"fault"`
	FaultApplied    bool              `json:"fault_applied"`
	Status          int               `json:"status"` // 0 = transport error
	ResponseBody    []byte            `json:"-"`      // what the gateway received
	UpstreamBody    []byte            `json:"-"`      // what the subgraph produced (nil if it was not invoked)
	Header          http.Header       `json:"header,omitempty"`
	Err             string            `json:"err,omitempty"`
	Cancelled       bool              `json:"cancelled,omitempty"`
	// Request/Response strings duplicated for JSON output
	RequestText  string `json:"request"`
	ResponseText string `json:"response"`
}

// Subgraph is an in-process subgraph.
type Subgraph struct {
	Name    string
	Handler http.Handler
}

type Options struct {
	RouterConfigJSON      []byte
	Handlers              map[string]Subgraph
	Interceptor           func(*Exchange) Action
	OnDone                func(*Exchange)
	ResolverOptions       *resolve.ResolverOptions
	EnableMultiFetch      bool
	EnableScheduleFetches bool
	ConfigurePlanner      func(*plan.Configuration)
	ConfigureEngine       func(*engine.Configuration)
	PostProcessor         []postprocess.ProcessorOption
	ResolveContext        func(*resolve.Context)
	ExecOptions           []engine.ExecutionOptions
	// DataSources, if set, REPLACES the data sources built from RouterConfigJSON (which then only has to carry the
	// client schema, field configurations and the subgraph id/name list): for supergraphs the example factory
	// cannot express (plan.DataSourceMetadata with ExternalFieldNames, @requires ...). Build the data sources with
	// the given client (graphql_datasource.NewFactory(ctx, client, ...)) so that every request goes through the
	// recording RoundTripper; route their URL hosts with Handlers. See harness/internal/minifed for an example.
	DataSources func(ctx context.Context, client *http.Client) ([]plan.DataSource, error)
}

type Env struct {
	Engine *engine.ExecutionEngine
	Config engine.Configuration
	Client *http.Client

	opts   Options
	rc     *nodev1.RouterConfig
	hosts  map[string]Subgraph
	cancel context.CancelFunc

	mu        sync.Mutex
	exchanges []*Exchange
	seq       int
	doneSeq   int
	// Interceptor may be swapped between executions with SetInterceptor.
	interceptor func(*Exchange) Action
}

// DefaultSubgraphs returns fresh instances of the three example subgraphs keyed by config host.
func DefaultSubgraphs() map[string]Subgraph {
	return map[string]Subgraph{
		AccountsHost: {"accounts", accounts.GraphQLEndpointHandler(accounts.TestOptions)},
		ProductsHost: {"products", products.GraphQLEndpointHandler(products.TestOptions)},
		ReviewsHost:  {"reviews", reviews.GraphQLEndpointHandler(reviews.TestOptions)},
	}
}

func New(o Options) (*Env, error) {
	e := &Env{opts: o, interceptor: o.Interceptor}
	cfg := o.RouterConfigJSON
	if cfg == nil {
		cfg = federationtesting.RouterConfigJson
	}
	var rc nodev1.RouterConfig
	if err := protojson.Unmarshal(cfg, &rc); err != nil {
		return nil, fmt.Errorf("fedenv: router config: %w", err)
	}
	e.rc = &rc
	e.hosts = DefaultSubgraphs()
	for h, s := range o.Handlers {
		e.hosts[h] = s
	}
	e.Client = &http.Client{Transport: (*roundTripper)(e)}
	ctx, cancel := context.WithCancel(context.Background())
	e.cancel = cancel
	factory := engine.NewFederationEngineConfigFactory(ctx,
		engine.WithFederationHttpClient(e.Client),
		engine.WithFederationStreamingClient(e.Client))
	conf, err := factory.BuildEngineConfiguration(&rc)
	if err != nil {
		cancel()
		return nil, fmt.Errorf("fedenv: engine configuration: %w", err)
	}
	if o.DataSources != nil {
		ds, err := o.DataSources(ctx, e.Client)
		if err != nil {
			cancel()
			return nil, fmt.Errorf("fedenv: data sources: %w", err)
		}
		conf.SetDataSources(ds)
	}
	if o.EnableMultiFetch {
		conf.EnableMultiFetch()
	}
	if o.EnableScheduleFetches {
		conf.EnableScheduleFetches()
	}
	if o.ConfigurePlanner != nil {
		o.ConfigurePlanner(conf.VerifPlannerConfig())
	}
	if o.ConfigureEngine != nil {
		o.ConfigureEngine(&conf)
	}
	ro := resolve.ResolverOptions{MaxConcurrency: 1024}
	if o.ResolverOptions != nil {
		ro = *o.ResolverOptions
	}
	eng, err := engine.NewExecutionEngine(ctx, abstractlogger.NoopLogger, conf, ro)
	if err != nil {
		cancel()
		return nil, fmt.Errorf("fedenv: engine: %w", err)
	}
	e.Engine = eng
	e.Config = conf
	return e, nil
}

// Close cancels the engine context.
func (e *Env) Close() { e.cancel() }

// SetInterceptor replaces the interceptor (nil = fault-free, ungated).
func (e *Env) SetInterceptor(f func(*Exchange) Action) {
	e.mu.Lock()
	e.interceptor = f
	e.mu.Unlock()
}

// Reset forgets the recorded exchanges; Seq restarts at 1.
func (e *Env) Reset() {
	e.mu.Lock()
	e.exchanges = nil
	e.seq = 0
	e.doneSeq = 0
	e.mu.Unlock()
}

// Exchanges returns the exchanges recorded since New/Reset ordered by arrival.
func (e *Env) Exchanges() []*Exchange {
	e.mu.Lock()
	defer e.mu.Unlock()
	out := make([]*Exchange, len(e.exchanges))
	copy(out, e.exchanges)
	return out
}

// SupergraphSDL is the router config's graphqlSchema (the schema the engine plans against).
func (e *Env) SupergraphSDL() string { return e.rc.EngineConfig.GraphqlSchema }

// ClientSchemaSDL is the schema document of the engine configuration as parsed by execution/graphql.
func (e *Env) ClientSchemaSDL() string { return string(e.Config.Schema().RawSchema()) }

// SubgraphSDL returns the SDL of an example subgraph by name.
func (e *Env) SubgraphSDL(name string) string {
	switch name {
	case "accounts":
		return string(federationtesting.AccountSDL)
	case "products":
		return string(federationtesting.ProductsSDL)
	case "reviews":
		return string(federationtesting.ReviewsSDL)
	}
	return ""
}

// SubgraphNames lists the routed subgraph names.
func (e *Env) SubgraphNames() []string {
	var out []string
	for _, s := range e.hosts {
		out = append(out, s.Name)
	}
	return out
}

// SubgraphNameByID maps a data source id of the router config ("0","1","2" — this is what plans and error
// messages call subgraphName) to the subgraph name ("accounts", ...). Unknown ids are returned unchanged.
func (e *Env) SubgraphNameByID(id string) string {
	for _, s := range e.rc.Subgraphs {
		if s.Id == id {
			return s.Name
		}
	}
	return id
}

// LastPlan returns the plan of the operation executed last (sequential use only).
func (e *Env) LastPlan() plan.Plan { return e.Engine.VerifLastPlan() }

// LastFetchTree returns the fetch tree of the last synchronous / defer plan (nil otherwise).
func (e *Env) LastFetchTree() *resolve.FetchTreeNode {
	switch p := e.LastPlan().(type) {
	case *plan.SynchronousResponsePlan:
		if p.Response != nil {
			return p.Response.Fetches
		}
	case *plan.DeferResponsePlan:
		if p.Response != nil && p.Response.Response != nil {
			return p.Response.Response.Fetches
		}
	}
	return nil
}

// NewGate returns a hold channel for Action.Hold and the function that releases it (idempotent).
func NewGate() (<-chan struct{}, func()) {
	ch := make(chan struct{})
	var once sync.Once
	return ch, func() { once.Do(func() { close(ch) }) }
}

// ---------------------------------------------------------------------------------------------- execution

// WriterCall is one call on the response writer.
type WriterCall struct {
	Op   string `json:"op"` // write | flush | complete | error | heartbeat
	Data string `json:"data,omitempty"`
}

// Result of ExecuteFull.
type Result struct {
	Body      []byte       // all bytes written, concatenated (synchronous plans: the one response document)
	Frames    [][]byte     // bytes between flushes (defer: initial + incremental payloads); a trailing unflushed part is the last frame
	Calls     []WriterCall // every writer call in order
	Completed int          // number of Complete() calls
	Overlap   bool         // two writer calls overlapped in time (writer used concurrently)
}

type recWriter struct {
	mu     sync.Mutex
	in     atomic.Int32
	cur    bytes.Buffer
	res    Result
	inCall bool
}

func (w *recWriter) enter() func() {
	if w.in.Add(1) != 1 {
		w.mu.Lock()
		w.res.Overlap = true
		w.mu.Unlock()
	}
	w.mu.Lock()
	return func() { w.mu.Unlock(); w.in.Add(-1) }
}

func (w *recWriter) Write(p []byte) (int, error) {
	defer w.enter()()
	w.cur.Write(p)
	w.res.Body = append(w.res.Body, p...)
	w.res.Calls = append(w.res.Calls, WriterCall{Op: "write", Data: string(p)})
	return len(p), nil
}

func (w *recWriter) Flush() error {
	defer w.enter()()
	w.res.Frames = append(w.res.Frames, append([]byte(nil), w.cur.Bytes()...))
	w.cur.Reset()
	w.res.Calls = append(w.res.Calls, WriterCall{Op: "flush"})
	return nil
}

func (w *recWriter) Complete() {
	defer w.enter()()
	w.res.Completed++
	w.res.Calls = append(w.res.Calls, WriterCall{Op: "complete"})
}

func (w *recWriter) Heartbeat() error {
	defer w.enter()()
	w.res.Calls = append(w.res.Calls, WriterCall{Op: "heartbeat"})
	return nil
}

func (w *recWriter) Error(data []byte) {
	defer w.enter()()
	w.cur.Write(data)
	w.res.Body = append(w.res.Body, data...)
	w.res.Calls = append(w.res.Calls, WriterCall{Op: "error", Data: string(data)})
}

var _ resolve.SubscriptionResponseWriter = (*recWriter)(nil)

// ExecuteFull executes one operation through engine.ExecutionEngine.Execute and returns everything the
// engine did to the writer. variablesJSON may be "" (no variables member). Works for queries, mutations
// and @defer operations (each flushed payload is one element of Result.Frames).
func (e *Env) ExecuteFull(ctx context.Context, operation, variablesJSON, operationName string, opts ...engine.ExecutionOptions) (*Result, error) {
	req := &graphql.Request{OperationName: operationName, Query: operation}
	if variablesJSON != "" {
		req.Variables = json.RawMessage(variablesJSON)
	}
	var all []engine.ExecutionOptions
	if e.opts.PostProcessor != nil {
		all = append(all, engine.VerifWithPostProcessorOptions(e.opts.PostProcessor...))
	}
	if e.opts.ResolveContext != nil {
		all = append(all, engine.VerifWithResolveContext(e.opts.ResolveContext))
	}
	all = append(all, e.opts.ExecOptions...)
	all = append(all, opts...)
	w := &recWriter{}
	err := e.Engine.Execute(ctx, req, w, all...)
	w.mu.Lock()
	defer w.mu.Unlock()
	if w.cur.Len() > 0 {
		w.res.Frames = append(w.res.Frames, append([]byte(nil), w.cur.Bytes()...))
		w.cur.Reset()
	}
	r := w.res
	return &r, err
}

// Execute executes one operation and returns the response bytes (all bytes written to the writer).
func (e *Env) Execute(ctx context.Context, operation, variablesJSON, operationName string, opts ...engine.ExecutionOptions) ([]byte, error) {
	r, err := e.ExecuteFull(ctx, operation, variablesJSON, operationName, opts...)
	return r.Body, err
}

// ---------------------------------------------------------------------------------------------- transport

type roundTripper Env

var entitiesAliasRe = regexp.MustCompile(`([_A-Za-z][_0-9A-Za-z]*)\s*:\s*_entities\b`)

func (rt *roundTripper) RoundTrip(req *http.Request) (*http.Response, error) {
	e := (*Env)(rt)
	var body []byte
	if req.Body != nil {
		body, _ = io.ReadAll(req.Body)
		_ = req.Body.Close()
	}
	sg, ok := e.hosts[req.URL.Host]
	x := &Exchange{Subgraph: sg.Name, URL: req.URL.String(), RequestHeader: req.Header.Clone(), RequestBody: body, RequestText: string(body)}
	var parsed struct {
		Query     string          `json:"query"`
		Variables json.RawMessage `json:"variables"`
	}
	if json.Unmarshal(body, &parsed) == nil {
		x.Query = parsed.Query
		x.Variables = parsed.Variables
		var vars struct {
			Representations []json.RawMessage `json:"representations"`
		}
		if len(parsed.Variables) > 0 && json.Unmarshal(parsed.Variables, &vars) == nil {
			x.Representations = vars.Representations
		}
	}
	e.mu.Lock()
	e.seq++
	x.Seq = e.seq
	e.exchanges = append(e.exchanges, x)
	icpt := e.interceptor
	e.mu.Unlock()

	finish := func(resp *http.Response, err error) (*http.Response, error) {
		e.mu.Lock()
		e.doneSeq++
		x.DoneSeq = e.doneSeq
		e.mu.Unlock()
		x.ResponseText = string(x.ResponseBody)
		if err != nil {
			x.Err = err.Error()
		}
		if e.opts.OnDone != nil {
			e.opts.OnDone(x)
		}
		return resp, err
	}

	if !ok {
		x.Fault = "UnknownHost"
		return finish(nil, fmt.Errorf("fedenv: no subgraph routed for host %q", req.URL.Host))
	}
	if strings.EqualFold(req.Header.Get("Upgrade"), "websocket") {
		x.Fault = "UpgradeRejected"
		return finish(nil, errors.New("fedenv: websocket upgrade is not supported in-process"))
	}
	var act Action
	if icpt != nil {
		act = icpt(x)
	}
	x.Fault = act.Fault.String()
	if act.Hold != nil {
		select {
		case <-act.Hold:
		case <-req.Context().Done():
			x.Cancelled = true
			return finish(nil, req.Context().Err())
		}
	}
	if err := req.Context().Err(); err != nil {
		x.Cancelled = true
		return finish(nil, err)
	}
	status := http.StatusOK
	hdr := http.Header{"Content-Type": []string{"application/json"}}
	var out []byte
	callUpstream := func() {
		rec := httptest.NewRecorder()
		r2 := req.Clone(req.Context())
		r2.Body = io.NopCloser(bytes.NewReader(body))
		r2.ContentLength = int64(len(body))
		r2.RequestURI = ""
		if r2.URL.Path == "" {
			r2.URL = &url.URL{Scheme: req.URL.Scheme, Host: req.URL.Host, Path: "/", RawQuery: req.URL.RawQuery}
		}
		sg.Handler.ServeHTTP(rec, r2)
		res := rec.Result()
		status = res.StatusCode
		hdr = res.Header.Clone()
		out, _ = io.ReadAll(res.Body)
		x.UpstreamBody = out
	}
	switch act.Fault {
	case FaultNone:
		callUpstream()
		if act.Rewrite != nil {
			status, out = act.Rewrite(status, out)
			x.FaultApplied = true
		}
	case FaultTransport:
		x.FaultApplied = true
		return finish(nil, ErrTransport)
	case FaultStatus500HTML:
		status = http.StatusInternalServerError
		hdr = http.Header{"Content-Type": []string{"text/html"}}
		out = []byte("<html><body><h1>500 Internal Server Error</h1></body></html>")
		x.FaultApplied = true
	case FaultEmptyBody:
		out = []byte{}
		x.FaultApplied = true
	case FaultNonJSON:
		hdr = http.Header{"Content-Type": []string{"text/plain"}}
		out = []byte("upstream says: this is not json")
		x.FaultApplied = true
	case FaultErrorsNoData:
		out = []byte(`{"errors":[{"message":"fedenv: injected subgraph error","extensions":{"code":"INJECTED"}}]}`)
		x.FaultApplied = true
	case FaultDataNull:
		out = []byte(`{"data":null}`)
		x.FaultApplied = true
	case FaultEntitiesShort:
		callUpstream()
		out, x.FaultApplied = shortenEntities(x.Query, out)
	case FaultCustom:
		if act.Status != 0 {
			status = act.Status
		}
		out = act.Body
		x.FaultApplied = true
	}
	for k, v := range act.Header {
		hdr[http.CanonicalHeaderKey(k)] = append([]string(nil), v...)
	}
	hdr.Del("Content-Length")
	x.Status = status
	x.ResponseBody = out
	x.Header = hdr
	resp := &http.Response{
		Status:        fmt.Sprintf("%d %s", status, http.StatusText(status)),
		StatusCode:    status,
		Proto:         "HTTP/1.1",
		ProtoMajor:    1,
		ProtoMinor:    1,
		Header:        hdr.Clone(),
		Body:          io.NopCloser(bytes.NewReader(out)),
		ContentLength: int64(len(out)),
		Request:       req,
	}
	return finish(resp, nil)
}

// shortenEntities drops the last element of every `_entities` array (plain or aliased) of data.
func shortenEntities(query string, body []byte) ([]byte, bool) {
	var doc map[string]json.RawMessage
	if json.Unmarshal(body, &doc) != nil {
		return body, false
	}
	var data map[string]json.RawMessage
	if json.Unmarshal(doc["data"], &data) != nil || data == nil {
		return body, false
	}
	names := map[string]bool{"_entities": true}
	for _, m := range entitiesAliasRe.FindAllStringSubmatch(query, -1) {
		names[m[1]] = true
	}
	applied := false
	for k := range data {
		if !names[k] {
			continue
		}
		var arr []json.RawMessage
		if json.Unmarshal(data[k], &arr) != nil || len(arr) == 0 {
			continue
		}
		b, _ := json.Marshal(arr[:len(arr)-1])
		data[k] = b
		applied = true
	}
	if !applied {
		return body, false
	}
	// keep member order of the original document stable enough: data first, then the rest
	db, _ := json.Marshal(data)
	doc["data"] = db
	var buf bytes.Buffer
	buf.WriteString(`{"data":`)
	buf.Write(db)
	for k, v := range doc {
		if k == "data" {
			continue
		}
		kb, _ := json.Marshal(k)
		buf.WriteByte(',')
		buf.Write(kb)
		buf.WriteByte(':')
		buf.Write(v)
	}
	buf.WriteByte('}')
	return buf.Bytes(), true
}
