// Package sched is the gate scheduler used to force TLC-chosen interleavings on the real code.
//
// Every goroutine that matters is an *actor*. An actor parks whenever it reaches a point
// (a verif hook inside /repo or a harness-side gate such as a fake data source). The controller
// releases exactly one actor at a time and waits until that actor parks again, finishes, or is
// observably blocked. Because only one actor runs at a time, the recorded global order of events
// is exact (no wall-clock merging).
package sched

import (
	"bytes"
	"runtime"
	"strconv"
	"sync"
	"time"
)

// Event is one arrival of an actor at a point.
type Event struct {
	Seq   int    `json:"seq"`
	Actor int    `json:"actor"`
	Point string `json:"point"`
	A     uint64 `json:"a"`
	B     uint64 `json:"b"`
}

type actor struct {
	id      int
	resume  chan struct{}
	parked  bool
	point   string
	a, b    uint64
	done    bool
	started bool
}

// Outcome of releasing an actor.
type Outcome int

const (
	Parked   Outcome = iota // the actor arrived at its next point
	Finished                // the actor's function returned
	Blocked                 // nothing happened within the step timeout (actor waits on something)
	NotReady                // the actor was not parked (already finished or blocked)
)

func (o Outcome) String() string {
	return [...]string{"parked", "finished", "blocked", "notready"}[o]
}

type Controller struct {
	mu       sync.Mutex
	cond     *sync.Cond
	actors   map[int]*actor
	byGoid   map[int64]*actor
	events   []Event
	seq      int
	free     bool // free-run (drain): points no longer park
	StepWait time.Duration
	// Identify maps a hook call to an actor id for goroutines that are not registered (e.g. goroutines
	// spawned inside the code under test). Return -1 to ignore the call.
	Identify func(point string, a, b uint64) int
	// Filter decides whether a point parks (true) or is only recorded (false). nil = all park.
	Filter func(point string) bool
}

func New() *Controller {
	c := &Controller{actors: map[int]*actor{}, byGoid: map[int64]*actor{}, StepWait: 2 * time.Second}
	c.cond = sync.NewCond(&c.mu)
	return c
}

func goid() int64 {
	var buf [64]byte
	n := runtime.Stack(buf[:], false)
	// "goroutine 123 [running]:"
	b := buf[:n]
	b = b[len("goroutine "):]
	i := bytes.IndexByte(b, ' ')
	id, _ := strconv.ParseInt(string(b[:i]), 10, 64)
	return id
}

// Go starts fn as actor id. The actor parks at point "start" before fn runs.
func (c *Controller) Go(id int, fn func()) {
	a := &actor{id: id, resume: make(chan struct{}, 1)}
	c.mu.Lock()
	c.actors[id] = a
	c.mu.Unlock()
	ready := make(chan struct{})
	go func() {
		c.mu.Lock()
		c.byGoid[goid()] = a
		c.mu.Unlock()
		close(ready)
		c.parkActor(a, "start", 0, 0)
		defer func() {
			c.mu.Lock()
			a.done = true
			a.parked = false
			c.cond.Broadcast()
			c.mu.Unlock()
		}()
		fn()
	}()
	<-ready
	// wait until parked at start
	c.mu.Lock()
	for !a.parked && !a.done {
		c.cond.Wait()
	}
	c.mu.Unlock()
}

// Adopt makes the calling goroutine act as actor id (for goroutines spawned by an actor).
func (c *Controller) Adopt(id int) {
	c.mu.Lock()
	if a, ok := c.actors[id]; ok {
		c.byGoid[goid()] = a
	}
	c.mu.Unlock()
}

// Point is the hook body: record the arrival and park until released.
func (c *Controller) Point(point string, a, b uint64) {
	c.mu.Lock()
	act := c.byGoid[goid()]
	if act == nil && c.Identify != nil {
		if id := c.Identify(point, a, b); id >= 0 {
			act = c.actors[id]
			if act == nil {
				act = &actor{id: id, resume: make(chan struct{}, 1)}
				c.actors[id] = act
			}
		}
	}
	c.mu.Unlock()
	if act == nil {
		return
	}
	c.parkActor(act, point, a, b)
}

// Record adds an event without parking (observations made by harness fakes).
func (c *Controller) Record(actorID int, point string, a, b uint64) {
	c.mu.Lock()
	c.seq++
	c.events = append(c.events, Event{Seq: c.seq, Actor: actorID, Point: point, A: a, B: b})
	c.mu.Unlock()
}

func (c *Controller) parkActor(act *actor, point string, a, b uint64) {
	c.mu.Lock()
	c.seq++
	c.events = append(c.events, Event{Seq: c.seq, Actor: act.id, Point: point, A: a, B: b})
	if c.free || (c.Filter != nil && point != "start" && !c.Filter(point)) {
		c.mu.Unlock()
		return
	}
	act.parked = true
	act.point, act.a, act.b = point, a, b
	c.cond.Broadcast()
	c.mu.Unlock()
	<-act.resume
}

// Where reports the point an actor is parked at ("" if running/blocked, "done" if finished).
func (c *Controller) Where(id int) string {
	c.mu.Lock()
	defer c.mu.Unlock()
	a := c.actors[id]
	if a == nil {
		return ""
	}
	if a.done {
		return "done"
	}
	if a.parked {
		return a.point
	}
	return ""
}

// Step releases actor id and waits until it parks again, finishes or StepWait elapses.
func (c *Controller) Step(id int) (Outcome, string) {
	c.mu.Lock()
	a := c.actors[id]
	if a == nil || a.done || !a.parked {
		// an actor that was blocked earlier may have moved on by now: give it a chance to arrive
		if a != nil && !a.done && !a.parked {
			deadline := time.Now().Add(c.StepWait)
			for !a.parked && !a.done && time.Now().Before(deadline) {
				c.timedWait(deadline)
			}
			if a.parked {
				p := a.point
				c.mu.Unlock()
				return Parked, p
			}
			if a.done {
				c.mu.Unlock()
				return Finished, ""
			}
		}
		c.mu.Unlock()
		return NotReady, ""
	}
	a.parked = false
	c.mu.Unlock()
	a.resume <- struct{}{}
	return c.await(a)
}

func (c *Controller) timedWait(deadline time.Time) {
	// c.mu held. Wait for a state change or the deadline, whichever comes first.
	t := time.AfterFunc(time.Until(deadline), func() {
		c.mu.Lock()
		c.cond.Broadcast()
		c.mu.Unlock()
	})
	c.cond.Wait()
	t.Stop()
}

func (c *Controller) await(a *actor) (Outcome, string) {
	deadline := time.Now().Add(c.StepWait)
	c.mu.Lock()
	defer c.mu.Unlock()
	for {
		if a.parked {
			return Parked, a.point
		}
		if a.done {
			return Finished, ""
		}
		if !time.Now().Before(deadline) {
			return Blocked, ""
		}
		c.timedWait(deadline)
	}
}

// WaitParkedOrDone waits (bounded) until actor id is parked or done; used after environment actions
// that may unblock an actor that was Blocked.
func (c *Controller) WaitParkedOrDone(id int, d time.Duration) (Outcome, string) {
	c.mu.Lock()
	a := c.actors[id]
	c.mu.Unlock()
	if a == nil {
		return NotReady, ""
	}
	deadline := time.Now().Add(d)
	c.mu.Lock()
	defer c.mu.Unlock()
	for {
		if a.parked {
			return Parked, a.point
		}
		if a.done {
			return Finished, ""
		}
		if !time.Now().Before(deadline) {
			return Blocked, ""
		}
		c.timedWait(deadline)
	}
}

// Drain opens all gates and waits until every actor finished. Returns false if some actor is
// still not done after d (a wedged participant).
func (c *Controller) Drain(d time.Duration) bool {
	c.mu.Lock()
	c.free = true
	for _, a := range c.actors {
		if a.parked {
			a.parked = false
			select {
			case a.resume <- struct{}{}:
			default:
			}
		}
	}
	c.mu.Unlock()
	deadline := time.Now().Add(d)
	for {
		c.mu.Lock()
		all := true
		for _, a := range c.actors {
			if a.parked { // arrived after free was set? cannot happen, but be safe
				a.parked = false
				select {
				case a.resume <- struct{}{}:
				default:
				}
			}
			if !a.done && a.started || (!a.done && a.resume != nil && a.id >= 0 && c.isGoActor(a)) {
				all = false
			}
		}
		c.mu.Unlock()
		if all {
			return true
		}
		if !time.Now().Before(deadline) {
			return false
		}
		time.Sleep(200 * time.Microsecond)
	}
}

func (c *Controller) isGoActor(a *actor) bool {
	for _, x := range c.byGoid {
		if x == a {
			return true
		}
	}
	return false
}

// Events returns a copy of the recorded events.
func (c *Controller) Events() []Event {
	c.mu.Lock()
	defer c.mu.Unlock()
	out := make([]Event, len(c.events))
	copy(out, c.events)
	return out
}

// NotDone lists actors started with Go that have not finished.
func (c *Controller) NotDone() []int {
	c.mu.Lock()
	defer c.mu.Unlock()
	var out []int
	for _, a := range c.actors {
		if !a.done && c.isGoActor(a) {
			out = append(out, a.id)
		}
	}
	return out
}
