// Package minifed is a tiny 4-subgraph supergraph for fedenv (C07): it has what the shipped federationtesting
// supergraph lacks — @requires on a nested entity (tainted objects, ValidateRequiredExternalFields), an entity key
// that is a non-null ID provided by a faultable request, and a 4-deep dependency chain.
//
//	users   (ds "u"): Query.user, User @key(id) {id name orders}, Order @key(id) {id}
//	orders  (ds "o"): Order @key(id) @key(sku) {id sku: ID! total: Int}
//	catalog (ds "c"): Order @key(sku) {sku label}
//	summary (ds "s"): User @key(id) {id orders @external summary @requires(fields: "orders { total }")}, Order {total @external}
//
// Usage: env, err := fedenv.New(minifed.Options())  (further Options fields may be set afterwards).
package minifed

import (
	"context"
	"encoding/json"
	"fmt"
	"io"
	"net/http"
	"regexp"
	"strings"

	"github.com/wundergraph/graphql-go-tools/v2/pkg/engine/datasource/graphql_datasource"
	"github.com/wundergraph/graphql-go-tools/v2/pkg/engine/plan"
	"github.com/wundergraph/graphql-go-tools/v2/pkg/engine/resolve"

	"verif/harness/internal/fedenv"
)

const SupergraphSDL = `schema { query: Query }
type Query { user: User }
type User { id: ID! name: String orders: [Order] summary: String }
type Order { id: ID! sku: ID! total: Int label: String }
`

const usersSDL = `type Query { user: User }
type User @key(fields: "id") { id: ID! name: String orders: [Order] }
type Order @key(fields: "id") { id: ID! }
`

const ordersSDL = `type Order @key(fields: "id") @key(fields: "sku") { id: ID! sku: ID! total: Int }
`

const catalogSDL = `type Order @key(fields: "sku") { sku: ID! label: String }
`

const summarySDL = `type User @key(fields: "id") { id: ID! orders: [Order] @external summary: String @requires(fields: "orders { total }") }
type Order { total: Int @external }
`

type sg struct {
	id, name, host, sdl string
	meta                *plan.DataSourceMetadata
}

func subgraphs() []sg {
	return []sg{
		{"u", "users", "users.mini", usersSDL, &plan.DataSourceMetadata{
			RootNodes: []plan.TypeField{
				{TypeName: "Query", FieldNames: []string{"user"}},
				{TypeName: "User", FieldNames: []string{"id", "name", "orders"}},
				{TypeName: "Order", FieldNames: []string{"id"}},
			},
			FederationMetaData: plan.FederationMetaData{Keys: plan.FederationFieldConfigurations{
				{TypeName: "User", SelectionSet: "id"}, {TypeName: "Order", SelectionSet: "id"}}},
		}},
		{"o", "orders", "orders.mini", ordersSDL, &plan.DataSourceMetadata{
			RootNodes: []plan.TypeField{{TypeName: "Order", FieldNames: []string{"id", "sku", "total"}}},
			FederationMetaData: plan.FederationMetaData{Keys: plan.FederationFieldConfigurations{
				{TypeName: "Order", SelectionSet: "id"}, {TypeName: "Order", SelectionSet: "sku"}}},
		}},
		{"c", "catalog", "catalog.mini", catalogSDL, &plan.DataSourceMetadata{
			RootNodes: []plan.TypeField{{TypeName: "Order", FieldNames: []string{"sku", "label"}}},
			FederationMetaData: plan.FederationMetaData{Keys: plan.FederationFieldConfigurations{
				{TypeName: "Order", SelectionSet: "sku"}}},
		}},
		{"s", "summary", "summary.mini", summarySDL, &plan.DataSourceMetadata{
			RootNodes: []plan.TypeField{
				{TypeName: "User", FieldNames: []string{"id", "summary"}, ExternalFieldNames: []string{"orders"}},
			},
			ChildNodes: []plan.TypeField{{TypeName: "Order", ExternalFieldNames: []string{"total"}}},
			FederationMetaData: plan.FederationMetaData{
				Keys:     plan.FederationFieldConfigurations{{TypeName: "User", SelectionSet: "id"}},
				Requires: plan.FederationFieldConfigurations{{TypeName: "User", FieldName: "summary", SelectionSet: "orders { total }"}},
			},
		}},
	}
}

// Options returns fedenv options for the mini supergraph: ValidateRequiredExternalFields is on (planner + resolver).
func Options() fedenv.Options {
	subs := make([]map[string]string, 0, 4)
	handlers := map[string]fedenv.Subgraph{}
	for _, s := range subgraphs() {
		subs = append(subs, map[string]string{"id": s.id, "name": s.name, "routingUrl": "http://" + s.host})
		handlers[s.host] = fedenv.Subgraph{Name: s.name, Handler: handler(s.name)}
	}
	rc, _ := json.Marshal(map[string]any{
		"engineConfig": map[string]any{"defaultFlushInterval": "500", "graphqlSchema": SupergraphSDL},
		"version":      "minifed",
		"subgraphs":    subs,
	})
	return fedenv.Options{
		RouterConfigJSON: rc,
		Handlers:         handlers,
		ResolverOptions:  &resolve.ResolverOptions{MaxConcurrency: 1024, ValidateRequiredExternalFields: true},
		ConfigurePlanner: func(c *plan.Configuration) {
			c.BuildFetchReasons = true
			c.ValidateRequiredExternalFields = true
		},
		DataSources: func(ctx context.Context, client *http.Client) ([]plan.DataSource, error) {
			var out []plan.DataSource
			for _, s := range subgraphs() {
				factory, err := graphql_datasource.NewFactory(ctx, client, graphql_datasource.NewGraphQLSubscriptionClient(ctx,
					graphql_datasource.WithUpgradeClient(client), graphql_datasource.WithStreamingClient(client)))
				if err != nil {
					return nil, err
				}
				sc, err := graphql_datasource.NewSchemaConfiguration(s.sdl, &graphql_datasource.FederationConfiguration{Enabled: true, ServiceSDL: s.sdl})
				if err != nil {
					return nil, fmt.Errorf("%s: %w", s.name, err)
				}
				cfg, err := graphql_datasource.NewConfiguration(graphql_datasource.ConfigurationInput{
					Fetch:               &graphql_datasource.FetchConfiguration{URL: "http://" + s.host + "/", Method: "POST"},
					SchemaConfiguration: sc,
				})
				if err != nil {
					return nil, fmt.Errorf("%s: %w", s.name, err)
				}
				ds, err := plan.NewDataSourceConfigurationWithName[graphql_datasource.Configuration](s.id, s.id, factory, s.meta, cfg)
				if err != nil {
					return nil, fmt.Errorf("%s: %w", s.name, err)
				}
				out = append(out, ds)
			}
			return out, nil
		},
	}
}

// ---- the subgraphs: static data, fields filtered by the words of the query text

var wordRe = regexp.MustCompile(`[_A-Za-z][_0-9A-Za-z]*`)

// kv / omap: JSON object with a fixed member order (the order matters: Loader.taintedObjs walks object members)
type kv struct {
	k string
	v any
}
type omap []kv

func (o omap) MarshalJSON() ([]byte, error) {
	var b strings.Builder
	b.WriteByte('{')
	for i, e := range o {
		if i > 0 {
			b.WriteByte(',')
		}
		kb, _ := json.Marshal(e.k)
		vb, err := json.Marshal(e.v)
		if err != nil {
			return nil, err
		}
		b.Write(kb)
		b.WriteByte(':')
		b.Write(vb)
	}
	b.WriteByte('}')
	return []byte(b.String()), nil
}

func pick(query string, obj omap) omap {
	words := map[string]bool{}
	for _, w := range wordRe.FindAllString(query, -1) {
		words[w] = true
	}
	out := omap{}
	for _, e := range obj {
		if words[e.k] {
			out = append(out, e)
		}
	}
	return out
}

var totals = map[string]int{"10": 5, "11": 7, "12": 9}

func handler(name string) http.Handler {
	return http.HandlerFunc(func(w http.ResponseWriter, r *http.Request) {
		body, _ := io.ReadAll(r.Body)
		var req struct {
			Query     string `json:"query"`
			Variables struct {
				Representations []map[string]any `json:"representations"`
			} `json:"variables"`
		}
		_ = json.Unmarshal(body, &req)
		w.Header().Set("Content-Type", "application/json")
		data := map[string]any{}
		if strings.Contains(req.Query, "_entities") {
			ents := make([]any, 0, len(req.Variables.Representations))
			for _, rep := range req.Variables.Representations {
				ents = append(ents, entity(name, req.Query, rep))
			}
			data["_entities"] = ents
		} else if name == "users" {
			orders := []any{}
			for _, id := range []string{"10", "11", "12"} {
				orders = append(orders, pick(req.Query, omap{{"__typename", "Order"}, {"id", id}}))
			}
			// orders deliberately before name: the subtree that can get tainted is not the last member of user
			u := pick(req.Query, omap{{"__typename", "User"}, {"id", "1"}, {"orders", orders}, {"name", "Jens"}})
			data["user"] = u
		}
		_ = json.NewEncoder(w).Encode(map[string]any{"data": data})
	})
}

func str(v any) string {
	switch x := v.(type) {
	case string:
		return x
	case nil:
		return "null"
	default:
		b, _ := json.Marshal(x)
		return string(b)
	}
}

func entity(name, query string, rep map[string]any) any {
	switch name {
	case "users":
		if rep["__typename"] == "User" {
			return pick(query, omap{{"__typename", "User"}, {"id", rep["id"]}, {"name", "Jens"}})
		}
		return pick(query, omap{{"__typename", "Order"}, {"id", rep["id"]}})
	case "orders":
		id := str(rep["id"])
		if rep["id"] == nil && rep["sku"] != nil {
			id = strings.TrimPrefix(str(rep["sku"]), "sku-")
		}
		var total any
		if t, ok := totals[id]; ok {
			total = t
		}
		return pick(query, omap{{"__typename", "Order"}, {"id", id}, {"sku", "sku-" + id}, {"total", total}})
	case "catalog":
		return pick(query, omap{{"__typename", "Order"}, {"sku", rep["sku"]}, {"label", "label of " + str(rep["sku"])}})
	case "summary":
		// the value is computed from the required input: a hole in it would be visible in the answer
		parts := []string{}
		if os, ok := rep["orders"].([]any); ok {
			for _, o := range os {
				if m, ok := o.(map[string]any); ok {
					parts = append(parts, str(m["total"]))
				} else {
					parts = append(parts, "null")
				}
			}
		}
		return pick(query, omap{{"__typename", "User"}, {"id", rep["id"]}, {"summary", "totals " + strings.Join(parts, "+")}})
	}
	return nil
}
