// Package gqlast converts GraphQL text into the JSON form of spec/core, using vektah/gqlparser - a parser that
// is independent of the code under test.  It also exposes gqlparser's validator as a *calibration aid* for the
// TLA+ transcription of the validation rules (its verdict never decides a check).
package gqlast

import (
	"bytes"
	"encoding/json"
	"fmt"
	"sort"
	"strconv"
	"strings"

	"github.com/vektah/gqlparser/v2"
	"github.com/vektah/gqlparser/v2/ast"
	"github.com/vektah/gqlparser/v2/parser"
	"github.com/vektah/gqlparser/v2/validator"

	"verif/harness/internal/sdl"
)

// CanonFloat is the canonical spelling of a float used on the Go -> TLC path.
func CanonFloat(raw string) string {
	f, err := strconv.ParseFloat(raw, 64)
	if err != nil {
		return raw
	}
	return strconv.FormatFloat(f, 'g', -1, 64)
}

func intValue(raw string) sdl.Value {
	if i, err := strconv.ParseInt(raw, 10, 64); err == nil && i >= -(1<<31) && i <= (1<<31)-1 {
		return sdl.Value{T: "i", I: i}
	}
	return sdl.Value{T: "big", Str: raw}
}

func convValue(v *ast.Value) sdl.Value {
	if v == nil {
		return sdl.Value{T: "x"}
	}
	switch v.Kind {
	case ast.Variable:
		return sdl.Value{T: "v", Str: v.Raw}
	case ast.IntValue:
		return intValue(v.Raw)
	case ast.FloatValue:
		return sdl.Value{T: "f", Str: CanonFloat(v.Raw)}
	case ast.StringValue, ast.BlockValue:
		return sdl.Value{T: "s", Str: v.Raw}
	case ast.BooleanValue:
		return sdl.Value{T: "b", B: v.Raw == "true"}
	case ast.NullValue:
		return sdl.Value{T: "n"}
	case ast.EnumValue:
		return sdl.Value{T: "e", Str: v.Raw}
	case ast.ListValue:
		out := sdl.Value{T: "l", L: make([]sdl.Value, 0, len(v.Children))}
		for _, c := range v.Children {
			out.L = append(out.L, convValue(c.Value))
		}
		return out
	case ast.ObjectValue:
		out := sdl.Value{T: "o", K: make([]string, 0, len(v.Children)), O: make([]sdl.Value, 0, len(v.Children))}
		for _, c := range v.Children {
			out.K = append(out.K, c.Name)
			out.O = append(out.O, convValue(c.Value))
		}
		return out
	}
	panic(fmt.Sprintf("gqlast: unknown value kind %d", v.Kind))
}

func convType(t *ast.Type) sdl.TypeRef {
	w := []string{}
	for t != nil {
		if t.NonNull {
			w = append(w, "N")
		}
		if t.NamedType != "" {
			return sdl.TypeRef{N: t.NamedType, W: w}
		}
		w = append(w, "L")
		t = t.Elem
	}
	panic("gqlast: type without name")
}

func convArgs(args ast.ArgumentList) []sdl.Arg {
	out := make([]sdl.Arg, 0, len(args))
	for _, a := range args {
		out = append(out, sdl.Arg{Name: a.Name, Value: convValue(a.Value)})
	}
	return out
}

func convDirs(dirs ast.DirectiveList) []sdl.Dir {
	out := make([]sdl.Dir, 0, len(dirs))
	for _, d := range dirs {
		out = append(out, sdl.Dir{Name: d.Name, Args: convArgs(d.Arguments)})
	}
	return out
}

func convSel(set ast.SelectionSet) []sdl.Sel {
	out := make([]sdl.Sel, 0, len(set))
	for _, s := range set {
		switch x := s.(type) {
		case *ast.Field:
			alias := x.Alias
			if alias == x.Name {
				// gqlparser fills Alias with Name when no alias is written; "a: a" is therefore not distinguishable
				// from "a" on this path (a self-alias has no effect on the response, 2.7)
				alias = ""
			}
			out = append(out, sdl.Sel{K: "field", Name: x.Name, Alias: alias, Args: convArgs(x.Arguments), Dirs: convDirs(x.Directives), Sel: convSel(x.SelectionSet)})
		case *ast.InlineFragment:
			out = append(out, sdl.Sel{K: "inline", On: x.TypeCondition, Args: []sdl.Arg{}, Dirs: convDirs(x.Directives), Sel: convSel(x.SelectionSet)})
		case *ast.FragmentSpread:
			out = append(out, sdl.Sel{K: "spread", Name: x.Name, Args: []sdl.Arg{}, Dirs: convDirs(x.Directives), Sel: []sdl.Sel{}})
		}
	}
	return out
}

// ParseDoc parses GraphQL text into the spec's document form.
func ParseDoc(text, opName string) (*sdl.Doc, error) {
	q, err := parser.ParseQuery(&ast.Source{Input: text})
	if err != nil {
		return nil, err
	}
	d := &sdl.Doc{Ops: []sdl.Op{}, Frags: []sdl.Frag{}, OpName: opName}
	for _, op := range q.Operations {
		o := sdl.Op{Op: string(op.Operation), Name: op.Name, Vars: []sdl.VarDef{}, Dirs: convDirs(op.Directives), Sel: convSel(op.SelectionSet)}
		for _, v := range op.VariableDefinitions {
			o.Vars = append(o.Vars, sdl.VarDef{Name: v.Variable, Type: convType(v.Type), Def: convValue(v.DefaultValue), Dirs: convDirs(v.Directives)})
		}
		d.Ops = append(d.Ops, o)
	}
	for _, f := range q.Fragments {
		d.Frags = append(d.Frags, sdl.Frag{Name: f.Name, On: f.TypeCondition, Dirs: convDirs(f.Directives), Sel: convSel(f.SelectionSet)})
	}
	return d, nil
}

// JSONValue converts a JSON value (request variables) into a tagged value.
func JSONValue(raw []byte) (sdl.Value, error) {
	dec := json.NewDecoder(bytes.NewReader(raw))
	dec.UseNumber()
	var x any
	if err := dec.Decode(&x); err != nil {
		return sdl.Value{}, err
	}
	if dec.More() {
		return sdl.Value{}, fmt.Errorf("trailing data after JSON value")
	}
	return fromAny(raw, x)
}

func fromAny(raw []byte, x any) (sdl.Value, error) {
	switch t := x.(type) {
	case nil:
		return sdl.Value{T: "n"}, nil
	case bool:
		return sdl.Value{T: "b", B: t}, nil
	case string:
		return sdl.Value{T: "s", Str: t}, nil
	case json.Number:
		s := t.String()
		if !strings.ContainsAny(s, ".eE") {
			return intValue(s), nil
		}
		return sdl.Value{T: "f", Str: CanonFloat(s)}, nil
	case []any:
		out := sdl.Value{T: "l", L: make([]sdl.Value, 0, len(t))}
		for _, e := range t {
			v, err := fromAny(nil, e)
			if err != nil {
				return out, err
			}
			out.L = append(out.L, v)
		}
		return out, nil
	case map[string]any:
		// key order: sorted (JSON objects are unordered; duplicates are rejected by StrictVars before)
		ks := make([]string, 0, len(t))
		for k := range t {
			ks = append(ks, k)
		}
		sort.Strings(ks)
		out := sdl.Value{T: "o", K: ks, O: make([]sdl.Value, 0, len(ks))}
		for _, k := range ks {
			v, err := fromAny(nil, t[k])
			if err != nil {
				return out, err
			}
			out.O = append(out.O, v)
		}
		return out, nil
	}
	return sdl.Value{}, fmt.Errorf("unexpected JSON value %T", x)
}

// StrictVars checks that raw is strictly valid JSON, exactly one object, without duplicate keys at any level, and
// returns its members as request variables (sorted by name).
func StrictVars(raw []byte) ([]sdl.Var, error) {
	if err := strictJSON(raw); err != nil {
		return nil, err
	}
	v, err := JSONValue(raw)
	if err != nil {
		return nil, err
	}
	if v.T != "o" {
		return nil, fmt.Errorf("variables are not a JSON object")
	}
	out := make([]sdl.Var, 0, len(v.K))
	for i := range v.K {
		out = append(out, sdl.Var{Name: v.K[i], Value: v.O[i]})
	}
	return out, nil
}

func strictJSON(raw []byte) error {
	if !json.Valid(raw) {
		return fmt.Errorf("not valid JSON")
	}
	dec := json.NewDecoder(bytes.NewReader(raw))
	dec.UseNumber()
	var walk func() error
	walk = func() error {
		tok, err := dec.Token()
		if err != nil {
			return err
		}
		if d, ok := tok.(json.Delim); ok {
			switch d {
			case '{':
				seen := map[string]bool{}
				for dec.More() {
					k, err := dec.Token()
					if err != nil {
						return err
					}
					ks := k.(string)
					if seen[ks] {
						return fmt.Errorf("duplicate key %q", ks)
					}
					seen[ks] = true
					if err := walk(); err != nil {
						return err
					}
				}
				_, err = dec.Token()
				return err
			case '[':
				for dec.More() {
					if err := walk(); err != nil {
						return err
					}
				}
				_, err = dec.Token()
				return err
			}
		}
		return nil
	}
	if err := walk(); err != nil {
		return err
	}
	if dec.More() {
		return fmt.Errorf("trailing data")
	}
	return nil
}

// ---------------------------------------------------------------------------------------------- schema

var builtinDirectives = map[string]bool{"skip": true, "include": true, "deprecated": true, "specifiedBy": true, "defer": true, "oneOf": true, "stream": true}
var builtinScalars = map[string]bool{"Int": true, "Float": true, "String": true, "Boolean": true, "ID": true}

func convArgDefs(args ast.ArgumentDefinitionList) sdl.FMap[sdl.ArgDef] {
	out := sdl.FMap[sdl.ArgDef]{}
	for _, a := range args {
		out[a.Name] = sdl.ArgDef{Type: convType(a.Type), Def: convValue(a.DefaultValue)}
	}
	return out
}

func sortedCopy(xs []string) []string {
	ys := append([]string{}, xs...)
	sort.Strings(ys)
	return ys
}

// LoadSchema loads SDL with gqlparser (which also validates it as a type system document).
func LoadSchema(sdlText string) (*ast.Schema, error) {
	s, err := gqlparser.LoadSchema(&ast.Source{Name: "schema", Input: sdlText})
	if err != nil {
		return nil, err
	}
	return s, nil
}

// SchemaToSpec converts a loaded schema back to the spec form (built-ins and introspection types removed).
func SchemaToSpec(id string, s *ast.Schema) *sdl.Schema {
	out := &sdl.Schema{ID: id, Types: sdl.FMap[sdl.TypeDef]{}, Directives: sdl.FMap[sdl.DirDef]{}}
	if s.Query != nil {
		out.Query = s.Query.Name
	}
	if s.Mutation != nil {
		out.Mutation = s.Mutation.Name
	}
	if s.Subscription != nil {
		out.Subscription = s.Subscription.Name
	}
	for name, d := range s.Types {
		if strings.HasPrefix(name, "__") || builtinScalars[name] || d.BuiltIn {
			continue
		}
		td := sdl.TypeDef{Fields: sdl.FMap[sdl.FieldDef]{}, Ifaces: []string{}, Members: []string{}, Values: []string{}}
		switch d.Kind {
		case ast.Scalar:
			td.Kind = "SCALAR"
		case ast.Enum:
			td.Kind = "ENUM"
			for _, v := range d.EnumValues {
				td.Values = append(td.Values, v.Name)
			}
			td.Values = sortedCopy(td.Values)
		case ast.Union:
			td.Kind = "UNION"
			td.Members = sortedCopy(d.Types)
		case ast.InputObject:
			td.Kind = "INPUT"
			for _, f := range d.Fields {
				td.Fields[f.Name] = sdl.FieldDef{Type: convType(f.Type), Args: sdl.FMap[sdl.ArgDef]{}, Def: convValue(f.DefaultValue)}
			}
		case ast.Object, ast.Interface:
			td.Kind = string(d.Kind)
			td.Ifaces = sortedCopy(d.Interfaces)
			for _, f := range d.Fields {
				if strings.HasPrefix(f.Name, "__") {
					continue
				}
				td.Fields[f.Name] = sdl.FieldDef{Type: convType(f.Type), Args: convArgDefs(f.Arguments), Def: sdl.Value{T: "x"}}
			}
		}
		out.Types[name] = td
	}
	for name, d := range s.Directives {
		if builtinDirectives[name] {
			continue
		}
		locs := []string{}
		for _, l := range d.Locations {
			locs = append(locs, string(l))
		}
		out.Directives[name] = sdl.DirDef{Locs: sortedCopy(locs), Args: convArgDefs(d.Arguments), Repeatable: d.IsRepeatable}
	}
	return out
}

// NormalizeSchema sorts the set-valued members so that two schemas can be compared as JSON.
func NormalizeSchema(s *sdl.Schema) *sdl.Schema {
	out := *s
	out.Types = sdl.FMap[sdl.TypeDef]{}
	for n, td := range s.Types {
		if strings.HasPrefix(n, "__") {
			continue
		}
		td.Ifaces, td.Members, td.Values = sortedCopy(td.Ifaces), sortedCopy(td.Members), sortedCopy(td.Values)
		out.Types[n] = td
	}
	out.Directives = sdl.FMap[sdl.DirDef]{}
	for n, dd := range s.Directives {
		dd.Locs = sortedCopy(dd.Locs)
		out.Directives[n] = dd
	}
	return &out
}

// ---------------------------------------------------------------------------------------------- calibration

// Calibrate runs gqlparser's validator on the document and returns the names of the violated rules, without
// the rules that concern definitions the admission sequence discards (unused fragments / other operations).
// Used only to calibrate the TLA+ transcription while building the spec; never part of a verdict.
func Calibrate(schema *ast.Schema, text string) (rules []string, parseErr error) {
	q, err := parser.ParseQuery(&ast.Source{Input: text})
	if err != nil {
		return nil, err
	}
	errs := validator.Validate(schema, q)
	seen := map[string]bool{}
	for _, e := range errs {
		if e.Rule == "NoUnusedFragments" {
			continue
		}
		if !seen[e.Rule] {
			seen[e.Rule] = true
			rules = append(rules, e.Rule)
		}
	}
	sort.Strings(rules)
	return rules, nil
}
