package main

import (
	"fmt"
	"reflect"
	"sort"
	"strings"
)

// dumpValue prints a deterministic, address-free rendering of an arbitrary Go value (a plan):
// every field (exported or not) of every struct that belongs to graphql-go-tools is walked, map
// entries are sorted by their rendered key, pointers are followed (cycles are cut with a
// back reference marker), funcs/chans are rendered as nil / non-nil only. Values of types that are
// not plan data (data source instances with their http clients, loggers, mutexes, contexts)
// are rendered by type name only.
//
// The dump is what "the printed plan" means for the determinism part of C09: response shape
// (resolve.Object tree incl. paths, nullability, type names, skip/include variable names, defer
// ids), fetch tree (kinds, ids, dependencies, input templates = subgraph operations + variable
// segments, post-processing configuration, representations, coordinates).
type dumper struct {
	sb    strings.Builder
	seen  map[uintptr]int
	depth int
	skip  map[string]bool // struct field names never descended into
}

const repoPkg = "github.com/wundergraph/graphql-go-tools"

func dumpValue(v any, skipFields ...string) string {
	d := &dumper{seen: map[uintptr]int{}, skip: map[string]bool{}}
	for _, s := range skipFields {
		d.skip[s] = true
	}
	d.walk(reflect.ValueOf(v))
	return d.sb.String()
}

func (d *dumper) opaque(t reflect.Type) bool {
	p := t.PkgPath()
	if p == "" {
		return false
	}
	if !strings.HasPrefix(p, repoPkg) {
		// foreign struct types: sync.Mutex, http.Client, context, astjson.Value, ...
		return true
	}
	if strings.Contains(p, "/datasource/") {
		// concrete DataSource implementations (http client, subscription client, ...)
		return true
	}
	return false
}

func (d *dumper) walk(v reflect.Value) {
	if !v.IsValid() {
		d.sb.WriteString("nil")
		return
	}
	d.depth++
	defer func() { d.depth-- }()
	if d.depth > 200 {
		d.sb.WriteString("<deep>")
		return
	}
	t := v.Type()
	switch v.Kind() {
	case reflect.Bool:
		fmt.Fprintf(&d.sb, "%v", v.Bool())
	case reflect.Int, reflect.Int8, reflect.Int16, reflect.Int32, reflect.Int64:
		fmt.Fprintf(&d.sb, "%d", v.Int())
	case reflect.Uint, reflect.Uint8, reflect.Uint16, reflect.Uint32, reflect.Uint64, reflect.Uintptr:
		fmt.Fprintf(&d.sb, "%d", v.Uint())
	case reflect.Float32, reflect.Float64:
		fmt.Fprintf(&d.sb, "%g", v.Float())
	case reflect.String:
		fmt.Fprintf(&d.sb, "%q", v.String())
	case reflect.Func, reflect.Chan, reflect.UnsafePointer:
		if v.IsNil() {
			d.sb.WriteString("nil")
		} else {
			d.sb.WriteString("<" + v.Kind().String() + ">")
		}
	case reflect.Interface:
		if v.IsNil() {
			d.sb.WriteString("nil")
			return
		}
		e := v.Elem()
		d.sb.WriteString("(" + e.Type().String() + ")")
		d.walk(e)
	case reflect.Ptr:
		if v.IsNil() {
			d.sb.WriteString("nil")
			return
		}
		if t.Elem().Kind() == reflect.Struct && d.opaque(t.Elem()) {
			d.sb.WriteString("&<" + t.Elem().String() + ">")
			return
		}
		p := v.Pointer()
		if _, ok := d.seen[p]; ok {
			d.sb.WriteString("<ref>")
			return
		}
		d.seen[p] = len(d.seen) + 1
		d.sb.WriteString("&")
		d.walk(v.Elem())
	case reflect.Slice:
		if v.IsNil() {
			d.sb.WriteString("nil")
			return
		}
		if t.Elem().Kind() == reflect.Uint8 {
			fmt.Fprintf(&d.sb, "b%q", string(v.Bytes()))
			return
		}
		fallthrough
	case reflect.Array:
		d.sb.WriteString("[")
		for i := 0; i < v.Len(); i++ {
			if i > 0 {
				d.sb.WriteString(",")
			}
			d.walk(v.Index(i))
		}
		d.sb.WriteString("]")
	case reflect.Map:
		if v.IsNil() {
			d.sb.WriteString("nil")
			return
		}
		type kv struct{ k, v string }
		var items []kv
		it := v.MapRange()
		for it.Next() {
			kd := &dumper{seen: d.seen, skip: d.skip, depth: d.depth}
			kd.walk(it.Key())
			vd := &dumper{seen: d.seen, skip: d.skip, depth: d.depth}
			vd.walk(it.Value())
			items = append(items, kv{kd.sb.String(), vd.sb.String()})
		}
		sort.Slice(items, func(i, j int) bool {
			if items[i].k != items[j].k {
				return items[i].k < items[j].k
			}
			return items[i].v < items[j].v
		})
		d.sb.WriteString("map{")
		for i, it := range items {
			if i > 0 {
				d.sb.WriteString(",")
			}
			d.sb.WriteString(it.k + ":" + it.v)
		}
		d.sb.WriteString("}")
	case reflect.Struct:
		if d.opaque(t) {
			d.sb.WriteString("<" + t.String() + ">")
			return
		}
		d.sb.WriteString(t.String() + "{")
		first := true
		for i := 0; i < v.NumField(); i++ {
			f := t.Field(i)
			if d.skip[f.Name] {
				continue
			}
			if !first {
				d.sb.WriteString(" ")
			}
			first = false
			d.sb.WriteString(f.Name + ":")
			d.walk(v.Field(i))
		}
		d.sb.WriteString("}")
	default:
		d.sb.WriteString("<" + v.Kind().String() + ">")
	}
}
