package main

import (
	"encoding/json"
	"fmt"
	"sync"
	"time"

	"verif/harness/internal/fedenv"
	"verif/harness/internal/quiesce"
)

// slowSubgraph executes r on a fresh engine with option set o while ONE subgraph answers later than everything else
// that can proceed: every exchange addressed to that subgraph is parked at the fedenv gate, and it is released only
// when the process is quiescent (internal/quiesce: every other goroutine is blocked), i.e. when every fetch the engine
// is willing to start without that answer has been started and has completed. No wall clock is involved: a plan
// that lets a fetch run before a dependency it needs (a dependency lost by an optimization) is driven into exactly
// the completion order that exposes it; for a correct plan the order is irrelevant.
// Not safe for concurrent use (quiescence is a property of the whole process).
func slowSubgraph(o int, r Req, slow string) (got string, held int, err error) {
	env, err := newEnv(o, true, r.Env)
	if err != nil {
		return "", 0, err
	}
	defer env.Close()
	var mu sync.Mutex
	var parked []func()
	env.SetInterceptor(func(x *fedenv.Exchange) fedenv.Action {
		if x.Subgraph != slow {
			return fedenv.Action{}
		}
		hold, release := fedenv.NewGate()
		mu.Lock()
		parked = append(parked, release)
		held++
		mu.Unlock()
		return fedenv.Action{Hold: hold}
	})
	done := make(chan string, 1)
	go func() { done <- execOnce(env, r).Resp }()
	finished := false
	t0 := time.Now()
	for !finished {
		quiesce.Wait(60*time.Second, func() bool {
			select {
			case got = <-done:
				finished = true
				return true
			default:
				return false
			}
		})
		if finished {
			break
		}
		mu.Lock()
		rel := parked
		parked = nil
		mu.Unlock()
		for _, f := range rel {
			f()
		}
		if len(rel) == 0 {
			// quiescent, nothing parked, not finished: the request is about to return (or wedged)
			select {
			case got = <-done:
				finished = true
			case <-time.After(20 * time.Millisecond):
			}
		}
		if time.Since(t0) > 120*time.Second {
			mu.Lock()
			for _, f := range parked {
				f()
			}
			mu.Unlock()
			return "", held, fmt.Errorf("request did not finish while %s was slow", slow)
		}
	}
	return got, held, nil
}

// runSlow: input lines {"id":..,"o":mask,"slow":"subgraph","r":Req}; output in the event format of -mode hist (mode
// "slow", one request per trace, g = 1); ref = the response of a fresh DEFAULT-option engine without any gate.
func runSlow(lines [][]byte, outPath, resPath string) {
	out := newOut(outPath)
	defer out.close()
	res := newOut(resPath)
	defer res.close()
	mm := &memo{m: map[string]Obs{}}
	for _, l := range lines {
		var c struct {
			ID   string `json:"id"`
			O    int    `json:"o"`
			Slow string `json:"slow"`
			R    Req    `json:"r"`
		}
		must(json.Unmarshal(l, &c))
		ref, err := mm.get(0, c.R)
		must(err)
		got, held, err := slowSubgraph(c.O, c.R, c.Slow)
		if err != nil {
			res.block([]event{{"h": c.ID, "o": c.O, "unrealised": err.Error()}})
			continue
		}
		out.block([]event{{"ev": "reset", "h": c.ID, "o": c.O, "mode": "slow", "cap": 1024},
			{"ev": "req", "g": 1, "pos": 1, "a": abstractOf(c.R), "hit": 2, "pid": 0, "len": 0, "resp": sha(got), "ref": sha(ref.Resp),
				"raweq": 1, "plan": "", "fplan": "", "bod": "", "fbod": "", "nx": held}})
		if got != ref.Resp {
			res.block([]event{{"h": c.ID, "o": c.O, "mode": "slow", "g": 1, "pos": 1, "req": c.R, "slow": c.Slow, "resp": clip(got), "ref": clip(ref.Resp),
				"diff": firstDiff(got, ref.Resp)}})
		}
	}
}
