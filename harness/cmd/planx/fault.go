package main

import (
	"encoding/json"
	"net/http"
	"sort"
	"strings"
	"sync"

	"verif/harness/internal/fedenv"
)

// faultAction maps a fault name to the fedenv action: deterministic faults of ONE subgraph (as a proxy in front of a
// subgraph that is down would produce them).
func faultAction(kind string) fedenv.Action {
	switch kind {
	case "502html":
		return fedenv.Action{Fault: fedenv.FaultCustom, Status: http.StatusBadGateway, Body: []byte("<html><body><h1>502 Bad Gateway</h1></body></html>"),
			Header: http.Header{"Content-Type": []string{"text/html"}}}
	case "503errors":
		return fedenv.Action{Fault: fedenv.FaultCustom, Status: http.StatusServiceUnavailable, Body: []byte(`{"errors":[{"message":"service unavailable","extensions":{"code":"DOWN"}}]}`)}
	case "200text":
		return fedenv.Action{Fault: fedenv.FaultNonJSON}
	case "200empty":
		return fedenv.Action{Fault: fedenv.FaultEmptyBody}
	case "transport":
		return fedenv.Action{Fault: fedenv.FaultTransport}
	case "datanull":
		return fedenv.Action{Fault: fedenv.FaultDataNull}
	}
	return fedenv.Action{}
}

// canonFault: canonical form of a response under a fault: data key-sorted, errors as a SORTED multiset of complete
// error objects (message, path, extensions, locations) - the order in which parallel fetches report is not compared.
func canonFault(resp string) string {
	if strings.HasPrefix(resp, "ERR:") || strings.HasPrefix(resp, "PANIC:") {
		return resp
	}
	var doc map[string]json.RawMessage
	if json.Unmarshal([]byte(resp), &doc) != nil {
		return resp
	}
	var errs []json.RawMessage
	if json.Unmarshal(doc["errors"], &errs) == nil && len(errs) > 0 {
		ss := make([]string, len(errs))
		for i, e := range errs {
			ss[i], _ = canonJSON(e)
		}
		sort.Strings(ss)
		b, _ := json.Marshal(ss)
		doc["errors"] = b
	}
	b, _ := json.Marshal(doc)
	c, _ := canonJSON(b)
	return c
}

// faultRun executes r on a fresh engine with option set o while every request (scope "all") or every _entities
// request (scope "entities") to one subgraph is answered with the given fault.
func faultRun(o int, r Req, sub, kind, scope string) (string, int, error) {
	env, err := newEnv(o, true, r.Env)
	if err != nil {
		return "", 0, err
	}
	defer env.Close()
	hits := 0
	var hmu sync.Mutex
	env.SetInterceptor(func(x *fedenv.Exchange) fedenv.Action {
		if x.Subgraph != sub || (scope == "entities" && !strings.Contains(x.Query, "_entities")) {
			return fedenv.Action{}
		}
		hmu.Lock()
		hits++
		hmu.Unlock()
		return faultAction(kind)
	})
	got := canonFault(execOnce(env, r).Resp)
	return got, hits, nil
}

// runFault: input lines {"id":..,"o":mask,"sub":"subgraph","fault":"502html|..","scope":"entities|all","r":Req}; output in the
// event format of -mode hist (mode "fault", one request per trace, g = 1); ref = a fresh DEFAULT-option engine under the SAME
// fault.
func runFault(lines [][]byte, outPath, resPath string, workers int) {
	out := newOut(outPath)
	defer out.close()
	res := newOut(resPath)
	defer res.close()
	var mu sync.Mutex
	refs := map[string]string{}
	parallel(len(lines), workers, func(i int) {
		var c struct {
			ID    string `json:"id"`
			O     int    `json:"o"`
			Sub   string `json:"sub"`
			Fault string `json:"fault"`
			Scope string `json:"scope"`
			R     Req    `json:"r"`
		}
		must(json.Unmarshal(lines[i], &c))
		rk := c.Sub + "\x00" + c.Fault + "\x00" + c.Scope + "\x00" + c.R.key()
		mu.Lock()
		ref, ok := refs[rk]
		mu.Unlock()
		if !ok {
			var err error
			ref, _, err = faultRun(0, c.R, c.Sub, c.Fault, c.Scope)
			must(err)
			mu.Lock()
			refs[rk] = ref
			mu.Unlock()
		}
		got, hits, err := faultRun(c.O, c.R, c.Sub, c.Fault, c.Scope)
		must(err)
		out.block([]event{{"ev": "reset", "h": c.ID, "o": c.O, "mode": "fault", "cap": 1024},
			{"ev": "req", "g": 1, "pos": 1, "a": abstractOf(c.R), "hit": 2, "pid": 0, "len": 0, "resp": sha(got), "ref": sha(ref),
				"raweq": 1, "plan": "", "fplan": "", "bod": "", "fbod": "", "nx": hits}})
		if got != ref {
			// what differs: the data a client receives ("data") or only the errors ("errors")
			cls := "errors"
			var gd, rd struct {
				Data json.RawMessage `json:"data"`
			}
			if json.Unmarshal([]byte(got), &gd) != nil || json.Unmarshal([]byte(ref), &rd) != nil || string(gd.Data) != string(rd.Data) {
				cls = "data"
			}
			res.block([]event{{"h": c.ID, "o": c.O, "mode": "fault", "g": 1, "pos": 1, "req": c.R, "sub": c.Sub, "fault": c.Fault, "scope": c.Scope, "cls": cls,
				"resp": clip(got), "ref": clip(ref), "diff": firstDiff(got, ref)}})
		}
	})
}
