package main

import (
	"bytes"
	"encoding/json"
	"fmt"
	"sort"
)

// mergeFrames folds the payloads of an incremental (@defer) delivery into the one document a non-incremental
// execution would have produced: pending announces id -> path, every incremental item is merged into the object at
// path ++ subPath. Errors of all payloads are collected (sorted, so that the completion order does not matter).
// The result is canonical JSON {"data":..,"errors":[..]?,"frames":"incremental"}.
func mergeFrames(frames [][]byte) (string, error) {
	dec := func(b []byte) (map[string]any, error) {
		d := json.NewDecoder(bytes.NewReader(b))
		d.UseNumber()
		var m map[string]any
		if err := d.Decode(&m); err != nil {
			return nil, fmt.Errorf("frame is not a JSON object: %s", b)
		}
		return m, nil
	}
	if len(frames) == 0 {
		return "", fmt.Errorf("no frames")
	}
	first, err := dec(frames[0])
	if err != nil {
		return "", err
	}
	data := first["data"]
	var errs []string
	addErrs := func(v any) {
		if l, ok := v.([]any); ok {
			for _, e := range l {
				b, _ := json.Marshal(e)
				errs = append(errs, string(b))
			}
		}
	}
	addErrs(first["errors"])
	pending := map[string][]any{}
	notePending := func(m map[string]any) {
		if l, ok := m["pending"].([]any); ok {
			for _, p := range l {
				if pm, ok := p.(map[string]any); ok {
					id, _ := pm["id"].(string)
					path, _ := pm["path"].([]any)
					pending[id] = path
				}
			}
		}
	}
	notePending(first)
	walk := func(path []any) (map[string]any, error) {
		cur := data
		for _, seg := range path {
			switch s := seg.(type) {
			case string:
				m, ok := cur.(map[string]any)
				if !ok {
					return nil, fmt.Errorf("path %v does not lead to an object", path)
				}
				cur = m[s]
			case json.Number:
				i, _ := s.Int64()
				l, ok := cur.([]any)
				if !ok || int(i) >= len(l) {
					return nil, fmt.Errorf("path %v does not lead to a list item", path)
				}
				cur = l[i]
			}
		}
		m, ok := cur.(map[string]any)
		if !ok {
			return nil, fmt.Errorf("path %v does not lead to an object", path)
		}
		return m, nil
	}
	for _, f := range frames[1:] {
		m, err := dec(f)
		if err != nil {
			return "", err
		}
		notePending(m)
		addErrs(m["errors"])
		if l, ok := m["incremental"].([]any); ok {
			for _, it := range l {
				im, _ := it.(map[string]any)
				id, _ := im["id"].(string)
				base, ok := pending[id]
				if !ok {
					return "", fmt.Errorf("incremental item for unannounced id %q", id)
				}
				sub, _ := im["subPath"].([]any)
				target, err := walk(append(append([]any{}, base...), sub...))
				if err != nil {
					return "", err
				}
				if d, ok := im["data"].(map[string]any); ok {
					for k, v := range d {
						target[k] = v
					}
				}
				addErrs(im["errors"])
			}
		}
		if l, ok := m["completed"].([]any); ok {
			for _, c := range l {
				if cm, ok := c.(map[string]any); ok {
					addErrs(cm["errors"])
				}
			}
		}
	}
	out := map[string]any{"data": data, "frames": "incremental"}
	if len(errs) > 0 {
		sort.Strings(errs)
		out["errors"] = errs
	}
	b, _ := json.Marshal(out)
	return string(b), nil
}
