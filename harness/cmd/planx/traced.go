package main

import (
	"context"
	"fmt"
	"sync/atomic"
	"time"

	"github.com/wundergraph/graphql-go-tools/execution/engine"
	"github.com/wundergraph/graphql-go-tools/v2/pkg/engine/resolve"

	"verif/harness/internal/fedenv"
)

// Request tracing (engine.WithRequestTraceOptions) puts the trace of every fetch into the response extensions.
// With predictable timings and without load statistics the traced response of a request is a pure function of the
// request, so it can be compared like any other response.
func traceOpts() engine.ExecutionOptions {
	return engine.WithRequestTraceOptions(resolve.TraceOptions{
		Enable:                                 true,
		ExcludeParseStats:                      true,
		ExcludeNormalizeStats:                  true,
		ExcludeValidateStats:                   true,
		ExcludePlannerStats:                    true,
		ExcludeLoadStats:                       true,
		ExcludeRawInputData:                    true, // a snapshot of the parent data: for parallel fetches it depends on which sibling merged first
		EnablePredictableDebugTimings:          true,
		IncludeTraceOutputInResponseExtensions: true,
		Debug:                                  true,
	})
}

func execTraced(env *fedenv.Env, r Req) string {
	ctx, cancel := context.WithTimeout(context.Background(), 120*time.Second)
	defer cancel()
	body, err := env.Execute(ctx, r.Q, r.V, r.Op, traceOpts())
	if ctx.Err() != nil {
		must(fmt.Errorf("traced request did not finish within 120s: %s", r.Q))
	}
	if err != nil {
		return "ERR:" + err.Error()
	}
	c, _ := canonJSON(body)
	return c
}

// gatedPair: two requests A and B (typically the same normalized operation, so that they share one cached plan) are
// executed on one engine with option set o in a FORCED interleaving: A is parked inside its first subgraph request
// (fedenv gate), B then runs from start to end, A is released and finishes.  traced = both carry request tracing.
// References come from fresh engines with the same option set (a traced response embeds the subgraph requests,
// which legitimately depend on the option set).
func gatedPair(o int, a, b Req, traced bool) (gotA, refA, gotB, refB string, err error) {
	run := func(env *fedenv.Env, r Req) string {
		if traced {
			return execTraced(env, r)
		}
		return execOnce(env, r).Resp
	}
	fa, err := newEnv(o, true, a.Env)
	if err != nil {
		return
	}
	refA = run(fa, a)
	fa.Close()
	fb, err := newEnv(o, true, b.Env)
	if err != nil {
		return
	}
	refB = run(fb, b)
	fb.Close()

	env, err := newEnv(o, true, a.Env)
	if err != nil {
		return
	}
	defer env.Close()
	// the plan cache already holds the plan (an untraced request of B's form came first)
	_ = execOnce(env, b)
	hold, release := fedenv.NewGate()
	defer release()
	arrived := make(chan struct{}, 1)
	var armed atomic.Bool
	armed.Store(true)
	env.SetInterceptor(func(x *fedenv.Exchange) fedenv.Action {
		// only A is running while the gate is armed: the first exchange that arrives is A's first subgraph request
		if armed.CompareAndSwap(true, false) {
			arrived <- struct{}{}
			return fedenv.Action{Hold: hold}
		}
		return fedenv.Action{}
	})
	done := make(chan string, 1)
	go func() { done <- run(env, a) }()
	select {
	case <-arrived:
	case gotA = <-done:
		// A needed no subgraph request (rejected before planning): nothing to interleave
		armed.Store(false)
		gotB = run(env, b)
		return
	case <-time.After(60 * time.Second):
		return "", refA, "", refB, fmt.Errorf("request A never reached a subgraph")
	}
	gotB = run(env, b)
	release()
	select {
	case gotA = <-done:
	case <-time.After(60 * time.Second):
		return "", refA, gotB, refB, fmt.Errorf("request A never returned")
	}
	return
}
