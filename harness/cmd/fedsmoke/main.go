// Command fedsmoke is the smoke test of internal/fedenv: three fault-free queries (single subgraph, entity
// fetch across two subgraphs, three subgraphs) and one faulted + gated run, printing responses and exchanges.
package main

import (
	"context"
	"encoding/json"
	"fmt"
	"os"
	"time"

	"verif/harness/internal/fedenv"
)

func must(err error) {
	if err != nil {
		fmt.Fprintln(os.Stderr, "fedsmoke:", err)
		os.Exit(1)
	}
}

func dump(env *fedenv.Env) {
	for _, x := range env.Exchanges() {
		fmt.Printf("  #%d(done %d) %-8s fault=%s status=%d err=%q\n      -> %s\n      <- %s\n", x.Seq, x.DoneSeq, x.Subgraph, x.Fault, x.Status, x.Err, x.RequestText, x.ResponseText)
	}
	if t := env.LastFetchTree(); t != nil {
		b, _ := json.Marshal(t.QueryPlan())
		if len(b) > 600 {
			b = append(b[:600], "..."...)
		}
		fmt.Printf("  plan: %s\n", b)
	}
}

func main() {
	env, err := fedenv.New(fedenv.Options{})
	must(err)
	defer env.Close()
	ctx, cancel := context.WithTimeout(context.Background(), 20*time.Second)
	defer cancel()
	qs := []struct{ name, q string }{
		{"single subgraph", `query Q1 { me { id username } }`},
		{"entity fetch across 2 subgraphs", `query Q2 { me { username reviews { body } } }`},
		{"3 subgraphs", `query Q3 { me { username reviews { body product { upc name price } } } }`},
	}
	for _, q := range qs {
		env.Reset()
		out, err := env.Execute(ctx, q.q, "", "")
		must(err)
		fmt.Printf("== %s\n  response: %s\n", q.name, out)
		if !json.Valid(out) {
			must(fmt.Errorf("response is not valid JSON"))
		}
		dump(env)
	}
	// fault + gate demo: the products entity fetch fails with 500/HTML, the reviews fetch is held until released
	env.Reset()
	hold, release := fedenv.NewGate()
	arrived := make(chan string, 8)
	env.SetInterceptor(func(x *fedenv.Exchange) fedenv.Action {
		arrived <- x.Subgraph
		switch x.Subgraph {
		case "products":
			return fedenv.Action{Fault: fedenv.FaultStatus500HTML}
		case "reviews":
			return fedenv.Action{Hold: hold}
		}
		return fedenv.Action{}
	})
	go func() {
		for s := range arrived {
			if s == "reviews" {
				time.Sleep(20 * time.Millisecond)
				release()
			}
		}
	}()
	out, err := env.Execute(ctx, qs[2].q, "", "")
	must(err)
	fmt.Printf("== 3 subgraphs, products=500 html, reviews gated\n  response: %s\n", out)
	dump(env)
	close(arrived)
	// entities one short + Cache-Control header on the accounts response
	env.Reset()
	env.SetInterceptor(func(x *fedenv.Exchange) fedenv.Action {
		if x.Subgraph == "products" {
			return fedenv.Action{Fault: fedenv.FaultEntitiesShort}
		}
		return fedenv.Action{Header: map[string][]string{"Cache-Control": {"max-age=60"}}}
	})
	out, err = env.Execute(ctx, qs[2].q, "", "")
	must(err)
	fmt.Printf("== 3 subgraphs, products _entities one short\n  response: %s\n", out)
	dump(env)
	// @defer through ExecuteFull
	env.Reset()
	env.SetInterceptor(nil)
	res, err := env.ExecuteFull(ctx, `query D { me { username ... @defer { reviews { body } } } }`, "", "D")
	must(err)
	fmt.Printf("== defer: %d frames, completed=%d overlap=%v\n", len(res.Frames), res.Completed, res.Overlap)
	for i, f := range res.Frames {
		fmt.Printf("  frame %d: %s\n", i, f)
	}
	// mutation with variables
	env.Reset()
	out, err = env.Execute(ctx, `mutation M($a: String!, $u: String!, $r: String!) { addReview(authorID: $a, upc: $u, review: $r) { body author { username } } }`,
		`{"a":"3210","u":"top-1","r":"nice"}`, "M")
	must(err)
	fmt.Printf("== mutation\n  response: %s\n", out)
	dump(env)
	fmt.Println("supergraph SDL bytes:", len(env.SupergraphSDL()))
}
