// Command sf replays TLC-generated schedules of the single-flight specifications
// (spec/conc/SingleFlightInbound.tla, SingleFlightSubgraph.tla) into the real
// resolve.Resolver.ArenaResolveGraphQLResponse and records what the code did.
//
// Input  (-in):  NDJSON, one schedule per line:
//
//	{"id":"..","level":"inbound|subgraph","reqs":[{"key":1,"hdr":0,"op":"query|mutation|subscription","work":"ok|err"}],
//	 "steps":[{"r":1,"act":"Arrive"},{"r":2,"act":"Cancel"},...]}
//
// Output (-out): NDJSON event stream ready for TLC trace validation (one event per line, traces
// separated by {"ev":"reset",...}) and (-res) one result line per schedule with the Go-side oracle.
package main

import (
	"bufio"
	"bytes"
	"context"
	"encoding/json"
	"errors"
	"flag"
	"fmt"
	"io"
	"net/http"
	"os"
	"strings"
	"sync"
	"sync/atomic"
	"time"

	"github.com/wundergraph/graphql-go-tools/v2/pkg/ast"
	"github.com/wundergraph/graphql-go-tools/v2/pkg/engine/datasource/httpclient"
	"github.com/wundergraph/graphql-go-tools/v2/pkg/engine/resolve"

	"verif/harness/internal/sched"
)

type Req struct {
	Key  int    `json:"key"`  // operation identity (Request.ID and the payload)
	Vars int    `json:"vars"` // variables hash
	Hdr  int    `json:"hdr"`  // forwarded headers hash
	Op   string `json:"op"`   // query | mutation | subscription
	Work string `json:"work"` // ok | err (a failure this request would also hit on its own)
	// WFail: this request's own client writer fails every Write (broken pipe). That is the request's own problem:
	// it must never become another participant's error, and the shared result is still published.
	WFail bool `json:"wfail"`
}

type Step struct {
	R   int    `json:"r"`
	Act string `json:"act"`
}

type Schedule struct {
	ID    string `json:"id"`
	Level string `json:"level"`
	Reqs  []Req  `json:"reqs"`
	Steps []Step `json:"steps"`
}

type Result struct {
	ID          string   `json:"id"`
	Outs        []string `json:"outs"` // per request: "data:<bytes>" | "err:<msg>" | "none"
	Solo        []string `json:"solo"` // what the request returns when run alone
	Panic       string   `json:"panic"`
	Wedged      []int    `json:"wedged"`
	Unrealised  int      `json:"unrealised"` // steps that could not be taken as scheduled
	Drained     bool     `json:"drained"`
	DSCalls     []int    `json:"ds_calls"` // per request: number of data source invocations it performed
	Cancelled   []bool   `json:"cancelled"`
	Events      int      `json:"events"`
	AliasBroken []int    `json:"alias_broken"` // requests whose bytes changed after buffers were recycled
}

type hdrBuilder struct{ h uint64 }

func (b hdrBuilder) HeadersForSubgraph(string) (http.Header, uint64) {
	return http.Header{"X-H": []string{fmt.Sprint(b.h)}}, b.h
}
func (b hdrBuilder) HashAll() uint64 { return b.h }

var errUpstream = errors.New("verif: upstream failure of the shared work")

type authz struct{ fail bool }

func (a authz) AuthorizePreFetch(ctx *resolve.Context, dataSourceID string, input json.RawMessage, coordinate resolve.GraphCoordinate) (*resolve.AuthorizationDeny, error) {
	return nil, nil
}
func (a authz) AuthorizeObjectField(ctx *resolve.Context, dataSourceID string, object json.RawMessage, coordinate resolve.GraphCoordinate) (*resolve.AuthorizationDeny, error) {
	if a.fail {
		return nil, errUpstream
	}
	return nil, nil
}
func (a authz) HasResponseExtensionData(ctx *resolve.Context) bool { return false }
func (a authz) RenderResponseExtension(ctx *resolve.Context, out io.Writer) error {
	return nil
}

// gatedDS is the fake subgraph. Every call parks at "ds.load" (harness-side gate) and then answers
// with a payload that is a function of the input only.
type gatedDS struct {
	ctl   *sched.Controller
	calls *[]int32
	mu    *sync.Mutex
}

type actorKey struct{}
type dsFailKey struct{}

func (d gatedDS) Load(ctx context.Context, headers http.Header, input []byte) ([]byte, error) {
	actor, _ := ctx.Value(actorKey{}).(int)
	d.mu.Lock()
	if actor > 0 && actor <= len(*d.calls) {
		(*d.calls)[actor-1]++
	}
	d.mu.Unlock()
	d.ctl.Point("ds.load", uint64(actor), 0)
	if err := ctx.Err(); err != nil {
		return nil, err
	}
	if fail, _ := ctx.Value(dsFailKey{}).(bool); fail {
		return nil, errUpstream
	}
	// answer depends on the input only (consistent data universe)
	h := 0
	for _, c := range input {
		h = (h*31 + int(c)) % 1000003
	}
	return []byte(fmt.Sprintf(`{"data":{"v":"val-%d-%s"}}`, h, bytes.Repeat([]byte("x"), 40))), nil
}

func (d gatedDS) LoadWithFiles(ctx context.Context, headers http.Header, input []byte, files []*httpclient.FileUpload) ([]byte, error) {
	return d.Load(ctx, headers, input)
}

func opType(s string) ast.OperationType {
	switch s {
	case "mutation":
		return ast.OperationTypeMutation
	case "subscription":
		return ast.OperationTypeSubscription
	}
	return ast.OperationTypeQuery
}

func buildResponse(ds resolve.DataSource, q Req, level string) *resolve.GraphQLResponse {
	input := fmt.Sprintf(`{"method":"POST","url":"http://sg","body":{"query":"{v(k:%d)}"}}`, q.Key)
	fop := opType(q.Op)
	return &resolve.GraphQLResponse{
		Info: &resolve.GraphQLResponseInfo{OperationType: opType(q.Op)},
		Fetches: resolve.Single(&resolve.SingleFetch{
			FetchConfiguration: resolve.FetchConfiguration{
				DataSource:     ds,
				Input:          input,
				PostProcessing: resolve.PostProcessingConfiguration{SelectResponseDataPath: []string{"data"}},
			},
			InputTemplate: resolve.InputTemplate{Segments: []resolve.TemplateSegment{{SegmentType: resolve.StaticSegmentType, Data: []byte(input)}}},
			Info:          &resolve.FetchInfo{DataSourceID: "sg", DataSourceName: "sg", OperationType: fop, RootFields: []resolve.GraphCoordinate{{TypeName: "Query", FieldName: "v"}}},
		}),
		Data: &resolve.Object{
			Fields: []*resolve.Field{{
				Name:  []byte("v"),
				Value: &resolve.String{Path: []string{"v"}, Nullable: true},
				Info: &resolve.FieldInfo{Name: "v", ExactParentTypeName: "Query", ParentTypeNames: []string{"Query"}, NamedType: "String",
					Source: resolve.TypeFieldSource{IDs: []string{"sg"}, Names: []string{"sg"}}, HasAuthorizationRule: true},
			}},
		},
	}
}

type capture struct {
	buf   []byte
	scrub func()
	fail  bool
}

var errClientWrite = errors.New("verif: this client's connection is broken (write failed)")

// Write is the client writer. Before it copies p it lets another, unrelated request run to completion on the
// same resolver (scrub): arenas released by earlier participants are recycled (the pools are LIFO) and
// overwritten, so a follower that was handed a buffer which is still owned by somebody else observes
// corrupted bytes here - exactly what a slow client would see in production.
func (c *capture) Write(p []byte) (int, error) {
	if c.scrub != nil {
		c.scrub()
	}
	c.buf = append(c.buf, p...)
	if c.fail {
		// the bytes that were attempted are kept: the verdict about WHAT was to be delivered does not depend on
		// whether this client could still receive it
		return 0, errClientWrite
	}
	return len(p), nil
}

func newCtx(parent context.Context, actor int, q Req, level string) *resolve.Context {
	cctx := context.WithValue(parent, actorKey{}, actor)
	cctx = context.WithValue(cctx, dsFailKey{}, level == "subgraph" && q.Work == "err")
	rc := resolve.NewContext(cctx)
	rc.Request.ID = uint64(1000 + q.Key)
	rc.VariablesHash = uint64(q.Vars)
	rc.SubgraphHeadersBuilder = hdrBuilder{uint64(q.Hdr)}
	rc.SetAuthorizer(authz{fail: level != "subgraph" && q.Work == "err"})
	if level == "subgraph" {
		rc.ExecutionOptions.DisableInboundRequestDeduplication = true
	} else {
		rc.ExecutionOptions.DisableSubgraphRequestDeduplication = true
	}
	return rc
}

func runSolo(q Req, level string) string {
	ctl := sched.New()
	ctl.Drain(0)
	calls := make([]int32, 1)
	ds := gatedDS{ctl: ctl, calls: &calls, mu: &sync.Mutex{}}
	r := resolve.New(context.Background(), resolve.ResolverOptions{MaxConcurrency: 16})
	rc := newCtx(context.Background(), 1, q, level)
	w := &capture{}
	_, err := r.ArenaResolveGraphQLResponse(rc, buildResponse(ds, q, level), w)
	if err != nil {
		return "err:" + err.Error()
	}
	return "data:" + string(w.buf)
}

var panicMsg atomic.Value

func runSchedule(s Schedule, evw *bufio.Writer) Result {
	n := len(s.Reqs)
	res := Result{ID: s.ID, Outs: make([]string, n), Solo: make([]string, n), DSCalls: make([]int, n), Cancelled: make([]bool, n)}
	for i, q := range s.Reqs {
		res.Solo[i] = runSolo(q, s.Level)
	}
	ctl := sched.New()
	ctl.StepWait = 150 * time.Millisecond
	// other checks add hook points of their own (ld.*, sub.*, ...): this driver only knows sfi.* / sfs.*
	resolve.VerifHook = func(point string, a, b uint64) {
		if strings.HasPrefix(point, "sfi.") || strings.HasPrefix(point, "sfs.") {
			ctl.Point(point, a, b)
		}
	}
	defer func() { resolve.VerifHook = nil }()
	calls := make([]int32, n)
	mu := &sync.Mutex{}
	ds := gatedDS{ctl: ctl, calls: &calls, mu: mu}
	rctx, rcancel := context.WithCancel(context.Background())
	defer rcancel()
	resolver := resolve.New(rctx, resolve.ResolverOptions{MaxConcurrency: 16})
	cancels := make([]context.CancelFunc, n)
	outs := make([]string, n)
	// scrub: an unrelated request (other operation, same request id => same arena pools) executed by an
	// unregistered goroutine (hook points do not park it)
	scrub := func() {
		done := make(chan struct{})
		go func() {
			defer close(done)
			defer func() { _ = recover() }()
			q := Req{Key: 77, Vars: 7, Hdr: 7, Op: "mutation", Work: "ok"}
			rc := newCtx(context.Background(), 0, q, s.Level)
			rc.Request.ID = 1001
			rc.ExecutionOptions.DisableInboundRequestDeduplication = true
			rc.ExecutionOptions.DisableSubgraphRequestDeduplication = true
			_, _ = resolver.ArenaResolveGraphQLResponse(rc, buildResponse(ds, q, s.Level), &capture{})
		}()
		<-done
	}
	var panicked atomic.Value
	for i := range s.Reqs {
		i := i
		q := s.Reqs[i]
		cctx, cancel := context.WithCancel(context.Background())
		cancels[i] = cancel
		rc := newCtx(cctx, i+1, q, s.Level)
		resp := buildResponse(ds, q, s.Level)
		outs[i] = "none"
		ctl.Go(i+1, func() {
			defer func() {
				if p := recover(); p != nil {
					panicked.Store(fmt.Sprint(p))
					outs[i] = "panic:" + fmt.Sprint(p)
				}
			}()
			w := &capture{scrub: scrub, fail: q.WFail}
			_, err := resolver.ArenaResolveGraphQLResponse(rc, resp, w)
			if err != nil && q.WFail && errors.Is(err, errClientWrite) {
				err = nil // its own broken connection: judge the bytes it was handed
			}
			if err != nil {
				outs[i] = "err:" + err.Error()
			} else {
				outs[i] = "data:" + string(w.buf)
			}
		})
	}
	emit := func(m map[string]any) {
		b, _ := json.Marshal(m)
		evw.Write(b)
		evw.WriteByte('\n')
	}
	// reset line describes the configuration of this trace
	dense := map[int]int{}
	keys := make([]int, n)
	elig := make([]bool, n)
	works := make([]string, n)
	for i := range works {
		works[i] = "ok"
	}
	for i, q := range s.Reqs {
		id := q.Key*10000 + q.Vars*100 + q.Hdr
		if _, ok := dense[id]; !ok {
			dense[id] = len(dense) + 1
			works[dense[id]-1] = q.Work
		}
		keys[i] = dense[id]
		elig[i] = q.Op == "query"
	}
	emit(map[string]any{"ev": "reset", "id": s.ID, "n": n, "key": keys, "elig": elig, "work": works, "level": s.Level, "a": "0", "b": 0, "r": 0})
	cursor := 0
	flush := func() {
		evs := ctl.Events()
		for ; cursor < len(evs); cursor++ {
			e := evs[cursor]
			if e.Point == "start" {
				continue
			}
			emit(map[string]any{"ev": e.Point, "r": e.Actor, "a": fmt.Sprint(e.A), "b": int(e.B)})
		}
	}
	returned := make([]bool, n)
	noteReturn := func(i int) {
		if !returned[i] && ctl.Where(i+1) == "done" {
			returned[i] = true
			flush()
			emit(map[string]any{"ev": "return", "r": i + 1, "out": classify(outs[i], res.Solo[i]), "b": 0, "a": "0"})
		}
	}
	for _, st := range s.Steps {
		if st.Act == "Cancel" {
			cancels[st.R-1]()
			res.Cancelled[st.R-1] = true
			flush()
			emit(map[string]any{"ev": "cancel", "r": st.R, "a": "0", "b": 0})
			// a cancelled waiter may now run to its next point on its own
			continue
		}
		o, _ := ctl.Step(st.R)
		flush()
		for i := range s.Reqs {
			noteReturn(i)
		}
		if o == sched.Blocked || o == sched.NotReady {
			// the code cannot follow the planned schedule from here on: open all gates (drain) and
			// validate what it actually did
			res.Unrealised++
			break
		}
	}
	// drain: open all gates, everyone must return
	res.Drained = ctl.Drain(5 * time.Second)
	for _, id := range ctl.NotDone() {
		res.Wedged = append(res.Wedged, id)
	}
	flush()
	for i := range s.Reqs {
		noteReturn(i)
	}
	if p := panicked.Load(); p != nil {
		res.Panic = p.(string)
	}
	copy(res.Outs, outs)
	mu.Lock()
	for i := range calls {
		res.DSCalls[i] = int(calls[i])
	}
	mu.Unlock()
	res.Events = cursor
	return res
}

// classify turns an output into the abstract value the specification talks about.
func classify(out, solo string) string {
	switch {
	case out == solo && len(out) > 5 && out[:5] == "data:":
		return "solo"
	case out == "err:"+errUpstream.Error() || (len(out) > 4 && out[:4] == "err:" && bytes.Contains([]byte(out), []byte(errUpstream.Error()))):
		return "upstream"
	case out == "err:"+context.Canceled.Error():
		return "ctx"
	case len(out) > 6 && out[:6] == "panic:":
		return "panic"
	case len(out) > 5 && out[:5] == "data:":
		return "otherdata"
	case len(out) > 4 && out[:4] == "err:":
		return "othererr"
	}
	return "none"
}

func main() {
	in := flag.String("in", "", "schedules NDJSON")
	out := flag.String("out", "events.ndjson", "event stream for TLC")
	resf := flag.String("res", "results.ndjson", "per-schedule results")
	flag.Parse()
	f, err := os.Open(*in)
	if err != nil {
		fmt.Fprintln(os.Stderr, err)
		os.Exit(3)
	}
	defer f.Close()
	of, _ := os.Create(*out)
	defer of.Close()
	evw := bufio.NewWriterSize(of, 1<<20)
	defer evw.Flush()
	rf, _ := os.Create(*resf)
	defer rf.Close()
	rw := bufio.NewWriter(rf)
	defer rw.Flush()
	sc := bufio.NewScanner(f)
	sc.Buffer(make([]byte, 1<<20), 1<<26)
	bad := 0
	for sc.Scan() {
		line := bytes.TrimSpace(sc.Bytes())
		if len(line) == 0 {
			continue
		}
		var s Schedule
		if err := json.Unmarshal(line, &s); err != nil {
			fmt.Fprintln(os.Stderr, "bad schedule:", err)
			os.Exit(3)
		}
		r := runSchedule(s, evw)
		b, _ := json.Marshal(r)
		rw.Write(b)
		rw.WriteByte('\n')
		if len(r.Wedged) > 0 || r.Panic != "" {
			bad++
		}
		if bad >= 5 {
			// several participants never returned / panicked: every further schedule would cost another drain
			// time-out; what was observed so far is reported (the verdict is already decided)
			break
		}
	}
}
