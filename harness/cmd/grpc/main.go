// Command grpc replays TLC-generated GraphQL operations (spec/core/GQLShape.tla, Gen_C20.tla) into the
// real gRPC datasource (grpcdatasource.NewDataSource(...).Load) running against grpctest.MockService on a
// bufconn and records the returned JSON in tagged form for TLC (Trace_C20.tla).
//
// Input (-in): NDJSON, one case per line:
//
//	{"id":"g12-v3","group":"g12","role":"base|variant","op":<operation in spec form>,"lane":"raw|norm","seed":7}
//
// An operation in spec form is {"kind":"query|mutation","fed":[{"type":"Product","sel":"id"}],"sel":[Sel...]} with
// Sel = {"k":"f|i|s","name":..,"alias":..,"on":..,"args":[{"name","type","sig","val"}],"sel":[Sel...]}
// (k=f field, k=i inline fragment `... on T {}`, k=s named fragment: printed as a fragment definition + spread).
// For exploration a case may instead carry "text" (GraphQL text) and "vars" (variables object).
//
// Lane "reuse" is lane raw with ONE datasource per plan id: NewDataSource is called for the first case of a plan id
// and every later case with that id is only Load()ed (other variables), like an engine that caches the plan.
//
// Lane "raw": the printed text is parsed and handed to NewDataSource unchanged (the way the package's own
// tests drive it). Lane "norm": it is first normalized exactly like graphql_datasource's printOperation does
// before it constructs the gRPC datasource (extract variables, inline fragment spreads, remove fragment
// definitions, remove unused variables), printed and re-parsed.
//
// Output (-out): NDJSON, one line per case: {"id","group","role","lane","text","vars","stage","err","raw","resp"}
// where resp is the response in tagged JSON form ({"t":"o","k":[..],"v":[..]} ... see internal/tj).
package main

import (
	"bufio"
	"bytes"
	"context"
	"encoding/json"
	"flag"
	"fmt"
	"math/rand"
	"net"
	"os"
	"runtime/debug"
	"strings"
	"sync/atomic"
	"time"

	"github.com/vektah/gqlparser/v2"
	gqlast "github.com/vektah/gqlparser/v2/ast"
	"google.golang.org/grpc"
	"google.golang.org/grpc/credentials/insecure"
	"google.golang.org/grpc/test/bufconn"

	"github.com/wundergraph/graphql-go-tools/v2/pkg/ast"
	"github.com/wundergraph/graphql-go-tools/v2/pkg/astnormalization"
	"github.com/wundergraph/graphql-go-tools/v2/pkg/astparser"
	"github.com/wundergraph/graphql-go-tools/v2/pkg/astprinter"
	grpcdatasource "github.com/wundergraph/graphql-go-tools/v2/pkg/engine/datasource/grpc_datasource"
	"github.com/wundergraph/graphql-go-tools/v2/pkg/engine/plan"
	"github.com/wundergraph/graphql-go-tools/v2/pkg/grpctest"
	"github.com/wundergraph/graphql-go-tools/v2/pkg/grpctest/mapping"
	"github.com/wundergraph/graphql-go-tools/v2/pkg/grpctest/productv1"
	"github.com/wundergraph/graphql-go-tools/v2/pkg/operationreport"

	"verif/harness/internal/gqlshape"
)

type fedCfg struct {
	Type  string `json:"type"`
	Field string `json:"field"`
	Sel   string `json:"sel"`
}

type inCase struct {
	ID    string          `json:"id"`
	Group string          `json:"group"`
	Role  string          `json:"role"`
	Lane  string          `json:"lane"`
	Seed  int64           `json:"seed"`
	Own   bool            `json:"ownvars"` // every argument occurrence gets its own variable (reuse groups: the text must not depend on the values)
	Plan  string          `json:"plan"`    // reuse lane: cases with the same plan id share ONE planned datasource (NewDataSource once, many Loads)
	Dv    string          `json:"dv"`      // data variant for text cases (operations in spec form carry it themselves)
	OpRaw json.RawMessage `json:"op"`
	Op    *gqlshape.Op    `json:"-"`
	Text  string          `json:"text"`
	Vars  json.RawMessage `json:"vars"`
	Fed   []fedCfg        `json:"fed"`
}

type outCase struct {
	ID    string          `json:"id"`
	Group string          `json:"group"`
	Role  string          `json:"role"`
	Lane  string          `json:"lane"`
	Text  string          `json:"text"`
	Sent  string          `json:"sent"` // the operation text the datasource was constructed from (differs from text in lane norm)
	Vars  json.RawMessage `json:"vars"`
	Stage string          `json:"stage"` // ok | parse | normalize | plan | load | panic | json
	Err   string          `json:"err"`
	Raw   string          `json:"raw"`
	Resp  any             `json:"resp"`
	Op    json.RawMessage `json:"op,omitempty"` // the operation in spec form, echoed verbatim for the trace spec
}

var gqlSchema *gqlast.Schema

// the datasource of the current reuse group (reuse lane)
var reuse struct {
	plan, sent string
	ds         *grpcdatasource.DataSource
}

// directives products.graphqls uses without declaring them (federation)
const sdlPrelude = `
directive @key(fields: openfed__FieldSet!, resolvable: Boolean = true) repeatable on OBJECT | INTERFACE
directive @external on FIELD_DEFINITION | OBJECT
directive @requires(fields: openfed__FieldSet!) on FIELD_DEFINITION
`

type server struct {
	conn    *grpc.ClientConn
	cleanup func()
}

// dataVariant selects the service data for the current case ("" = the stock grpctest.MockService).
var dataVariant atomic.Value

// variantService is grpctest.MockService with a few RPCs overridden when a data variant is selected: service data
// the stock mock never returns (spec: GQLShapeData, universe "v1").
//
//	v1  QueryCategories: 3 categories named "Alpha", "" (the proto3 default value), "Gamma", kind BOOK, no subcategories
//	    QueryBlogPost:   nested lists with NULL inner lists: relatedTopics [["a","b"],null,["c"]],
//	                     suggestions [["s1"],null,["s2","s3"]], tagGroups [["x"],["y","z"]],
//	                     contributorTeams [[{u1,"U 1"}],null]
type variantService struct {
	grpctest.MockService
}

func variant() string {
	v, _ := dataVariant.Load().(string)
	return v
}

func (s *variantService) QueryCategories(ctx context.Context, in *productv1.QueryCategoriesRequest) (*productv1.QueryCategoriesResponse, error) {
	if variant() != "v1" {
		return s.MockService.QueryCategories(ctx, in)
	}
	var cs []*productv1.Category
	for i, name := range []string{"Alpha", "", "Gamma"} {
		cs = append(cs, &productv1.Category{Id: fmt.Sprintf("category-%d", i+1), Name: name, Kind: productv1.CategoryKind_CATEGORY_KIND_BOOK})
	}
	return &productv1.QueryCategoriesResponse{Categories: cs}, nil
}

func strs(items ...string) *productv1.ListOfString {
	return &productv1.ListOfString{List: &productv1.ListOfString_List{Items: items}}
}

func (s *variantService) QueryBlogPost(ctx context.Context, in *productv1.QueryBlogPostRequest) (*productv1.QueryBlogPostResponse, error) {
	if variant() != "v1" {
		return s.MockService.QueryBlogPost(ctx, in)
	}
	null := &productv1.ListOfString{} // wrapper without a list = a null inner list
	return &productv1.QueryBlogPostResponse{BlogPost: &productv1.BlogPost{
		Id:    "blog-v1",
		Title: "Variant 1",
		RelatedTopics: &productv1.ListOfListOfString{List: &productv1.ListOfListOfString_List{
			Items: []*productv1.ListOfString{strs("a", "b"), null, strs("c")}}},
		Suggestions: &productv1.ListOfListOfString{List: &productv1.ListOfListOfString_List{
			Items: []*productv1.ListOfString{strs("s1"), null, strs("s2", "s3")}}},
		TagGroups: &productv1.ListOfListOfString{List: &productv1.ListOfListOfString_List{
			Items: []*productv1.ListOfString{strs("x"), strs("y", "z")}}},
		ContributorTeams: &productv1.ListOfListOfUser{List: &productv1.ListOfListOfUser_List{
			Items: []*productv1.ListOfUser{
				{List: &productv1.ListOfUser_List{Items: []*productv1.User{{Id: "u1", Name: "U 1"}}}},
				{},
			}}},
	}}, nil
}

func newServer() (*server, error) {
	lis := bufconn.Listen(1024 * 1024)
	srv := grpc.NewServer()
	productv1.RegisterProductServiceServer(srv, &variantService{})
	go func() { _ = srv.Serve(lis) }()
	conn, err := grpc.NewClient("passthrough:///bufnet",
		grpc.WithTransportCredentials(insecure.NewCredentials()),
		grpc.WithContextDialer(func(context.Context, string) (net.Conn, error) { return lis.Dial() }),
		grpc.WithLocalDNSResolution())
	if err != nil {
		return nil, err
	}
	return &server{conn: conn, cleanup: func() { _ = conn.Close(); srv.Stop(); _ = lis.Close() }}, nil
}

func normalize(text string, vars []byte, schema *ast.Document) (string, []byte, error) {
	doc, rep := astparser.ParseGraphqlDocumentString(text)
	if rep.HasErrors() {
		return "", nil, fmt.Errorf("parse: %s", rep.Error())
	}
	if len(vars) > 0 {
		doc.Input.Variables = append([]byte(nil), vars...)
	}
	n := astnormalization.NewWithOpts(
		astnormalization.WithExtractVariables(),
		astnormalization.WithRemoveFragmentDefinitions(),
		astnormalization.WithRemoveUnusedVariables(),
		astnormalization.WithInlineFragmentSpreads(),
	)
	var report operationreport.Report
	n.NormalizeOperation(&doc, schema, &report)
	if report.HasErrors() {
		return "", nil, fmt.Errorf("normalize: %s", report.Error())
	}
	buf := &bytes.Buffer{}
	if err := astprinter.NewPrinter(nil).Print(&doc, buf); err != nil {
		return "", nil, err
	}
	outVars := doc.Input.Variables
	if len(outVars) == 0 {
		outVars = []byte("{}")
	}
	return buf.String(), append([]byte(nil), outVars...), nil
}

func runCase(c *inCase, srv *server, schema *ast.Document, compiler *grpcdatasource.RPCCompiler, mp *grpcdatasource.GRPCMapping) (out outCase) {
	out = outCase{ID: c.ID, Group: c.Group, Role: c.Role, Lane: c.Lane, Stage: "ok", Op: c.OpRaw}
	defer func() {
		if r := recover(); r != nil {
			out.Stage = "panic"
			out.Err = fmt.Sprint(r)
			if os.Getenv("VERIF_GRPC_STACK") != "" {
				out.Err += "\n" + string(debug.Stack())
			}
		}
	}()
	dv := c.Dv
	if c.Op != nil && c.Op.Dv != "" {
		dv = c.Op.Dv
	}
	dataVariant.Store(dv)
	text, vars := c.Text, []byte(c.Vars)
	var fed []fedCfg = c.Fed
	if c.Op != nil {
		var vm map[string]json.RawMessage
		text, vm = gqlshape.PrintVars(c.Op, !c.Own)
		vars, _ = json.Marshal(vm)
		for _, f := range c.Op.Fed {
			fed = append(fed, fedCfg{Type: f.Type, Field: f.Field, Sel: f.Sel})
		}
	}
	if len(vars) == 0 {
		vars = []byte("{}")
	}
	out.Text = text
	out.Vars = json.RawMessage(vars)
	// the premise "valid operation" is established by an independent implementation (vektah/gqlparser)
	if gqlSchema != nil {
		if _, errs := gqlparser.LoadQuery(gqlSchema, text); len(errs) > 0 {
			out.Stage, out.Err = "invalid", errs.Error()
			return
		}
	}
	sent := text
	if c.Lane == "norm" {
		var err error
		sent, vars, err = normalize(text, vars, schema)
		if err != nil {
			out.Stage, out.Err = "normalize", err.Error()
			return
		}
		out.Vars = json.RawMessage(vars)
	}
	out.Sent = sent
	doc, rep := astparser.ParseGraphqlDocumentString(sent)
	if rep.HasErrors() {
		out.Stage, out.Err = "parse", rep.Error()
		return
	}
	var fc plan.FederationFieldConfigurations
	for _, f := range fed {
		fc = append(fc, plan.FederationFieldConfiguration{TypeName: f.Type, FieldName: f.Field, SelectionSet: f.Sel})
	}
	var ds *grpcdatasource.DataSource
	if c.Plan != "" && reuse.plan == c.Plan {
		// reuse lane: the datasource planned for the first case of this plan id answers this request as well,
		// as an engine does with a cached plan; only the variables may differ
		if reuse.sent != sent {
			out.Stage, out.Err = "reuse-text-differs", "operation text differs from the one the datasource was planned for"
			return
		}
		ds = reuse.ds
	} else {
		var err error
		ds, err = grpcdatasource.NewDataSource(grpcdatasource.NewGRPCTransport(srv.conn), grpcdatasource.DataSourceConfig{
			Operation:         &doc,
			Definition:        schema,
			SubgraphName:      "Products",
			Compiler:          compiler,
			Mapping:           mp,
			FederationConfigs: fc,
		})
		if err != nil {
			out.Stage, out.Err = "plan", err.Error()
			return
		}
		if c.Plan != "" {
			reuse.plan, reuse.sent, reuse.ds = c.Plan, sent, ds
		}
	}
	q, _ := json.Marshal(sent)
	input := []byte(`{"query":` + string(q) + `,"body":{"variables":` + string(vars) + `}}`)
	// MockService draws a few values from the global math/rand source; seed it per case so that a replay of
	// the same case sees the same service data (the check still compares those coordinates by shape only).
	rand.Seed(c.Seed) //nolint:staticcheck
	ctx, cancel := context.WithTimeout(context.Background(), 20*time.Second)
	defer cancel()
	data, err := ds.Load(ctx, nil, input)
	if err != nil {
		out.Stage, out.Err = "load", err.Error()
		return
	}
	out.Raw = string(data)
	tv, err := gqlshape.Tag(data)
	if err != nil {
		out.Stage, out.Err = "json", err.Error()
		return
	}
	out.Resp = tv
	return
}

func main() {
	in := flag.String("in", "", "cases (NDJSON)")
	outp := flag.String("out", "", "observations (NDJSON)")
	sdlPath := flag.String("sdl", "/repo/v2/pkg/grpctest/testdata/products.graphqls", "GraphQL SDL (for the independent validity check)")
	fresh := flag.Bool("fresh", false, "fresh MockService + connection for every case (always done for mutations)")
	flag.Parse()
	f, err := os.Open(*in)
	if err != nil {
		fmt.Fprintln(os.Stderr, err)
		os.Exit(2)
	}
	defer f.Close()
	of, err := os.Create(*outp)
	if err != nil {
		fmt.Fprintln(os.Stderr, err)
		os.Exit(2)
	}
	defer of.Close()
	w := bufio.NewWriterSize(of, 1<<20)
	defer w.Flush()

	schema, err := grpctest.GraphQLSchema()
	if err != nil {
		fmt.Fprintln(os.Stderr, "schema:", err)
		os.Exit(2)
	}
	proto, err := grpctest.ProtoSchema()
	if err != nil {
		fmt.Fprintln(os.Stderr, "proto:", err)
		os.Exit(2)
	}
	sdl, err := os.ReadFile(*sdlPath)
	if err != nil {
		fmt.Fprintln(os.Stderr, "sdl:", err)
		os.Exit(2)
	}
	gs, gerr := gqlparser.LoadSchema(&gqlast.Source{Name: "products.graphqls", Input: string(sdl) + sdlPrelude})
	if gerr != nil {
		fmt.Fprintln(os.Stderr, "gqlparser schema:", gerr)
		os.Exit(2)
	}
	gqlSchema = gs
	mp := mapping.DefaultGRPCMapping()
	compiler, err := grpcdatasource.NewProtoCompiler(proto, mp)
	if err != nil {
		fmt.Fprintln(os.Stderr, "proto compile:", err)
		os.Exit(2)
	}
	shared, err := newServer()
	if err != nil {
		fmt.Fprintln(os.Stderr, "server:", err)
		os.Exit(2)
	}
	defer shared.cleanup()

	sc := bufio.NewScanner(f)
	sc.Buffer(make([]byte, 1<<20), 64<<20)
	enc := json.NewEncoder(w)
	enc.SetEscapeHTML(false)
	n := 0
	for sc.Scan() {
		line := strings.TrimSpace(sc.Text())
		if line == "" {
			continue
		}
		var c inCase
		if err := json.Unmarshal([]byte(line), &c); err != nil {
			fmt.Fprintln(os.Stderr, "bad case:", err)
			os.Exit(2)
		}
		if len(c.OpRaw) > 0 {
			c.Op = &gqlshape.Op{}
			if err := json.Unmarshal(c.OpRaw, c.Op); err != nil {
				fmt.Fprintln(os.Stderr, "bad operation:", err)
				os.Exit(2)
			}
		}
		srv := shared
		isMutation := (c.Op != nil && c.Op.Kind == "mutation") || strings.HasPrefix(strings.TrimSpace(c.Text), "mutation")
		if *fresh || isMutation {
			srv, err = newServer()
			if err != nil {
				fmt.Fprintln(os.Stderr, "server:", err)
				os.Exit(2)
			}
		}
		o := runCase(&c, srv, &schema, compiler, mp)
		if srv != shared {
			srv.cleanup()
		}
		if err := enc.Encode(o); err != nil {
			fmt.Fprintln(os.Stderr, err)
			os.Exit(2)
		}
		n++
	}
	fmt.Fprintf(os.Stderr, "grpc: %d cases\n", n)
}
