package main

// Level "ds": the same schedules through the data-source wrapper
// (graphql_datasource/graphql_subscription_client.go: NewGraphQLSubscriptionClient(...).Subscribe with a
// resolve.SubscriptionUpdater).  The wrapper turns upstream failures of Subscribe into updater.Error + Done and
// installs context.AfterFunc(ctx, {cancel(); updater.Done()}) itself; the updater callbacks are translated back
// into the events of the specification:
//
//	Update(data)                      -> h next
//	Complete()                        -> h complete
//	Error(data) during Subscribe      -> the call failed ("ret" with x = "fail": the wrapper hides the error class)
//	Error("upstream service error")   -> h connerr       (connection-level error after Subscribe returned)
//	Error(other)                      -> h error         (GraphQL error frame)
//	Done() once the ctx is cancelled  -> unsub           (the wrapper called the unsubscribe function before)
//
// Stats() and the idle timeout are not reachable through the wrapper (idle = 0, no "stats" line).

import (
	"bytes"
	"context"
	"encoding/json"
	"fmt"
	"net/http"
	"sync"
	"time"

	"github.com/wundergraph/graphql-go-tools/v2/pkg/engine/datasource/graphql_datasource"
	"github.com/wundergraph/graphql-go-tools/v2/pkg/engine/resolve"
)

type dsUpdater struct {
	r      *runner
	s      int
	ctx    context.Context
	mu     sync.Mutex
	inCall bool
	failed bool
	unsub  bool
}

func (u *dsUpdater) Update(data []byte) {
	e := ev{"ev": "h", "s": u.s, "k": "next", "n": 0, "id": 0}
	e["v"], e["id"], e["n"] = observe(data)
	u.r.rec.add(e)
}

func (u *dsUpdater) UpdateSubscription(id resolve.SubscriptionIdentifier, data []byte) { u.Update(data) }

func (u *dsUpdater) Complete() { u.r.rec.add(ev{"ev": "h", "s": u.s, "k": "complete"}) }

func (u *dsUpdater) Error(data []byte) {
	u.mu.Lock()
	in := u.inCall
	if in {
		u.failed = true
	}
	u.mu.Unlock()
	if in {
		return
	}
	if bytes.Contains(data, []byte("upstream service error")) {
		var p struct {
			Errors []struct {
				Extensions struct {
					CloseCode int `json:"closeCode"`
				} `json:"extensions"`
			} `json:"errors"`
		}
		code := 0
		if json.Unmarshal(data, &p) == nil && len(p.Errors) > 0 {
			code = p.Errors[0].Extensions.CloseCode
		}
		u.r.rec.add(ev{"ev": "h", "s": u.s, "k": "connerr", "x": "upstream service error", "n": code})
		return
	}
	e := ev{"ev": "h", "s": u.s, "k": "error", "n": 0, "id": 0}
	var p struct {
		Errors json.RawMessage `json:"errors"`
	}
	if json.Unmarshal(data, &p) == nil {
		var one struct {
			Extensions struct {
				S int `json:"s"`
				N int `json:"n"`
			} `json:"extensions"`
		}
		var many []json.RawMessage
		raw := []byte(p.Errors)
		if json.Unmarshal(raw, &many) == nil && len(many) > 0 {
			raw = many[0]
		}
		if json.Unmarshal(raw, &one) == nil {
			e["id"], e["n"] = one.Extensions.S, one.Extensions.N
		}
	}
	u.r.rec.add(e)
}

func (u *dsUpdater) Done() {
	u.mu.Lock()
	first := !u.unsub && u.ctx.Err() != nil && !u.inCall
	if first {
		u.unsub = true
	}
	u.mu.Unlock()
	if first {
		u.r.rec.add(ev{"ev": "unsub", "s": u.s})
	}
}

func (u *dsUpdater) CloseSubscription(id resolve.SubscriptionIdentifier) {}
func (u *dsUpdater) Subscriptions() map[context.Context]resolve.SubscriptionIdentifier {
	return nil
}

func newDSClient(ctx context.Context, hc *http.Client, ping, pingTO time.Duration) graphql_datasource.GraphQLSubscriptionClient {
	return graphql_datasource.NewGraphQLSubscriptionClient(ctx,
		graphql_datasource.WithUpgradeClient(hc),
		graphql_datasource.WithStreamingClient(hc),
		graphql_datasource.WithPingInterval(ping),
		graphql_datasource.WithPingTimeout(pingTO),
		graphql_datasource.WithAckTimeout(2*time.Minute),
		graphql_datasource.WithWriteTimeout(2*time.Minute),
	)
}

func dsOptions(s Schedule, t tuple, addr string, sub int) graphql_datasource.GraphQLSubscriptionOptions {
	o := graphql_datasource.GraphQLSubscriptionOptions{
		URL:           "ws://" + addr + t.Path,
		Header:        http.Header{"X-Verif-K": []string{t.Hdr}, "X-Verif-Fixed": []string{"1"}},
		WsSubProtocol: t.Proto,
		Body:          graphql_datasource.GraphQLBody{Query: fmt.Sprintf("subscription { s%d }", sub)},
	}
	if t.Payload != "" {
		o.InitialPayload = json.RawMessage(t.Payload)
	}
	if sub-1 < len(s.Bad) && s.Bad[sub-1] {
		o.Body.Variables = json.RawMessage(badVariables)
	}
	if s.Mode == "sse" {
		o.URL = "http://" + addr + t.Path
		o.UseSSE = true
		o.SSEMethodPost = s.Proto != "get"
	}
	return o
}

// callDS is runner.call for level "ds".
func (r *runner) callDS(s int, sub *subscriber) {
	u := &dsUpdater{r: r, s: s, ctx: sub.ctx, inCall: true}
	opts := dsOptions(r.s, tuples(r.s)[r.s.Key[s-1]-1], r.sv.addr(), s)
	go func() {
		defer close(sub.done)
		defer func() {
			if p := recover(); p != nil {
				r.res.Panic = fmt.Sprint(p)
				r.rec.add(ev{"ev": "ret", "s": s, "x": "panic"})
			}
		}()
		err := r.ds.Subscribe(resolve.NewContext(sub.ctx), opts, u)
		u.mu.Lock()
		u.inCall = false
		failed := u.failed
		u.mu.Unlock()
		switch {
		case err != nil:
			sub.ret = classify(err)
		case failed:
			sub.ret = "fail"
		default:
			sub.ret = "ok"
		}
		r.rec.add(ev{"ev": "ret", "s": s, "x": sub.ret})
	}()
}
