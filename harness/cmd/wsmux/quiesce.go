package main

// Quiescence detection without wall-clock assumptions.
//
// The harness performs one environment action of the schedule (Subscribe call, ctx cancel, server gate
// release, scripted frame ...) and must then wait until the code under test has done everything that
// action makes it do.  No source hook is available (C18 is driven from the environment only), so
// "nothing moves any more" is decided from two facts that can be observed from outside:
//
//  1. every TCP byte written by one end of every connection has been read by the other end, and every
//     close of one end has been noticed by the other (both ends are wrapped: the client's http.Transport
//     dials through countingDial, the server accepts through countingListener);
//  2. no goroutine of the process except the caller is running / runnable / in a syscall
//     (runtime.Stack(all) - blocked goroutines are parked in select, chan receive, IO wait, ...).
//
// Both must hold in two consecutive samples with an unchanged event counter.  A wrong "quiet" verdict
// cannot produce a false alarm: the log is a faithful record in any case and the trace specification
// accepts every interleaving the code may produce; it only makes a schedule less precisely realised.

import (
	"bytes"
	"context"
	"net"
	"runtime"
	"sync"
	"sync/atomic"
	"time"
)

type pipeEnd struct {
	wrote, read atomic.Int64
	closed      atomic.Bool // this end called Close
	sawEnd      atomic.Bool // this end's Read returned an error (EOF, reset, closed)
}

type pipeState struct {
	client, server *pipeEnd
}

type netRegistry struct {
	mu    sync.Mutex
	pipes map[string]*pipeState // key: client-side local address
}

func newNetRegistry() *netRegistry { return &netRegistry{pipes: map[string]*pipeState{}} }

func (r *netRegistry) end(key string, server bool) *pipeEnd {
	r.mu.Lock()
	defer r.mu.Unlock()
	p := r.pipes[key]
	if p == nil {
		p = &pipeState{client: &pipeEnd{}, server: &pipeEnd{}}
		r.pipes[key] = p
	}
	if server {
		return p.server
	}
	return p.client
}

// quiet reports whether no byte and no close is in flight on any connection.
func (r *netRegistry) quiet() bool {
	r.mu.Lock()
	defer r.mu.Unlock()
	for _, p := range r.pipes {
		c, s := p.client, p.server
		cDone := c.closed.Load() || c.sawEnd.Load()
		sDone := s.closed.Load() || s.sawEnd.Load()
		if cDone && sDone {
			continue
		}
		if cDone != sDone {
			return false // a close is in flight
		}
		if c.wrote.Load() != s.read.Load() || s.wrote.Load() != c.read.Load() {
			return false
		}
	}
	return true
}

// openPairs counts connections neither end of which has closed.
func (r *netRegistry) openPairs() int {
	r.mu.Lock()
	defer r.mu.Unlock()
	n := 0
	for _, p := range r.pipes {
		if !(p.client.closed.Load() || p.client.sawEnd.Load() || p.server.closed.Load() || p.server.sawEnd.Load()) {
			n++
		}
	}
	return n
}

type countingConn struct {
	net.Conn
	end  *pipeEnd
	hold atomic.Pointer[chan struct{}] // when set, writes wait until the channel is closed (server side: SrvHoldClose)
}

func (c *countingConn) Read(p []byte) (int, error) {
	n, err := c.Conn.Read(p)
	if n > 0 {
		c.end.read.Add(int64(n))
	}
	if err != nil {
		if ne, ok := err.(net.Error); !(ok && ne.Timeout()) {
			c.end.sawEnd.Store(true)
		}
	}
	return n, err
}

func (c *countingConn) Write(p []byte) (int, error) {
	if g := c.hold.Load(); g != nil {
		<-*g
	}
	n, err := c.Conn.Write(p)
	if n > 0 {
		c.end.wrote.Add(int64(n))
	}
	return n, err
}

func (c *countingConn) Close() error {
	c.end.closed.Store(true)
	return c.Conn.Close()
}

type countingListener struct {
	net.Listener
	reg *netRegistry
}

func (l *countingListener) Accept() (net.Conn, error) {
	c, err := l.Listener.Accept()
	if err != nil {
		return nil, err
	}
	return &countingConn{Conn: c, end: l.reg.end(c.RemoteAddr().String(), true)}, nil
}

func (r *netRegistry) dialContext(ctx context.Context, network, addr string) (net.Conn, error) {
	var d net.Dialer
	c, err := d.DialContext(ctx, network, addr)
	if err != nil {
		return nil, err
	}
	return &countingConn{Conn: c, end: r.end(c.LocalAddr().String(), false)}, nil
}

var stackBuf = make([]byte, 4<<20)

// allBlocked reports whether every goroutine except the caller is parked.
func allBlocked() bool {
	n := runtime.Stack(stackBuf, true)
	b := stackBuf[:n]
	first := true
	for len(b) > 0 {
		i := bytes.Index(b, []byte("goroutine "))
		if i < 0 {
			break
		}
		if i > 0 && b[i-1] != '\n' {
			b = b[i+10:]
			continue
		}
		b = b[i:]
		j := bytes.IndexByte(b, '\n')
		if j < 0 {
			j = len(b)
		}
		line := b[:j]
		b = b[j:]
		lb := bytes.IndexByte(line, '[')
		rb := bytes.LastIndexByte(line, ']')
		if lb < 0 || rb < lb {
			continue
		}
		if first { // the caller is printed first
			first = false
			continue
		}
		st := line[lb+1 : rb]
		if k := bytes.IndexByte(st, ','); k >= 0 {
			st = st[:k]
		}
		switch string(st) {
		case "running", "runnable", "syscall", "copystack", "preempted":
			return false
		}
	}
	return true
}

type settler struct {
	reg    *netRegistry
	events func() int
}

// settle waits until the process is quiet (see the file comment); false when it did not get quiet within max.
func (s *settler) settle(max time.Duration) bool {
	deadline := time.Now().Add(max)
	stable, last := 0, -1
	for {
		n := s.events()
		if s.reg.quiet() && allBlocked() && s.reg.quiet() && s.events() == n {
			if n == last {
				stable++
			} else {
				stable, last = 1, n
			}
			if stable >= 3 {
				return true
			}
		} else {
			stable, last = 0, -1
		}
		if time.Now().After(deadline) {
			return false
		}
		if stable > 0 {
			time.Sleep(50 * time.Microsecond)
		} else {
			time.Sleep(100 * time.Microsecond)
		}
	}
}
