// Command wsmux replays TLC-generated schedules of spec/conc/WSMux.tla (Gen_WSMux) into the real upstream
// subscription client of graphql-go-tools
//
//	v2/pkg/engine/datasource/graphql_datasource/subscriptionclient (client.go, transport/ws_transport.go,
//	transport/ws_conn.go, transport/sse_transport.go, sse_conn.go, protocol/*.go)
//
// against an in-process upstream server (server.go) and records the combined log of caller actions, Subscribe
// results, handler callbacks, server-side observations and Stats() for TLC trace validation (Trace_WSMux.tla).
//
// No source hook is used.  A schedule is a sequence of environment actions; the driver performs one, waits until
// the process is quiet (quiesce.go) and performs the next:
//
//	Call s      start Subscribe(ctx_s, "subscription{sN}", options of key[s]) on its own goroutine
//	Cancel s    cancel ctx_s (before, during or after the Subscribe call); like the data source
//	            (graphql_subscription_client.go) the driver runs the returned unsubscribe function once ctx_s is done
//	Upgrade c / Reject c        release the gate before the upgrade response of the connection dialled c-th
//	Ack c / InitFail c          answer connection_init with connection_ack / drop the connection instead
//	Send c s kind               next | complete | error for the subscription of s on connection c
//	Close c                     the upstream drops the connection
//	IdleWait                    sleep idle timeout + slack
//
// followed by an epilogue (cancel everybody who is still subscribed, wait for the idle timers, read Stats() and the
// number of connections the server still has) so that every trace ends in a state where the specification's
// quiescence and no-leak conditions can be evaluated.
//
// Input  (-in):  NDJSON {"id","mode":"ws|sse","proto":"gtws|gws|auto","variant":"endpoint|hdr|proto|payload","idle_ms",
//
//	"key":[1,2,1],"dialler":[1,2,0],"steps":[{"a":"Call","s":1,"c":0,"k":""},...]}
//
// Output (-out): NDJSON events for TLC (one per line, traces start with {"ev":"reset"} and end with {"ev":"end"}),
// (-res) one result line per schedule.
package main

import (
	"bufio"
	"bytes"
	"context"
	"encoding/json"
	"errors"
	"flag"
	"fmt"
	"net"
	"net/http"
	"os"
	"strings"
	"sync"
	"time"

	"github.com/wundergraph/graphql-go-tools/v2/pkg/engine/datasource/graphql_datasource"
	"github.com/coder/websocket"
	client "github.com/wundergraph/graphql-go-tools/v2/pkg/engine/datasource/graphql_datasource/subscriptionclient"
)

type ev = map[string]any

type recorder struct {
	mu  sync.Mutex
	evs []ev
}

func (r *recorder) add(e ev) {
	r.mu.Lock()
	r.evs = append(r.evs, e)
	r.mu.Unlock()
}

func (r *recorder) count() int {
	r.mu.Lock()
	defer r.mu.Unlock()
	return len(r.evs)
}

type Step struct {
	A string `json:"a"`
	S int    `json:"s"`
	C int    `json:"c"`
	K string `json:"k"`
	V string `json:"v"` // Send next: payload variant d | de | dx
	F  string `json:"f"`  // Send (SSE): framing variant, see sseEvent
	SC bool   `json:"sc"` // Send next: the receiving handler cancels its own subscription from inside the callback
	SP int    `json:"sp"` // Send next: the receiving handler calls Subscribe for subscriber SP from inside the callback
}

type Schedule struct {
	ID      string `json:"id"`
	Level   string `json:"level"`   // client (subscriptionclient.Client, default) | ds (data-source wrapper, see ds.go)
	Mode    string `json:"mode"`    // ws | sse
	Proto   string `json:"proto"`   // gtws | gws | auto
	Variant string `json:"variant"` // which component of the option tuple distinguishes key 2 from key 1
	IdleMs  int    `json:"idle_ms"`
	Key     []int  `json:"key"`
	Dialler []int  `json:"dialler"` // spec connection -> dialling subscriber (as predicted by the generator)
	Bad     []bool `json:"bad"`     // subscriber -> its request cannot be encoded (invalid raw variables)
	Hold    bool   `json:"hold"`    // HoldClose / Release steps may occur
	Reent   bool   `json:"reent"`   // Send steps may carry sc / sp
	Ping    bool   `json:"ping"`    // client pings on (every 500 ms) with a pong timeout (150 ms); a "Mute c" step makes the server stop answering
	Reach   []bool `json:"reach"`   // spec connection -> its dial reaches the server (false: dialled with an already cancelled ctx)
	Steps   []Step `json:"steps"`
	Slack   int    `json:"slack_ms"`
}

type Result struct {
	ID         string   `json:"id"`
	Unrealised int      `json:"unrealised"` // steps that could not be performed as scheduled
	Unsettled  int      `json:"unsettled"`  // steps after which the process did not get quiet in time
	Wedged     []int    `json:"wedged"`     // subscribers whose Subscribe never returned
	Panic      string   `json:"panic"`
	Events     int      `json:"events"`
	Rets       []string `json:"rets"`
	Conns      int      `json:"conns"`
	Ms         int      `json:"ms"`
}

const (
	protoGTWS = "graphql-transport-ws"
	protoGWS  = "graphql-ws"
)

func wsProto(p string) string {
	switch p {
	case "gtws":
		return protoGTWS
	case "gws":
		return protoGWS
	}
	return ""
}

// tuples builds the two option tuples of a schedule.
func tuples(s Schedule) []tuple {
	base := tuple{Path: "/graphql", Hdr: "k", Proto: wsProto(s.Proto), Payload: `{"p":"a"}`}
	other := base
	switch s.Variant {
	case "endpoint":
		other.Path = "/graphql2"
	case "hdr":
		other.Hdr = "k2"
	case "proto":
		switch s.Proto {
		case "gtws":
			other.Proto = protoGWS
		case "gws":
			other.Proto = protoGTWS
		default:
			other.Proto = protoGTWS // auto vs explicit: different keys, same negotiated protocol
		}
	case "payload":
		other.Payload = `{"p":"b"}`
	case "nopayload":
		base.Payload = ""
		other.Payload = `{"p":"b"}`
	// init payloads that are different JSON documents but look alike when printed loosely
	case "payload-type":
		base.Payload, other.Payload = `{"t":42}`, `{"t":"42"}`
	case "payload-bool":
		base.Payload, other.Payload = `{"t":true,"u":null}`, `{"t":"true","u":"<nil>"}`
	case "payload-split":
		base.Payload, other.Payload = `{"token":"abc","user":"bob"}`, `{"token":"abc user:bob"}`
	case "payload-nested":
		base.Payload, other.Payload = `{"a":{"role":"admin"}}`, `{"a":"map[role:admin]"}`
	}
	if s.Mode == "sse" {
		base.Proto, other.Proto = "", ""
	}
	return []tuple{base, other}
}

const badVariables = `{"broken":` // not JSON: json.RawMessage refuses to be marshalled, the subscribe frame cannot be encoded

func options(s Schedule, t tuple, addr string) client.Options {
	o := client.Options{Headers: http.Header{"X-Verif-K": []string{t.Hdr}, "X-Verif-Fixed": []string{"1"}}}
	if t.Payload != "" {
		json.Unmarshal([]byte(t.Payload), &o.InitPayload)
	}
	if s.Mode == "sse" {
		o.Endpoint = "http://" + addr + t.Path
		o.Transport = client.TransportSSE
		o.SSEMethod = client.SSEMethodPOST
		if s.Proto == "get" {
			o.SSEMethod = client.SSEMethodGET
		}
		return o
	}
	o.Endpoint = "ws://" + addr + t.Path
	o.Transport = client.TransportWS
	o.WSSubprotocol = client.WSSubprotocol(t.Proto)
	return o
}

// observe reads a GraphQL result as a handler received it: which top-level fields it has (variant d | de | dx as sent
// by the server, anything else is reported literally) and which subscription / frame number its parts name. Parts that
// disagree with each other - e.g. errors left over from another frame - give the variant "mixed".
func observe(result []byte) (v string, id, n int) {
	var r struct {
		Data       json.RawMessage `json:"data"`
		Errors     json.RawMessage `json:"errors"`
		Extensions json.RawMessage `json:"extensions"`
	}
	if json.Unmarshal(result, &r) != nil {
		return "garbage", 0, 0
	}
	type sn struct {
		S int `json:"s"`
		N int `json:"n"`
	}
	var parts []sn
	letters := ""
	present := func(b json.RawMessage) bool { return len(b) > 0 && string(b) != "null" }
	if present(r.Data) {
		var x sn
		json.Unmarshal(r.Data, &x)
		parts = append(parts, x)
		letters += "d"
	}
	if present(r.Errors) {
		var es []struct {
			Extensions sn `json:"extensions"`
		}
		json.Unmarshal(r.Errors, &es)
		if len(es) > 0 {
			parts = append(parts, es[0].Extensions)
		} else {
			parts = append(parts, sn{})
		}
		letters += "e"
	}
	if present(r.Extensions) {
		var x sn
		json.Unmarshal(r.Extensions, &x)
		parts = append(parts, x)
		letters += "x"
	}
	for _, p := range parts {
		if p != parts[0] {
			return "mixed:" + letters, parts[0].S, parts[0].N
		}
	}
	if len(parts) > 0 {
		id, n = parts[0].S, parts[0].N
	}
	switch letters {
	case "d":
		return "d", id, n
	case "e":
		return "de", id, n
	case "dx":
		return "dx", id, n
	}
	return "fields:" + letters, id, n
}

// closeCode extracts the WebSocket close code from a connection error (0 = none).
func closeCode(err error) int {
	var ce websocket.CloseError
	if errors.As(err, &ce) {
		return int(ce.Code)
	}
	return 0
}

func classify(err error) string {
	switch {
	case err == nil:
		return "ok"
	case errors.Is(err, client.ErrInitFailed) && errors.Is(err, context.Canceled):
		return "initctx"
	case errors.Is(err, client.ErrInitFailed) && strings.Contains(err.Error(), "context canceled"):
		return "initctx"
	case errors.Is(err, client.ErrInitFailed), errors.Is(err, client.ErrAckTimeout), errors.Is(err, client.ErrAckNotReceived), errors.Is(err, client.ErrConnectionError):
		return "init"
	case errors.Is(err, client.ErrConnectionClosed):
		return "closed"
	case errors.Is(err, context.Canceled), strings.Contains(err.Error(), "context canceled"):
		return "ctx"
	case strings.Contains(err.Error(), "MarshalJSON"), strings.Contains(err.Error(), "failed to marshal"), strings.Contains(err.Error(), "marshal request"), strings.Contains(err.Error(), "marshal variables"):
		return "encode"
	case strings.Contains(err.Error(), "unexpected status"):
		return "status"
	case errors.Is(err, client.ErrDialFailed):
		return "dial"
	case isFailedUpgrade(err):
		return "dial"
	case errors.Is(err, net.ErrClosed), strings.Contains(err.Error(), "use of closed network connection"), strings.Contains(err.Error(), "failed to write"):
		return "write"
	}
	return "other:" + err.Error()
}

func isFailedUpgrade(err error) bool {
	var fu client.ErrFailedUpgrade
	return errors.As(err, &fu)
}

type subscriber struct {
	mu      sync.Mutex
	unsubFn func() // the function Subscribe returned
	ctx     context.Context
	cancel  context.CancelFunc
	called  bool
	done    chan struct{} // Subscribe returned
	ret     string
	canceld bool
	sconn   int // server connection that arrived during this subscriber's Call step (0 = none)
}

type reentry struct {
	sc bool
	sp int
}

type runner struct {
	remu  sync.Mutex
	reent map[[2]int]reentry // (subscriber, frame number) -> what its handler does on receipt
	s    Schedule
	rec  *recorder
	reg  *netRegistry
	sv   *server
	cl   *client.Client
	ds   graphql_datasource.GraphQLSubscriptionClient
	st   *settler
	subs []*subscriber
	res  *Result
	idle time.Duration
}

// settle waits for the process to get quiet and says so in the log: at a "quiet" line the specification must have
// nothing left to do either (no enabled internal step, every finished Subscribe call seen returning) - this is what
// turns "a subscriber is stalled" into a rejected trace.
func (r *runner) settle() {
	if !r.st.settle(3 * time.Second) {
		r.res.Unsettled++
		return
	}
	r.rec.add(ev{"ev": "quiet"})
}

func (r *runner) handler(s int) client.Handler {
	return func(m *client.Message) {
		e := ev{"ev": "h", "s": s, "k": "unknown", "n": 0, "id": 0, "v": "-"}
		switch m.Type {
		case client.MessageTypeData:
			e["k"] = "next"
			if m.Payload != nil {
				b, _ := json.Marshal(m.Payload)
				e["v"], e["id"], e["n"] = observe(b)
			}
			r.remu.Lock()
			re, ok := r.reent[[2]int{s, e["n"].(int)}]
			r.remu.Unlock()
			if ok && e["id"] == s {
				// re-entrant handler: act from inside the callback, on the connection's read goroutine
				r.rec.add(e)
				if re.sc {
					sub := r.subs[s-1]
					sub.canceld = true
					sub.mu.Lock()
					fn := sub.unsubFn
					sub.mu.Unlock()
					if fn != nil {
						fn()
						r.rec.add(ev{"ev": "unsub", "s": s})
					}
					sub.cancel()
				}
				if re.sp > 0 && re.sp <= len(r.subs) && !r.subs[re.sp-1].called {
					r.subscribeInline(re.sp)
				}
				return
			}
		case client.MessageTypeError:
			e["k"] = "error"
			if m.Payload != nil {
				var one struct {
					Extensions struct {
						S int `json:"s"`
						N int `json:"n"`
					} `json:"extensions"`
				}
				var many []json.RawMessage
				raw := []byte(m.Payload.Errors)
				if json.Unmarshal(raw, &many) == nil && len(many) > 0 {
					raw = many[0]
				}
				if json.Unmarshal(raw, &one) == nil {
					e["id"], e["n"] = one.Extensions.S, one.Extensions.N
				}
			}
		case client.MessageTypeComplete:
			e["k"] = "complete"
		case client.MessageTypeConnectionError:
			e["k"] = "connerr"
			if m.Err != nil {
				e["x"] = classify(m.Err)
				e["n"] = closeCode(m.Err)
			}
		}
		r.rec.add(e)
	}
}

func (r *runner) call(s int) {
	sub := r.subs[s-1]
	if sub.called {
		r.res.Unrealised++
		return
	}
	sub.called = true
	before := r.sv.count()
	r.rec.add(ev{"ev": "call", "s": s})
	if r.ds != nil {
		r.callDS(s, sub)
		r.settle()
		if r.sv.count() == before+1 {
			sub.sconn = before + 1
		}
		return
	}
	opts := options(r.s, tuples(r.s)[r.s.Key[s-1]-1], r.sv.addr())
	req := &client.Request{Query: fmt.Sprintf("subscription { s%d }", s)}
	if s-1 < len(r.s.Bad) && r.s.Bad[s-1] {
		req.Variables = json.RawMessage(badVariables)
	}
	h := r.handler(s)
	go func() {
		defer close(sub.done)
		defer func() {
			if p := recover(); p != nil {
				r.res.Panic = fmt.Sprint(p)
				r.rec.add(ev{"ev": "ret", "s": s, "x": "panic"})
			}
		}()
		unsub, err := r.cl.Subscribe(sub.ctx, req, opts, h)
		sub.ret = classify(err)
		sub.mu.Lock()
		sub.unsubFn = unsub
		sub.mu.Unlock()
		r.rec.add(ev{"ev": "ret", "s": s, "x": sub.ret})
		if err == nil {
			// what graphql_subscription_client.go does with the returned function
			context.AfterFunc(sub.ctx, func() {
				unsub()
				r.rec.add(ev{"ev": "unsub", "s": s})
			})
		}
	}()
	r.settle()
	if r.sv.count() == before+1 {
		sub.sconn = before + 1
	}
}

// subscribeInline is a Subscribe call made from inside another subscriber's handler (no "call" line: the
// specification starts the call as part of that dispatch).
func (r *runner) subscribeInline(s int) {
	sub := r.subs[s-1]
	sub.called = true
	opts := options(r.s, tuples(r.s)[r.s.Key[s-1]-1], r.sv.addr())
	req := &client.Request{Query: fmt.Sprintf("subscription { s%d }", s)}
	unsub, err := r.cl.Subscribe(sub.ctx, req, opts, r.handler(s))
	sub.ret = classify(err)
	sub.mu.Lock()
	sub.unsubFn = unsub
	sub.mu.Unlock()
	r.rec.add(ev{"ev": "ret", "s": s, "x": sub.ret})
	close(sub.done)
	if err == nil {
		context.AfterFunc(sub.ctx, func() {
			unsub()
			r.rec.add(ev{"ev": "unsub", "s": s})
		})
	}
}

func (r *runner) cancelSub(s int) {
	sub := r.subs[s-1]
	if sub.canceld {
		r.res.Unrealised++
		return
	}
	sub.canceld = true
	r.rec.add(ev{"ev": "cancel", "s": s})
	sub.cancel()
	r.rec.add(ev{"ev": "cancel.done", "s": s})
	r.settle()
}

// sconnOf maps a connection of the specification (numbered in dial order, with the dialler the generator predicted)
// to the server-side connection that arrived while that subscriber's Subscribe call was started.
func (r *runner) sconnOf(c int) *sconn {
	if len(r.s.Reach) > 0 {
		// connections of the specification are numbered in dial order, the server numbers them in arrival order:
		// the same order, minus the dials that never leave the client
		if c < 1 || c > len(r.s.Reach) || !r.s.Reach[c-1] {
			return nil
		}
		n := 0
		for i := 0; i < c; i++ {
			if r.s.Reach[i] {
				n++
			}
		}
		return r.sv.conn(n)
	}
	if c < 1 || c > len(r.s.Dialler) {
		return nil
	}
	d := r.s.Dialler[c-1]
	if d < 1 || d > len(r.subs) || r.subs[d-1].sconn == 0 {
		return nil
	}
	return r.sv.conn(r.subs[d-1].sconn)
}

func (r *runner) step(st Step) {
	switch st.A {
	case "Call":
		r.call(st.S)
	case "Cancel":
		r.cancelSub(st.S)
	case "IdleWait":
		r.idleWait()
	case "Upgrade", "Reject":
		c := r.sconnOf(st.C)
		if c == nil || c.isGone() {
			r.res.Unrealised++
			return
		}
		if st.A == "Upgrade" {
			r.rec.add(ev{"ev": "srv.upgrade", "c": c.n, "s": c.sseSub})
			c.gate <- "upgrade"
		} else {
			r.rec.add(ev{"ev": "srv.reject", "c": c.n, "s": c.sseSub})
			c.gate <- "reject"
		}
		r.settle()
	case "Ack", "InitFail":
		c := r.sconnOf(st.C)
		if c == nil || c.isGone() || !c.hasInit() {
			r.res.Unrealised++
			return
		}
		if r.s.Mode == "sse" {
			r.res.Unrealised++
			return
		}
		if st.A == "Ack" {
			r.rec.add(ev{"ev": "srv.ack", "c": c.n})
			c.mu.Lock()
			c.acked = true
			c.mu.Unlock()
			if err := c.ack(); err != nil {
				r.res.Unrealised++
			}
		} else {
			r.rec.add(ev{"ev": "srv.initfail", "c": c.n})
			c.mu.Lock()
			c.closedBy = "server"
			c.mu.Unlock()
			c.ws.CloseNow()
		}
		r.settle()
	case "Send":
		c := r.sconnOf(st.C)
		if c == nil || c.isGone() {
			r.res.Unrealised++
			return
		}
		c.mu.Lock()
		n := c.nsent[st.S] + 1
		c.mu.Unlock()
		if r.s.Mode == "sse" {
			r.rec.add(ev{"ev": "srv.send", "c": c.n, "s": st.S, "k": st.K, "n": n, "v": variantOf(st)})
			c.mu.Lock()
			c.nsent[st.S] = n
			c.mu.Unlock()
			if err := c.sseEvent(st.K, variantOf(st), st.F, st.S, n); err != nil {
				r.res.Unrealised++
			}
			r.settle()
			return
		}
		b, ok := c.frame(st.S, st.K, variantOf(st), n)
		if !ok || c.isHeld() {
			r.res.Unrealised++
			return
		}
		if st.SC || st.SP > 0 {
			r.remu.Lock()
			r.reent[[2]int{st.S, n}] = reentry{sc: st.SC, sp: st.SP}
			r.remu.Unlock()
		}
		r.rec.add(ev{"ev": "srv.send", "c": c.n, "s": st.S, "k": st.K, "n": n, "v": variantOf(st), "sc": st.SC, "sp": st.SP})
		c.mu.Lock()
		c.nsent[st.S] = n
		c.mu.Unlock()
		if err := c.write(b); err != nil {
			r.res.Unrealised++
		}
		r.settle()
	case "Close":
		c := r.sconnOf(st.C)
		if c == nil || c.isGone() || c.isHeld() {
			r.res.Unrealised++
			return
		}
		code := 0
		if st.K != "" && c.ws != nil {
			fmt.Sscan(st.K, &code)
		}
		r.rec.add(ev{"ev": "srv.close", "c": c.n, "s": c.sseSub, "n": code})
		c.mu.Lock()
		c.closedBy = "server"
		done := c.sseDone
		c.mu.Unlock()
		if c.ws != nil && code != 0 {
			c.ws.Close(websocket.StatusCode(code), "scripted close") // close frame with code, waits for the client's answer
		} else if c.ws != nil {
			c.ws.CloseNow()
		} else if done != nil {
			close(done)
		} else {
			r.res.Unrealised++
		}
		r.settle()
	case "HoldClose", "Release":
		c := r.sconnOf(st.C)
		if c == nil || c.ws == nil || c.nc == nil || (st.A == "HoldClose" && (c.isGone() || c.isHeld())) || (st.A == "Release" && !c.isHeld()) {
			r.res.Unrealised++
			return
		}
		if st.A == "HoldClose" {
			r.rec.add(ev{"ev": "srv.hold", "c": c.n})
			c.hold()
		} else {
			r.rec.add(ev{"ev": "srv.release", "c": c.n})
			c.release()
		}
		r.settle()
	case "Mute":
		c := r.sconnOf(st.C)
		if c == nil || c.isGone() || c.ws == nil || !r.s.Ping {
			r.res.Unrealised++
			return
		}
		r.rec.add(ev{"ev": "srv.mute", "c": c.n})
		c.mu.Lock()
		c.muted = true
		c.mu.Unlock()
		// real timers: the ping loop needs up to interval + timeout + interval to notice; generous limit
		deadline := time.Now().Add(pingInterval*3 + pingTimeout + 2*time.Second)
		for !c.isGone() && time.Now().Before(deadline) {
			time.Sleep(5 * time.Millisecond)
		}
		r.settle()
	default:
		r.res.Unrealised++
	}
}

const (
	// the interval must exceed the timeout: pingLoop refreshes lastPingSentAt on every tick, so with interval <= timeout
	// pongOverdue() never sees "sent longer ago than the timeout" and a silent upstream is never detected
	pingInterval = 500 * time.Millisecond
	pingTimeout  = 150 * time.Millisecond
)

func variantOf(st Step) string {
	if st.K != "next" {
		return "-"
	}
	if st.V == "" || st.V == "-" {
		return "d"
	}
	return st.V
}

func (c *sconn) isHeld() bool {
	c.mu.Lock()
	defer c.mu.Unlock()
	return c.held
}

// hold makes the server keep back everything it writes on this connection - in particular the close frame with
// which coder/websocket answers the client's close frame - until release.
func (c *sconn) hold() {
	g := make(chan struct{})
	c.mu.Lock()
	c.held = true
	c.mu.Unlock()
	c.nc.hold.Store(&g)
}

func (c *sconn) release() {
	c.mu.Lock()
	c.held = false
	c.mu.Unlock()
	if g := c.nc.hold.Swap(nil); g != nil {
		close(*g)
	}
}

func (c *sconn) isGone() bool {
	c.mu.Lock()
	defer c.mu.Unlock()
	return c.gone
}

func (c *sconn) hasInit() bool {
	c.mu.Lock()
	defer c.mu.Unlock()
	return c.initSeen && c.ws != nil
}

func (r *runner) idleWait() {
	if r.idle > 0 {
		slack := time.Duration(r.s.Slack) * time.Millisecond
		if slack <= 0 {
			slack = 40 * time.Millisecond
		}
		time.Sleep(r.idle + slack)
		if !r.st.settle(3 * time.Second) {
			r.res.Unsettled++
		}
	}
	r.rec.add(ev{"ev": "idlewait"})
}

func runSchedule(s Schedule, w *bufio.Writer) Result {
	t0 := time.Now()
	res := Result{ID: s.ID}
	rec := &recorder{}
	reg := newNetRegistry()
	tp := tuples(s)
	prefer := protoGTWS
	if s.Proto == "gws" {
		prefer = protoGWS
	}
	sv, err := newServer(rec, reg, tp, prefer)
	if err != nil {
		res.Panic = "listen: " + err.Error()
		return res
	}
	tr := &http.Transport{DialContext: reg.dialContext, DisableKeepAlives: true}
	cctx, ccancel := context.WithCancel(context.Background())
	idle := time.Duration(s.IdleMs) * time.Millisecond
	ccfg := client.Config{
		UpgradeClient:   &http.Client{Transport: tr},
		StreamingClient: &http.Client{Transport: tr},
		// only scripted events may expire: no pings, acknowledgement and write deadlines far away
		PingInterval:  0,
		AckTimeout:    2 * time.Minute,
		WriteTimeout:  2 * time.Minute,
		WSIdleTimeout: idle,
	}
	if s.Ping {
		// pings on: the server answers every ping at once until a "Mute" step; the timeout is far above any scheduling delay
		ccfg.PingInterval, ccfg.PingTimeout = pingInterval, pingTimeout
	}
	cl := client.New(cctx, ccfg)
	r := &runner{s: s, rec: rec, reg: reg, sv: sv, cl: cl, res: &res, idle: idle, reent: map[[2]int]reentry{}}
	if s.Level == "ds" {
		r.ds = newDSClient(cctx, &http.Client{Transport: tr}, ccfg.PingInterval, ccfg.PingTimeout)
		r.idle, idle = 0, 0
	}
	r.st = &settler{reg: reg, events: rec.count}
	for range s.Key {
		ctx, cancel := context.WithCancel(context.Background())
		r.subs = append(r.subs, &subscriber{ctx: ctx, cancel: cancel, done: make(chan struct{})})
	}
	idleName := "zero"
	if idle > 0 {
		idleName = "pos"
	}
	bad := make([]bool, len(s.Key))
	copy(bad, s.Bad)
	rec.add(ev{"ev": "reset", "id": s.ID, "key": s.Key, "idle": idleName, "mode": s.Mode, "bad": bad, "ping": s.Ping, "hold": s.Hold, "reent": s.Reent})
	for _, st := range s.Steps {
		r.step(st)
	}
	// epilogue: everybody who is still subscribed (or still inside Subscribe) goes away, timers expire
	for i, sub := range r.subs {
		if sub.called && !sub.canceld {
			select {
			case <-sub.done:
				if sub.ret != "ok" {
					continue
				}
			default:
			}
			r.cancelSub(i + 1)
		}
	}
	for n := 1; n <= sv.count(); n++ {
		if c := sv.conn(n); c != nil && c.isHeld() {
			rec.add(ev{"ev": "srv.release", "c": c.n})
			c.release()
			r.settle()
		}
	}
	if idle > 0 {
		r.idleWait()
	}
	if !r.st.settle(3 * time.Second) {
		res.Unsettled++
	}
	if r.ds == nil {
		st := cl.Stats()
		rec.add(ev{"ev": "stats", "n": st.WSConns, "m": st.SSEConns})
	}
	rec.add(ev{"ev": "srv.open", "n": sv.open()})
	rec.add(ev{"ev": "end"})
	tEnd := time.Now()
	// tear down
	for i, sub := range r.subs {
		if !sub.called {
			continue
		}
		select {
		case <-sub.done:
		case <-time.After(2 * time.Second):
			res.Wedged = append(res.Wedged, i+1)
		}
		res.Rets = append(res.Rets, sub.ret)
	}
	for _, sub := range r.subs {
		sub.cancel()
	}
	ccancel()
	res.Conns = sv.count()
	sv.close()
	tr.CloseIdleConnections()
	r.st.settle(500 * time.Millisecond)
	rec.mu.Lock()
	for _, e := range rec.evs {
		// uniform fields so that the trace specification may read any of them on any line
		for _, k := range []string{"s", "c", "n", "id"} {
			if _, ok := e[k]; !ok {
				e[k] = 0
			}
		}
		if _, ok := e["v"]; !ok {
			e["v"] = "-"
		}
		if _, ok := e["sc"]; !ok {
			e["sc"] = false
		}
		if _, ok := e["sp"]; !ok {
			e["sp"] = 0
		}
		for _, k := range []string{"k", "x"} {
			if _, ok := e[k]; !ok {
				e[k] = ""
			}
		}
		b, _ := json.Marshal(e)
		w.Write(b)
		w.WriteByte('\n')
	}
	res.Events = len(rec.evs)
	rec.mu.Unlock()
	res.Ms = int(time.Since(t0).Milliseconds())
	if os.Getenv("VERIF_WSMUX_PROF") != "" {
		fmt.Fprintf(os.Stderr, "%s total=%v steps+epilogue=%v teardown=%v\n", s.ID, time.Since(t0), tEnd.Sub(t0), time.Since(tEnd))
	}
	return res
}

func main() {
	in := flag.String("in", "", "schedules NDJSON")
	out := flag.String("out", "events.ndjson", "event stream for TLC")
	resf := flag.String("res", "results.ndjson", "per-schedule results")
	flag.Parse()
	f, err := os.Open(*in)
	if err != nil {
		fmt.Fprintln(os.Stderr, err)
		os.Exit(3)
	}
	defer f.Close()
	of, _ := os.Create(*out)
	defer of.Close()
	evw := bufio.NewWriterSize(of, 1<<20)
	defer evw.Flush()
	rf, _ := os.Create(*resf)
	defer rf.Close()
	rw := bufio.NewWriter(rf)
	defer rw.Flush()
	sc := bufio.NewScanner(f)
	sc.Buffer(make([]byte, 1<<20), 1<<26)
	for sc.Scan() {
		line := bytes.TrimSpace(sc.Bytes())
		if len(line) == 0 {
			continue
		}
		var s Schedule
		if err := json.Unmarshal(line, &s); err != nil {
			fmt.Fprintln(os.Stderr, "bad schedule:", err)
			os.Exit(3)
		}
		r := runSchedule(s, evw)
		b, _ := json.Marshal(r)
		rw.Write(b)
		rw.WriteByte('\n')
	}
}
