package main

// In-process upstream GraphQL subscription server (server side of coder/websocket, plus an SSE endpoint).
// It does nothing on its own: every connection parks before the upgrade response, never acknowledges
// connection_init and never sends a frame unless the driver tells it to.  It records what it sees:
// requests (path, X-Verif-K header, offered subprotocols), connection_init payloads, subscribe / stop
// frames, and how each connection ended.

import (
	"context"
	"encoding/json"
	"errors"
	"fmt"
	"io"
	"net"
	"net/http"
	"reflect"
	"regexp"
	"strconv"
	"strings"
	"sync"
	"time"

	"github.com/coder/websocket"
)

// tuple is one option tuple (= connection key) of a schedule as the server can observe it.
type tuple struct {
	Path    string // endpoint path
	Hdr     string // value of X-Verif-K
	Proto   string // requested subprotocol: graphql-transport-ws | graphql-ws | "" (auto)
	Payload string // the connection_init payload as JSON ("" = no payload)
}

type sconn struct {
	n        int // arrival number, 1-based
	sse      bool
	path     string
	hdr      string
	offered  []string
	proto    string // negotiated
	key      int    // tuple index matched on path/header/offered (0 = none or ambiguous)
	gate     chan string
	ws       *websocket.Conn
	mu       sync.Mutex
	initSeen bool
	initKey  int
	acked    bool
	muted    bool // stop answering pings
	nc       *countingConn // the TCP connection under the WebSocket (its writes can be held)
	held     bool
	ids      map[int]string // subscriber -> wire id
	rev      map[string]int
	nsent    map[int]int
	gone     bool
	closedBy string // "server" when the driver closed it
	// SSE
	sseSub  int
	sseW    http.ResponseWriter
	sseDone chan struct{}
}

type netConnKey struct{}

type server struct {
	rec    *recorder
	tuples []tuple
	proto  string // protocol the server prefers when both are offered
	ln     net.Listener
	hs     *http.Server
	mu     sync.Mutex
	conns  []*sconn
	arrive chan struct{}
}

var subRe = regexp.MustCompile(`s(\d+)`)

func newServer(rec *recorder, reg *netRegistry, tuples []tuple, prefer string) (*server, error) {
	ln, err := net.Listen("tcp", "127.0.0.1:0")
	if err != nil {
		return nil, err
	}
	sv := &server{rec: rec, tuples: tuples, proto: prefer, ln: &countingListener{Listener: ln, reg: reg}, arrive: make(chan struct{}, 64)}
	sv.hs = &http.Server{Handler: sv, ReadHeaderTimeout: time.Minute,
		ConnContext: func(ctx context.Context, c net.Conn) context.Context { return context.WithValue(ctx, netConnKey{}, c) }}
	go sv.hs.Serve(sv.ln)
	return sv, nil
}

func (sv *server) addr() string { return sv.ln.Addr().String() }

func (sv *server) close() {
	sv.hs.Close()
	sv.mu.Lock()
	cs := append([]*sconn(nil), sv.conns...)
	sv.mu.Unlock()
	for _, c := range cs {
		c.mu.Lock()
		ws := c.ws
		done := c.sseDone
		c.closedBy = "server"
		c.mu.Unlock()
		if ws != nil {
			ws.CloseNow()
		}
		if done != nil {
			select {
			case <-done:
			default:
				close(done)
			}
		}
		select {
		case c.gate <- "teardown":
		default:
		}
	}
}

func (sv *server) conn(n int) *sconn {
	sv.mu.Lock()
	defer sv.mu.Unlock()
	if n < 1 || n > len(sv.conns) {
		return nil
	}
	return sv.conns[n-1]
}

func (sv *server) count() int {
	sv.mu.Lock()
	defer sv.mu.Unlock()
	return len(sv.conns)
}

// open counts the connections the server still considers alive (upgraded or parked at a gate, not gone).
func (sv *server) open() int {
	sv.mu.Lock()
	defer sv.mu.Unlock()
	n := 0
	for _, c := range sv.conns {
		c.mu.Lock()
		if !c.gone {
			n++
		}
		c.mu.Unlock()
	}
	return n
}

func sameOffer(offered []string, want string) bool {
	switch want {
	case "":
		return len(offered) == 2
	default:
		return len(offered) == 1 && offered[0] == want
	}
}

func (sv *server) matchReq(c *sconn) int {
	found := 0
	for i, t := range sv.tuples {
		if t.Path == c.path && t.Hdr == c.hdr && (c.sse || sameOffer(c.offered, t.Proto)) {
			if found != 0 {
				// tuples that differ in the init payload only: undecided until connection_init arrives
				if sv.tuples[found-1].Path == t.Path && sv.tuples[found-1].Hdr == t.Hdr && sv.tuples[found-1].Proto == t.Proto {
					return 0
				}
			}
			found = i + 1
		}
	}
	return found
}

// samePayload compares two init payloads as JSON documents (42 and "42" differ, key order does not matter).
func samePayload(want string, got []byte) bool {
	if want == "" {
		return len(got) == 0 || string(got) == "null"
	}
	if len(got) == 0 {
		return false
	}
	var a, b any
	if json.Unmarshal([]byte(want), &a) != nil || json.Unmarshal(got, &b) != nil {
		return false
	}
	return reflect.DeepEqual(a, b)
}

func (sv *server) matchInit(c *sconn, payload []byte) int {
	for i, t := range sv.tuples {
		if t.Path == c.path && t.Hdr == c.hdr && sameOffer(c.offered, t.Proto) && samePayload(t.Payload, payload) {
			return i + 1
		}
	}
	return 0
}

func (c *sconn) markGone(rec *recorder, how string) {
	c.mu.Lock()
	if c.gone {
		c.mu.Unlock()
		return
	}
	c.gone = true
	if c.closedBy == "server" {
		how = "server"
	}
	c.mu.Unlock()
	rec.add(ev{"ev": "srv.gone", "c": c.n, "x": how, "s": c.sseSub})
}

func (sv *server) ServeHTTP(w http.ResponseWriter, r *http.Request) {
	nc, _ := r.Context().Value(netConnKey{}).(*countingConn)
	c := &sconn{nc: nc, path: r.URL.Path, hdr: r.Header.Get("X-Verif-K"), gate: make(chan string, 1), ids: map[int]string{}, rev: map[string]int{}, nsent: map[int]int{}}
	for _, p := range r.Header.Values("Sec-WebSocket-Protocol") {
		for _, q := range strings.Split(p, ",") {
			if q = strings.TrimSpace(q); q != "" {
				c.offered = append(c.offered, q)
			}
		}
	}
	c.sse = r.Header.Get("Upgrade") == ""
	if c.sse {
		body, _ := io.ReadAll(r.Body)
		q := r.URL.Query().Get("query")
		if q == "" {
			var req struct {
				Query string `json:"query"`
			}
			json.Unmarshal(body, &req)
			q = req.Query
		}
		if m := subRe.FindStringSubmatch(q); m != nil {
			c.sseSub, _ = strconv.Atoi(m[1])
		}
	}
	sv.mu.Lock()
	sv.conns = append(sv.conns, c)
	c.n = len(sv.conns)
	sv.mu.Unlock()
	c.key = sv.matchReq(c)
	sv.rec.add(ev{"ev": "srv.req", "c": c.n, "key": c.key, "s": c.sseSub})
	select {
	case sv.arrive <- struct{}{}:
	default:
	}
	var d string
	select {
	case d = <-c.gate:
	case <-r.Context().Done():
		c.markGone(sv.rec, "aborted")
		return
	}
	if d != "upgrade" {
		if d == "reject" {
			http.Error(w, "upstream refuses", http.StatusInternalServerError)
		}
		c.mu.Lock()
		c.gone = true
		c.mu.Unlock()
		return
	}
	if c.sse {
		sv.serveSSE(w, r, c)
		return
	}
	sub := sv.proto
	if len(c.offered) == 1 {
		sub = c.offered[0]
	}
	ws, err := websocket.Accept(w, r, &websocket.AcceptOptions{Subprotocols: []string{sub}})
	if err != nil {
		c.markGone(sv.rec, "accept")
		return
	}
	ws.SetReadLimit(1 << 20)
	c.mu.Lock()
	c.ws = ws
	c.proto = ws.Subprotocol()
	c.mu.Unlock()
	for {
		_, data, err := ws.Read(context.Background())
		if err != nil {
			how := "abrupt"
			var ce websocket.CloseError
			if errors.As(err, &ce) {
				how = "normal"
			}
			c.markGone(sv.rec, how)
			ws.CloseNow()
			return
		}
		sv.handleFrame(c, data)
	}
}

func (sv *server) handleFrame(c *sconn, data []byte) {
	var m struct {
		ID      string          `json:"id"`
		Type    string          `json:"type"`
		Payload json.RawMessage `json:"payload"`
	}
	if err := json.Unmarshal(data, &m); err != nil {
		sv.rec.add(ev{"ev": "srv.recv", "c": c.n, "k": "garbage", "s": 0})
		return
	}
	switch m.Type {
	case "connection_init":
		k := sv.matchInit(c, m.Payload)
		c.mu.Lock()
		c.initSeen = true
		c.initKey = k
		c.mu.Unlock()
		sv.rec.add(ev{"ev": "srv.init", "c": c.n, "key": k})
	case "subscribe", "start":
		var req struct {
			Query string `json:"query"`
		}
		json.Unmarshal(m.Payload, &req)
		s := 0
		if mm := subRe.FindStringSubmatch(req.Query); mm != nil {
			s, _ = strconv.Atoi(mm[1])
		}
		c.mu.Lock()
		c.ids[s] = m.ID
		c.rev[m.ID] = s
		c.mu.Unlock()
		sv.rec.add(ev{"ev": "srv.recv", "c": c.n, "k": "sub", "s": s})
	case "complete", "stop":
		c.mu.Lock()
		s := c.rev[m.ID]
		c.mu.Unlock()
		sv.rec.add(ev{"ev": "srv.recv", "c": c.n, "k": "stop", "s": s})
	case "ping":
		c.mu.Lock()
		muted := c.muted
		c.mu.Unlock()
		if !muted {
			c.ws.Write(context.Background(), websocket.MessageText, []byte(`{"type":"pong"}`))
		}
	case "pong":
	default:
		sv.rec.add(ev{"ev": "srv.recv", "c": c.n, "k": "other:" + m.Type, "s": 0})
	}
}

func (c *sconn) write(b []byte) error {
	ctx, cancel := context.WithTimeout(context.Background(), 5*time.Second)
	defer cancel()
	return c.ws.Write(ctx, websocket.MessageText, b)
}

func (c *sconn) ack() error { return c.write([]byte(`{"type":"connection_ack"}`)) }

// payload is the GraphQL result of a next frame in variant v: "d" data only, "de" data:null + errors,
// "dx" data + extensions.  Every part names the subscription and the frame it belongs to.
func payload(v string, s, n int) string {
	switch v {
	case "de":
		return fmt.Sprintf(`{"data":null,"errors":[{"message":"e","extensions":{"s":%d,"n":%d}}]}`, s, n)
	case "dx":
		return fmt.Sprintf(`{"data":{"s":%d,"n":%d},"extensions":{"s":%d,"n":%d}}`, s, n, s, n)
	}
	return fmt.Sprintf(`{"data":{"s":%d,"n":%d}}`, s, n)
}

// frame builds the wire form of one scripted frame for subscriber s on this connection.
func (c *sconn) frame(s int, kind, v string, n int) ([]byte, bool) {
	c.mu.Lock()
	id, ok := c.ids[s]
	legacy := c.proto == "graphql-ws"
	c.mu.Unlock()
	if !ok {
		return nil, false
	}
	idj, _ := json.Marshal(id)
	switch kind {
	case "next":
		t := "next"
		if legacy {
			t = "data"
		}
		return []byte(fmt.Sprintf(`{"id":%s,"type":"%s","payload":%s}`, idj, t, payload(v, s, n))), true
	case "error":
		if legacy {
			return []byte(fmt.Sprintf(`{"id":%s,"type":"error","payload":{"message":"e","extensions":{"s":%d,"n":%d}}}`, idj, s, n)), true
		}
		return []byte(fmt.Sprintf(`{"id":%s,"type":"error","payload":[{"message":"e","extensions":{"s":%d,"n":%d}}]}`, idj, s, n)), true
	case "complete":
		return []byte(fmt.Sprintf(`{"id":%s,"type":"complete"}`, idj)), true
	}
	return nil, false
}

// ---- SSE: one request per subscription, the same gates (before the response headers, before each event)

func (sv *server) serveSSE(w http.ResponseWriter, r *http.Request, c *sconn) {
	w.Header().Set("Content-Type", "text/event-stream")
	w.WriteHeader(http.StatusOK)
	w.(http.Flusher).Flush()
	c.mu.Lock()
	c.sseW = w
	c.sseDone = make(chan struct{})
	done := c.sseDone
	c.mu.Unlock()
	select {
	case <-r.Context().Done():
		c.markGone(sv.rec, "abrupt")
	case <-done:
		c.markGone(sv.rec, "server")
	}
}

// sseEvent writes one event block in framing variant f (all of them mean the same event):
//
//	plain      event: K / data: D
//	bare       event: complete with no data line at all (only for complete; plain otherwise)
//	emptydata  event: complete / "data:" without the blank after the colon
//	noevent    data: D without an event line (next only: an event without a type is data)
//	comment    a keep-alive comment block first, a comment line inside the block
//	multiline  the JSON document split over two data: lines
//	crlf       CRLF line ends
func (c *sconn) sseEvent(kind, v, f string, s, n int) error {
	c.mu.Lock()
	w := c.sseW
	c.mu.Unlock()
	if w == nil {
		return errors.New("no stream")
	}
	var data string
	switch kind {
	case "next":
		data = payload(v, s, n)
	case "error":
		data = fmt.Sprintf("[{\"message\":\"e\",\"extensions\":{\"s\":%d,\"n\":%d}}]", s, n)
	}
	lines := []string{"event: " + kind, "data: " + data}
	pre := ""
	switch f {
	case "bare":
		if kind == "complete" {
			lines = []string{"event: complete"}
		}
	case "emptydata":
		if kind == "complete" {
			lines = []string{"event: complete", "data:"}
		}
	case "noevent":
		if kind == "next" {
			lines = []string{"data: " + data}
		}
	case "comment":
		pre = ": keep-alive\n\n"
		lines = []string{": about to send", lines[0], lines[1]}
	case "multiline":
		if i := strings.Index(data, ","); kind != "complete" && i > 0 {
			lines = []string{lines[0], "data: " + data[:i+1], "data: " + data[i+1:]}
		}
	}
	nl := "\n"
	if f == "crlf" {
		nl = "\r\n"
	}
	b := pre + strings.Join(lines, nl) + nl + nl
	if _, err := io.WriteString(w, b); err != nil {
		return err
	}
	w.(http.Flusher).Flush()
	return nil
}
