// Command fed is the C01 driver: it replays TLC-generated operations (spec/fed/Gen_C01) into a REAL
// ExecutionEngine whose subgraphs are semantic simulators (internal/sim) over the catalog universes, and
// records the gateway's response and every subgraph exchange as NDJSON for the validation pass (Trace_C01).
//
//	fed -catalog catalog.ndjson -cases cases.ndjson -out results.ndjson [-workers N]
//	fed -calibrate router-config.json        (fedcfg composition rule vs. a shipped router config)
//	fed -sdl catalog.ndjson                  (print the SDLs / planner metadata derived from the catalog)
package main

import (
	"bufio"
	"context"
	"encoding/json"
	"flag"
	"fmt"
	"os"
	"runtime/debug"
	"sort"
	"sync"
	"time"

	"github.com/wundergraph/graphql-go-tools/execution/engine"
	"github.com/wundergraph/graphql-go-tools/execution/graphql"
	"github.com/wundergraph/graphql-go-tools/v2/pkg/engine/plan"

	"verif/harness/internal/fedcat"
	"verif/harness/internal/fedcfg"
	"verif/harness/internal/sim"
)

type expect struct {
	Data fedcat.Val `json:"data"`
	Err  bool       `json:"err"`
}

type caseIn struct {
	ID    string           `json:"id"`
	Entry string           `json:"entry"`
	Doc   fedcat.Doc       `json:"doc"`
	Vars  []fedcat.Binding `json:"vars"`
	Exp   []expect         `json:"exp"`
	Us    []int            `json:"us"` // universes to run (0-based); empty = all
}

type exchangeOut struct {
	Sg      int              `json:"sg"` // 0-based
	SgName  string           `json:"sgName"`
	Query   string           `json:"query"`
	Vars    json.RawMessage  `json:"vars"`
	Resp    json.RawMessage  `json:"resp"`
	Invalid string           `json:"invalid,omitempty"`
	Doc     *fedcat.Doc      `json:"doc,omitempty"`
	Binds   []fedcat.Binding `json:"binds"`
	Data    *fedcat.Val      `json:"data,omitempty"`
	HasErr  bool             `json:"hasErr"`
	Seq0    int64            `json:"seq0"`
	Arrival int              `json:"arrival"` // arrival order at the simulators within this execution
}

type resultOut struct {
	ID        string        `json:"id"`
	Entry     string        `json:"entry"`
	U         int           `json:"u"`
	Query     string        `json:"query"`
	VarsJSON  string        `json:"varsJson"`
	EngineErr string        `json:"engineErr,omitempty"`
	Panic     string        `json:"panic,omitempty"`
	Body      string        `json:"body"`
	BadBody   string        `json:"badBody,omitempty"`
	HasData   bool          `json:"hasData"`
	Data      *fedcat.Val   `json:"data,omitempty"`
	HasErrors bool          `json:"hasErrors"`
	Errors    string        `json:"errors,omitempty"`
	Exchanges []exchangeOut `json:"exchanges"`
}

func must(err error) {
	if err != nil {
		fmt.Fprintln(os.Stderr, "fed:", err)
		os.Exit(3)
	}
}

func readCatalog(path string) map[string]*fedcat.Entry {
	f, err := os.Open(path)
	must(err)
	defer f.Close()
	out := map[string]*fedcat.Entry{}
	sc := bufio.NewScanner(f)
	sc.Buffer(make([]byte, 1<<20), 1<<28)
	for sc.Scan() {
		if len(sc.Bytes()) == 0 {
			continue
		}
		var e fedcat.Entry
		must(json.Unmarshal(sc.Bytes(), &e))
		out[e.Name] = &e
	}
	must(sc.Err())
	return out
}

type gatewayEnv struct {
	entry  *fedcat.Entry
	router *sim.Router
	gw     *fedcfg.Gateway
}

func newEnv(e *fedcat.Entry) (*gatewayEnv, error) {
	r, err := sim.NewRouter(e)
	if err != nil {
		return nil, err
	}
	srcs := make([]fedcfg.Source, len(e.Sgs))
	for i := range e.Sgs {
		srcs[i] = fedcfg.Source{Name: e.Sgs[i].Name, SDL: fedcat.SubgraphSDL(e, i), URL: r.URL(i)}
	}
	opts := fedcfg.Options{}
	if os.Getenv("C01_PLAN_DEBUG") != "" {
		opts.Configure = func(c *engine.Configuration) {
			c.VerifPlannerConfig().Debug = plan.DebugConfiguration{PrintOperationTransformations: true, PrintPlanningPaths: true, PrintNodeSuggestions: true, PrintQueryPlans: true}
		}
	}
	gw, err := fedcfg.NewGateway(fedcat.SupergraphSDL(e), srcs, r, opts)
	if err != nil {
		return nil, err
	}
	return &gatewayEnv{entry: e, router: r, gw: gw}, nil
}

func (g *gatewayEnv) run(c *caseIn, u int) (out resultOut) {
	out = resultOut{ID: c.ID, Entry: c.Entry, U: u, Query: c.Doc.Print(""), VarsJSON: fedcat.VarsJSON(c.Vars), Exchanges: []exchangeOut{}}
	g.router.SetUniverse(&g.entry.Universes[u])
	defer func() {
		if p := recover(); p != nil {
			out.Panic = fmt.Sprintf("%v\n%s", p, debug.Stack())
		}
		for n, x := range g.router.Take() {
			xo := exchangeOut{Sg: x.Sg, SgName: x.SgName, Query: x.Query, Vars: x.Vars, Resp: x.Resp, Invalid: x.Invalid, Doc: x.Doc, Binds: x.Bindings, HasErr: x.HasErr, Seq0: x.Seq0, Arrival: n}
			if xo.Binds == nil {
				xo.Binds = []fedcat.Binding{}
			}
			if x.Invalid == "" {
				d := x.Data
				xo.Data = &d
			}
			if len(xo.Vars) == 0 {
				xo.Vars = json.RawMessage("null")
			}
			out.Exchanges = append(out.Exchanges, xo)
		}
		// parallel fetches arrive in scheduler order: make the record deterministic
		sort.SliceStable(out.Exchanges, func(i, j int) bool {
			a, b := out.Exchanges[i], out.Exchanges[j]
			if a.Sg != b.Sg {
				return a.Sg < b.Sg
			}
			if a.Query != b.Query {
				return a.Query < b.Query
			}
			return string(a.Vars) < string(b.Vars)
		})
	}()
	req := &graphql.Request{Query: out.Query, Variables: json.RawMessage(out.VarsJSON)}
	w := graphql.NewEngineResultWriter()
	ctx, cancel := context.WithTimeout(context.Background(), 20*time.Second)
	defer cancel()
	err := g.gw.Engine.Execute(ctx, req, &w)
	if err != nil {
		out.EngineErr = err.Error()
	}
	body := w.Bytes()
	out.Body = string(body)
	if err == nil {
		v, perr := fedcat.FromJSON(body)
		if perr != nil || v.T != "o" {
			out.BadBody = fmt.Sprintf("response is not a JSON object: %v", perr)
			return out
		}
		d := v.Get("data")
		if !d.IsAbsent() {
			out.HasData = true
			out.Data = &d
		}
		es := v.Get("errors")
		if es.T == "l" && len(es.L) > 0 {
			out.HasErrors = true
			out.Errors = es.Plain()
		}
	}
	return out
}

func main() {
	cal := flag.String("calibrate", "", "router config json: regenerate its planner metadata from the subgraph SDLs and diff")
	sdl := flag.String("sdl", "", "catalog ndjson: print derived SDLs and metadata")
	catalog := flag.String("catalog", "", "catalog ndjson (Gen_Catalog)")
	cases := flag.String("cases", "", "cases ndjson (Gen_C01 + id)")
	outPath := flag.String("out", "", "results ndjson")
	workers := flag.Int("workers", 6, "parallel gateways")
	entryName := flag.String("entry", "", "ad hoc: catalog entry name")
	adhoc := flag.String("query", "", "ad hoc: GraphQL operation text to run against -entry in universe -u (prints response and exchanges)")
	adhocVars := flag.String("vars", "{}", "ad hoc: variables JSON")
	adhocU := flag.Int("u", 0, "ad hoc: universe index (0-based)")
	flag.Parse()
	if *adhoc != "" {
		cat := readCatalog(*catalog)
		e := cat[*entryName]
		if e == nil {
			must(fmt.Errorf("unknown entry %q", *entryName))
		}
		g, err := newEnv(e)
		must(err)
		g.router.SetUniverse(&e.Universes[*adhocU])
		req := &graphql.Request{Query: *adhoc, Variables: json.RawMessage(*adhocVars)}
		w := graphql.NewEngineResultWriter()
		err = g.gw.Engine.Execute(context.Background(), req, &w)
		fmt.Printf("error: %v\nresponse: %s\n", err, w.Bytes())
		for _, x := range g.router.Take() {
			fmt.Printf("  -> %s: %s\n     vars: %s\n     <- %s\n", x.SgName, x.Query, x.Vars, x.Resp)
			if x.Invalid != "" {
				fmt.Printf("     INVALID: %s\n", x.Invalid)
			}
		}
		return
	}
	if *cal != "" {
		b, err := os.ReadFile(*cal)
		must(err)
		diffs, n, err := fedcfg.Calibrate(b)
		must(err)
		res := map[string]interface{}{"compared": n, "diffs": diffs}
		jb, _ := json.Marshal(res)
		fmt.Println(string(jb))
		return
	}
	if *sdl != "" {
		for _, e := range readCatalog(*sdl) {
			fmt.Printf("######## entry %s\n---- supergraph\n%s", e.Name, fedcat.SupergraphSDL(e))
			var sgs []fedcfg.Subgraph
			for i := range e.Sgs {
				s := fedcat.SubgraphSDL(e, i)
				fmt.Printf("---- subgraph %s\n%s", e.Sgs[i].Name, s)
				sgs = append(sgs, fedcfg.Subgraph{Name: e.Sgs[i].Name, SDL: s})
			}
			ms, err := fedcfg.FromSDLs(sgs)
			must(err)
			for i, m := range ms {
				b, _ := json.Marshal(m)
				fmt.Printf("---- metadata %s\n%s\n", e.Sgs[i].Name, b)
			}
		}
		return
	}
	cat := readCatalog(*catalog)
	f, err := os.Open(*cases)
	must(err)
	var all []*caseIn
	sc := bufio.NewScanner(f)
	sc.Buffer(make([]byte, 1<<20), 1<<28)
	for sc.Scan() {
		if len(sc.Bytes()) == 0 {
			continue
		}
		c := &caseIn{}
		must(json.Unmarshal(sc.Bytes(), c))
		if cat[c.Entry] == nil {
			must(fmt.Errorf("case %s: unknown catalog entry %q", c.ID, c.Entry))
		}
		all = append(all, c)
	}
	must(sc.Err())
	f.Close()

	results := make([][]resultOut, len(all))
	var wg sync.WaitGroup
	ch := make(chan int, len(all))
	for i := range all {
		ch <- i
	}
	close(ch)
	var failMu sync.Mutex
	var failure error
	for w := 0; w < *workers; w++ {
		wg.Add(1)
		go func() {
			defer wg.Done()
			envs := map[string]*gatewayEnv{}
			defer func() {
				for _, g := range envs {
					g.gw.Close()
				}
			}()
			for i := range ch {
				c := all[i]
				g := envs[c.Entry]
				if g == nil {
					var err error
					g, err = newEnv(cat[c.Entry])
					if err != nil {
						failMu.Lock()
						failure = fmt.Errorf("entry %s: cannot build gateway: %w", c.Entry, err)
						failMu.Unlock()
						return
					}
					envs[c.Entry] = g
				}
				us := c.Us
				if len(us) == 0 {
					for u := range g.entry.Universes {
						us = append(us, u)
					}
				}
				for _, u := range us {
					results[i] = append(results[i], g.run(c, u))
				}
			}
		}()
	}
	wg.Wait()
	if failure != nil {
		must(failure)
	}
	of, err := os.Create(*outPath)
	must(err)
	bw := bufio.NewWriterSize(of, 1<<20)
	enc := json.NewEncoder(bw)
	for _, rs := range results {
		for _, r := range rs {
			must(enc.Encode(r))
		}
	}
	must(bw.Flush())
	must(of.Close())
}
