package main

// An entity field WITH AN ARGUMENT for the cache-key dimension "same entity, same field, different argument value":
// the shipped federationtesting supergraph has none, so the router config is extended in memory with
//
//	type Product { ... label(lang: String!): String! }        (owned by the products subgraph)
//
// and the products subgraph is wrapped: entity requests that select `label` are answered by a small independent
// resolver (query parsed with vektah/gqlparser, label = "<upc>/<lang>"), everything else goes to the real gqlgen server.

import (
	"bytes"
	"encoding/json"
	"fmt"
	"io"
	"net/http"
	"strings"

	gast "github.com/vektah/gqlparser/v2/ast"
	"github.com/vektah/gqlparser/v2/parser"

	"github.com/wundergraph/graphql-go-tools/execution/federationtesting"
	products "github.com/wundergraph/graphql-go-tools/execution/federationtesting/products/graph"

	"verif/harness/internal/fedenv"
)

const labelField = "  label(lang: String!): String!\n"

func mustReplaceOnce(s, old, new, what string) (string, error) {
	if strings.Count(s, old) != 1 {
		return "", fmt.Errorf("cachex: router config patch %q: anchor found %d times", what, strings.Count(s, old))
	}
	return strings.Replace(s, old, new, 1), nil
}

// extendedRouterConfig returns federationtesting's router config with Product.label(lang:) added.
func extendedRouterConfig() ([]byte, error) {
	var cfg map[string]any
	dec := json.NewDecoder(bytes.NewReader(federationtesting.RouterConfigJson))
	dec.UseNumber()
	if err := dec.Decode(&cfg); err != nil {
		return nil, err
	}
	ec := cfg["engineConfig"].(map[string]any)
	// client / supergraph schema
	g, err := mustReplaceOnce(ec["graphqlSchema"].(string), "  inStock: Int!\n  reviews: [Review]\n}", "  inStock: Int!\n"+labelField+"  reviews: [Review]\n}", "graphqlSchema")
	if err != nil {
		return nil, err
	}
	ec["graphqlSchema"] = g
	// products data source
	var prod map[string]any
	for _, d := range ec["datasourceConfigurations"].([]any) {
		if d.(map[string]any)["id"] == "1" {
			prod = d.(map[string]any)
		}
	}
	if prod == nil {
		return nil, fmt.Errorf("cachex: products data source not found")
	}
	patched := false
	for _, rn := range prod["rootNodes"].([]any) {
		n := rn.(map[string]any)
		if n["typeName"] == "Product" {
			n["fieldNames"] = append(n["fieldNames"].([]any), "label")
			patched = true
		}
	}
	if !patched {
		return nil, fmt.Errorf("cachex: Product root node not found")
	}
	cg := prod["customGraphql"].(map[string]any)
	fed := cg["federation"].(map[string]any)
	sdl, err := mustReplaceOnce(fed["serviceSdl"].(string), "    inStock: Int!\n}", "    inStock: Int!\n  "+labelField+"}", "serviceSdl")
	if err != nil {
		return nil, err
	}
	fed["serviceSdl"] = sdl
	key := cg["upstreamSchema"].(map[string]any)["key"].(string)
	ss := ec["stringStorage"].(map[string]any)
	up, err := mustReplaceOnce(ss[key].(string), "  inStock: Int!\n", "  inStock: Int!\n"+labelField, "upstreamSchema")
	if err != nil {
		return nil, err
	}
	ss[key] = up
	ec["fieldConfigurations"] = append(ec["fieldConfigurations"].([]any), map[string]any{
		"typeName": "Product", "fieldName": "label",
		"argumentsConfiguration": []any{map[string]any{"name": "lang", "sourceType": "FIELD_ARGUMENT"}},
	})
	return json.Marshal(cfg)
}

var productTable = map[string]struct {
	name  string
	price int
}{"top-1": {"Trilby", 11}, "top-2": {"Fedora", 22}, "top-3": {"Boater", 33}}

// productsWithLabel wraps the real products subgraph.
func productsWithLabel() fedenv.Subgraph {
	real := products.GraphQLEndpointHandler(products.TestOptions)
	h := http.HandlerFunc(func(w http.ResponseWriter, r *http.Request) {
		body, _ := io.ReadAll(r.Body)
		var req struct {
			Query     string         `json:"query"`
			Variables map[string]any `json:"variables"`
		}
		if json.Unmarshal(body, &req) != nil || !strings.Contains(req.Query, "label") || !strings.Contains(req.Query, "_entities") {
			r.Body = io.NopCloser(bytes.NewReader(body))
			real.ServeHTTP(w, r)
			return
		}
		out, err := answerLabel(req.Query, req.Variables)
		w.Header().Set("Content-Type", "application/json")
		if err != nil {
			b, _ := json.Marshal(map[string]any{"errors": []any{map[string]any{"message": "cachex products: " + err.Error()}}})
			_, _ = w.Write(b)
			return
		}
		_, _ = w.Write(out)
	})
	return fedenv.Subgraph{Name: "products", Handler: h}
}

func argString(f *gast.Field, name string, vars map[string]any) (string, error) {
	a := f.Arguments.ForName(name)
	if a == nil || a.Value == nil {
		return "", fmt.Errorf("argument %s missing", name)
	}
	switch a.Value.Kind {
	case gast.Variable:
		v, ok := vars[a.Value.Raw].(string)
		if !ok {
			return "", fmt.Errorf("variable $%s is not a string", a.Value.Raw)
		}
		return v, nil
	case gast.StringValue, gast.BlockValue:
		return a.Value.Raw, nil
	}
	return "", fmt.Errorf("argument %s: unsupported value kind", name)
}

func answerLabel(query string, vars map[string]any) ([]byte, error) {
	doc, perr := parser.ParseQuery(&gast.Source{Input: query})
	if perr != nil {
		return nil, perr
	}
	if len(doc.Operations) != 1 {
		return nil, fmt.Errorf("expected one operation")
	}
	var ents *gast.Field
	for _, s := range doc.Operations[0].SelectionSet {
		if f, ok := s.(*gast.Field); ok && f.Name == "_entities" {
			ents = f
		}
	}
	if ents == nil {
		return nil, fmt.Errorf("_entities not selected")
	}
	var fields []*gast.Field
	for _, s := range ents.SelectionSet {
		switch x := s.(type) {
		case *gast.Field:
			fields = append(fields, x)
		case *gast.InlineFragment:
			if x.TypeCondition != "" && x.TypeCondition != "Product" {
				continue
			}
			for _, s2 := range x.SelectionSet {
				if f, ok := s2.(*gast.Field); ok {
					fields = append(fields, f)
				} else {
					return nil, fmt.Errorf("nested fragments are not supported")
				}
			}
		default:
			return nil, fmt.Errorf("fragment spreads are not supported")
		}
	}
	reps, _ := vars["representations"].([]any)
	var buf bytes.Buffer
	buf.WriteString(`{"data":{"_entities":[`)
	for i, r := range reps {
		if i > 0 {
			buf.WriteByte(',')
		}
		rep, _ := r.(map[string]any)
		upc, _ := rep["upc"].(string)
		buf.WriteByte('{')
		for j, f := range fields {
			if j > 0 {
				buf.WriteByte(',')
			}
			alias := f.Alias
			if alias == "" {
				alias = f.Name
			}
			kb, _ := json.Marshal(alias)
			buf.Write(kb)
			buf.WriteByte(':')
			var v any
			switch f.Name {
			case "__typename":
				v = "Product"
			case "upc":
				v = upc
			case "name":
				v = productTable[upc].name
			case "price":
				v = productTable[upc].price
			case "label":
				lang, err := argString(f, "lang", vars)
				if err != nil {
					return nil, err
				}
				v = upc + "/" + lang
			default:
				return nil, fmt.Errorf("field %s is not supported", f.Name)
			}
			vb, _ := json.Marshal(v)
			buf.Write(vb)
		}
		buf.WriteByte('}')
	}
	buf.WriteString(`]}}`)
	return buf.Bytes(), nil
}
