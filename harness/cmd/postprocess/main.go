// Command postprocess is the driver of C08 part (a): it turns every TLC-generated case
// (spec/resolve/Gen_FTDag.tla: a labelled dependency DAG decorated with data sources, entity flags,
// response-path patterns and classes of identical requests) into the flat plan the planner hands to
// postprocess.Processor, runs the REAL processor in the requested modes and exports the resulting
// resolve.FetchTreeNode tree in the JSON shape of spec/resolve/FetchTree.tla.  Nothing is judged here:
// Trace_FTPost.tla evaluates the relation between case and tree.
//
// Input  (-in):  NDJSON {"id":"..","c":{"n":3,"deps":[[],[1],[1,2]],"ds":[..],"ent":[..],"kind":[..],"cls":[..]}}
// Output (-out): NDJSON one line per (case, mode):
//
//	{"id":"..","c":{..},"mode":{"dag":false,"multi":false,"dedup":true,"order":"asc"},"tree":{"k":"S","id":0,"m":[],"c":[..]}}
package main

import (
	"bufio"
	"bytes"
	"encoding/json"
	"flag"
	"fmt"
	"hash/fnv"
	"math/rand"
	"os"
	"strconv"
	"strings"

	"github.com/wundergraph/graphql-go-tools/v2/pkg/ast"
	"github.com/wundergraph/graphql-go-tools/v2/pkg/astparser"
	"github.com/wundergraph/graphql-go-tools/v2/pkg/engine/plan"
	"github.com/wundergraph/graphql-go-tools/v2/pkg/engine/postprocess"
	"github.com/wundergraph/graphql-go-tools/v2/pkg/engine/resolve"
)

type Case struct {
	N    int     `json:"n"`
	Deps [][]int `json:"deps"`
	DS   []int   `json:"ds"`
	Ent  []bool  `json:"ent"`
	Kind []int   `json:"kind"`
	Cls  []int   `json:"cls"`
	S    string  `json:"s"` // stratum of the generator (echoed)
	// @defer placement (stratum defer): Did[f] = defer group of fetch f (0 = primary), Dpar = parent of group 2
	Did  []int `json:"did"`
	Dpar int   `json:"dpar"`
}

type In struct {
	ID string `json:"id"`
	C  Case   `json:"c"`
}

type Mode struct {
	Dag   bool   `json:"dag"`
	Multi bool   `json:"multi"`
	Dedup bool   `json:"dedup"`
	Order string `json:"order"`
}

type Node struct {
	K  string  `json:"k"`
	ID int     `json:"id"`
	M  []int   `json:"m"`
	C  []*Node `json:"c"`
}

type Out struct {
	ID   string `json:"id"`
	C    Case   `json:"c"`
	Mode Mode   `json:"mode"`
	Tree *Node  `json:"tree"`
	Real bool   `json:"real"` // always false here: true marks plans of the real planner (cmd/ftfed -plan)
	// not part of the observation judged by TLC:
	Panic   string           `json:"panic,omitempty"`
	OutDeps map[string][]int `json:"outdeps,omitempty"` // final DependsOnFetchIDs per request (spec ids), -deps only
}

// the response-path menu of spec/resolve/FTPlan.tla (RPMenu / MPMenu), index = kind-1
var rpMenu = [][]string{{}, {}, {"a"}, {"a"}, {"a", "b"}, {"c"}}
var mpMenu = [][]string{{}, {"a"}, {}, {"b"}, {}, {}}

func buildFetch(c Case, f int) *resolve.FetchItem {
	// f is the spec id (1..n); the real fetch id is f-1 so that id 0 (the planner's first fetch) occurs
	rep := c.Cls[f-1] // identical requests carry identical content: everything below is a function of rep
	rp := rpMenu[c.Kind[f-1]-1]
	mp := mpMenu[c.Kind[f-1]-1]
	deps := make([]int, 0, len(c.Deps[f-1]))
	for _, d := range c.Deps[f-1] {
		deps = append(deps, d-1)
	}
	dsID := "ds" + strconv.Itoa(c.DS[f-1])
	sf := &resolve.SingleFetch{
		FetchDependencies: resolve.FetchDependencies{FetchID: f - 1, DependsOnFetchIDs: deps, DeferID: deferID(c, f)},
		Info:              &resolve.FetchInfo{DataSourceID: dsID, DataSourceName: dsID, OperationType: ast.OperationTypeQuery},
	}
	sf.PostProcessing = resolve.PostProcessingConfiguration{SelectResponseDataPath: []string{"data"}, MergePath: append([]string(nil), mp...)}
	if c.Ent[f-1] {
		// an entity fetch as the planner emits it with EnableMultiFetch: input assembly deferred
		// (Input == ""), the operation travels as a SubgraphOperation artifact
		src := fmt.Sprintf(`query($representations: [_Any!]!){_entities(representations: $representations){... on T {__typename f%d}}}`, rep)
		doc, report := astparser.ParseGraphqlDocumentString(src)
		if report.HasErrors() {
			panic(report.Error())
		}
		sf.PostProcessing.SelectResponseDataPath = []string{"data", "_entities"}
		sf.RequiresEntityBatchFetch = true
		sf.Variables = resolve.NewVariables(resolve.NewResolvableObjectVariable(&resolve.Object{}))
		sf.SubgraphOperation = &resolve.SubgraphOperation{
			Document:  &doc,
			Variables: []resolve.SubgraphVariable{{Name: "representations", Value: []byte("[$$0$$]")}},
			Envelope:  resolve.SubgraphRequestEnvelope{Method: "POST", URL: "http://" + dsID},
		}
	} else {
		sf.Input = fmt.Sprintf(`{"method":"POST","url":"http://%s","body":{"query":"{f%d}"}}`, dsID, rep)
	}
	path := make([]resolve.FetchItemPathElement, 0, len(rp))
	for _, seg := range rp {
		path = append(path, resolve.ObjectPath(seg))
	}
	return resolve.FetchItemWithPath(sf, strings.Join(rp, "."), path...)
}

func deferID(c Case, f int) int {
	if f-1 < len(c.Did) {
		return c.Did[f-1]
	}
	return 0
}

func deferred(c Case) bool {
	for _, d := range c.Did {
		if d != 0 {
			return true
		}
	}
	return false
}

// exportDefer turns the DeferTree into the same tree shape: a group stands for its (organized) fetch tree.
func exportDefer(n *resolve.DeferTreeNode, outdeps map[string][]int) *Node {
	if n == nil {
		return &Node{K: "P", M: []int{}, C: []*Node{}}
	}
	switch n.Kind {
	case resolve.DeferTreeNodeKindSingle:
		return export(n.Item.Fetches, outdeps)
	case resolve.DeferTreeNodeKindSequence, resolve.DeferTreeNodeKindParallel:
		out := &Node{K: "S", M: []int{}, C: []*Node{}}
		if n.Kind == resolve.DeferTreeNodeKindParallel {
			out.K = "P"
		}
		for _, ch := range n.ChildNodes {
			out.C = append(out.C, exportDefer(ch, outdeps))
		}
		return out
	}
	return &Node{K: fmt.Sprint(n.Kind), M: []int{}, C: []*Node{}}
}

func export(n *resolve.FetchTreeNode, outdeps map[string][]int) *Node {
	if n == nil {
		return &Node{K: "S", M: []int{}, C: []*Node{}}
	}
	switch n.Kind {
	case resolve.FetchTreeNodeKindSingle:
		d := n.Item.Fetch.Dependencies()
		out := &Node{K: "F", ID: d.FetchID + 1, M: []int{d.FetchID + 1}, C: []*Node{}}
		if m, ok := n.Item.Fetch.(*resolve.MultiEntityFetch); ok {
			out.M = out.M[:0]
			for _, id := range m.MergedFetchIDs {
				out.M = append(out.M, id+1)
			}
		}
		od := make([]int, 0, len(d.DependsOnFetchIDs))
		for _, x := range d.DependsOnFetchIDs {
			od = append(od, x+1)
		}
		outdeps[strconv.Itoa(out.ID)] = od
		return out
	case resolve.FetchTreeNodeKindSequence, resolve.FetchTreeNodeKindParallel:
		out := &Node{K: "S", M: []int{}, C: []*Node{}}
		if n.Kind == resolve.FetchTreeNodeKindParallel {
			out.K = "P"
		}
		for _, ch := range n.ChildNodes {
			out.C = append(out.C, export(ch, outdeps))
		}
		return out
	}
	return &Node{K: string(n.Kind), M: []int{}, C: []*Node{}}
}

func order(c Case, mode string, seed int64, id string) []int {
	ids := make([]int, c.N)
	for i := range ids {
		ids[i] = i + 1
	}
	switch mode {
	case "desc":
		for i, j := 0, len(ids)-1; i < j; i, j = i+1, j-1 {
			ids[i], ids[j] = ids[j], ids[i]
		}
	case "shuf":
		h := fnv.New64a()
		h.Write([]byte(id))
		r := rand.New(rand.NewSource(seed ^ int64(h.Sum64())))
		r.Shuffle(len(ids), func(i, j int) { ids[i], ids[j] = ids[j], ids[i] })
	}
	return ids
}

// runOne processes one case in one mode; proc == nil: a fresh Processor (as every operation of a test gets), else the given
// long-lived Processor (as a router keeps one per configuration and feeds it plan after plan).
func runOne(in In, m Mode, seed int64, proc *postprocess.Processor) (out Out) {
	out = Out{ID: in.ID, C: in.C, Mode: m, OutDeps: map[string][]int{}}
	defer func() {
		if p := recover(); p != nil {
			out.Panic = fmt.Sprint(p)
			out.Tree = nil
		}
	}()
	var raw []*resolve.FetchItem
	for _, f := range order(in.C, m.Order, seed, in.ID) {
		raw = append(raw, buildFetch(in.C, f))
	}
	if proc == nil {
		proc = newProcessor(m)
	}
	if deferred(in.C) {
		// a DeferResponsePlan as the planner emits it: flat fetches with DeferIDs + one descriptor per @defer.
		// Execution order (resolve.go): the primary tree, then the defer tree: Sequence(primary, deferTree)
		desc := map[int]resolve.DeferDescriptor{1: {ID: 1, ParentID: 0, Path: []string{"x"}}}
		for _, d := range in.C.Did {
			if d == 2 {
				desc[2] = resolve.DeferDescriptor{ID: 2, ParentID: in.C.Dpar, Path: []string{"x"}}
			}
		}
		dp := &plan.DeferResponsePlan{Response: &resolve.GraphQLDeferResponse{
			Response:         &resolve.GraphQLResponse{RawFetches: raw, Data: &resolve.Object{}},
			DeferDescriptors: desc,
		}}
		proc.Process(dp)
		out.Tree = &Node{K: "S", M: []int{}, C: []*Node{
			export(dp.Response.Response.Fetches, out.OutDeps),
			exportDefer(dp.Response.DeferTree, out.OutDeps),
		}}
		return out
	}
	p := &plan.SynchronousResponsePlan{Response: &resolve.GraphQLResponse{RawFetches: raw, Data: &resolve.Object{}}}
	proc.Process(p)
	out.Tree = export(p.Response.Fetches, out.OutDeps)
	return out
}

func newProcessor(m Mode) *postprocess.Processor {
	var opts []postprocess.ProcessorOption
	if m.Dag {
		opts = append(opts, postprocess.EnableScheduleFetches())
	}
	if m.Multi {
		opts = append(opts, postprocess.EnableMultiFetch())
	}
	if !m.Dedup {
		opts = append(opts, postprocess.DisableDeduplicateSingleFetches())
	}
	return postprocess.NewProcessor(opts...)
}

func parseModes(s string) []Mode {
	var out []Mode
	for _, tok := range strings.Split(s, ",") {
		tok = strings.TrimSpace(tok)
		if tok == "" {
			continue
		}
		// <legacy|dag>[+multi][-dedup]/<asc|desc|shuf>
		m := Mode{Dedup: true, Order: "asc"}
		if i := strings.IndexByte(tok, '/'); i >= 0 {
			m.Order = tok[i+1:]
			tok = tok[:i]
		}
		m.Dag = strings.HasPrefix(tok, "dag")
		m.Multi = strings.Contains(tok, "+multi")
		if strings.Contains(tok, "-dedup") {
			m.Dedup = false
		}
		out = append(out, m)
	}
	return out
}

func main() {
	inf := flag.String("in", "", "cases NDJSON")
	outf := flag.String("out", "obs.ndjson", "observations NDJSON (for Trace_FTPost.tla)")
	panicf := flag.String("panics", "panics.ndjson", "cases on which the processor panicked")
	progressf := flag.String("progress", "", "file that always names the (input line, mode) being processed: a crash of the real code (fatal error, e.g. stack overflow) can be attributed")
	from := flag.Int("from", 0, "skip the first N input lines and append to the outputs (continue after a crash)")
	reuse := flag.Bool("reuse", false, "REUSE lane: ONE long-lived Processor per mode processes the cases in input order (fetch ids are reused across plans); every tree is exported (id suffix /reuse) and compared with the tree a fresh Processor produces for the same plan")
	mismatchf := flag.String("mismatch", "mismatch.ndjson", "reuse lane: plans whose tree depends on the plans processed before")
	withDeps := flag.Bool("deps", false, "also export the final DependsOnFetchIDs (the output is then not uniform enough for TLC)")
	modes := flag.String("modes", "legacy/asc,dag/asc", "comma separated <legacy|dag>[+multi][-dedup]/<asc|desc|shuf>")
	flag.Parse()
	seed, _ := strconv.ParseInt(os.Getenv("VERIF_SEED"), 10, 64)
	f, err := os.Open(*inf)
	if err != nil {
		fmt.Fprintln(os.Stderr, err)
		os.Exit(3)
	}
	defer f.Close()
	openOut := os.Create
	if *from > 0 {
		openOut = func(name string) (*os.File, error) {
			return os.OpenFile(name, os.O_CREATE|os.O_WRONLY|os.O_APPEND, 0o644)
		}
	}
	var prog *os.File
	if *progressf != "" {
		prog, _ = os.Create(*progressf)
		defer prog.Close()
	}
	of, err := openOut(*outf)
	if err != nil {
		fmt.Fprintln(os.Stderr, err)
		os.Exit(3)
	}
	defer of.Close()
	w := bufio.NewWriterSize(of, 1<<20)
	defer w.Flush()
	pf, err := openOut(*panicf)
	if err != nil {
		fmt.Fprintln(os.Stderr, err)
		os.Exit(3)
	}
	defer pf.Close()
	ms := parseModes(*modes)
	var mf *os.File
	long := make([]*postprocess.Processor, len(ms))
	if *reuse {
		mf, _ = openOut(*mismatchf)
		defer mf.Close()
		for i, m := range ms {
			long[i] = newProcessor(m)
		}
	}
	sc := bufio.NewScanner(f)
	sc.Buffer(make([]byte, 1<<20), 1<<26)
	lineNo := 0
	for sc.Scan() {
		line := bytes.TrimSpace(sc.Bytes())
		lineNo++
		if len(line) == 0 || lineNo <= *from {
			continue
		}
		var in In
		if err := json.Unmarshal(line, &in); err != nil {
			fmt.Fprintln(os.Stderr, "bad case:", err)
			os.Exit(3)
		}
		for mi, m := range ms {
			if prog != nil {
				// flushed output + position: everything before this run survives a crash of the process
				w.Flush()
				prog.WriteAt([]byte(fmt.Sprintf("%12d %4d\n", lineNo, mi)), 0)
			}
			o := runOne(in, m, seed, long[mi])
			if *reuse {
				o.ID += "/reuse"
				if o.Panic != "" {
					long[mi] = newProcessor(m) // a panic may leave the long-lived instance half-way
				}
				fresh := runOne(in, m, seed, nil)
				a, _ := json.Marshal(o.Tree)
				b, _ := json.Marshal(fresh.Tree)
				if o.Panic == "" && fresh.Panic == "" && !bytes.Equal(a, b) {
					line, _ := json.Marshal(map[string]any{"id": o.ID, "c": in.C, "mode": m, "reused": o.Tree, "fresh": fresh.Tree})
					mf.Write(append(line, '\n'))
				}
			}
			if !*withDeps {
				o.OutDeps = nil
			}
			b, _ := json.Marshal(o)
			if o.Panic != "" {
				pf.Write(append(b, '\n'))
				continue
			}
			w.Write(b)
			w.WriteByte('\n')
		}
	}
}
