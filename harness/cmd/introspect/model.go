package main

import (
	"encoding/json"
	"fmt"
	"strconv"
	"strings"
)

// The schema form of spec/core/GQLIntroSchema.tla (what TLC prints with ToJson and reads back with
// ndJsonDeserialize). Every collection is a JSON array, every field is always present.

type Schema struct {
	Desc         string    `json:"desc"`
	SD           bool      `json:"sd"` // explicit `schema { .. }` definition
	STags        []string  `json:"stags"`  // directives applied to the schema definition
	XRoots       bool      `json:"xroots"` // mutation / subscription roots declared in `extend schema`
	Query        string    `json:"query"`
	Mutation     string    `json:"mutation"`
	Subscription string    `json:"subscription"`
	Types        []TypeDef `json:"types"`
	Dirs         []DirDef  `json:"dirs"`
}

type TypeDef struct {
	Name    string     `json:"name"`
	Kind    string     `json:"kind"`
	Desc    string     `json:"desc"`
	Fields  []FieldDef `json:"fields"`
	Ifaces  []string   `json:"ifaces"`
	Members []string   `json:"members"`
	Values  []EnumVal  `json:"values"`
	Inputs  []InputVal `json:"inputs"`
	URL     string     `json:"url"`
	Tags    []string   `json:"tags"` // applied custom directives (type-system directive applications)
	Ext     int        `json:"ext"`  // trailing elements declared in a type extension
}

// HasExtensions: the SDL of the schema contains `extend ...`
func (s *Schema) HasExtensions() bool {
	if s.XRoots {
		return true
	}
	for _, t := range s.Types {
		if t.Ext > 0 {
			return true
		}
	}
	return false
}

type FieldDef struct {
	Name string     `json:"name"`
	Desc string     `json:"desc"`
	Type Ref        `json:"type"`
	Args []InputVal `json:"args"`
	Dep  Dep        `json:"dep"`
	Tags []string   `json:"tags"`
}

type InputVal struct {
	Name string `json:"name"`
	Desc string `json:"desc"`
	Type Ref    `json:"type"`
	Def  Val      `json:"def"`
	Dep  Dep      `json:"dep"`
	Tags []string `json:"tags"`
}

type EnumVal struct {
	Name string   `json:"name"`
	Desc string   `json:"desc"`
	Dep  Dep      `json:"dep"`
	Tags []string `json:"tags"`
}

type DirDef struct {
	Name string     `json:"name"`
	Desc string     `json:"desc"`
	Locs []string   `json:"locs"`
	Rep  bool       `json:"rep"`
	Args []InputVal `json:"args"`
}

type Ref struct {
	Name string   `json:"name"`
	W    []string `json:"w"` // wrappers, outermost first: "L" list, "N" non-null
}

type Dep struct {
	D  bool   `json:"d"`
	HR bool   `json:"hr"` // an explicit reason was written
	R  string `json:"r"`
}

// Val is a tagged GraphQL const value: t = x (absent) n (null) i f s b e l o bad.
type Val struct {
	T string
	I int64
	S string // f (text), s, e, bad
	B bool
	L []Val    // l, and the values of o
	K []string // keys of o
}

func (v Val) MarshalJSON() ([]byte, error) {
	switch v.T {
	case "x", "n":
		return json.Marshal(map[string]any{"t": v.T})
	case "i":
		return json.Marshal(map[string]any{"t": "i", "v": v.I})
	case "f", "s", "e", "bad":
		return json.Marshal(map[string]any{"t": v.T, "v": v.S})
	case "b":
		return json.Marshal(map[string]any{"t": "b", "v": v.B})
	case "l":
		l := v.L
		if l == nil {
			l = []Val{}
		}
		return json.Marshal(map[string]any{"t": "l", "v": l})
	case "o":
		l, k := v.L, v.K
		if l == nil {
			l = []Val{}
		}
		if k == nil {
			k = []string{}
		}
		return json.Marshal(map[string]any{"t": "o", "k": k, "v": l})
	}
	return nil, fmt.Errorf("bad value tag %q", v.T)
}

func (v *Val) UnmarshalJSON(b []byte) error {
	var raw struct {
		T string          `json:"t"`
		V json.RawMessage `json:"v"`
		K []string        `json:"k"`
	}
	if err := json.Unmarshal(b, &raw); err != nil {
		return err
	}
	v.T = raw.T
	switch raw.T {
	case "x", "n":
		return nil
	case "i":
		return json.Unmarshal(raw.V, &v.I)
	case "f", "s", "e", "bad":
		return json.Unmarshal(raw.V, &v.S)
	case "b":
		return json.Unmarshal(raw.V, &v.B)
	case "l":
		return json.Unmarshal(raw.V, &v.L)
	case "o":
		v.K = raw.K
		return json.Unmarshal(raw.V, &v.L)
	}
	return fmt.Errorf("bad value tag %q", raw.T)
}

// ---------------------------------------------------------------------------------------------
// SDL printer (own printer, independent of the code under test)

func quote(s string) string {
	var b strings.Builder
	b.WriteByte('"')
	for _, r := range s {
		switch r {
		case '"':
			b.WriteString(`\"`)
		case '\\':
			b.WriteString(`\\`)
		case '\n':
			b.WriteString(`\n`)
		case '\t':
			b.WriteString(`\t`)
		case '\r':
			b.WriteString(`\r`)
		default:
			if r < 0x20 {
				fmt.Fprintf(&b, `\u%04x`, r)
			} else {
				b.WriteRune(r)
			}
		}
	}
	b.WriteByte('"')
	return b.String()
}

// description: multi-line texts as block strings (the usual SDL style), others quoted
func descSDL(d, indent string) string {
	if d == "" {
		return ""
	}
	if strings.Contains(d, "\n") && !strings.Contains(d, `"""`) && !strings.Contains(d, `\`) {
		var b strings.Builder
		b.WriteString(indent + `"""` + "\n")
		for _, l := range strings.Split(d, "\n") {
			b.WriteString(indent + l + "\n")
		}
		b.WriteString(indent + `"""` + "\n")
		return b.String()
	}
	return indent + quote(d) + "\n"
}

func (r Ref) SDL() string {
	// wrappers outermost first; build from the inside
	s := r.Name
	for i := len(r.W) - 1; i >= 0; i-- {
		if r.W[i] == "L" {
			s = "[" + s + "]"
		} else {
			s += "!"
		}
	}
	return s
}

func (v Val) SDL() string {
	switch v.T {
	case "n":
		return "null"
	case "i":
		return strconv.FormatInt(v.I, 10)
	case "f", "e":
		return v.S
	case "s":
		return quote(v.S)
	case "b":
		return strconv.FormatBool(v.B)
	case "l":
		parts := make([]string, len(v.L))
		for i, e := range v.L {
			parts[i] = e.SDL()
		}
		return "[" + strings.Join(parts, ", ") + "]"
	case "o":
		parts := make([]string, len(v.L))
		for i, e := range v.L {
			parts[i] = v.K[i] + ": " + e.SDL()
		}
		return "{" + strings.Join(parts, ", ") + "}"
	}
	return "<?>"
}

func (d Dep) SDL() string {
	if !d.D {
		return ""
	}
	if d.HR {
		return " @deprecated(reason: " + quote(d.R) + ")"
	}
	return " @deprecated"
}

func inputSDL(iv InputVal) string {
	s := iv.Name + ": " + iv.Type.SDL()
	if iv.Def.T != "x" {
		s += " = " + iv.Def.SDL()
	}
	return s + tagsSDL(iv.Tags) + iv.Dep.SDL()
}

func tagsSDL(tags []string) string {
	s := ""
	for _, t := range tags {
		s += " @" + t
	}
	return s
}

func argsSDL(args []InputVal, indent string) string {
	if len(args) == 0 {
		return ""
	}
	multi := false
	for _, a := range args {
		if a.Desc != "" {
			multi = true
		}
	}
	if !multi {
		parts := make([]string, len(args))
		for i, a := range args {
			parts[i] = inputSDL(a)
		}
		return "(" + strings.Join(parts, ", ") + ")"
	}
	var b strings.Builder
	b.WriteString("(\n")
	for _, a := range args {
		b.WriteString(descSDL(a.Desc, indent+"  "))
		b.WriteString(indent + "  " + inputSDL(a) + "\n")
	}
	b.WriteString(indent + ")")
	return b.String()
}

func (s *Schema) defaultRoots() bool {
	return s.Query == "Query" && (s.Mutation == "" || s.Mutation == "Mutation") && (s.Subscription == "" || s.Subscription == "Subscription")
}

// SDL prints the schema as a type-system document.
func (s *Schema) SDL() string {
	var b strings.Builder
	var ext strings.Builder // the type extensions, printed after all definitions
	if s.SD {
		b.WriteString(descSDL(s.Desc, ""))
		b.WriteString("schema" + tagsSDL(s.STags) + " {\n  query: " + s.Query + "\n")
		roots := ""
		if s.Mutation != "" {
			roots += "  mutation: " + s.Mutation + "\n"
		}
		if s.Subscription != "" {
			roots += "  subscription: " + s.Subscription + "\n"
		}
		if s.XRoots {
			ext.WriteString("extend schema {\n" + roots + "}\n\n")
		} else {
			b.WriteString(roots)
		}
		b.WriteString("}\n\n")
	}
	for _, full := range s.Types {
		// the definition keeps all but the last Ext elements; the rest goes into `extend <kind> T`
		t, x := full, full
		switch full.Kind {
		case "OBJECT", "INTERFACE":
			t.Fields, x.Fields = full.Fields[:len(full.Fields)-full.Ext], full.Fields[len(full.Fields)-full.Ext:]
		case "UNION":
			t.Members, x.Members = full.Members[:len(full.Members)-full.Ext], full.Members[len(full.Members)-full.Ext:]
		case "ENUM":
			t.Values, x.Values = full.Values[:len(full.Values)-full.Ext], full.Values[len(full.Values)-full.Ext:]
		case "INPUT_OBJECT":
			t.Inputs, x.Inputs = full.Inputs[:len(full.Inputs)-full.Ext], full.Inputs[len(full.Inputs)-full.Ext:]
		case "SCALAR":
			if full.Ext > 0 {
				t.Tags, t.URL = nil, ""
			}
		}
		if full.Ext > 0 {
			x.Desc, x.Ifaces, x.Ext = "", nil, 0
			if full.Kind != "SCALAR" {
				x.Tags = nil
			}
			var xs Schema
			xs.Types = []TypeDef{x}
			body := xs.SDL()
			for _, kw := range []string{"type ", "interface ", "union ", "enum ", "input ", "scalar "} {
				if strings.HasPrefix(body, kw) {
					ext.WriteString("extend " + body)
				}
			}
		}
		b.WriteString(descSDL(t.Desc, ""))
		switch t.Kind {
		case "OBJECT", "INTERFACE":
			if t.Kind == "OBJECT" {
				b.WriteString("type " + t.Name)
			} else {
				b.WriteString("interface " + t.Name)
			}
			if len(t.Ifaces) > 0 {
				b.WriteString(" implements " + strings.Join(t.Ifaces, " & "))
			}
			b.WriteString(tagsSDL(t.Tags) + " {\n")
			for _, f := range t.Fields {
				b.WriteString(descSDL(f.Desc, "  "))
				b.WriteString("  " + f.Name + argsSDL(f.Args, "  ") + ": " + f.Type.SDL() + tagsSDL(f.Tags) + f.Dep.SDL() + "\n")
			}
			b.WriteString("}\n\n")
		case "UNION":
			b.WriteString("union " + t.Name + tagsSDL(t.Tags) + " = " + strings.Join(t.Members, " | ") + "\n\n")
		case "ENUM":
			b.WriteString("enum " + t.Name + tagsSDL(t.Tags) + " {\n")
			for _, v := range t.Values {
				b.WriteString(descSDL(v.Desc, "  "))
				b.WriteString("  " + v.Name + tagsSDL(v.Tags) + v.Dep.SDL() + "\n")
			}
			b.WriteString("}\n\n")
		case "INPUT_OBJECT":
			b.WriteString("input " + t.Name + tagsSDL(t.Tags) + " {\n")
			for _, iv := range t.Inputs {
				b.WriteString(descSDL(iv.Desc, "  "))
				b.WriteString("  " + inputSDL(iv) + "\n")
			}
			b.WriteString("}\n\n")
		case "SCALAR":
			b.WriteString("scalar " + t.Name + tagsSDL(t.Tags))
			if t.URL != "" {
				b.WriteString(" @specifiedBy(url: " + quote(t.URL) + ")")
			}
			b.WriteString("\n\n")
		}
	}
	for _, d := range s.Dirs {
		b.WriteString(descSDL(d.Desc, ""))
		b.WriteString("directive @" + d.Name + argsSDL(d.Args, ""))
		if d.Rep {
			b.WriteString(" repeatable")
		}
		b.WriteString(" on " + strings.Join(d.Locs, " | ") + "\n\n")
	}
	b.WriteString(ext.String())
	return b.String()
}
