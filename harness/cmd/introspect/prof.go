package main

import (
	"os"
	"runtime/pprof"
)

func startProfile() func() {
	p := os.Getenv("C17_CPUPROFILE")
	if p == "" {
		return func() {}
	}
	f, err := os.Create(p)
	if err != nil {
		return func() {}
	}
	_ = pprof.StartCPUProfile(f)
	return func() { pprof.StopCPUProfile(); f.Close() }
}
