package main

import (
	"fmt"
	"regexp"
	"strings"
)

// The menu of introspection queries. Every query is built from the same building blocks; INC is
// replaced by the includeDeprecated argument text of the variant.

const typeRefSel = `kind name ofType { kind name ofType { kind name ofType { kind name ofType { kind name ofType { kind name ofType { kind name ofType { kind name ofType { kind name ofType { kind name } } } } } } } } }`

const inputValueSel = `name description type { ` + typeRefSel + ` } defaultValue isDeprecated deprecationReason`

const fullTypeSel = `kind name description specifiedByURL
  fields#INC# { name description args#INC# { ` + inputValueSel + ` } type { ` + typeRefSel + ` } isDeprecated deprecationReason }
  inputFields#INC# { ` + inputValueSel + ` }
  interfaces { ` + typeRefSel + ` }
  enumValues#INC# { name description isDeprecated deprecationReason }
  possibleTypes { ` + typeRefSel + ` }`

const fragments = `
fragment FullType on __Type {
  kind name description specifiedByURL
  fields#INC# { name description args#INC# { ...InputValue } type { ...TypeRef } isDeprecated deprecationReason }
  inputFields#INC# { ...InputValue }
  interfaces { ...TypeRef }
  enumValues#INC# { name description isDeprecated deprecationReason }
  possibleTypes { ...TypeRef }
}
fragment InputValue on __InputValue { name description type { ...TypeRef } defaultValue isDeprecated deprecationReason }
fragment TypeRef on __Type { ` + typeRefSel + ` }
`

const schemaSelFrag = `description queryType { name } mutationType { name } subscriptionType { name }
    types { ...FullType }
    directives { name description isRepeatable locations args#INC# { ...InputValue } }`

const schemaSelInline = `description queryType { name } mutationType { name } subscriptionType { name }
    types { ` + fullTypeSel + ` }
    directives { name description isRepeatable locations args#INC# { ` + inputValueSel + ` } }`

func inc(q, arg string) string { return strings.ReplaceAll(q, "#INC#", arg) }

var fieldWord = regexp.MustCompile(`\b(kind|name|description|specifiedByURL|fields|args|type|isDeprecated|deprecationReason|inputFields|interfaces|enumValues|possibleTypes|ofType|defaultValue)\b`)

// aliased gives every field of a selection on the introspection types the alias a_<field>
func aliased(sel string) string { return fieldWord.ReplaceAllString(sel, "a_$1: $1") }

type query struct {
	View string // menu id
	Root string // schema | type
	Name string // queried type name (Root == type)
	Inc  bool   // effective includeDeprecated
	Prof string // full | namekind
	Text string
	Vars string // JSON or ""
	Op   string
	// how to find the answer in data
	Key   string
	Alias bool
}

func jsonStr(s string) string { return quote(s) }

// menu builds the queries for a schema whose types (incl. the built-in scalars) are typeNames.
// pick is a deterministic per-case number used to vary which types get the expensive variants.
func menu(typeNames []string, pick int) []query {
	var qs []query
	// ---- __schema, the standard introspection query (fragments), includeDeprecated as literal / default / variable
	qs = append(qs,
		query{View: "q.schema.lit-true", Root: "schema", Inc: true, Prof: "full", Key: "__schema", Op: "IntrospectionQuery",
			Text: inc("query IntrospectionQuery { __schema { "+schemaSelFrag+" } }"+fragments, "(includeDeprecated: true)")},
		query{View: "q.schema.default", Root: "schema", Inc: false, Prof: "full", Key: "__schema", Op: "IntrospectionQuery",
			Text: inc("query IntrospectionQuery { __schema { "+schemaSelFrag+" } }"+fragments, "")},
		query{View: "q.schema.lit-false", Root: "schema", Inc: false, Prof: "full", Key: "__schema",
			Text: inc("{ __schema { "+schemaSelFrag+" } }"+fragments, "(includeDeprecated: false)")},
		query{View: "q.schema.var-true", Root: "schema", Inc: true, Prof: "full", Key: "__schema", Vars: `{"inc":true}`,
			Text: inc("query Q($inc: Boolean!) { __schema { "+schemaSelFrag+" } }"+fragments, "(includeDeprecated: $inc)")},
		query{View: "q.schema.var-false", Root: "schema", Inc: false, Prof: "full", Key: "__schema", Vars: `{"inc":false}`,
			Text: inc("query Q($inc: Boolean!) { __schema { "+schemaSelFrag+" } }"+fragments, "(includeDeprecated: $inc)")},
		query{View: "q.schema.inline-true", Root: "schema", Inc: true, Prof: "full", Key: "__schema",
			Text: inc("{ __schema { "+schemaSelInline+" } }", "(includeDeprecated: true)")},
	)
	// ---- __type(name:) for every type and an unknown name: one document, aliased root fields, literal names
	names := append(append([]string{}, typeNames...), "NoSuchType")
	var b strings.Builder
	b.WriteString("query AllTypes {")
	for i, n := range names {
		fmt.Fprintf(&b, " t%d: __type(name: %s) { ...FullType }", i, jsonStr(n))
	}
	b.WriteString(" }")
	all := inc(b.String()+fragments, "(includeDeprecated: true)")
	for i, n := range names {
		qs = append(qs, query{View: "q.type.lit-true", Root: "type", Name: n, Inc: true, Prof: "full", Key: fmt.Sprintf("t%d", i), Text: all, Op: "AllTypes"})
	}
	// ---- __type(name: $n) with the name as a variable, default includeDeprecated
	byVar := inc("query OneType($n: String!) { __type(name: $n) { ...FullType } }"+fragments, "")
	for _, n := range names {
		qs = append(qs, query{View: "q.type.var-default", Root: "type", Name: n, Inc: false, Prof: "full", Key: "__type", Text: byVar,
			Vars: `{"n":` + jsonStr(n) + `}`, Op: "OneType"})
	}
	// ---- name and includeDeprecated both variables (two types per case)
	byVarInc := inc("query OneTypeInc($n: String!, $inc: Boolean) { __type(name: $n) { ...FullType } }"+fragments, "(includeDeprecated: $inc)")
	for k := 0; k < 2 && k < len(typeNames); k++ {
		n := typeNames[(pick+k*3)%len(typeNames)]
		incl := k == 0
		qs = append(qs, query{View: fmt.Sprintf("q.type.var-%v", incl), Root: "type", Name: n, Inc: incl, Prof: "full", Key: "__type", Text: byVarInc,
			Vars: fmt.Sprintf(`{"n":%s,"inc":%v}`, jsonStr(n), incl), Op: "OneTypeInc"})
	}
	// ---- the introspection meta types (exemption EX_MetaTypesUnlisted: null or the right type)
	{
		metas := []string{"__Schema", "__Type", "__Field", "__InputValue", "__EnumValue", "__Directive", "__TypeKind", "__DirectiveLocation"}
		var mb strings.Builder
		mb.WriteString("query Meta {")
		for i, n := range metas {
			fmt.Fprintf(&mb, " m%d: __type(name: %s) { ...FullType }", i, jsonStr(n))
		}
		mb.WriteString(" }")
		text := inc(mb.String()+fragments, "(includeDeprecated: true)")
		for i, n := range metas {
			qs = append(qs, query{View: "q.type.meta", Root: "type", Name: n, Inc: true, Prof: "full", Key: fmt.Sprintf("m%d", i), Text: text, Op: "Meta"})
		}
	}
	// ---- every sub-field aliased (a_<field>: <field>), two types per case
	for k := 0; k < 2 && k < len(typeNames); k++ {
		n := typeNames[(pick+1+k*5)%len(typeNames)]
		qs = append(qs, query{View: "q.type.alias", Root: "type", Name: n, Inc: true, Prof: "full", Key: "__type", Alias: true,
			Text: `{ __type(name: ` + jsonStr(n) + `) { ` + aliased(inc(fullTypeSel, "(includeDeprecated: true)")) + ` } }`})
	}
	return qs
}
