package main

import "strings"

// Implementation output (introspection.Data JSON / the engine's response data) -> the record shape
// of an introspection result in spec/core/GQLIntrospect.tla. Purely structural: JSON null becomes a
// tagged null (TLC's Json module cannot read null), the ofType nesting becomes a list (outermost
// first), defaultValue strings are parsed into GraphQL values, descriptions are white-space
// normalised. No expectations are encoded here; the comparison happens in TLC.

type tag map[string]any

func nul() tag { return tag{"t": "n"} }

func optS(v any) tag {
	if s, ok := v.(string); ok {
		return tag{"t": "s", "v": s}
	}
	if v == nil {
		return nul()
	}
	return tag{"t": "s", "v": "<not-a-string>"}
}

// the long description texts of the built-ins of the base schema are not modelled by the spec (GQLIntrospect!DescFacts
// skips them); they are cut here only to keep the log small
func optDesc(v any) tag {
	if s, ok := v.(string); ok && len(s) > 60 && (strings.HasPrefix(s, "The `") || strings.HasPrefix(s, "Directs the executor") ||
		strings.HasPrefix(s, "Marks an element") || strings.HasPrefix(s, "Explains why") || strings.HasPrefix(s, "The @oneOf") ||
		strings.HasPrefix(s, "Exposes a URL") || strings.HasPrefix(s, "Controls whether") || strings.HasPrefix(s, "The URL that")) {
		return tag{"t": "s", "v": "<built-in text>"}
	}
	if s, ok := v.(string); ok {
		return tag{"t": "s", "v": normDesc(s)}
	}
	return optS(v)
}

func optB(v any) tag {
	if b, ok := v.(bool); ok {
		return tag{"t": "b", "v": b}
	}
	return nul()
}

// get reads field `name` of a response object; in alias mode the field was requested as a_<name>.
type normalizer struct{ alias bool }

func (n normalizer) get(m map[string]any, name string) any {
	if n.alias {
		return m["a_"+name]
	}
	return m[name]
}

func (n normalizer) chain(v any) []any {
	out := []any{}
	for depth := 0; depth < 16; depth++ {
		m, ok := v.(map[string]any)
		if !ok {
			break
		}
		out = append(out, tag{"kind": optS(n.get(m, "kind")), "name": optS(n.get(m, "name"))})
		v = n.get(m, "ofType")
	}
	return out
}

func (n normalizer) optList(v any, f func(map[string]any) any) tag {
	l, ok := v.([]any)
	if !ok {
		return nul()
	}
	out := []any{}
	for _, e := range l {
		if m, ok := e.(map[string]any); ok {
			out = append(out, f(m))
		}
	}
	return tag{"t": "l", "v": out}
}

func (n normalizer) inputValue(m map[string]any) any {
	dv := nul()
	if s, ok := n.get(m, "defaultValue").(string); ok {
		dv = tag{"t": "v", "v": parseValue(s)}
	}
	return tag{"name": optS(n.get(m, "name")), "description": optDesc(n.get(m, "description")), "type": n.chain(n.get(m, "type")),
		"defaultValue": dv, "isDeprecated": optB(n.get(m, "isDeprecated")), "deprecationReason": optS(n.get(m, "deprecationReason"))}
}

func (n normalizer) field(m map[string]any) any {
	return tag{"name": optS(n.get(m, "name")), "description": optDesc(n.get(m, "description")),
		"args": n.optList(n.get(m, "args"), n.inputValue), "type": n.chain(n.get(m, "type")),
		"isDeprecated": optB(n.get(m, "isDeprecated")), "deprecationReason": optS(n.get(m, "deprecationReason"))}
}

func (n normalizer) enumValue(m map[string]any) any {
	return tag{"name": optS(n.get(m, "name")), "description": optDesc(n.get(m, "description")),
		"isDeprecated": optB(n.get(m, "isDeprecated")), "deprecationReason": optS(n.get(m, "deprecationReason"))}
}

func (n normalizer) refList(v any) tag {
	l, ok := v.([]any)
	if !ok {
		return nul()
	}
	out := []any{}
	for _, e := range l {
		out = append(out, n.chain(e))
	}
	return tag{"t": "l", "v": out}
}

func (n normalizer) fullType(m map[string]any) any {
	return tag{"kind": optS(n.get(m, "kind")), "name": optS(n.get(m, "name")), "description": optDesc(n.get(m, "description")),
		"specifiedByURL": optS(n.get(m, "specifiedByURL")),
		"fields":         n.optList(n.get(m, "fields"), n.field),
		"inputFields":    n.optList(n.get(m, "inputFields"), n.inputValue),
		"interfaces":     n.refList(n.get(m, "interfaces")),
		"enumValues":     n.optList(n.get(m, "enumValues"), n.enumValue),
		"possibleTypes":  n.refList(n.get(m, "possibleTypes"))}
}

func (n normalizer) directive(m map[string]any) any {
	locs := nul()
	if l, ok := n.get(m, "locations").([]any); ok {
		out := []any{}
		for _, e := range l {
			if s, ok := e.(string); ok {
				out = append(out, s)
			} else {
				out = append(out, "<not-a-string>")
			}
		}
		locs = tag{"t": "l", "v": out}
	}
	return tag{"name": optS(n.get(m, "name")), "description": optDesc(n.get(m, "description")), "locations": locs,
		"args": n.optList(n.get(m, "args"), n.inputValue), "isRepeatable": optB(n.get(m, "isRepeatable"))}
}

func (n normalizer) rootName(v any) tag {
	m, ok := v.(map[string]any)
	if !ok {
		return nul()
	}
	return optS(n.get(m, "name"))
}

func emptyI() tag {
	return tag{"description": nul(), "queryType": nul(), "mutationType": nul(), "subscriptionType": nul(), "types": []any{}, "directives": []any{}}
}

// schema: the value of __schema
func (n normalizer) schema(v any) tag {
	m, ok := v.(map[string]any)
	if !ok {
		return emptyI()
	}
	out := emptyI()
	out["description"] = optDesc(n.get(m, "description"))
	out["queryType"] = n.rootName(n.get(m, "queryType"))
	out["mutationType"] = n.rootName(n.get(m, "mutationType"))
	out["subscriptionType"] = n.rootName(n.get(m, "subscriptionType"))
	if l, ok := n.get(m, "types").([]any); ok {
		ts := []any{}
		for _, e := range l {
			if tm, ok := e.(map[string]any); ok {
				ts = append(ts, n.fullType(tm))
			}
		}
		out["types"] = ts
	}
	if l, ok := n.get(m, "directives").([]any); ok {
		ds := []any{}
		for _, e := range l {
			if dm, ok := e.(map[string]any); ok {
				ds = append(ds, n.directive(dm))
			}
		}
		out["directives"] = ds
	}
	return out
}

// oneType: the value of __type(name:) (null => no type)
func (n normalizer) oneType(v any) tag {
	out := emptyI()
	if m, ok := v.(map[string]any); ok {
		out["types"] = []any{n.fullType(m)}
	}
	return out
}
