package main

import (
	"fmt"
	"math"
	"strconv"
	"strings"

	"github.com/vektah/gqlparser/v2"
	gast "github.com/vektah/gqlparser/v2/ast"
	gparser "github.com/vektah/gqlparser/v2/parser"
)

// GraphQL text -> spec form, through vektah/gqlparser (a parser that shares no code with the
// library under test).

// validSDL: the document is a valid GraphQL schema according to gqlparser's schema validator
// (guards the generator: the property quantifies over valid schemas only).
func validSDL(sdl string) error {
	_, err := gqlparser.LoadSchema(&gast.Source{Name: "case.graphql", Input: sdl})
	if err != nil {
		return err
	}
	return nil
}

func fromValue(v *gast.Value) Val {
	if v == nil {
		return Val{T: "x"}
	}
	switch v.Kind {
	case gast.NullValue:
		return Val{T: "n"}
	case gast.IntValue:
		i, err := strconv.ParseInt(v.Raw, 10, 64)
		if err != nil || i > math.MaxInt32 || i < math.MinInt32 {
			return Val{T: "bad", S: "int:" + v.Raw}
		}
		return Val{T: "i", I: i}
	case gast.FloatValue:
		f, err := strconv.ParseFloat(v.Raw, 64)
		if err != nil {
			return Val{T: "bad", S: "float:" + v.Raw}
		}
		return Val{T: "f", S: strconv.FormatFloat(f, 'g', -1, 64)}
	case gast.StringValue, gast.BlockValue:
		return Val{T: "s", S: v.Raw}
	case gast.BooleanValue:
		return Val{T: "b", B: v.Raw == "true"}
	case gast.EnumValue:
		return Val{T: "e", S: v.Raw}
	case gast.ListValue:
		out := Val{T: "l", L: []Val{}}
		for _, c := range v.Children {
			out.L = append(out.L, fromValue(c.Value))
		}
		return out
	case gast.ObjectValue:
		out := Val{T: "o", L: []Val{}, K: []string{}}
		for _, c := range v.Children {
			out.K = append(out.K, c.Name)
			out.L = append(out.L, fromValue(c.Value))
		}
		return out
	}
	return Val{T: "bad", S: "kind:" + v.Raw}
}

// parseValue parses the text of a const value (the defaultValue string of introspection).
func parseValue(text string) (out Val) {
	defer func() {
		if r := recover(); r != nil {
			out = Val{T: "bad", S: text}
		}
	}()
	doc, err := gparser.ParseQuery(&gast.Source{Input: "{f(a: " + text + "\n)}"})
	if err != nil || len(doc.Operations) != 1 || len(doc.Operations[0].SelectionSet) != 1 {
		return Val{T: "bad", S: text}
	}
	f, ok := doc.Operations[0].SelectionSet[0].(*gast.Field)
	if !ok || len(f.Arguments) != 1 || f.Arguments[0].Value == nil || f.Arguments[0].Value.Kind == gast.Variable {
		return Val{T: "bad", S: text}
	}
	return fromValue(f.Arguments[0].Value)
}

func fromType(t *gast.Type) Ref {
	r := Ref{W: []string{}}
	for t != nil {
		if t.NonNull {
			r.W = append(r.W, "N")
		}
		if t.Elem != nil {
			r.W = append(r.W, "L")
			t = t.Elem
			continue
		}
		r.Name = t.NamedType
		break
	}
	return r
}

func depOf(ds gast.DirectiveList) Dep {
	d := ds.ForName("deprecated")
	if d == nil {
		return Dep{}
	}
	out := Dep{D: true}
	if a := d.Arguments.ForName("reason"); a != nil && a.Value != nil && a.Value.Kind != gast.NullValue {
		out.HR = true
		out.R = a.Value.Raw
	}
	return out
}

func tagsOf(ds gast.DirectiveList) []string {
	out := []string{}
	for _, d := range ds {
		if d.Name != "deprecated" && d.Name != "specifiedBy" {
			out = append(out, d.Name)
		}
	}
	return out
}

func fromArgs(as gast.ArgumentDefinitionList) []InputVal {
	out := []InputVal{}
	for _, a := range as {
		out = append(out, InputVal{Name: a.Name, Desc: normDesc(a.Description), Type: fromType(a.Type), Def: fromValue(a.DefaultValue), Dep: depOf(a.Directives), Tags: tagsOf(a.Directives)})
	}
	return out
}

// descriptions are compared modulo white space (formatting of block strings is not part of the property)
func normDesc(s string) string {
	return strings.Join(strings.Fields(s), " ")
}

func kindOf(k gast.DefinitionKind) string {
	switch k {
	case gast.Scalar:
		return "SCALAR"
	case gast.Object:
		return "OBJECT"
	case gast.Interface:
		return "INTERFACE"
	case gast.Union:
		return "UNION"
	case gast.Enum:
		return "ENUM"
	case gast.InputObject:
		return "INPUT_OBJECT"
	}
	return string(k)
}

// schemaFromSDL parses a type-system document (no validation, no prelude) into the spec form.
func schemaFromSDL(sdl string) (s *Schema, err error) {
	defer func() {
		if r := recover(); r != nil {
			err = fmt.Errorf("panic in gqlparser: %v", r)
		}
	}()
	doc, perr := gparser.ParseSchema(&gast.Source{Name: "sdl", Input: sdl})
	if perr != nil {
		return nil, perr
	}
	// type extensions are merged into their definitions: the spec form describes the resulting type system
	for _, x := range doc.Extensions {
		def := doc.Definitions.ForName(x.Name)
		if def == nil || def.Kind != x.Kind {
			return nil, fmt.Errorf("extension of unknown type %s", x.Name)
		}
		def.Directives = append(def.Directives, x.Directives...)
		def.Interfaces = append(def.Interfaces, x.Interfaces...)
		def.Fields = append(def.Fields, x.Fields...)
		def.Types = append(def.Types, x.Types...)
		def.EnumValues = append(def.EnumValues, x.EnumValues...)
	}
	if len(doc.SchemaExtension) > 0 && len(doc.Schema) != 1 {
		return nil, fmt.Errorf("schema extension without schema definition")
	}
	for _, x := range doc.SchemaExtension {
		doc.Schema[0].Directives = append(doc.Schema[0].Directives, x.Directives...)
		doc.Schema[0].OperationTypes = append(doc.Schema[0].OperationTypes, x.OperationTypes...)
	}
	s = &Schema{Types: []TypeDef{}, Dirs: []DirDef{}, STags: []string{}}
	has := map[string]bool{}
	for _, d := range doc.Definitions {
		has[d.Name] = true
		t := TypeDef{Name: d.Name, Kind: kindOf(d.Kind), Desc: normDesc(d.Description), Fields: []FieldDef{}, Ifaces: []string{},
			Members: []string{}, Values: []EnumVal{}, Inputs: []InputVal{}, Tags: tagsOf(d.Directives)}
		switch d.Kind {
		case gast.Object, gast.Interface:
			t.Ifaces = append(t.Ifaces, d.Interfaces...)
			for _, f := range d.Fields {
				t.Fields = append(t.Fields, FieldDef{Name: f.Name, Desc: normDesc(f.Description), Type: fromType(f.Type), Args: fromArgs(f.Arguments),
					Dep: depOf(f.Directives), Tags: tagsOf(f.Directives)})
			}
		case gast.Union:
			t.Members = append(t.Members, d.Types...)
		case gast.Enum:
			for _, v := range d.EnumValues {
				t.Values = append(t.Values, EnumVal{Name: v.Name, Desc: normDesc(v.Description), Dep: depOf(v.Directives), Tags: tagsOf(v.Directives)})
			}
		case gast.InputObject:
			for _, f := range d.Fields {
				t.Inputs = append(t.Inputs, InputVal{Name: f.Name, Desc: normDesc(f.Description), Type: fromType(f.Type), Def: fromValue(f.DefaultValue), Dep: depOf(f.Directives), Tags: tagsOf(f.Directives)})
			}
		case gast.Scalar:
			if sp := d.Directives.ForName("specifiedBy"); sp != nil {
				if a := sp.Arguments.ForName("url"); a != nil && a.Value != nil {
					t.URL = a.Value.Raw
				}
			}
		}
		s.Types = append(s.Types, t)
	}
	for _, d := range doc.Directives {
		dd := DirDef{Name: d.Name, Desc: normDesc(d.Description), Locs: []string{}, Rep: d.IsRepeatable, Args: fromArgs(d.Arguments)}
		for _, l := range d.Locations {
			dd.Locs = append(dd.Locs, string(l))
		}
		s.Dirs = append(s.Dirs, dd)
	}
	if len(doc.Schema) > 1 {
		return nil, fmt.Errorf("more than one schema definition")
	}
	if len(doc.Schema) == 1 {
		s.SD = true
		s.STags = tagsOf(doc.Schema[0].Directives)
		s.Desc = normDesc(doc.Schema[0].Description)
		for _, ot := range doc.Schema[0].OperationTypes {
			switch ot.Operation {
			case gast.Query:
				s.Query = ot.Type
			case gast.Mutation:
				s.Mutation = ot.Type
			case gast.Subscription:
				s.Subscription = ot.Type
			}
		}
	} else {
		// GraphQL spec 3.3.1: without a schema definition the root types are the types with the default names
		if has["Query"] {
			s.Query = "Query"
		}
		if has["Mutation"] {
			s.Mutation = "Mutation"
		}
		if has["Subscription"] {
			s.Subscription = "Subscription"
		}
	}
	return s, nil
}
