// Command introspect replays TLC-generated schemas (spec/core/GQLSchemaGen.tla) into the real
// introspection code of graphql-go-tools and records what it answered, for property C17.
//
// For every case {"id":..,"s":<schema in spec form>} it
//  1. prints the schema as SDL (own printer) and checks with gqlparser that it is a valid schema,
//  2. builds the configured schema (graphql.NewSchemaFromString = parse + base schema merge),
//  3. runs introspection.Generator -> introspection.Data JSON                      (view "gen"),
//  4. feeds that JSON to introspection.JsonConverter, prints the document with astprinter and
//     parses the SDL back with gqlparser into the spec form                          ("roundtrip"),
//  5. builds an ExecutionEngine over the schema and executes the menu of introspection queries
//     through Execute                                                              (views "q.*").
//
// Output (-out): NDJSON for TLC trace validation (spec/core/Trace_C17.tla), one line per observation:
//
//	{"ev":"schema","id":..,"s":S}            starts a case (descriptions white-space normalised)
//	{"ev":"echo","s":S'}                     the printed SDL parsed back by gqlparser (harness self check)
//	{"ev":"obs","view":..,"root":"schema|type","name":..,"inc":bool,"prof":"full|namekind","errs":n,"same":k,"i":I}
//	{"ev":"roundtrip","ok":bool,"s":S''}
//	{"ev":"fail","stage":..,"err":..}        the implementation rejected / crashed on a valid schema
//
// (-res): one line per case with the SDL texts (and with -raw the raw queries and responses).
package main

import (
	"bufio"
	"bytes"
	"context"
	"encoding/json"
	"flag"
	"fmt"
	"hash/fnv"
	"os"
	"runtime/debug"
	"sync"

	"github.com/jensneuse/abstractlogger"

	"github.com/wundergraph/graphql-go-tools/execution/engine"
	"github.com/wundergraph/graphql-go-tools/execution/graphql"
	"github.com/wundergraph/graphql-go-tools/v2/pkg/astprinter"
	"github.com/wundergraph/graphql-go-tools/v2/pkg/engine/resolve"
	"github.com/wundergraph/graphql-go-tools/v2/pkg/introspection"
	"github.com/wundergraph/graphql-go-tools/v2/pkg/operationreport"
)

type Case struct {
	ID string `json:"id"`
	S  Schema `json:"s"`
}

type rawObs struct {
	View     string `json:"view"`
	Name     string `json:"name"`
	Query    string `json:"query"`
	Vars     string `json:"vars"`
	Response string `json:"response"`
	Err      string `json:"err"`
}

type caseResult struct {
	ID       string   `json:"id"`
	SDL      string   `json:"sdl"`
	Invalid  string   `json:"invalid"` // gqlparser rejected the generated SDL (generator problem, not a verdict)
	SDL2     string   `json:"sdl2"`    // printed SDL of the converted document
	DataJSON string   `json:"data_json,omitempty"`
	Raw      []rawObs `json:"raw,omitempty"`
	Lines    int      `json:"lines"`
}

func normSchemaDescs(s Schema) Schema {
	b, _ := json.Marshal(s)
	var c Schema
	_ = json.Unmarshal(b, &c)
	c.Desc = normDesc(c.Desc)
	nIV := func(ivs []InputVal) {
		for i := range ivs {
			ivs[i].Desc = normDesc(ivs[i].Desc)
		}
	}
	for i := range c.Types {
		t := &c.Types[i]
		t.Desc = normDesc(t.Desc)
		for j := range t.Fields {
			t.Fields[j].Desc = normDesc(t.Fields[j].Desc)
			nIV(t.Fields[j].Args)
		}
		nIV(t.Inputs)
		for j := range t.Values {
			t.Values[j].Desc = normDesc(t.Values[j].Desc)
		}
	}
	for i := range c.Dirs {
		c.Dirs[i].Desc = normDesc(c.Dirs[i].Desc)
		nIV(c.Dirs[i].Args)
	}
	return c
}

func emptySchema() *Schema {
	return &Schema{Types: []TypeDef{}, Dirs: []DirDef{}, STags: []string{}}
}

func guard(stage string, f func() error) (err error) {
	defer func() {
		if r := recover(); r != nil {
			err = fmt.Errorf("panic in %s: %v\n%s", stage, r, firstLines(string(debug.Stack()), 14))
		}
	}()
	return f()
}

func firstLines(s string, n int) string {
	out := 0
	for i := range s {
		if s[i] == '\n' {
			out++
			if out == n {
				return s[:i]
			}
		}
	}
	return s
}

func runCase(c Case, raw bool) (lines []any, res caseResult) {
	res.ID = c.ID
	add := func(l any) { lines = append(lines, l) }
	// identical __schema answers are recorded once: "same": k = the record of the line k lines earlier
	// (byte equality of two implementation outputs needs no oracle)
	seenI := map[string]int{}
	addObs := func(view, root, name string, incl bool, prof string, errs int, i tag) {
		same := 0
		var rec any = i
		if root == "schema" {
			b, _ := json.Marshal(i)
			if at, ok := seenI[string(b)]; ok {
				same = len(lines) - at
				rec = emptyI()
			} else {
				seenI[string(b)] = len(lines)
			}
		}
		add(tag{"ev": "obs", "view": view, "root": root, "name": name, "inc": incl, "prof": prof, "errs": errs, "same": same, "i": rec})
	}
	sdl := c.S.SDL()
	res.SDL = sdl
	if err := validSDL(sdl); err != nil {
		res.Invalid = err.Error()
		return nil, res
	}
	add(tag{"ev": "schema", "id": c.ID, "s": normSchemaDescs(c.S)})
	echo, err := schemaFromSDL(sdl)
	if err != nil {
		res.Invalid = "echo: " + err.Error()
		return nil, res
	}
	add(tag{"ev": "echo", "ok": true, "err": "", "s": echo})

	// ---- 2. configured schema
	var schema *graphql.Schema
	if err := guard("NewSchemaFromString", func() (e error) { schema, e = graphql.NewSchemaFromString(sdl); return }); err != nil {
		add(tag{"ev": "fail", "stage": "schema", "err": err.Error()})
		res.Lines = len(lines)
		return lines, res
	}
	generate := func(sch *graphql.Schema) (out []byte, err error) {
		err = guard("introspection.Generator", func() error {
			var data introspection.Data
			var report operationreport.Report
			gen := introspection.NewGenerator()
			gen.Generate(sch.Document(), &report, &data)
			if report.HasErrors() {
				return fmt.Errorf("generator report: %s", report.Error())
			}
			var e error
			out, e = json.Marshal(data)
			return e
		})
		return
	}
	if c.S.HasExtensions() {
		// The engine works on the document as given; graphql.Schema.Normalize() is the library's way to merge type
		// extensions. View gen.unnormalized records what the Generator says about the document as parsed; everything
		// else (gen, round trip, engine) runs on the normalized schema.
		if raw, err := generate(schema); err != nil {
			add(tag{"ev": "fail", "stage": "generator.unnormalized", "err": err.Error()})
		} else {
			var d map[string]any
			_ = json.Unmarshal(raw, &d)
			addObs("gen.unnormalized", "schema", "", true, "full", 0, normalizer{}.schema(d["__schema"]))
		}
		var nerr error
		if err := guard("Schema.Normalize", func() error {
			res, e := schema.Normalize()
			if e != nil {
				return e
			}
			if !res.Successful {
				nerr = fmt.Errorf("%v", res.Errors)
			}
			return nil
		}); err != nil || nerr != nil {
			if err == nil {
				err = nerr
			}
			add(tag{"ev": "fail", "stage": "normalize", "err": err.Error()})
			res.Lines = len(lines)
			return lines, res
		}
	}
	// ---- 3. generator
	var dataJSON []byte
	if err := guard("introspection.Generator", func() error {
		var data introspection.Data
		var report operationreport.Report
		gen := introspection.NewGenerator()
		gen.Generate(schema.Document(), &report, &data)
		if report.HasErrors() {
			return fmt.Errorf("generator report: %s", report.Error())
		}
		var e error
		dataJSON, e = json.Marshal(data)
		return e
	}); err != nil {
		add(tag{"ev": "fail", "stage": "generator", "err": err.Error()})
	} else {
		var d map[string]any
		_ = json.Unmarshal(dataJSON, &d)
		addObs("gen", "schema", "", true, "full", 0, normalizer{}.schema(d["__schema"]))
		if raw {
			res.DataJSON = string(dataJSON)
		}
		// ---- 4. converter round trip
		var sdl2 string
		if err := guard("introspection.JsonConverter", func() error {
			conv := introspection.JsonConverter{}
			doc, e := conv.GraphQLDocument(bytes.NewReader(dataJSON))
			if e != nil {
				return e
			}
			sdl2, e = astprinter.PrintStringIndent(doc, "  ")
			return e
		}); err != nil {
			add(tag{"ev": "roundtrip", "ok": false, "err": err.Error(), "s": emptySchema()})
		} else {
			res.SDL2 = sdl2
			back, perr := schemaFromSDL(sdl2)
			if perr != nil {
				add(tag{"ev": "roundtrip", "ok": false, "err": "the converted document does not print to a parseable SDL: " + perr.Error(), "s": emptySchema()})
			} else {
				add(tag{"ev": "roundtrip", "ok": true, "err": "", "s": back})
			}
		}
	}
	// ---- 5. engine
	ctx, cancel := context.WithCancel(context.Background())
	defer cancel()
	var eng *engine.ExecutionEngine
	if err := guard("NewExecutionEngine", func() (e error) {
		eng, e = engine.NewExecutionEngine(ctx, abstractlogger.NoopLogger, engine.NewConfiguration(schema), resolve.ResolverOptions{MaxConcurrency: 4})
		return
	}); err != nil {
		add(tag{"ev": "fail", "stage": "engine", "err": err.Error()})
		res.Lines = len(lines)
		return lines, res
	}
	typeNames := []string{}
	for _, t := range c.S.Types {
		typeNames = append(typeNames, t.Name)
	}
	typeNames = append(typeNames, "Int", "Float", "String", "Boolean", "ID")
	h := fnv.New32a()
	h.Write([]byte(c.ID))
	cache := map[string]map[string]any{} // query text+vars -> parsed response
	rawSeen := map[string]bool{}
	for _, q := range menu(typeNames, int(h.Sum32()%1000)) {
		ck := q.Text + "\x00" + q.Vars
		resp, done := cache[ck]
		var execErr string
		if !done {
			var buf bytes.Buffer
			err := guard("Execute", func() error {
				req := graphql.Request{OperationName: q.Op, Query: q.Text}
				if q.Vars != "" {
					req.Variables = []byte(q.Vars)
				}
				w := graphql.NewEngineResultWriterFromBuffer(&buf)
				return eng.Execute(ctx, &req, &w)
			})
			if err != nil {
				execErr = err.Error()
			}
			resp = map[string]any{}
			if execErr == "" {
				if e := json.Unmarshal(buf.Bytes(), &resp); e != nil {
					execErr = "response is not JSON: " + e.Error()
				}
			}
			if execErr != "" {
				resp = map[string]any{"__exec_error": execErr}
			}
			cache[ck] = resp
			if raw && !rawSeen[ck] {
				rawSeen[ck] = true
				res.Raw = append(res.Raw, rawObs{View: q.View, Name: q.Name, Query: q.Text, Vars: q.Vars, Response: buf.String(), Err: execErr})
			}
		}
		if e, ok := resp["__exec_error"].(string); ok {
			add(tag{"ev": "fail", "stage": "execute:" + q.View, "err": e})
			continue
		}
		errs := 0
		if l, ok := resp["errors"].([]any); ok {
			errs = len(l)
		}
		data, _ := resp["data"].(map[string]any)
		n := normalizer{alias: q.Alias}
		var i tag
		if q.Root == "schema" {
			i = n.schema(data[q.Key])
		} else {
			i = n.oneType(data[q.Key])
		}
		addObs(q.View, q.Root, q.Name, q.Inc, q.Prof, errs, i)
	}
	res.Lines = len(lines)
	return lines, res
}

func main() {
	in := flag.String("in", "", "cases (NDJSON)")
	out := flag.String("out", "", "observations for TLC (NDJSON)")
	resPath := flag.String("res", "", "per-case results (NDJSON)")
	raw := flag.Bool("raw", false, "record raw queries and responses in -res")
	workers := flag.Int("workers", 8, "parallel cases")
	flag.Parse()
	defer startProfile()()
	f, err := os.Open(*in)
	if err != nil {
		fmt.Fprintln(os.Stderr, err)
		os.Exit(2)
	}
	var cases []Case
	sc := bufio.NewScanner(f)
	sc.Buffer(make([]byte, 1<<20), 1<<28)
	for sc.Scan() {
		if len(bytes.TrimSpace(sc.Bytes())) == 0 {
			continue
		}
		var c Case
		if err := json.Unmarshal(sc.Bytes(), &c); err != nil {
			fmt.Fprintln(os.Stderr, "bad case:", err)
			os.Exit(2)
		}
		cases = append(cases, c)
	}
	f.Close()
	type outT struct {
		lines []any
		res   caseResult
	}
	results := make([]outT, len(cases))
	var wg sync.WaitGroup
	next := make(chan int)
	for w := 0; w < *workers; w++ {
		wg.Add(1)
		go func() {
			defer wg.Done()
			for i := range next {
				l, r := runCase(cases[i], *raw)
				results[i] = outT{l, r}
			}
		}()
	}
	for i := range cases {
		next <- i
	}
	close(next)
	wg.Wait()
	of, err := os.Create(*out)
	if err != nil {
		fmt.Fprintln(os.Stderr, err)
		os.Exit(2)
	}
	ow := bufio.NewWriterSize(of, 1<<20)
	rf, err := os.Create(*resPath)
	if err != nil {
		fmt.Fprintln(os.Stderr, err)
		os.Exit(2)
	}
	rw := bufio.NewWriterSize(rf, 1<<20)
	enc := json.NewEncoder(ow)
	enc.SetEscapeHTML(false)
	renc := json.NewEncoder(rw)
	renc.SetEscapeHTML(false)
	for _, r := range results {
		for _, l := range r.lines {
			if err := enc.Encode(l); err != nil {
				fmt.Fprintln(os.Stderr, "encode:", err)
				os.Exit(2)
			}
		}
		_ = renc.Encode(r.res)
	}
	ow.Flush()
	of.Close()
	rw.Flush()
	rf.Close()
}
