// Command subs replays TLC-generated schedules of spec/conc/Subscriptions.tla into the real
// subscription machinery of resolve.Resolver (AsyncResolveGraphQLSubscription, UnsubscribeSubscription,
// UnsubscribeClient, the SubscriptionUpdater handed to a fake SubscriptionDataSource, resolver shutdown)
// and records what the code did as an NDJSON event stream for TLC trace validation (Trace_Subs).
//
// Input (-in), one schedule per line:
//
//	{"id":"..","subs":[{"key":1,"filt":"all|odd","conn":1}],"kv":"input|hdr","start":["ok|fail|ctx",..],
//	 "steps":[{"k":"c","i":1,"j":0,"ch":"sub"}, ...]}
//
// A step releases one actor from the point it is parked at; "ch" is the command of a harness actor
// (sub unsub rmclient / update complete error hb done / shutdown final) or the outcome the environment
// chooses at a gate (ok | err for Flush and Heartbeat).
//
// Output (-out): events {"ev","k","i","j","x","y","z","ov","c"} per line, traces separated by "reset",
// closed by "end" (registry sizes, reporter sums, Start contexts not cancelled); (-res) one result line
// per schedule.
package main

import (
	"bufio"
	"bytes"
	"context"
	"encoding/binary"
	"encoding/json"
	"errors"
	"flag"
	"fmt"
	"io"
	"net/http"
	"os"
	"regexp"
	"strconv"
	"strings"
	"sync"
	"sync/atomic"
	"time"

	"github.com/cespare/xxhash/v2"
	"github.com/wundergraph/astjson"

	"github.com/buger/jsonparser"

	"github.com/wundergraph/graphql-go-tools/v2/pkg/ast"
	"github.com/wundergraph/graphql-go-tools/v2/pkg/engine/datasource/graphql_datasource"
	"github.com/wundergraph/graphql-go-tools/v2/pkg/engine/datasource/httpclient"
	"github.com/wundergraph/graphql-go-tools/v2/pkg/engine/resolve"

	"verif/harness/internal/gate"
)

const connBase = 1000 // connection ids of the asynchronous subscribers (the synchronous call draws small ones from a global counter)

const padSlots = 3 // subscriber slots of the trace specification (Trace_Subs cfg: NS)

const padBase = 200 // an event payload is padBase+e bytes long: lets the sub.update.begin hook identify the event

type SubCfg struct {
	Key  int    `json:"key"`
	Filt string `json:"filt"`
	Conn int    `json:"conn"`
	// Fetch: the response plan has a nested fetch (fake data source = gate "ds.load") that runs for every event
	Fetch bool `json:"fetch"`
	// Rerr: rendering this subscriber's response fails (its authorizer refuses the field): the error is written instead of the message
	Rerr bool `json:"rerr"`
	// HookFail: the start-up hook of the data source fails for this subscriber
	HookFail bool `json:"hookfail"`
}

type Step struct {
	K  string `json:"k"`
	I  int    `json:"i"`
	J  int    `json:"j"`
	Ch string `json:"ch"`
}

type Schedule struct {
	ID    string   `json:"id"`
	Subs  []SubCfg `json:"subs"`
	KV    string   `json:"kv"` // how keys differ: "input" (trigger input), "hdr" (forwarded headers hash), "payload" (Context.InitialPayload)
	FK    string   `json:"fk"` // how an "odd" filter is written: num-static num-var arr-var true-var false-var str-var
	Start []string `json:"start"`
	Hooks bool     `json:"hooks"` // the data source has start-up hooks (HookableSubscriptionDataSource)
	Sync  bool     `json:"sync"`  // subscriber 1 uses the synchronous ResolveGraphQLSubscription (SubscriptionID 0, connection id of its own)
	Steps []Step   `json:"steps"`
	// NoPark: points that are only recorded in this run (a hook that sits inside a lock in the tree under test)
	NoPark []string `json:"nopark"`
}

type Result struct {
	ID          string   `json:"id"`
	Unrealised  int      `json:"unrealised"`
	UnrealAt    []int    `json:"unreal_at,omitempty"`
	Wedged      []string `json:"wedged,omitempty"`
	Panic       string   `json:"panic,omitempty"`
	Events      int      `json:"events"`
	Overlaps    int      `json:"overlaps"`
	Registry    [3]int   `json:"registry"`
	Counts      [4]int   `json:"counts"` // subInc subDec trigInc trigDec
	Uncancelled []int    `json:"uncancelled,omitempty"`
	Starts      []int    `json:"starts"`
	FreeRun     bool     `json:"free_run"`
	Timeouts    int      `json:"timeouts"` // steps after which the system had not settled within StepWait (machine too slow): actors may have run concurrently
	Updates     int      `json:"update_sent"`
}

// ---------------------------------------------------------------------------------------------- fakes

type slotKey struct{}

type hdrBuilder struct{ h uint64 }

func (b hdrBuilder) HeadersForSubgraph(string) (http.Header, uint64) {
	return http.Header{"X-Key": []string{fmt.Sprint(b.h)}}, b.h
}
func (b hdrBuilder) HashAll() uint64 { return b.h }

var errStart = errors.New("verif: upstream refused the subscription")
var errFlush = errors.New("verif: client went away (flush)")
var errHeartbeat = errors.New("verif: client went away (heartbeat)")

type instance struct {
	updater   resolve.SubscriptionUpdater
	ctx       context.Context
	calls     int
	cancelled bool
}

type run struct {
	ctl      *gate.Controller
	sched    Schedule
	mu       sync.Mutex
	inst     map[int]*instance // by creator slot
	nev      int
	overlaps atomic.Int64
	panicMsg atomic.Value
	solo     func(slot, key, e int, fetch bool) []byte
}

// source is the fake SubscriptionDataSource: it hands the updater to the harness.
type source struct{ r *run }

func (s source) Start(ctx *resolve.Context, headers http.Header, input []byte, updater resolve.SubscriptionUpdater) error {
	slot, _ := ctx.Context().Value(slotKey{}).(int)
	r := s.r
	mode := "ok"
	if slot >= 1 && slot <= len(r.sched.Start) {
		mode = r.sched.Start[slot-1]
	}
	cancelled := ctx.Context().Err() != nil
	var err error
	switch mode {
	case "fail":
		err = errStart
	case "ctx":
		err = ctx.Context().Err()
	}
	r.mu.Lock()
	in := r.inst[slot]
	if in == nil {
		in = &instance{}
		r.inst[slot] = in
	}
	in.calls++
	if in.calls == 1 {
		in.updater, in.ctx = updater, ctx.Context()
	}
	r.mu.Unlock()
	ok := uint64(1)
	if err != nil {
		ok = 0
	}
	z := uint64(0)
	if cancelled {
		z = 1
	}
	c := uint64(1)
	if _, has := ctx.Context().Deadline(); has {
		c = 0 // the trigger context is shared by all subscribers: it must not carry the creator's request deadline
	}
	r.ctl.Log("h.start", uint64(slot), ok, map[string]any{"z": z, "c": c})
	return err
}

var errHook = errors.New("verif: start-up hook refused the subscription")

// hookSource is the same fake with start-up hooks (HookableSubscriptionDataSource): the hook is a gate, its outcome is scripted per subscriber
type hookSource struct{ source }

func (s hookSource) SubscriptionOnStart(ctx resolve.StartupHookContext, input []byte) error {
	slot, _ := ctx.Context.Value(slotKey{}).(int)
	ok := uint64(1)
	if slot >= 1 && slot <= len(s.r.sched.Subs) && s.r.sched.Subs[slot-1].HookFail {
		ok = 0
	}
	s.r.ctl.At("h.hook", uint64(slot), ok, nil)
	s.r.ctl.Log("h.hook.ret", uint64(slot), ok, nil)
	if ok == 0 {
		return errHook
	}
	return nil
}

// HashTriggerInput is the one of the real GraphQL data source: what identifies an upstream subscription is its business.
func (s source) HashTriggerInput(input []byte, xxh *xxhash.Digest) error {
	return (&graphql_datasource.SubscriptionSource{}).HashTriggerInput(input, xxh)
}

type reporter struct {
	subInc, subDec, trigInc, trigDec, updates atomic.Int64
}

func (r *reporter) SubscriptionUpdateSent()        { r.updates.Add(1) }
func (r *reporter) SubscriptionCountInc(count int) { r.subInc.Add(int64(count)) }
func (r *reporter) SubscriptionCountDec(count int) { r.subDec.Add(int64(count)) }
func (r *reporter) TriggerCountInc(count int)      { r.trigInc.Add(int64(count)) }
func (r *reporter) TriggerCountDec(count int)      { r.trigDec.Add(int64(count)) }

// writer is the logging SubscriptionResponseWriter of one subscriber.
type writer struct {
	r        *run
	slot     int
	key      int
	fetch    bool
	buf      []byte
	inside   atomic.Int32
	msgOwner atomic.Int64 // actor "token" of the goroutine that has a message in progress (first Write .. Flush)
	failNext atomic.Bool  // next Flush fails
	hbFail   atomic.Bool  // next Heartbeat fails
	ovSeen   atomic.Bool
}

var tokenSeq atomic.Int64

func (w *writer) enter() (ov bool, leave func()) {
	n := w.inside.Add(1)
	if n > 1 {
		ov = true
	}
	if ov {
		w.ovSeen.Store(true)
		w.r.overlaps.Add(1)
	}
	return ov, func() { w.inside.Add(-1) }
}

func (w *writer) Write(p []byte) (int, error) {
	_, leave := w.enter()
	defer leave()
	w.buf = append(w.buf, p...)
	return len(p), nil
}

var payloadRe = regexp.MustCompile(`k(\d+)e(\d+)`)

func parsePayload(b []byte) (key, e int) {
	m := payloadRe.FindSubmatch(b)
	if m == nil {
		return 0, 0
	}
	key, _ = strconv.Atoi(string(m[1]))
	e, _ = strconv.Atoi(string(m[2]))
	return
}

func ovField(w *writer, ov bool) uint64 {
	if ov || w.ovSeen.Swap(false) {
		return 1
	}
	return 0
}

func (w *writer) Flush() error {
	ov, leave := w.enter()
	defer leave()
	msg := w.buf
	w.buf = nil
	key, e := parsePayload(msg)
	w.r.ctl.At("w.flush.enter", uint64(w.slot), uint64(e), map[string]any{"ov": ovField(w, ov)})
	c := uint64(0)
	if key == w.key && bytes.Equal(msg, w.r.solo(w.slot, key, e, w.fetch)) {
		c = 1
	}
	if w.failNext.Swap(false) {
		w.r.ctl.Log("w.flush", uint64(w.slot), uint64(e), map[string]any{"z": uint64(0), "c": c, "ov": ovField(w, w.inside.Load() > 1)})
		return errFlush
	}
	w.r.ctl.Log("w.flush", uint64(w.slot), uint64(e), map[string]any{"z": uint64(1), "c": c, "ov": ovField(w, w.inside.Load() > 1)})
	return nil
}

func (w *writer) Complete() {
	ov, leave := w.enter()
	defer leave()
	w.r.ctl.Log("w.complete", uint64(w.slot), 0, map[string]any{"ov": ovField(w, ov || len(w.buf) > 0)})
}

func (w *writer) Error(data []byte) {
	ov, leave := w.enter()
	defer leave()
	w.r.ctl.Log("w.error", uint64(w.slot), 0, map[string]any{"ov": ovField(w, ov || len(w.buf) > 0)})
}

func (w *writer) Heartbeat() error {
	ov, leave := w.enter()
	defer leave()
	if w.hbFail.Swap(false) {
		w.r.ctl.Log("w.hb", uint64(w.slot), 0, map[string]any{"ov": ovField(w, ov || len(w.buf) > 0)})
		return errHeartbeat
	}
	w.r.ctl.Log("w.hb", uint64(w.slot), 1, map[string]any{"ov": ovField(w, ov || len(w.buf) > 0)})
	return nil
}

// errWriter is the AsyncErrorWriter: start-up failures are written through it.
type errWriter struct{ r *run }

func (e errWriter) WriteError(ctx *resolve.Context, err error, res *resolve.GraphQLResponse, w io.Writer) {
	if lw, ok := w.(*writer); ok {
		ov, leave := lw.enter()
		defer leave()
		// the gate inside the error write: the writing goroutine sits inside the writer (under writeMu in a correct tree)
		e.r.ctl.At("w.werr.enter", uint64(lw.slot), 0, map[string]any{"ov": ovField(lw, ov || len(lw.buf) > 0)})
		e.r.ctl.Log("w.werr", uint64(lw.slot), 0, map[string]any{"ov": ovField(lw, lw.inside.Load() > 1)})
	}
}

// ---------------------------------------------------------------------------------------------- plans

func triggerInput(kv string, key int) string {
	if kv == "hdr" || kv == "payload" {
		return `{"url":"ws://upstream","body":{"query":"subscription{v}"}}`
	}
	if kv == "ws" {
		// the inputs differ only by whitespace INSIDE a JSON string value: different upstream subscriptions
		room := []string{"a b", "ab", "a  b", "a b "}[(key-1)%4]
		return fmt.Sprintf(`{"url":"ws://upstream","body":{"query":"subscription{v(room:\"%s\")}"}}`, room)
	}
	return fmt.Sprintf(`{"url":"ws://upstream","body":{"query":"subscription{v(k:%d)}"}}`, key)
}

func initialPayload(key int) []byte { return []byte(fmt.Sprintf(`{"token":"client-of-key-%d"}`, key)) }

// triggerID: hash(input as the resolver builds it, forwarded-headers hash) with the data source's own input hash
func triggerID(kv string, key int) uint64 {
	d := xxhash.New()
	in := []byte(triggerInput(kv, key))
	if kv == "payload" {
		in, _ = jsonparser.Set(in, initialPayload(key), "initial_payload")
	}
	_ = source{}.HashTriggerInput(in, d)
	if kv == "hdr" {
		var b [8]byte
		binary.LittleEndian.PutUint64(b[:], uint64(key))
		_, _ = d.Write(b[:])
	}
	return d.Sum64()
}

var errRender = errors.New("verif: authorizer failed while rendering")

// refusing is an Authorizer whose object-field check fails: Resolve returns the error inside the update
type refusing struct{}

func (refusing) AuthorizePreFetch(ctx *resolve.Context, dataSourceID string, input json.RawMessage, coordinate resolve.GraphCoordinate) (*resolve.AuthorizationDeny, error) {
	return nil, nil
}
func (refusing) AuthorizeObjectField(ctx *resolve.Context, dataSourceID string, object json.RawMessage, coordinate resolve.GraphCoordinate) (*resolve.AuthorizationDeny, error) {
	return nil, errRender
}
func (refusing) HasResponseExtensionData(ctx *resolve.Context) bool                { return false }
func (refusing) RenderResponseExtension(ctx *resolve.Context, out io.Writer) error { return nil }

// nestedDS is the fake subgraph of the nested fetch; every call is the gate "ds.load" of the calling update goroutine.
type nestedDS struct{ ctl *gate.Controller }

func (d nestedDS) Load(ctx context.Context, headers http.Header, input []byte) ([]byte, error) {
	d.ctl.At("ds.load", 0, 0, nil)
	return []byte(`{"data":{"n":"nested"}}`), nil
}

func (d nestedDS) LoadWithFiles(ctx context.Context, headers http.Header, input []byte, files []*httpclient.FileUpload) ([]byte, error) {
	return d.Load(ctx, headers, input)
}

func varSegment(name string) []resolve.TemplateSegment {
	return []resolve.TemplateSegment{{SegmentType: resolve.VariableSegmentType, VariableKind: resolve.ContextVariableKind,
		VariableSourcePath: []string{name}, Renderer: resolve.NewPlainVariableRenderer()}}
}

// oddFilter: "only events with an odd number", written in one of the ways a filter value can be given
func oddFilter(fk string) *resolve.SubscriptionFilter {
	static := func(v string) []resolve.TemplateSegment {
		return []resolve.TemplateSegment{{SegmentType: resolve.StaticSegmentType, Data: []byte(v)}}
	}
	field, segs := "par", static("1")
	if fk == "err" {
		// two arrays in one value: ErrInvalidSubscriptionFilterTemplate for every event that has the field
		return &resolve.SubscriptionFilter{In: &resolve.SubscriptionFieldFilter{FieldPath: []string{"par"}, Values: []resolve.InputTemplate{{Segments: static("[1][2]")}}}}
	}
	in := func(field string, values ...[]resolve.TemplateSegment) *resolve.SubscriptionFilter {
		f := &resolve.SubscriptionFieldFilter{FieldPath: []string{field}}
		for _, v := range values {
			f.Values = append(f.Values, resolve.InputTemplate{Segments: v})
		}
		return &resolve.SubscriptionFilter{In: f}
	}
	switch fk {
	// IN with two value templates: the event matches only the SECOND one
	case "in2-static":
		return in("par", static("7"), static("1"))
	case "in2-var":
		return in("par", varSegment("seven"), varSegment("one"))
	case "str2-var":
		return in("sodd", varSegment("nope"), varSegment("word"))
	case "notin2": // NOT{par IN (7, 0)}: an even event matches the second template and must be dropped
		return &resolve.SubscriptionFilter{Not: in("par", static("7"), static("0"))}
	case "num-var":
		segs = varSegment("one")
	case "arr-var":
		segs = varSegment("odds")
	case "true-var":
		field, segs = "todd", varSegment("yes")
	case "false-var":
		field, segs = "teven", varSegment("no")
	case "str-var":
		field, segs = "sodd", varSegment("word")
	}
	return &resolve.SubscriptionFilter{In: &resolve.SubscriptionFieldFilter{FieldPath: []string{field}, Values: []resolve.InputTemplate{{Segments: segs}}}}
}

const filterVariables = `{"one":1,"seven":7,"odds":[1,3,5],"yes":true,"no":false,"word":"odd","nope":"nope"}`

func plan(src resolve.SubscriptionDataSource, ctl *gate.Controller, slot int, c SubCfg, kv, fk string) *resolve.GraphQLSubscription {
	input := triggerInput(kv, c.Key)
	sub := &resolve.GraphQLSubscription{
		Trigger: resolve.GraphQLSubscriptionTrigger{
			Input:          []byte(input),
			InputTemplate:  resolve.InputTemplate{Segments: []resolve.TemplateSegment{{SegmentType: resolve.StaticSegmentType, Data: []byte(input)}}},
			Source:         src,
			SourceName:     "upstream",
			SourceID:       "upstream",
			PostProcessing: resolve.PostProcessingConfiguration{SelectResponseDataPath: []string{"data"}},
		},
		Response: &resolve.GraphQLResponse{
			Info: &resolve.GraphQLResponseInfo{OperationType: ast.OperationTypeSubscription},
			Data: &resolve.Object{
				Fields: []*resolve.Field{{
					Name:  []byte(fmt.Sprintf("f%d", slot)),
					Value: &resolve.String{Path: []string{"v"}, Nullable: true},
				}},
			},
		},
	}
	if c.Filt == "odd" {
		sub.Filter = oddFilter(fk)
	}
	if c.Filt == "err" {
		sub.Filter = oddFilter("err")
	}
	if c.Rerr {
		f := sub.Response.Data.Fields[0]
		f.Info = &resolve.FieldInfo{Name: string(f.Name), ExactParentTypeName: "Subscription", ParentTypeNames: []string{"Subscription"}, NamedType: "String",
			Source: resolve.TypeFieldSource{IDs: []string{"upstream"}, Names: []string{"upstream"}}, HasAuthorizationRule: true}
	}
	if c.Fetch {
		fin := `{"method":"POST","url":"http://nested","body":{"query":"{n}"}}`
		sub.Response.Fetches = resolve.Single(&resolve.SingleFetch{
			FetchConfiguration: resolve.FetchConfiguration{
				DataSource:     nestedDS{ctl},
				Input:          fin,
				PostProcessing: resolve.PostProcessingConfiguration{SelectResponseDataPath: []string{"data"}},
			},
			InputTemplate: resolve.InputTemplate{Segments: []resolve.TemplateSegment{{SegmentType: resolve.StaticSegmentType, Data: []byte(fin)}}},
			Info: &resolve.FetchInfo{DataSourceID: "nested", DataSourceName: "nested", OperationType: ast.OperationTypeQuery,
				RootFields: []resolve.GraphCoordinate{{TypeName: "Subscription", FieldName: "n"}}},
		})
		sub.Response.Data.Fields = append(sub.Response.Data.Fields, &resolve.Field{
			Name: []byte("n"), Value: &resolve.String{Path: []string{"n"}, Nullable: true}})
	}
	return sub
}

func payload(key, e int) []byte {
	word := map[bool]string{true: "odd", false: "even"}[e%2 == 1]
	head := fmt.Sprintf(`{"data":{"v":"k%de%d"},"par":%d,"todd":%t,"teven":%t,"sodd":"%s","pad":"`, key, e, e%2, e%2 == 1, e%2 == 0, word)
	n := padBase + e - len(head) - 2
	return []byte(head + string(bytes.Repeat([]byte("x"), n)) + `"}`)
}

func newCtx(parent context.Context, slot int, c SubCfg, kv string) *resolve.Context {
	// every request context has a (far) deadline: the detached trigger context must not inherit it
	dctx, _ := context.WithDeadline(context.WithValue(parent, slotKey{}, slot), time.Now().Add(6*time.Hour)) //nolint:govet
	rc := resolve.NewContext(dctx)
	rc.Request.ID = uint64(slot)
	rc.ExecutionOptions.SendHeartbeat = true
	if c.Rerr {
		rc.SetAuthorizer(refusing{})
	}
	// the nested fetches of two subscribers are identical: without this the second one waits for the first (single flight, C11's subject)
	rc.ExecutionOptions.DisableSubgraphRequestDeduplication = true
	rc.Variables = astjson.MustParseBytes([]byte(filterVariables))
	if kv == "hdr" {
		rc.SubgraphHeadersBuilder = hdrBuilder{uint64(c.Key)}
	}
	if kv == "payload" {
		rc.InitialPayload = initialPayload(c.Key)
	}
	return rc
}

func newResolver(ctx context.Context, rep *reporter, ew resolve.AsyncErrorWriter) *resolve.Resolver {
	return resolve.New(ctx, resolve.ResolverOptions{
		MaxConcurrency:                16,
		Reporter:                      rep,
		AsyncErrorWriter:              ew,
		SubscriptionHeartbeatInterval: 24 * time.Hour,
		MaxSubscriptionFetchTimeout:   time.Hour,
	})
}

// ---------------------------------------------------------------------------------------------- solo oracle

type soloKey struct {
	slot, key, e int
	fetch        bool
}

var soloCache = map[soloKey][]byte{}
var soloMu sync.Mutex

// soloBytes: what subscriber `slot` receives for event (key,e) when it is the only subscriber of a fresh resolver.
func soloBytes(slot, key, e int, fetch bool) []byte {
	soloMu.Lock()
	defer soloMu.Unlock()
	k := soloKey{slot, key, e, fetch}
	if b, ok := soloCache[k]; ok {
		return b
	}
	// the solo resolver runs with its own hook: only used to learn when its shutdown goroutine is through
	saved := resolve.VerifHook
	shutdownEnd := make(chan struct{})
	var once sync.Once
	resolve.VerifHook = func(point string, a, b uint64) {
		if point == "shutdown.end" {
			once.Do(func() { close(shutdownEnd) })
		}
	}
	defer func() { resolve.VerifHook = saved }()
	ctl := gate.New()
	ctl.FreeRun()
	r := &run{ctl: ctl, inst: map[int]*instance{}, sched: Schedule{Start: []string{"ok", "ok", "ok", "ok"}}}
	r.solo = func(int, int, int, bool) []byte { return nil }
	rctx, cancel := context.WithCancel(context.Background())
	defer func() {
		cancel()
		select {
		case <-shutdownEnd:
		case <-time.After(5 * time.Second):
		}
	}()
	res := newResolver(rctx, &reporter{}, errWriter{r})
	w := &soloWriter{}
	c := SubCfg{Key: key, Filt: "all", Conn: 1, Fetch: fetch}
	err := res.AsyncResolveGraphQLSubscription(newCtx(context.Background(), slot, c, "input"), plan(source{r}, ctl, slot, c, "input", "num-static"), w,
		resolve.SubscriptionIdentifier{ConnectionID: 1, SubscriptionID: int64(slot)})
	if err != nil {
		panic(err)
	}
	deadline := time.Now().Add(5 * time.Second)
	for {
		r.mu.Lock()
		in := r.inst[slot]
		r.mu.Unlock()
		if in != nil {
			in.updater.Update(payload(key, e))
			in.updater.Done()
			break
		}
		if time.Now().After(deadline) {
			panic("solo: Start never called")
		}
		time.Sleep(50 * time.Microsecond)
	}
	soloCache[k] = w.msg
	return w.msg
}

type soloWriter struct{ buf, msg []byte }

func (w *soloWriter) Write(p []byte) (int, error) { w.buf = append(w.buf, p...); return len(p), nil }
func (w *soloWriter) Flush() error                { w.msg, w.buf = w.buf, nil; return nil }
func (w *soloWriter) Complete()                   {}
func (w *soloWriter) Heartbeat() error            { return nil }
func (w *soloWriter) Error([]byte)                {}

// ---------------------------------------------------------------------------------------------- one schedule

var parkPoints = map[string]bool{
	"sub.close.begin": true, "sub.complete.checked": true, "sub.error.checked": true, "sub.hb.begin": true,
	"sub.werr.begin": true, "sub.update.begin": true, "ds.load": true, "h.hook": true, "w.werr.enter": true, "trig.start.begin": true, "trig.init.found": true,
	"trig.done.begin": true, "shutdown.begin": true, "w.flush.enter": true,
}

func minePoint(point string) bool {
	return strings.HasPrefix(point, "sub.") || strings.HasPrefix(point, "trig.") || strings.HasPrefix(point, "shutdown.") || strings.HasPrefix(point, "upd.")
}

func actorName(id gate.ID) string { return fmt.Sprintf("%s:%d:%d", id.K, id.I, id.J) }

func runSchedule(s Schedule, evw *bufio.Writer) (res Result) {
	n := len(s.Subs)
	res = Result{ID: s.ID, Starts: make([]int, n)}
	if s.KV == "" {
		s.KV = "input"
	}
	ctl := gate.New()
	r := &run{ctl: ctl, sched: s, inst: map[int]*instance{}, solo: soloBytes}
	keyOf := map[uint64]int{}
	for i, c := range s.Subs {
		_ = i
		keyOf[triggerID(s.KV, c.Key)] = c.Key
	}
	ctl.Identify = func(point string, a, b uint64) (gate.ID, bool) {
		switch point {
		case "sub.update.begin":
			return gate.ID{K: "u", I: int(a), J: int(b) - padBase}, true
		case "trig.start.begin":
			return gate.ID{K: "g", I: int(b)}, true
		case "shutdown.begin":
			return gate.ID{K: "sh"}, true
		case "h.hook": // start-up hook of a subscriber that joined an existing trigger (goroutine of its own)
			return gate.ID{K: "h", I: int(a)}, true
		}
		return gate.ID{}, false
	}
	ctl.Terminal = func(id gate.ID, point string) bool {
		return (id.K == "u" && point == "sub.update.end") || (id.K == "g" && point == "trig.start.end") || (id.K == "sh" && point == "shutdown.end")
	}
	noPark := map[string]bool{}
	for _, p := range s.NoPark {
		noPark[p] = true
	}
	// UpdateSubscription runs executeSubscriptionUpdate inline on the source's goroutine: to the specification it is the update actor u(s,e)
	ctl.Alias = func(cur gate.ID, point string, a, b uint64) (gate.ID, bool) {
		if (cur.K == "s" || cur.K == "d") && point == "sub.update.begin" {
			return gate.ID{K: "u", I: int(a), J: int(b) - padBase}, true
		}
		return gate.ID{}, false
	}
	ctl.Parks = func(id gate.ID, point string) bool {
		if noPark[point] {
			return false
		}
		if point == "sub.unsub.begin" {
			return id.K != "c"
		}
		return parkPoints[point]
	}
	nupd := 0
	for _, st := range s.Steps {
		if st.Ch == "update" {
			nupd++
		}
	}
	for i, c := range s.Subs {
		for e := 1; e <= nupd; e++ {
			soloBytes(i+1, c.Key, e, c.Fetch)
		}
	}
	// resolve.VerifHook is shared by all checks: only the points of the subscription machinery are ours,
	// every other point (sfi.* sfs.* ld.* ...) is neither recorded nor parked
	resolve.VerifHook = func(point string, a, b uint64) {
		if minePoint(point) {
			if s.Sync && a == 0 && strings.HasPrefix(point, "sub.") {
				a = 1 // the synchronous call registers with SubscriptionID 0: it is subscriber slot 1
			}
			if s.Sync && b == 0 && strings.HasPrefix(point, "trig.start.") {
				b = 1
			}
			ctl.Hook(point, a, b)
		}
	}
	defer func() { resolve.VerifHook = nil }()

	rep := &reporter{}
	rctx, rcancel := context.WithCancel(context.Background())
	defer rcancel()
	resolver := newResolver(rctx, rep, errWriter{r})
	var src resolve.SubscriptionDataSource = source{r}
	if s.Hooks {
		src = hookSource{source{r}}
	}
	writers := make([]*writer, n)
	for i, c := range s.Subs {
		writers[i] = &writer{r: r, slot: i + 1, key: c.Key, fetch: c.Fetch}
	}

	// harness actors: clients and sources wait for commands
	mail := map[gate.ID]chan string{}
	guard := func(id gate.ID, fn func()) func() {
		return func() {
			defer func() {
				if p := recover(); p != nil {
					r.panicMsg.Store(fmt.Sprintf("%s: %v", actorName(id), p))
					ctl.Log("h.panic", 0, 0, nil)
				}
			}()
			fn()
		}
	}
	for i := range s.Subs {
		slot := i + 1
		c := s.Subs[i]
		id := gate.ID{K: "c", I: slot}
		ch := make(chan string, 1)
		mail[id] = ch
		sid := resolve.SubscriptionIdentifier{ConnectionID: resolve.ConnectionID(connBase + c.Conn), SubscriptionID: int64(slot)}
		isSync := s.Sync && slot == 1
		cctx, ccancel := context.WithCancel(context.Background())
		defer ccancel()
		var called atomic.Bool // the synchronous call was issued
		if isSync {
			// the client of the synchronous subscription going away (also before the call: a request that is already dead)
			xid := gate.ID{K: "x", I: slot}
			xch := make(chan string, 1)
			mail[xid] = xch
			ctl.Go(xid, guard(xid, func() {
				for {
					if <-xch != "cancel" {
						return
					}
					busy := false
					for _, l := range ctl.Live() {
						busy = busy || (l.K == "u" && l.I == slot)
					}
					if busy || (ctl.Where(id) == "idle" && called.Load()) || ctl.Where(id) == "done" {
						ctl.Idle() // not while an update of that subscriber is in flight / the call is not in progress
						continue
					}
					ctl.Log("h.cmd", 12, uint64(slot), nil)
					ccancel()
					return
				}
			}))
		}
		ctl.Go(id, guard(id, func() {
			for {
				switch <-ch {
				case "sub":
					ctl.Log("h.cmd", 1, uint64(slot), nil)
					var err error
					if isSync {
						called.Store(true)
						err = resolver.ResolveGraphQLSubscription(newCtx(cctx, slot, c, s.KV), plan(src, ctl, slot, c, s.KV, s.FK), writers[slot-1])
						e := uint64(0)
						if err != nil {
							e = 1
						}
						ctl.Log("h.ret", uint64(slot), e, nil)
						return
					}
					err = resolver.AsyncResolveGraphQLSubscription(newCtx(context.Background(), slot, c, s.KV), plan(src, ctl, slot, c, s.KV, s.FK), writers[slot-1], sid)
					e := uint64(0)
					if err != nil {
						e = 1
					}
					ctl.Log("h.ret", uint64(slot), e, nil)
				case "unsub":
					ctl.Log("h.cmd", 2, uint64(slot), nil)
					_ = resolver.UnsubscribeSubscription(sid)
					ctl.Log("h.ret", uint64(slot), 0, nil)
				case "rmclient":
					ctl.Log("h.cmd", 3, uint64(c.Conn), nil)
					_ = resolver.UnsubscribeClient(resolve.ConnectionID(connBase + c.Conn))
					ctl.Log("h.ret", uint64(slot), 0, nil)
				default:
					return
				}
				ctl.Idle()
			}
		}))
		for _, kind := range []string{"s", "d"} {
			kind := kind
			sidA := gate.ID{K: kind, I: slot}
			sch := make(chan string, 1)
			mail[sidA] = sch
			key := c.Key
			ctl.Go(sidA, guard(sidA, func() {
				for {
					cmd := <-sch
					r.mu.Lock()
					in := r.inst[slot]
					r.mu.Unlock()
					if cmd == "exit" || cmd == "" {
						return
					}
					if in == nil { // no updater yet (Start was not called): nothing the source could do
						ctl.Idle()
						continue
					}
					u := in.updater
					switch cmd {
					case "update":
						r.mu.Lock()
						r.nev++
						e := r.nev
						r.mu.Unlock()
						ctl.Log("h.cmd", 4, uint64(slot), map[string]any{"z": uint64(e)})
						u.Update(payload(key, e))
					case "complete":
						ctl.Log("h.cmd", 5, uint64(slot), nil)
						u.Complete()
					case "error":
						ctl.Log("h.cmd", 6, uint64(slot), nil)
						u.Error([]byte(`{"errors":[{"message":"upstream error"}]}`))
					case "hb":
						ctl.Log("h.cmd", 7, uint64(slot), nil)
						if h, ok := u.(interface{ Heartbeat() }); ok {
							h.Heartbeat()
						}
					case "done":
						ctl.Log("h.cmd", 8, uint64(slot), nil)
						u.Done()
					case "us1", "us2", "us3":
						t := int(cmd[2] - '0')
						if t < 1 || t > len(s.Subs) {
							return
						}
						r.mu.Lock()
						r.nev++
						e := r.nev
						r.mu.Unlock()
						ctl.Log("h.cmd", 11, uint64(slot), map[string]any{"z": uint64(e*10 + t)})
						u.UpdateSubscription(resolve.SubscriptionIdentifier{ConnectionID: resolve.ConnectionID(connBase + s.Subs[t-1].Conn), SubscriptionID: int64(t)}, payload(key, e))
					case "cs1", "cs2", "cs3":
						t := int(cmd[2] - '0')
						if t < 1 || t > len(s.Subs) {
							return
						}
						target := resolve.SubscriptionIdentifier{ConnectionID: resolve.ConnectionID(connBase + s.Subs[t-1].Conn), SubscriptionID: int64(t)}
						mine := false
						for _, id := range u.Subscriptions() {
							mine = mine || id == target
						}
						if !mine {
							// a source closes subscriptions its updater reports; if the code took another (equally legal) turn than
							// the model predicted and the subscriber is not on this trigger, the command is not issued
							ctl.Idle()
							continue
						}
						ctl.Log("h.cmd", 10, uint64(slot), map[string]any{"z": uint64(t)})
						u.CloseSubscription(target)
					default:
						return
					}
					ctl.Idle()
				}
			}))
		}
	}

	emit := func(m map[string]any) {
		b, _ := json.Marshal(m)
		evw.Write(b)
		evw.WriteByte('\n')
	}
	keys := make([]int, n)
	filt := make([]string, n)
	conn := make([]int, n)
	start := make([]string, n)
	fetch := make([]bool, n)
	rerr := make([]bool, n)
	hookfail := make([]bool, n)
	for i, c := range s.Subs {
		keys[i], filt[i], conn[i], fetch[i], rerr[i], hookfail[i] = c.Key, c.Filt, c.Conn, c.Fetch, c.Rerr, c.HookFail
		start[i] = "ok"
		if i < len(s.Start) {
			start[i] = s.Start[i]
		}
	}
	base := map[string]any{"k": "-", "i": 0, "j": 0, "x": 0, "y": 0, "z": 0, "ov": 0, "c": 1}
	mk := func(ev string, over map[string]any) map[string]any {
		m := map[string]any{"ev": ev}
		for k, v := range base {
			m[k] = v
		}
		for k, v := range over {
			m[k] = v
		}
		return m
	}
	// the trace specification is instantiated with padSlots subscriber slots: unused slots are padded (they never act)
	for len(keys) < padSlots {
		keys, filt, conn, start, fetch = append(keys, 1), append(filt, "all"), append(conn, 1), append(start, "ok"), append(fetch, false)
		rerr, hookfail = append(rerr, false), append(hookfail, false)
	}
	emit(mk("reset", map[string]any{"id": s.ID, "n": n, "key": keys, "filt": filt, "conn": conn, "start": start, "fetch": fetch, "rerr": rerr, "hooks": s.Hooks, "hookfail": hookfail, "sync": s.Sync}))
	cursor := 0
	flush := func() {
		evs := ctl.Events()
		for ; cursor < len(evs); cursor++ {
			e := evs[cursor]
			x, y := e.A, e.B
			switch e.Point {
			case "trig.spawn":
				x = uint64(keyOf[e.A])
			case "trig.detach", "trig.fanout", "trig.init", "trig.init.found", "trig.done.begin", "trig.start.begin", "trig.start.end":
				x = uint64(keyOf[e.A])
			case "sub.update.begin", "sub.update.end":
				y = e.B - padBase
			case "ds.load":
				x, y = uint64(e.Actor.I), uint64(e.Actor.J)
			case "upd.leave":
				x, y = uint64(keyOf[e.A]), 0
			case "trig.cancel":
				x, y = 0, 0
			}
			m := mk(e.Point, map[string]any{"k": e.Actor.K, "i": e.Actor.I, "j": e.Actor.J, "x": x, "y": y})
			for k, v := range e.F {
				m[k] = v
			}
			emit(m)
		}
	}

	// goroutines spawned by the code (start goroutine, update goroutines, shutdown) are unknown to the
	// controller until their first hook: wait for every spawn announced by the events of the last step
	spawnCursor := 0
	awaitSpawns := func() {
		deadline := time.Now().Add(2 * time.Second)
		for {
			evs := ctl.Events()
			missing := false
			for k := spawnCursor; k < len(evs) && !missing; k++ {
				e := evs[k]
				want, point := 0, ""
				switch {
				case e.Point == "sub.add" && e.B == 0 && s.Hooks:
					want, point = 1, "h.hook"
				case e.Point == "sub.add" && e.B == 1:
					want, point = 1, "trig.start.begin"
				case e.Point == "trig.spawn":
					// the update goroutines are spawned after this point: as many as the preceding trig.fanout of this actor said
					for m := k - 1; m >= 0; m-- {
						if evs[m].Actor == e.Actor && evs[m].Point == "trig.fanout" {
							want, point = int(evs[m].B), "sub.update.begin"
							break
						}
					}
				case e.Point == "h.cmd" && e.A == 9:
					want, point = 1, "shutdown.begin"
				}
				for m := k + 1; m < len(evs) && want > 0; m++ {
					if evs[m].Point == point && (point != "trig.start.begin" || evs[m].B == e.A) && (point != "h.hook" || evs[m].A == e.A) {
						want--
					}
				}
				if want > 0 {
					missing = true
				}
			}
			if !missing {
				spawnCursor = len(evs)
				return
			}
			if time.Now().After(deadline) {
				spawnCursor = len(evs)
				return
			}
			time.Sleep(20 * time.Microsecond)
		}
	}
	shutdownDone := false
	doShutdown := func(final uint64) {
		ctl.LogAs(gate.ID{K: "env"}, "h.cmd", 9, final, nil)
		shutdownDone = true
		rcancel()
		awaitSpawns()
		ctl.Settle()
	}
	stepActor := func(id gate.ID, ch string) gate.Outcome {
		if m, ok := mail[id]; ok {
			if ctl.Where(id) == "idle" {
				select {
				case m <- ch:
				default:
				}
			}
		}
		switch ctl.Where(id) {
		case "w.flush.enter":
			if id.K == "u" && id.I >= 1 && id.I <= n && ch == "err" {
				writers[id.I-1].failNext.Store(true)
			}
		case "sub.hb.begin":
			if ch == "err" {
				// the subscriber whose heartbeat is about to be sent is the hook argument of the park event
				evs := ctl.Events()
				for k := len(evs) - 1; k >= 0; k-- {
					if evs[k].Actor == id && evs[k].Point == "sub.hb.begin" {
						if sl := int(evs[k].A); sl >= 1 && sl <= n {
							writers[sl-1].hbFail.Store(true)
						}
						break
					}
				}
			}
		}
		o, _ := ctl.Step(id)
		awaitSpawns()
		if !ctl.Settle() || o == gate.Timeout {
			res.Timeouts++
		}
		return o
	}

	// sequential drain: finish whatever is in flight, one actor at a time, lowest actor first
	drain := func() bool {
		for iter := 0; iter < 400; iter++ {
			ctl.Settle()
			ps := ctl.ParkedActors(false)
			if len(ps) == 0 {
				return true // nothing left to release: whoever is still there waits for something (a synchronous caller for its completion)
			}
			stepActor(ps[0], "ok")
			flush()
		}
		return false
	}
	for idx, st := range s.Steps {
		if st.K == "env" {
			if !shutdownDone {
				f := uint64(0)
				if st.Ch == "final" {
					// the last command of the environment: only when everything else is at rest. If the code took
					// another (equally legal) turn than the model predicted, finish what is in flight first.
					f = 1
					drain()
				}
				doShutdown(f)
			} else {
				res.Unrealised++
				res.UnrealAt = append(res.UnrealAt, idx)
			}
			flush()
			continue
		}
		o := stepActor(gate.ID{K: st.K, I: st.I, J: st.J}, st.Ch)
		if o == gate.NotReady || o == gate.Timeout {
			res.Unrealised++
			res.UnrealAt = append(res.UnrealAt, idx)
		}
		flush()
	}
	clean := drain()
	if clean && !shutdownDone {
		doShutdown(1)
		flush()
		clean = drain()
	}
	// harness actors leave
	for _, id := range ctl.ParkedActors(true) {
		if m, ok := mail[id]; ok && ctl.Where(id) == "idle" {
			select {
			case m <- "exit":
			default:
			}
			ctl.Step(id)
		}
	}
	if os.Getenv("SUBS_DEBUG") != "" {
		fmt.Fprintln(os.Stderr, "clean", clean, "live", ctl.Live())
	}
	if !clean || len(ctl.Live()) > 0 {
		// could not be finished step by step: open the gates; whoever is still there afterwards is wedged
		res.FreeRun = true
		if !shutdownDone {
			doShutdown(1)
		}
		ctl.FreeRun()
		for id, m := range mail {
			_ = id
			select {
			case m <- "exit":
			default:
			}
		}
	}
	for _, id := range ctl.WaitAllDone(20 * time.Second) {
		res.Wedged = append(res.Wedged, actorName(id))
	}
	flush()
	if p := r.panicMsg.Load(); p != nil {
		res.Panic = p.(string)
	}
	t, sb, cn := resolver.VerifRegistrySizes()
	res.Registry = [3]int{t, sb, cn}
	res.Counts = [4]int{int(rep.subInc.Load()), int(rep.subDec.Load()), int(rep.trigInc.Load()), int(rep.trigDec.Load())}
	res.Updates = int(rep.updates.Load())
	r.mu.Lock()
	for slot := 1; slot <= n; slot++ {
		if in := r.inst[slot]; in != nil {
			res.Starts[slot-1] = in.calls
			if in.ctx.Err() == nil {
				res.Uncancelled = append(res.Uncancelled, slot)
			}
		}
	}
	r.mu.Unlock()
	res.Overlaps = int(r.overlaps.Load())
	res.Events = cursor
	fr := 0
	if res.FreeRun {
		fr = 1
	}
	emit(mk("end", map[string]any{"trig": t, "subs": sb, "conns": cn, "sinc": res.Counts[0], "sdec": res.Counts[1],
		"tinc": res.Counts[2], "tdec": res.Counts[3], "uncancelled": len(res.Uncancelled), "wedged": len(res.Wedged), "free": fr,
		"panic": map[bool]int{false: 0, true: 1}[res.Panic != ""]}))
	return res
}

func main() {
	in := flag.String("in", "", "schedules NDJSON")
	out := flag.String("out", "events.ndjson", "event stream for TLC")
	resf := flag.String("res", "results.ndjson", "per-schedule results")
	skip := flag.Int("skip", 0, "skip the first n schedules (used after a crash of the process)")
	flag.Parse()
	f, err := os.Open(*in)
	if err != nil {
		fmt.Fprintln(os.Stderr, err)
		os.Exit(3)
	}
	defer f.Close()
	mode := os.O_CREATE | os.O_WRONLY | os.O_APPEND
	of, _ := os.OpenFile(*out, mode, 0o644)
	defer of.Close()
	evw := bufio.NewWriterSize(of, 1<<20)
	rf, _ := os.OpenFile(*resf, mode, 0o644)
	defer rf.Close()
	rw := bufio.NewWriter(rf)
	sc := bufio.NewScanner(f)
	sc.Buffer(make([]byte, 1<<20), 1<<26)
	n := 0
	for sc.Scan() {
		line := bytes.TrimSpace(sc.Bytes())
		if len(line) == 0 {
			continue
		}
		n++
		if n <= *skip {
			continue
		}
		var s Schedule
		if err := json.Unmarshal(line, &s); err != nil {
			fmt.Fprintln(os.Stderr, "bad schedule:", err)
			os.Exit(3)
		}
		// progress marker: if the process dies inside the code under test (panic in a resolver goroutine),
		// the driver knows which schedule did it
		fmt.Fprintf(os.Stderr, "RUN %d %s\n", n, s.ID)
		var tmp bytes.Buffer
		tw := bufio.NewWriter(&tmp)
		r := runSchedule(s, tw)
		tw.Flush()
		evw.Write(tmp.Bytes())
		evw.Flush()
		b, _ := json.Marshal(r)
		rw.Write(b)
		rw.WriteByte('\n')
		rw.Flush()
	}
}
