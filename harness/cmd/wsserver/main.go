// Command wsserver replays TLC-generated client/engine schedules (spec/conc/Gen_WSServer.tla) into the real
// WebSocket subscription server of graphql-go-tools and records the interleaved log of client inputs,
// server outputs (messages, close frames with their codes) and engine events for TLC trace validation
// (spec/conc/Trace_WSServer.tla).
//
// Code under test: execution/subscription/websocket.HandleWithOptions -> subscription.UniversalProtocolHandler
// -> ProtocolGraphQLTransportWSHandler | ProtocolGraphQLWSHandler -> subscription.ExecutorEngine (all real).
// Environment (harness side, no source hooks):
//
//	mode "tc":   a scripted subscription.TransportClient (reads are handed out one by one, writes are recorded)
//	mode "conn": the real websocket.Client + real gobwas/ws frame codec over a scripted net.Conn
//	             (client frames are encoded with wsutil.WriteClientMessage, server frames decoded with ws.ReadFrame)
//	a harness ExecutorPool whose executors park inside Execute and emit scripted results on command.
//
// Everything is sequential: the driver performs one environment action (deliver a client message, deliver an
// engine event, wait for the init timeout) and waits for the observable completion marker of that action (the
// handler asks for the next message / the executor is back at its gate / the executor was returned to the pool),
// so the recorded total order is exact.
//
// Input  (-in):  NDJSON {"id":"..","proto":"tws|gws","mode":"tc|conn","steps":[{"t":"in","sym":"init","v":0,"k":1},
//
//	{"t":"eng","id":"1","k":2,"what":"data|fin|error|result"},{"t":"timeout"}]}
//
// Output (-out): NDJSON events with uniform fields {"ev","a","id","k","n","code"}; (-res) one result line per case.
package main

import (
	"bufio"
	"bytes"
	"context"
	"encoding/json"
	"errors"
	"flag"
	"fmt"
	"io"
	"net"
	"os"
	"strings"
	"sync"
	"time"

	"github.com/gobwas/ws"
	"github.com/gobwas/ws/wsutil"
	"github.com/jensneuse/abstractlogger"

	"github.com/wundergraph/graphql-go-tools/execution/engine"
	"github.com/wundergraph/graphql-go-tools/execution/graphql"
	"github.com/wundergraph/graphql-go-tools/execution/subscription"
	"github.com/wundergraph/graphql-go-tools/execution/subscription/websocket"
	"github.com/wundergraph/graphql-go-tools/v2/pkg/ast"
	"github.com/wundergraph/graphql-go-tools/v2/pkg/engine/datasource/staticdatasource"
	"github.com/wundergraph/graphql-go-tools/v2/pkg/engine/plan"
	"github.com/wundergraph/graphql-go-tools/v2/pkg/engine/resolve"
)

type Step struct {
	T    string `json:"t"`    // in | eng | timeout
	Sym  string `json:"sym"`  // client symbol
	V    int    `json:"v"`    // variant of the symbol's wire form
	ID   string `json:"id"`   // eng: operation id
	K    int    `json:"k"`    // in: index of the message (incarnation of the operation a subscribe creates); eng: incarnation
	What string `json:"what"` // eng: data | fin | error | result
	Frag int    `json:"frag"` // conn mode: send the message as 2 or 3 fragments (+10: a WebSocket ping control frame between them)
	Hold int    `json:"hold"` // eng: 1 = the transport takes the terminal message of this event but does not return from the write call until "release"
}

type Case struct {
	ID    string `json:"id"`
	Proto string `json:"proto"`
	Mode  string `json:"mode"`
	Steps []Step `json:"steps"`
}

type Event struct {
	Ev   string `json:"ev"`
	A    string `json:"a"`
	ID   string `json:"id"`
	K    int    `json:"k"`
	N    int    `json:"n"`
	Code int    `json:"code"`
}

type Result struct {
	ID         string   `json:"id"`
	Unrealised []string `json:"unrealised"` // steps that could not be performed (connection already closed, executor absent)
	Wedged     []string `json:"wedged"`     // completion markers that never arrived
	Panic      string   `json:"panic"`
	Dropped    int      `json:"dropped"`   // writes refused because the transport was already closed
	Leaked     int      `json:"leaked"`    // operation goroutines still inside the engine after the connection ended
	NotCancel  int      `json:"notcancel"` // executors whose context was not cancelled when the connection ended
	Events     int      `json:"events"`
	Wire       []string `json:"wire"` // raw server messages (for replay files / samples)
}

var (
	stepWait = 5 * time.Second
)

// ---------------------------------------------------------------------------------------------- the per-case world

type world struct {
	mu      sync.Mutex
	cond    *sync.Cond
	proto   string
	events  []Event
	wire    []string
	dropped int

	// connection state as seen by the scripted transport
	closed     bool // no more reads/writes (server closed, or peer closed)
	srvClosed  bool
	atRead     bool // the handler sits in ReadBytesFromClient / conn.Read with nothing to read
	inbox      [][]byte
	inboxEv    []Event
	exited     bool
	panicMsg   string
	execs      map[string]*executor // key id|k
	allExecs   []*executor
	drained    bool
	rdCount    int
	closeCount int

	// transport faults: a single scripted read error is an inbox entry with a nil message; "broken" makes every read fail
	broken     bool
	brokenIter int
	quietConnErr int // connection_error messages not logged (beyond the logged iterations of a broken transport)

	// slow InitFunc: the handler sits in the InitFunc until the schedule lets it return
	inInit   bool
	initGo   bool
	kaCount  int // keep-alive (`ka`) / heartbeat (`pong` with the heartbeat payload) messages seen so far

	// mode "v2": data messages of the real executor carry no harness marker; the wrapper executor announces
	// (incarnation, number) of the data message the engine is about to write for an id
	v2     bool
	stamps map[string][][2]int

	// write-hold: the next terminal message (error/complete) for holdID is recorded, then the write call blocks
	holdArmed bool
	holdID    string
	held      bool
}

func newWorld(proto string) *world {
	w := &world{proto: proto, execs: map[string]*executor{}}
	w.cond = sync.NewCond(&w.mu)
	return w
}

// log appends an event; caller holds w.mu.
func (w *world) log(e Event) {
	w.events = append(w.events, e)
	w.cond.Broadcast()
}

// waitFor blocks until cond() holds (evaluated under w.mu) or the timeout expires.
func (w *world) waitFor(timeout time.Duration, cond func() bool) bool {
	deadline := time.Now().Add(timeout)
	t := time.AfterFunc(timeout+time.Millisecond, func() {
		w.mu.Lock()
		w.cond.Broadcast()
		w.mu.Unlock()
	})
	defer t.Stop()
	w.mu.Lock()
	defer w.mu.Unlock()
	for !cond() {
		if time.Now().After(deadline) {
			return false
		}
		w.cond.Wait()
	}
	return true
}

// ---------------------------------------------------------------------------------------------- server output decoding

type wireMsg struct {
	ID      *string         `json:"id"`
	Type    string          `json:"type"`
	Payload json.RawMessage `json:"payload"`
}

// outEvent turns a message written by the server into a log event. caller holds w.mu.
func (w *world) outEvent(b []byte) Event {
	if len(w.wire) < 200 {
		w.wire = append(w.wire, string(b))
	}
	var m wireMsg
	if err := json.Unmarshal(b, &m); err != nil {
		return Event{Ev: "out", A: "unparsable"}
	}
	e := Event{Ev: "out", A: m.Type}
	if m.ID != nil {
		e.ID = *m.ID
		if e.ID == "" {
			e.ID = "<empty>"
		}
	}
	if m.Type == "" {
		e.A = "notype"
	}
	switch m.Type {
	case "next", "data":
		var p struct {
			Data struct {
				K int `json:"k"`
				N int `json:"n"`
			} `json:"data"`
		}
		if json.Unmarshal(m.Payload, &p) == nil {
			e.K, e.N = p.Data.K, p.Data.N
		}
		if w.v2 {
			if st := w.stamps[e.ID]; len(st) > 0 {
				e.K, e.N = st[0][0], st[0][1]
				w.stamps[e.ID] = st[1:]
			}
		}
	case "pong":
		if string(m.Payload) == websocket.GraphQLTransportWSHeartbeatPayload {
			e.Code = 1
			w.kaCount++
		}
	case "ka":
		w.kaCount++
	}
	return e
}

func closeCodeOf(reason any) int {
	switch r := reason.(type) {
	case websocket.CloseReason:
		code, _ := ws.ParseCloseFrameData(ws.Frame(r).Payload)
		return int(code)
	case websocket.CompiledCloseReason:
		f, err := ws.ReadFrame(bytes.NewReader(r))
		if err != nil {
			return -1
		}
		code, _ := ws.ParseCloseFrameData(f.Payload)
		return int(code)
	}
	return -2
}

// ---------------------------------------------------------------------------------------------- transport faults

var errTransport = errors.New("verif: frame error: reserved bits set")

const brokenLogged = 6 // iterations of a broken transport that are logged in full

// brokenRead is one failing read of a transport that is broken for good (caller holds w.mu). The reads are paced
// (2ms) so that the number of iterations within the server's read-error time-out is bounded.
func (w *world) brokenRead() error {
	w.brokenIter++
	if w.brokenIter <= brokenLogged {
		w.rdCount++
		w.log(Event{Ev: "rd"})
		w.log(Event{Ev: "in", A: "readerr"})
	}
	w.mu.Unlock()
	time.Sleep(2 * time.Millisecond)
	w.mu.Lock()
	return errTransport
}

// ---------------------------------------------------------------------------------------------- mode "tc": scripted TransportClient

type tcClient struct{ w *world }

func (c *tcClient) ReadBytesFromClient() ([]byte, error) {
	w := c.w
	w.mu.Lock()
	defer w.mu.Unlock()
	if w.closed {
		return nil, subscription.ErrTransportClientClosedConnection
	}
	if w.broken {
		return nil, w.brokenRead()
	}
	w.atRead = true
	w.rdCount++
	w.log(Event{Ev: "rd"})
	for len(w.inbox) == 0 && !w.closed && !w.broken {
		w.cond.Wait()
	}
	w.atRead = false
	if len(w.inbox) == 0 {
		if w.broken && !w.closed {
			w.brokenIter++
			w.log(Event{Ev: "in", A: "readerr"})
			return nil, errTransport
		}
		return nil, subscription.ErrTransportClientClosedConnection
	}
	msg := w.inbox[0]
	w.inbox = w.inbox[1:]
	ev := w.inboxEv[0]
	w.log(ev)
	w.inboxEv = w.inboxEv[1:]
	if ev.A == "readerr" {
		return nil, errTransport
	}
	return msg, nil
}

func (c *tcClient) WriteBytesToClient(b []byte) error {
	w := c.w
	w.mu.Lock()
	defer w.mu.Unlock()
	if w.closed {
		w.dropped++
		return subscription.ErrTransportClientClosedConnection
	}
	e := w.outEvent(b)
	if w.broken && w.brokenIter > brokenLogged && e.A == "connection_error" {
		w.quietConnErr++
		return nil
	}
	w.log(e)
	if w.holdArmed && (e.A == "complete" || e.A == "error") && e.ID == w.holdID {
		// the message is on the wire (the client can react to it), the writer just has not got the call back yet
		w.holdArmed = false
		w.held = true
		w.log(Event{Ev: "hold", ID: e.ID})
		for w.held && !w.drained {
			w.cond.Wait()
		}
		w.log(Event{Ev: "unhold", ID: e.ID})
	}
	return nil
}

func (c *tcClient) IsConnected() bool {
	c.w.mu.Lock()
	defer c.w.mu.Unlock()
	return !c.w.closed
}

func (c *tcClient) Disconnect() error {
	w := c.w
	w.mu.Lock()
	defer w.mu.Unlock()
	if w.closed {
		return nil
	}
	w.closed, w.srvClosed = true, true
	w.closeCount++
	w.log(Event{Ev: "close", Code: 0})
	return nil
}

func (c *tcClient) DisconnectWithReason(reason any) error {
	w := c.w
	w.mu.Lock()
	defer w.mu.Unlock()
	if w.closed {
		return io.ErrClosedPipe // like the real client: the close frame cannot be written any more
	}
	w.closed, w.srvClosed = true, true
	w.closeCount++
	w.log(Event{Ev: "close", Code: closeCodeOf(reason)})
	return nil
}

// ---------------------------------------------------------------------------------------------- mode "conn": scripted net.Conn under the real websocket.Client

type fakeConn struct {
	w     *world
	rbuf  []byte // bytes of client frames not yet consumed by the server
	wbuf  []byte // bytes written by the server, not yet a complete frame
	local bool   // closed by the server side
}

type fakeAddr struct{}

func (fakeAddr) Network() string { return "verif" }
func (fakeAddr) String() string  { return "verif" }

func (c *fakeConn) Read(p []byte) (int, error) {
	w := c.w
	w.mu.Lock()
	defer w.mu.Unlock()
	if len(c.rbuf) == 0 {
		if c.local {
			return 0, io.ErrClosedPipe
		}
		if w.closed {
			return 0, io.EOF
		}
		if w.broken {
			return 0, w.brokenRead()
		}
		// message boundary: the server waits for the next client frame
		w.atRead = true
		w.rdCount++
		w.log(Event{Ev: "rd"})
		for len(w.inbox) == 0 && !w.closed && !c.local && !w.broken {
			w.cond.Wait()
		}
		w.atRead = false
		if len(w.inbox) == 0 {
			if c.local {
				return 0, io.ErrClosedPipe
			}
			if w.broken && !w.closed {
				w.brokenIter++
				w.log(Event{Ev: "in", A: "readerr"})
				return 0, errTransport
			}
			return 0, io.EOF
		}
		c.rbuf = w.inbox[0]
		w.inbox = w.inbox[1:]
		ev := w.inboxEv[0]
		w.log(ev)
		w.inboxEv = w.inboxEv[1:]
		if ev.A == "readerr" && len(c.rbuf) == 0 {
			c.rbuf = nil
			return 0, errTransport
		}
	}
	n := copy(p, c.rbuf)
	c.rbuf = c.rbuf[n:]
	return n, nil
}

func (c *fakeConn) Write(p []byte) (int, error) {
	w := c.w
	w.mu.Lock()
	defer w.mu.Unlock()
	if c.local {
		return 0, io.ErrClosedPipe
	}
	if w.closed && !w.srvClosed {
		// peer went away
		w.dropped++
		return 0, io.ErrClosedPipe
	}
	c.wbuf = append(c.wbuf, p...)
	for len(c.wbuf) > 0 {
		r := bytes.NewReader(c.wbuf)
		f, err := ws.ReadFrame(r)
		if err != nil {
			break // incomplete frame: wait for the rest
		}
		c.wbuf = c.wbuf[len(c.wbuf)-r.Len():]
		switch f.Header.OpCode {
		case ws.OpClose:
			code, _ := ws.ParseCloseFrameData(f.Payload)
			if w.srvClosed {
				w.log(Event{Ev: "close", Code: int(code), A: "second-close-frame"})
			} else {
				w.srvClosed = true
				w.closeCount++
				w.log(Event{Ev: "close", Code: int(code)})
			}
		case ws.OpText, ws.OpBinary:
			e := w.outEvent(f.Payload)
			if w.broken && w.brokenIter > brokenLogged && e.A == "connection_error" {
				w.quietConnErr++
				continue
			}
			if w.srvClosed {
				e.Ev = "out" // a data frame after the close frame: recorded, the acceptor rejects it
			}
			w.log(e)
		default:
			w.log(Event{Ev: "out", A: "wsctl"})
		}
	}
	return len(p), nil
}

func (c *fakeConn) Close() error {
	w := c.w
	w.mu.Lock()
	defer w.mu.Unlock()
	if !c.local {
		c.local = true
		if !w.closed {
			w.closed = true
			if !w.srvClosed {
				// TCP close without a close frame
				w.srvClosed = true
				w.closeCount++
				w.log(Event{Ev: "close", Code: 0})
			}
		}
		w.closed = true
		w.cond.Broadcast()
	}
	return nil
}
func (c *fakeConn) LocalAddr() net.Addr              { return fakeAddr{} }
func (c *fakeConn) RemoteAddr() net.Addr             { return fakeAddr{} }
func (c *fakeConn) SetDeadline(time.Time) error      { return nil }
func (c *fakeConn) SetReadDeadline(time.Time) error  { return nil }
func (c *fakeConn) SetWriteDeadline(time.Time) error { return nil }

// ---------------------------------------------------------------------------------------------- executors

type executor struct {
	w      *world
	id     string
	k      int
	kind   ast.OperationType
	ctx    context.Context
	parked bool
	cmd    string // pending command
	n      int    // number of data messages produced so far
	// pendingDone: an engine event that ends an Execute call was delivered; its completion marker (engdone) is the
	// next arrival in Execute or the return of the executor to the pool
	pendingDone bool
	put         bool
	execCalls   int
	inExecute   bool
}

var errScripted = errors.New("verif: scripted execution failure")

func (e *executor) payload() []byte {
	e.n++
	return []byte(fmt.Sprintf(`{"data":{"k":%d,"n":%d}}`, e.k, e.n))
}

func (e *executor) Execute(writer resolve.SubscriptionResponseWriter) error {
	w := e.w
	w.mu.Lock()
	if e.pendingDone {
		e.pendingDone = false
		w.log(Event{Ev: "engdone", ID: e.id, K: e.k})
	}
	e.execCalls++
	e.inExecute = true
	w.log(Event{Ev: "exec", ID: e.id, K: e.k, A: kindName(e.kind)})
	for {
		e.parked = true
		w.cond.Broadcast()
		for e.cmd == "" && !w.drained {
			w.cond.Wait()
		}
		e.parked = false
		if e.cmd == "" && w.drained {
			e.inExecute = false
			ctx := e.ctx
			w.mu.Unlock()
			// the case is over: never spin in the engine's poll loop
			if ctx != nil {
				select {
				case <-ctx.Done():
				case <-time.After(2 * time.Second):
				}
			}
			return nil
		}
		cmd := e.cmd
		e.cmd = ""
		cancelled := 0
		if e.ctx != nil && e.ctx.Err() != nil {
			cancelled = 1
		}
		switch cmd {
		case "data":
			p := e.payload()
			w.log(Event{Ev: "eng", A: "data", ID: e.id, K: e.k, N: e.n, Code: cancelled})
			w.mu.Unlock()
			_, _ = writer.Write(p)
			_ = writer.Flush()
			w.mu.Lock()
			w.log(Event{Ev: "engdone", ID: e.id, K: e.k})
		case "qflush":
			p := e.payload()
			w.log(Event{Ev: "eng", A: "qflush", ID: e.id, K: e.k, N: e.n, Code: cancelled})
			w.mu.Unlock()
			_, _ = writer.Write(p)
			_ = writer.Flush()
			w.mu.Lock()
			w.log(Event{Ev: "engdone", ID: e.id, K: e.k})
		case "result":
			p := e.payload()
			w.log(Event{Ev: "eng", A: "result", ID: e.id, K: e.k, N: e.n, Code: cancelled})
			e.pendingDone = true
			e.inExecute = false
			w.mu.Unlock()
			_, _ = writer.Write(p)
			return nil
		case "fin":
			w.log(Event{Ev: "eng", A: "fin", ID: e.id, K: e.k, Code: cancelled})
			e.pendingDone = true
			e.inExecute = false
			w.mu.Unlock()
			return nil
		case "error":
			w.log(Event{Ev: "eng", A: "error", ID: e.id, K: e.k, Code: cancelled})
			e.pendingDone = true
			e.inExecute = false
			w.mu.Unlock()
			return errScripted
		default:
			panic("harness: unknown executor command " + cmd)
		}
	}
}

func kindName(t ast.OperationType) string {
	if t == ast.OperationTypeSubscription {
		return "s"
	}
	return "q"
}

func (e *executor) OperationType() ast.OperationType { return e.kind }
func (e *executor) SetContext(ctx context.Context) {
	e.w.mu.Lock()
	e.ctx = ctx
	e.w.mu.Unlock()
}
func (e *executor) Reset() {}

type pool struct{ w *world }

func (p *pool) Get(payload []byte) (subscription.Executor, error) {
	var req struct {
		Query         string `json:"query"`
		OperationName string `json:"operationName"`
		Variables     struct {
			Op string `json:"op"`
			K  int    `json:"k"`
		} `json:"variables"`
	}
	if err := json.Unmarshal(payload, &req); err != nil {
		return nil, err
	}
	if req.Variables.K == 0 {
		return nil, errors.New("verif: payload without harness variables")
	}
	kind := ast.OperationTypeQuery
	if strings.HasPrefix(strings.TrimSpace(req.Query), "subscription") || req.OperationName == "S" {
		kind = ast.OperationTypeSubscription
	}
	w := p.w
	e := &executor{w: w, id: req.Variables.Op, k: req.Variables.K, kind: kind}
	w.mu.Lock()
	w.execs[fmt.Sprintf("%s|%d", e.id, e.k)] = e
	w.allExecs = append(w.allExecs, e)
	w.mu.Unlock()
	return e, nil
}

func (p *pool) Put(x subscription.Executor) error {
	e := x.(*executor)
	w := p.w
	w.mu.Lock()
	if e.pendingDone {
		e.pendingDone = false
		w.log(Event{Ev: "engdone", ID: e.id, K: e.k})
	}
	e.put = true
	w.cond.Broadcast()
	w.mu.Unlock()
	return nil
}

// ---------------------------------------------------------------------------------------------- mode "v2": the real ExecutorV2

var (
	v2Once   sync.Once
	v2Engine *engine.ExecutionEngine
	v2Err    error
)

// a tiny real engine: Query.hello from a static data source; no Subscription type (a subscription document fails
// in every poll round with a validation error - the only subscription behaviour reachable without an upstream)
func realEngine() (*engine.ExecutionEngine, error) {
	v2Once.Do(func() {
		schema, err := graphql.NewSchemaFromString(`type Query { hello: String } type Subscription { tick: String }`)
		if err != nil {
			v2Err = err
			return
		}
		ds, err := plan.NewDataSourceConfiguration[staticdatasource.Configuration](
			"static", &staticdatasource.Factory[staticdatasource.Configuration]{},
			&plan.DataSourceMetadata{RootNodes: []plan.TypeField{{TypeName: "Query", FieldNames: []string{"hello"}}}},
			staticdatasource.Configuration{Data: `{"hello": "world"}`})
		if err != nil {
			v2Err = err
			return
		}
		conf := engine.NewConfiguration(schema)
		conf.SetDataSources([]plan.DataSource{ds})
		v2Engine, v2Err = engine.NewExecutionEngine(context.Background(), abstractlogger.NoopLogger, conf, resolve.ResolverOptions{MaxConcurrency: 16})
	})
	return v2Engine, v2Err
}

// v2exec gates the real executor: the schedule decides WHEN it runs, the real code decides what comes out.
type v2exec struct {
	executor
	real subscription.Executor
}

type stampWriter struct {
	resolve.SubscriptionResponseWriter
	e *v2exec
}

func (sw *stampWriter) Flush() error {
	e, w := sw.e, sw.e.w
	w.mu.Lock()
	e.n++
	w.log(Event{Ev: "eng", A: "data", ID: e.id, K: e.k, N: e.n})
	w.stamps[e.id] = append(w.stamps[e.id], [2]int{e.k, e.n})
	w.mu.Unlock()
	err := sw.SubscriptionResponseWriter.Flush()
	w.mu.Lock()
	w.dropStamps(e.id, e.k)
	w.log(Event{Ev: "engdone", ID: e.id, K: e.k})
	w.mu.Unlock()
	return err
}

type lenner interface{ Len() int }

// dropStamps forgets announcements of data messages of incarnation k that the engine did not write after all
// (e.g. because the operation had been stopped). caller holds w.mu.
func (w *world) dropStamps(id string, k int) {
	if !w.v2 {
		return
	}
	st := w.stamps[id][:0]
	for _, x := range w.stamps[id] {
		if x[0] != k {
			st = append(st, x)
		}
	}
	w.stamps[id] = st
}

func (e *v2exec) Execute(writer resolve.SubscriptionResponseWriter) error {
	w := e.w
	w.mu.Lock()
	if e.pendingDone {
		e.pendingDone = false
		w.dropStamps(e.id, e.k)
		w.log(Event{Ev: "engdone", ID: e.id, K: e.k})
	}
	e.execCalls++
	w.log(Event{Ev: "exec", ID: e.id, K: e.k, A: kindName(e.kind)})
	e.parked = true
	w.cond.Broadcast()
	for e.cmd == "" && !w.drained {
		w.cond.Wait()
	}
	e.parked = false
	if e.cmd == "" && w.drained {
		ctx := e.ctx
		w.mu.Unlock()
		if ctx != nil {
			select {
			case <-ctx.Done():
			case <-time.After(2 * time.Second):
			}
		}
		return nil
	}
	e.cmd = ""
	cancelled := 0
	if e.ctx != nil && e.ctx.Err() != nil {
		cancelled = 1
	}
	w.mu.Unlock()
	err := e.real.Execute(&stampWriter{SubscriptionResponseWriter: writer, e: e})
	w.mu.Lock()
	defer w.mu.Unlock()
	e.pendingDone = true
	switch {
	case err != nil:
		w.log(Event{Ev: "eng", A: "error", ID: e.id, K: e.k, Code: cancelled})
	case e.kind != ast.OperationTypeSubscription:
		e.n++
		w.log(Event{Ev: "eng", A: "result", ID: e.id, K: e.k, N: e.n, Code: cancelled})
		w.stamps[e.id] = append(w.stamps[e.id], [2]int{e.k, e.n})
	default:
		if l, ok := writer.(lenner); ok && l.Len() > 0 {
			// unflushed bytes of a subscription round are sent as one more data message
			e.n++
			w.log(Event{Ev: "eng", A: "data", ID: e.id, K: e.k, N: e.n, Code: cancelled})
			w.stamps[e.id] = append(w.stamps[e.id], [2]int{e.k, e.n})
		} else {
			w.log(Event{Ev: "eng", A: "fin", ID: e.id, K: e.k, Code: cancelled})
		}
	}
	return err
}

func (e *v2exec) OperationType() ast.OperationType { return e.real.OperationType() }
func (e *v2exec) SetContext(ctx context.Context) {
	e.executor.SetContext(ctx)
	e.real.SetContext(ctx)
}
func (e *v2exec) Reset() { e.real.Reset() }

type v2pool struct {
	w    *world
	real *subscription.ExecutorV2Pool
}

func (p *v2pool) Get(payload []byte) (subscription.Executor, error) {
	var req struct {
		Variables struct {
			Op string `json:"op"`
			K  int    `json:"k"`
		} `json:"variables"`
	}
	if err := json.Unmarshal(payload, &req); err != nil {
		return nil, err
	}
	real, err := p.real.Get(payload)
	if err != nil {
		return nil, err
	}
	w := p.w
	e := &v2exec{real: real}
	e.executor = executor{w: w, id: req.Variables.Op, k: req.Variables.K, kind: real.OperationType()}
	w.mu.Lock()
	w.execs[fmt.Sprintf("%s|%d", e.id, e.k)] = &e.executor
	w.allExecs = append(w.allExecs, &e.executor)
	w.mu.Unlock()
	return e, nil
}

func (p *v2pool) Put(x subscription.Executor) error {
	e := x.(*v2exec)
	w := p.w
	w.mu.Lock()
	if e.pendingDone {
		e.pendingDone = false
		w.dropStamps(e.id, e.k)
		w.log(Event{Ev: "engdone", ID: e.id, K: e.k})
	}
	e.put = true
	w.cond.Broadcast()
	w.mu.Unlock()
	return p.real.Put(e.real)
}

// ---------------------------------------------------------------------------------------------- client symbols -> wire form

func wireOf(proto string, s Step) ([]byte, bool) {
	vars := func(id string) string { return fmt.Sprintf(`{"op":%q,"k":%d}`, id, s.K) }
	sub, comp := "subscribe", "complete"
	if proto == "gws" {
		sub, comp = "start", "stop"
	}
	subMsg := func(id string, hasID bool, query string) []byte {
		idf := ""
		if hasID {
			idf = fmt.Sprintf(`"id":%q,`, id)
		}
		return []byte(fmt.Sprintf(`{%s"type":%q,"payload":{"query":%q,"variables":%s}}`, idf, sub, query, vars(id)))
	}
	q := "query Q { hello }"
	if s.V%2 == 1 {
		q = "query Q { nope }" // mode v2: rejected by the real engine's validation
	}
	const sq = "subscription S { tick }"
	switch s.Sym {
	case "init":
		switch s.V % 3 {
		case 1:
			return []byte(`{"type":"connection_init","payload":{}}`), false
		case 2:
			return []byte(`{"type":"connection_init","payload":{"Authorization":"x"}}`), false
		}
		return []byte(`{"type":"connection_init"}`), false
	case "initslow": // the harness InitFunc does not return before the schedule says so
		return []byte(`{"type":"connection_init","payload":{"slow":"yes"}}`), false
	case "terminate":
		return []byte(`{"type":"connection_terminate"}`), false
	case "initrej": // the harness InitFunc refuses this payload: v even -> it returns (nil, err), v odd -> (ctx, err)
		if s.V%2 == 1 {
			return []byte(`{"type":"connection_init","payload":{"reject":"ctx"}}`), false
		}
		return []byte(`{"type":"connection_init","payload":{"reject":"nil"}}`), false
	case "subbad": // subscribe/start for id 1 whose payload cannot be deserialized
		pl := ""
		switch s.V % 8 {
		case 1:
			pl = `,"payload":"query Q { hello }"`
		case 2:
			pl = `,"payload":[1,2]`
		case 3:
			pl = fmt.Sprintf(`,"payload":{"query":{"a":1},"variables":%s}`, vars("1"))
		case 4:
			pl = `,"payload":5`
		case 5:
			pl = fmt.Sprintf(`,"payload":{"query":["query Q { hello }"],"variables":%s}`, vars("1"))
		case 6:
			pl = `,"payload":null`
		case 7:
			pl = `,"payload":{}`
		}
		return []byte(fmt.Sprintf(`{"id":"1","type":%q%s}`, sub, pl)), false
	case "readerr":
		return nil, false
	case "ping":
		if s.V%2 == 1 {
			return []byte(`{"type":"ping","payload":{"x":1}}`), false
		}
		return []byte(`{"type":"ping"}`), false
	case "pong":
		return []byte(`{"type":"pong"}`), false
	case "sub1q":
		return subMsg("1", true, q), false
	case "sub1s":
		return subMsg("1", true, sq), false
	case "sub2q":
		return subMsg("2", true, q), false
	case "sub2s":
		return subMsg("2", true, sq), false
	case "sub1dq", "sub2ds": // one document with two operations, the operation is selected by operationName
		id, name := "1", "Q"
		if s.Sym == "sub2ds" {
			id, name = "2", "S"
		}
		return []byte(fmt.Sprintf(`{"id":%q,"type":%q,"payload":{"query":%q,"operationName":%q,"variables":%s}}`,
			id, sub, "query Q { hello } subscription S { tick }", name, vars(id))), false
	case "subPq": // the liveness probe appended by the driver (graphql-ws)
		return subMsg("P", true, q), false
	case "comp1":
		return []byte(fmt.Sprintf(`{"id":"1","type":%q}`, comp)), false
	case "comp2":
		return []byte(fmt.Sprintf(`{"id":"2","type":%q}`, comp)), false
	case "comp9":
		return []byte(fmt.Sprintf(`{"id":"9","type":%q}`, comp)), false
	case "unknown":
		switch s.V % 3 {
		case 1:
			return []byte(`{"id":"1","type":"subscribed"}`), false
		case 2:
			return []byte(`{"type":"CONNECTION_INIT"}`), false
		}
		return []byte(`{"type":"bogus"}`), false
	case "malformed":
		switch s.V % 6 {
		case 1:
			return []byte(`{"type":5}`), false
		case 2:
			return []byte(`[1,2]`), false
		case 3:
			return []byte(`null`), false
		case 4:
			return []byte(`{"id":"1","type":"subscribe","payload":"x"`), false
		case 5:
			return []byte(`{}`), false
		}
		return []byte(`{"type":"subscribe",`), false
	case "missingid":
		return subMsg("", false, q), false
	case "binary":
		switch s.V % 3 {
		case 1:
			return []byte{0x80, 0x81, 0x00, 0x7b, 0xff}, true
		case 2:
			return bytes.Repeat([]byte{0xde, 0xad, 0xbe, 0xef}, 64), true
		}
		return []byte{0x00, 0xff, 0xfe, 0x01, 0x02}, true
	}
	panic("harness: unknown client symbol " + s.Sym)
}

func clientFrame(msg []byte, binary bool, frag int) []byte {
	var b bytes.Buffer
	op := ws.OpText
	if binary {
		op = ws.OpBinary
	}
	n := frag % 10
	if n < 2 || len(msg) < n {
		if err := wsutil.WriteClientMessage(&b, op, msg); err != nil {
			panic(err)
		}
		return b.Bytes()
	}
	// a fragmented message: first frame carries the opcode, the others are continuations, only the last has FIN
	put := func(f ws.Frame) {
		f = ws.MaskFrameInPlaceWith(f, [4]byte{0x12, 0x34, 0x56, 0x78})
		if err := ws.WriteFrame(&b, f); err != nil {
			panic(err)
		}
	}
	size := (len(msg) + n - 1) / n
	for i := 0; i < n; i++ {
		lo, hi := i*size, (i+1)*size
		if hi > len(msg) {
			hi = len(msg)
		}
		part := append([]byte(nil), msg[lo:hi]...)
		o := ws.OpContinuation
		if i == 0 {
			o = op
		}
		put(ws.NewFrame(o, i == n-1, part))
		if i == 0 && frag >= 10 {
			put(ws.NewPingFrame([]byte("hb"))) // control frames may be interleaved with the fragments of a message
		}
	}
	return b.Bytes()
}

// corruptFrame returns the bytes of a client frame that violates RFC 6455 but leaves the stream aligned on a frame
// boundary (the real codec reports a read error and the next frame can be read normally).
func corruptFrame(v int) []byte {
	mask := []byte{0x12, 0x34, 0x56, 0x78}
	switch v % 7 {
	case 1: // RSV1 set on an empty masked text frame
		return append([]byte{0x80 | 0x40 | 0x1, 0x80}, mask...)
	case 2: // unmasked client frame
		return []byte{0x80 | 0x1, 0x00}
	case 3: // reserved opcode 0x3
		return append([]byte{0x80 | 0x3, 0x80}, mask...)
	case 4: // fragmented (non-final) control frame
		return append([]byte{0x9, 0x80}, mask...)
	case 5: // text frame with invalid UTF-8
		var b bytes.Buffer
		_ = wsutil.WriteClientMessage(&b, ws.OpText, []byte{0xff, 0xfe, 0xfd})
		return b.Bytes()
	case 6: // continuation frame although no message is in progress
		return append([]byte{0x80 | 0x0, 0x80}, mask...)
	}
	return nil // 0: the transport itself fails the read
}

// ---------------------------------------------------------------------------------------------- driver

type initKey struct{}

func hasStep(c Case, t, sym string) bool {
	for _, s := range c.Steps {
		if s.T == t && (sym == "" || s.Sym == sym) {
			return true
		}
	}
	return false
}

func hasTimeout(c Case) bool {
	for _, s := range c.Steps {
		if s.T == "timeout" {
			return true
		}
	}
	return false
}

func runCase(c Case) ([]Event, Result) {
	w := newWorld(c.Proto)
	res := Result{ID: c.ID, Unrealised: []string{}, Wedged: []string{}}
	opts := websocket.HandleOptions{
		Protocol:                         websocket.ProtocolGraphQLTransportWS,
		CustomKeepAliveInterval:          time.Hour,
		CustomSubscriptionUpdateInterval: time.Millisecond,
		CustomConnectionInitTimeOut:      time.Hour,
		CustomReadErrorTimeOut:           time.Hour,
	}
	if c.Proto == "gws" {
		opts.Protocol = websocket.ProtocolGraphQLWS
	}
	if hasTimeout(c) {
		opts.CustomConnectionInitTimeOut = 400 * time.Millisecond
	}
	if hasStep(c, "broken", "") {
		opts.CustomReadErrorTimeOut = 150 * time.Millisecond
	}
	// an InitFunc is always configured; it is consulted for every connection_init that carries a payload
	opts.WebSocketInitFunc = func(ctx context.Context, p websocket.InitPayload) (context.Context, error) {
		if p.GetString("slow") != "" {
			w.mu.Lock()
			w.inInit = true
			w.cond.Broadcast()
			for !w.initGo && !w.drained {
				w.cond.Wait()
			}
			w.inInit, w.initGo = false, false
			w.mu.Unlock()
		}
		switch p.GetString("reject") {
		case "nil":
			return nil, errors.New("verif: init refused")
		case "ctx":
			return ctx, errors.New("verif: init refused")
		}
		return context.WithValue(ctx, initKey{}, p.Authorization()), nil
	}
	if hasStep(c, "tick", "") {
		opts.CustomKeepAliveInterval = 3 * time.Millisecond // graphql-ws `ka` and the graphql-transport-ws heartbeat
	}
	if c.Proto == "gws" && hasStep(c, "in", "initrej") {
		// a refused init must not start the keep-alive: make a stray `ka` observable
		opts.CustomKeepAliveInterval = 3 * time.Millisecond
	}
	var conn net.Conn
	fc := &fakeConn{w: w}
	if c.Mode == "conn" {
		conn = fc
	} else {
		opts.CustomClient = &tcClient{w: w}
		a, b := net.Pipe()
		_ = b.Close()
		conn = a
	}
	var thePool subscription.ExecutorPool = &pool{w: w}
	if c.Mode == "v2" {
		eng, err := realEngine()
		if err != nil {
			fmt.Fprintln(os.Stderr, "cannot build the real engine:", err)
			os.Exit(3)
		}
		w.v2, w.stamps = true, map[string][][2]int{}
		thePool = &v2pool{w: w, real: subscription.NewExecutorV2Pool(eng, context.Background())}
	}
	w.mu.Lock()
	w.log(Event{Ev: "reset", A: c.Proto, ID: c.ID})
	w.mu.Unlock()

	done := make(chan bool)
	errCh := make(chan error, 1)
	go func() {
		defer func() {
			r := recover()
			w.mu.Lock()
			if r != nil {
				w.panicMsg = fmt.Sprint(r)
				w.log(Event{Ev: "panic", A: "handler"})
			}
			w.exited = true
			w.log(Event{Ev: "exit"})
			w.mu.Unlock()
		}()
		websocket.HandleWithOptions(done, errCh, conn, thePool, opts)
	}()

	idle := func() bool { return w.atRead || w.exited }
	if !w.waitFor(stepWait, idle) {
		res.Wedged = append(res.Wedged, "start")
	}
	deliver := func(s Step) bool {
		w.mu.Lock()
		if w.closed || w.exited || !w.atRead {
			w.mu.Unlock()
			return false
		}
		msg, bin := wireOf(c.Proto, s)
		if c.Mode == "conn" {
			if s.Sym == "readerr" {
				msg = corruptFrame(s.V)
			} else {
				msg = clientFrame(msg, bin, s.Frag)
			}
		}
		rd := w.rdCount
		w.inbox = append(w.inbox, msg)
		w.inboxEv = append(w.inboxEv, Event{Ev: "in", A: s.Sym, K: s.K, N: s.V})
		w.cond.Broadcast()
		w.mu.Unlock()
		if !w.waitFor(stepWait, func() bool { return (w.rdCount > rd && w.atRead) || w.exited || (s.Sym == "initslow" && w.inInit) }) {
			res.Wedged = append(res.Wedged, "in:"+s.Sym)
			w.mu.Lock()
			w.log(Event{Ev: "wedge", A: "in"})
			w.mu.Unlock()
		}
		return true
	}
	engine := func(s Step) bool {
		key := fmt.Sprintf("%s|%d", s.ID, s.K)
		var e *executor
		ok := w.waitFor(2*time.Second, func() bool {
			e = w.execs[key]
			return e != nil && e.parked && !e.pendingDone
		})
		if !ok {
			return false
		}
		w.mu.Lock()
		calls := e.execCalls
		e.cmd = s.What
		if s.Hold == 1 {
			w.holdArmed, w.holdID = true, s.ID
		}
		w.cond.Broadcast()
		w.mu.Unlock()
		var okDone bool
		if s.Hold == 1 {
			okDone = w.waitFor(stepWait, func() bool { return w.held })
		} else if s.What == "data" || s.What == "qflush" {
			okDone = w.waitFor(stepWait, func() bool { return e.cmd == "" && e.parked })
		} else {
			// completion marker: the executor is executed again (poll loop) or was handed back to the pool
			okDone = w.waitFor(stepWait, func() bool {
				return e.cmd == "" && !e.pendingDone && (e.put || (e.execCalls > calls && e.parked))
			})
		}
		if !okDone {
			res.Wedged = append(res.Wedged, "eng:"+s.What+":"+s.ID)
			w.mu.Lock()
			w.log(Event{Ev: "wedge", A: "eng", ID: s.ID, K: s.K})
			w.mu.Unlock()
		}
		return true
	}

	for i, s := range c.Steps {
		var ok bool
		switch s.T {
		case "in":
			ok = deliver(s)
			if ok && s.Sym == "initrej" && c.Proto == "gws" {
				time.Sleep(15 * time.Millisecond) // several keep-alive intervals
			}
		case "initgo":
			w.mu.Lock()
			ok = w.inInit
			rd := w.rdCount
			if ok {
				w.log(Event{Ev: "initgo"})
				w.initGo = true
				w.cond.Broadcast()
			}
			w.mu.Unlock()
			if ok && !w.waitFor(stepWait, func() bool { return (w.rdCount > rd && w.atRead) || w.exited }) {
				res.Wedged = append(res.Wedged, "initgo")
				w.mu.Lock()
				w.log(Event{Ev: "wedge", A: "initgo"})
				w.mu.Unlock()
			}
		case "tick":
			// observational: whatever the timers write within some intervals is recorded (and judged by the acceptor)
			w.mu.Lock()
			ok = !w.closed && !w.exited
			n := w.kaCount
			w.mu.Unlock()
			if ok {
				w.waitFor(25*time.Millisecond, func() bool { return w.kaCount >= n+2 || w.closed })
				w.mu.Lock()
				w.log(Event{Ev: "tick", N: w.kaCount - n})
				w.mu.Unlock()
			}
		case "broken":
			w.mu.Lock()
			ok = !w.closed && !w.exited && w.atRead
			if ok {
				w.broken = true
				w.log(Event{Ev: "broken"})
				w.cond.Broadcast()
			}
			w.mu.Unlock()
			if ok && !w.waitFor(3*time.Second, func() bool { return w.exited }) {
				res.Wedged = append(res.Wedged, "broken")
				w.mu.Lock()
				w.log(Event{Ev: "wedge", A: "broken", N: w.brokenIter})
				w.mu.Unlock()
			}
		case "eng":
			ok = engine(s)
		case "release":
			key := fmt.Sprintf("%s|%d", s.ID, s.K)
			w.mu.Lock()
			e := w.execs[key]
			ok = w.held && e != nil
			w.held = false
			w.holdArmed = false
			w.cond.Broadcast()
			w.mu.Unlock()
			if ok && !w.waitFor(stepWait, func() bool { return !e.pendingDone && e.put }) {
				res.Wedged = append(res.Wedged, "release")
				w.mu.Lock()
				w.log(Event{Ev: "wedge", A: "release", ID: s.ID, K: s.K})
				w.mu.Unlock()
			}
		case "timeout":
			w.mu.Lock()
			already := w.closed
			w.mu.Unlock()
			if already {
				ok = false
				break
			}
			ok = true
			if w.waitFor(stepWait, func() bool { return w.closed }) {
				// the init timeout has closed the connection; a handler that still sits in a slow InitFunc gets it back now
				w.mu.Lock()
				if w.inInit {
					w.log(Event{Ev: "initgo"})
					w.initGo = true
					w.cond.Broadcast()
				}
				w.mu.Unlock()
			}
			if !w.waitFor(stepWait, func() bool { return w.closed && w.exited }) {
				res.Wedged = append(res.Wedged, "timeout")
				w.mu.Lock()
				w.log(Event{Ev: "wedge", A: "timeout"})
				w.mu.Unlock()
			}
		}
		if !ok {
			res.Unrealised = append(res.Unrealised, fmt.Sprintf("%d:%s%s%s", i, s.T, s.Sym, s.What))
		}
	}

	// liveness probe: an open connection must still react
	w.mu.Lock()
	if w.inInit {
		w.initGo = true
	}
	w.held, w.holdArmed = false, false
	w.cond.Broadcast()
	open := !w.closed && !w.exited && len(res.Wedged) == 0
	w.mu.Unlock()
	if open {
		k := len(c.Steps) + 1
		if c.Proto == "tws" {
			deliver(Step{T: "in", Sym: "ping", K: k})
		} else {
			if deliver(Step{T: "in", Sym: "subPq", K: k}) {
				if !engine(Step{T: "eng", ID: "P", K: k, What: "result"}) {
					res.Wedged = append(res.Wedged, "probe-not-started")
					w.mu.Lock()
					w.log(Event{Ev: "wedge", A: "probe"})
					w.mu.Unlock()
				}
			}
		}
	}
	// the client goes away
	w.mu.Lock()
	if !w.closed {
		w.closed = true
		if !w.exited && len(res.Wedged) == 0 {
			w.log(Event{Ev: "eof"})
		}
	}
	w.cond.Broadcast()
	w.mu.Unlock()
	if !w.waitFor(stepWait, func() bool { return w.exited }) {
		res.Wedged = append(res.Wedged, "exit")
		w.mu.Lock()
		w.log(Event{Ev: "wedge", A: "exit"})
		w.mu.Unlock()
	}
	// drain the executors
	w.mu.Lock()
	w.drained = true
	w.cond.Broadcast()
	w.mu.Unlock()
	allBack := w.waitFor(3*time.Second, func() bool {
		for _, e := range w.allExecs {
			if e.execCalls > 0 && !e.put {
				return false
			}
		}
		return true
	})
	w.mu.Lock()
	if !allBack {
		for _, e := range w.allExecs {
			if e.execCalls > 0 && !e.put {
				res.Leaked++
				if e.ctx != nil && e.ctx.Err() == nil {
					res.NotCancel++
				}
			}
		}
	}
	w.log(Event{Ev: "done"})
	evs := append([]Event(nil), w.events...)
	res.Panic = w.panicMsg
	res.Dropped = w.dropped
	res.Events = len(evs)
	res.Wire = append([]string(nil), w.wire...)
	w.mu.Unlock()
	return evs, res
}

func main() {
	in := flag.String("in", "", "cases (NDJSON)")
	out := flag.String("out", "", "events (NDJSON)")
	resPath := flag.String("res", "", "results (NDJSON)")
	skip := flag.Int("skip", 0, "skip the first n cases")
	flag.Parse()
	f, err := os.Open(*in)
	if err != nil {
		fmt.Fprintln(os.Stderr, err)
		os.Exit(3)
	}
	defer f.Close()
	of, err := os.OpenFile(*out, os.O_CREATE|os.O_WRONLY|os.O_APPEND, 0o644)
	if err != nil {
		fmt.Fprintln(os.Stderr, err)
		os.Exit(3)
	}
	rf, err := os.OpenFile(*resPath, os.O_CREATE|os.O_WRONLY|os.O_APPEND, 0o644)
	if err != nil {
		fmt.Fprintln(os.Stderr, err)
		os.Exit(3)
	}
	ow := bufio.NewWriter(of)
	rw := bufio.NewWriter(rf)
	sc := bufio.NewScanner(f)
	sc.Buffer(make([]byte, 1<<20), 1<<26)
	n := 0
	for sc.Scan() {
		line := bytes.TrimSpace(sc.Bytes())
		if len(line) == 0 {
			continue
		}
		n++
		if n <= *skip {
			continue
		}
		var c Case
		if err := json.Unmarshal(line, &c); err != nil {
			fmt.Fprintln(os.Stderr, "bad case:", err)
			os.Exit(3)
		}
		// a crash of a goroutine spawned inside the code under test kills the process: leave a marker so that
		// the python driver can attribute it to this case
		fmt.Fprintf(os.Stderr, "CASE %d %s\n", n, c.ID)
		evs, res := runCase(c)
		for _, e := range evs {
			b, _ := json.Marshal(e)
			ow.Write(b)
			ow.WriteByte('\n')
		}
		b, _ := json.Marshal(res)
		rw.Write(b)
		rw.WriteByte('\n')
		ow.Flush()
		rw.Flush()
	}
	ow.Flush()
	rw.Flush()
}
