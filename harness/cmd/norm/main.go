// Command norm replays TLC-generated valid operations (spec/core Gen_C03) through the complete admission sequence of
// the execution engine (package admit mirrors ExecutionEngine.Execute): Normalize with the engine option set,
// ValidateForSchema, Normalize with WithExtractVariables, VariablesMapper.  It records the printed normalized operation,
// the variables, the variable mapping and the result of running the same sequence again on its own output.
//
//	-catalog  JSON lines, one schema of the TLA+ catalog per line (printed by Gen_Catalog)
//	-in       NDJSON cases {"id":N,"schema":"pets","doc":{...},"vars":[...]}
//	-out      NDJSON results for python (texts, variables, idempotence, strictness of the variables JSON)
//	-trace    NDJSON observations for TLC (Trace_C03): {"id","schema","doc","vars","ndoc","nvars"} for admitted cases;
//	          ndoc = printed normalized operation re-read by gqlparser, nvars = normalized variables under the names
//	          the normalized operation uses (VariablesMapper mapping applied)
package main

import (
	"bufio"
	"bytes"
	"encoding/json"
	"flag"
	"fmt"
	"io"
	"os"
	"sort"
	"strings"

	"github.com/wundergraph/graphql-go-tools/execution/graphql"

	"verif/harness/internal/admit"
	"verif/harness/internal/gqlast"
	"verif/harness/internal/sdl"
)

type Case struct {
	ID     int             `json:"id"`
	Schema string          `json:"schema"`
	Doc    json.RawMessage `json:"doc"`
	Vars   []sdl.Var       `json:"vars"`
}

type Result struct {
	ID       int               `json:"id"`
	Accept   bool              `json:"accept"`
	Stage    string            `json:"stage"`
	Msg      string            `json:"msg"`
	Panic    string            `json:"panic"`
	Frames   string            `json:"frames"`
	Text     string            `json:"text"`      // original operation
	Vars     string            `json:"vars"`      // original variables
	NText    string            `json:"ntext"`     // printed normalized operation
	NVarsRaw string            `json:"nvars_raw"` // variables after the sequence, as the library left them
	Mapping  map[string]string `json:"mapping"`   // VariablesMapper: name in the normalized operation -> name in nvars_raw
	NVars    string            `json:"nvars"`     // canonical JSON of the variables under the normalized operation's names
	Problems []string          `json:"problems"`  // Go-side checks that need no oracle (see below)
	Repaired bool              `json:"repaired"`  // the printed operation had to be prefixed with "query " to be GraphQL
	Text2    string            `json:"text2"`     // second run: printed operation
	NVars2   string            `json:"nvars2"`    // second run: canonical variables
}

type loaded struct {
	spec   *sdl.Schema
	schema *graphql.Schema
}

func fatal(f string, a ...any) {
	fmt.Fprintf(os.Stderr, f+"\n", a...)
	os.Exit(3)
}

func loadCatalog(path string) map[string]*loaded {
	f, err := os.Open(path)
	if err != nil {
		fatal("catalog: %v", err)
	}
	defer f.Close()
	out := map[string]*loaded{}
	sc := bufio.NewScanner(f)
	sc.Buffer(make([]byte, 1<<20), 1<<26)
	for sc.Scan() {
		if len(bytes.TrimSpace(sc.Bytes())) == 0 {
			continue
		}
		var s sdl.Schema
		if err := json.Unmarshal(sc.Bytes(), &s); err != nil {
			fatal("catalog: %v", err)
		}
		text := sdl.PrintSchema(&s)
		gs, err := gqlast.LoadSchema(text)
		if err != nil {
			fatal("catalog %s: gqlparser rejects the printed SDL: %v", s.ID, err)
		}
		a, _ := json.Marshal(gqlast.NormalizeSchema(&s))
		b, _ := json.Marshal(gqlast.NormalizeSchema(gqlast.SchemaToSpec(s.ID, gs)))
		if !bytes.Equal(a, b) {
			fatal("catalog %s: SDL round trip differs", s.ID)
		}
		schema, err := graphql.NewSchemaFromString(text)
		if err != nil {
			fatal("catalog %s: the library rejects the schema: %v", s.ID, err)
		}
		out[s.ID] = &loaded{spec: &s, schema: schema}
	}
	return out
}

// canonVars renames the variables to the names the normalized operation uses and returns them sorted.
func canonVars(raw string, mapping map[string]string) ([]sdl.Var, []string) {
	problems := []string{}
	if strings.TrimSpace(raw) == "" {
		raw = "{}"
		problems = append(problems, "variables-empty")
	}
	vars, err := gqlast.StrictVars([]byte(raw))
	if err != nil {
		return nil, append(problems, "variables-not-strict-json: "+err.Error())
	}
	byOld := map[string]sdl.Value{}
	for _, v := range vars {
		byOld[v.Name] = v.Value
	}
	out := []sdl.Var{}
	used := map[string]bool{}
	newNames := map[string]bool{}
	for newName, old := range mapping {
		newNames[newName] = true
		if val, ok := byOld[old]; ok {
			out = append(out, sdl.Var{Name: newName, Value: val})
			used[old] = true
		}
	}
	for _, v := range vars {
		if used[v.Name] {
			continue
		}
		if newNames[v.Name] {
			problems = append(problems, "leftover-variable-collides-with-mapped-name: "+v.Name)
			continue
		}
		out = append(out, v)
	}
	sort.Slice(out, func(i, j int) bool { return out[i].Name < out[j].Name })
	return out, problems
}

func parseNormalized(text, opName string) (*sdl.Doc, string, bool, error) {
	nd, err := gqlast.ParseDoc(text, opName)
	if err != nil && strings.HasPrefix(text, "@") {
		// anonymous query with directives is printed without the keyword (printer defect, C05); repaired to go on
		if nd2, err2 := gqlast.ParseDoc("query "+text, opName); err2 == nil {
			return nd2, "query " + text, true, nil
		}
	}
	return nd, text, false, err
}

func run(l *loaded, opName, text, vars string) (admit.Normalized, *sdl.Doc, string, bool, []sdl.Var, []string) {
	req := graphql.Request{OperationName: opName, Variables: json.RawMessage(vars), Query: text}
	n := admit.Full(&req, l.schema)
	if !n.Accept {
		return n, nil, "", false, nil, nil
	}
	problems := []string{}
	nd, fixed, repaired, err := parseNormalized(n.Text, opName)
	if err != nil {
		problems = append(problems, "normalized-operation-unparseable: "+err.Error())
	}
	cv, p := canonVars(n.Vars, n.Mapping)
	problems = append(problems, p...)
	return n, nd, fixed, repaired, cv, problems
}

func main() {
	catalog := flag.String("catalog", "", "")
	in := flag.String("in", "", "")
	outp := flag.String("out", "", "")
	tracep := flag.String("trace", "", "")
	adhoc := flag.String("adhoc", "", "schema id: read one GraphQL document from stdin and print what the sequence does to it")
	adhocVars := flag.String("vars", "{}", "")
	adhocOp := flag.String("op", "", "")
	flag.Parse()
	cat := loadCatalog(*catalog)
	if *adhoc != "" {
		l := cat[*adhoc]
		if l == nil {
			fatal("unknown schema %q", *adhoc)
		}
		text, _ := io.ReadAll(os.Stdin)
		n, _, fixed, _, cv, problems := run(l, *adhocOp, string(text), *adhocVars)
		fmt.Printf("accept=%v stage=%q msg=%q panic=%q\nnormalized: %s\nvariables:  %s\nmapping:    %v\ncanonical variables: %s\nproblems: %v\n",
			n.Accept, n.Stage, n.Msg, n.Panic, n.Text, n.Vars, n.Mapping, sdl.PrintVars(cv), problems)
		if n.Accept {
			n2, _, _, _, cv2, p2 := run(l, *adhocOp, fixed, sdl.PrintVars(cv))
			fmt.Printf("second run: accept=%v stage=%q msg=%q\nnormalized: %s\ncanonical variables: %s\nproblems: %v\n", n2.Accept, n2.Stage, n2.Msg, n2.Text, sdl.PrintVars(cv2), p2)
		}
		return
	}
	fin, err := os.Open(*in)
	if err != nil {
		fatal("%v", err)
	}
	defer fin.Close()
	fout, err := os.Create(*outp)
	if err != nil {
		fatal("%v", err)
	}
	defer fout.Close()
	ftr, err := os.Create(*tracep)
	if err != nil {
		fatal("%v", err)
	}
	defer ftr.Close()
	wout := bufio.NewWriterSize(fout, 1<<20)
	wtr := bufio.NewWriterSize(ftr, 1<<20)
	defer wout.Flush()
	defer wtr.Flush()
	sc := bufio.NewScanner(fin)
	sc.Buffer(make([]byte, 1<<20), 1<<26)
	for sc.Scan() {
		if len(bytes.TrimSpace(sc.Bytes())) == 0 {
			continue
		}
		var c Case
		if err := json.Unmarshal(sc.Bytes(), &c); err != nil {
			fatal("case: %v", err)
		}
		l := cat[c.Schema]
		if l == nil {
			fatal("case %d: unknown schema %q", c.ID, c.Schema)
		}
		var doc sdl.Doc
		if err := json.Unmarshal(c.Doc, &doc); err != nil {
			fatal("case %d: %v", c.ID, err)
		}
		res := Result{ID: c.ID, Text: sdl.PrintDoc(&doc), Vars: sdl.PrintVars(c.Vars), Problems: []string{}, Mapping: map[string]string{}}
		if back, err := gqlast.ParseDoc(res.Text, doc.OpName); err != nil {
			fatal("case %d: gqlparser cannot parse the printed case: %v\n%s", c.ID, err, res.Text)
		} else {
			a, _ := json.Marshal(&doc)
			b, _ := json.Marshal(back)
			if !bytes.Equal(a, b) {
				fatal("case %d: printed case parses to a different document\n%s\n%s", c.ID, a, b)
			}
		}
		n, nd, fixed, repaired, cv, problems := run(l, doc.OpName, res.Text, res.Vars)
		res.Accept, res.Stage, res.Msg, res.Panic = n.Accept, n.Stage, n.Msg, n.Panic
		if n.Panic != "" {
			res.Frames = admit.Frames(n.Stack, 2)
		}
		if n.Accept {
			res.NText, res.NVarsRaw, res.Repaired = n.Text, n.Vars, repaired
			if n.Mapping != nil {
				res.Mapping = n.Mapping
			}
			res.Problems = append(res.Problems, problems...)
			if cv != nil {
				res.NVars = sdl.PrintVars(cv)
			}
			// idempotence: the sequence applied to its own output
			if nd != nil && cv != nil {
				n2, _, _, _, cv2, p2 := run(l, doc.OpName, fixed, res.NVars)
				if !n2.Accept {
					res.Problems = append(res.Problems, fmt.Sprintf("second-run-rejected: stage %s: %s", n2.Stage, n2.Msg))
				} else {
					res.Text2 = n2.Text
					if cv2 != nil {
						res.NVars2 = sdl.PrintVars(cv2)
					}
					for _, p := range p2 {
						res.Problems = append(res.Problems, "second-run: "+p)
					}
					if res.Text2 != res.NText {
						res.Problems = append(res.Problems, "not-idempotent-operation")
					}
					if res.NVars2 != res.NVars {
						res.Problems = append(res.Problems, "not-idempotent-variables")
					}
				}
				vj, _ := json.Marshal(c.Vars)
				if len(c.Vars) == 0 {
					vj = []byte("[]")
				}
				nvj, _ := json.Marshal(cv)
				if len(cv) == 0 {
					nvj = []byte("[]")
				}
				tr, _ := json.Marshal(map[string]any{"id": c.ID, "schema": c.Schema, "doc": c.Doc, "vars": json.RawMessage(vj), "ndoc": nd, "nvars": json.RawMessage(nvj)})
				wtr.Write(tr)
				wtr.WriteByte('\n')
			}
		}
		b, _ := json.Marshal(&res)
		wout.Write(b)
		wout.WriteByte('\n')
	}
	if err := sc.Err(); err != nil {
		fatal("%v", err)
	}
}
