package main

// Subscription updates at the resolve level (-mode subs): fedenv has no WebSocket upgrade, so the plan is built by hand
// (resolve.GraphQLSubscription: trigger on a fake SubscriptionDataSource that hands the updater to the harness, response
// with a root object from the event payload and a nested request per update through a recording DataSource), post-processed
// by the real postprocess.Processor and run by the real Resolver.AsyncResolveGraphQLSubscription.  Every update payload is
// one observation; the trigger start is the "subscription request".

import (
	"context"
	"encoding/json"
	"fmt"
	"io"
	"net/http"
	"sync"
	"time"

	"github.com/cespare/xxhash/v2"

	"github.com/wundergraph/graphql-go-tools/v2/pkg/ast"
	"github.com/wundergraph/graphql-go-tools/v2/pkg/engine/datasource/httpclient"
	"github.com/wundergraph/graphql-go-tools/v2/pkg/engine/plan"
	"github.com/wundergraph/graphql-go-tools/v2/pkg/engine/postprocess"
	"github.com/wundergraph/graphql-go-tools/v2/pkg/engine/resolve"
)

type subsIn struct {
	ID      string   `json:"id"`
	RootNN  bool     `json:"rootnn"`
	Protect []string `json:"protect"` // coordinates
	Deny    []string `json:"deny"`
	Fail    []string `json:"fail"`
	Mode    string   `json:"mode"`
	Updates int      `json:"updates"`
}

type subsOut struct {
	ID      string    `json:"id"`
	Started bool      `json:"started"` // SubscriptionDataSource.Start was called
	Err     string    `json:"err"`     // error returned by AsyncResolveGraphQLSubscription
	Frames  []caseOut `json:"frames"`  // one digest per flushed frame (update payloads, or the denial body)
	Asked   []string  `json:"asked"`
	Problem string    `json:"problem"`
	Panic   string    `json:"panic"`
	Done    bool      `json:"done"` // writer.Complete seen
}

type subSource struct {
	mu      sync.Mutex
	updater resolve.SubscriptionUpdater
	started chan struct{}
	once    sync.Once
}

func (s *subSource) Start(ctx *resolve.Context, headers http.Header, input []byte, updater resolve.SubscriptionUpdater) error {
	s.mu.Lock()
	s.updater = updater
	s.mu.Unlock()
	s.once.Do(func() { close(s.started) })
	return nil
}

func (s *subSource) HashTriggerInput(input []byte, xxh *xxhash.Digest) error {
	_, err := xxh.Write(input)
	return err
}

type detailSource struct {
	mu    sync.Mutex
	calls []reqOut
	n     int
}

const detailQuery = `query($representations: [_Any!]!){_entities(representations: $representations){... on Event {__typename detail {text note}}}}`

func (d *detailSource) Load(_ context.Context, _ http.Header, input []byte) ([]byte, error) {
	kind, roots, err := rootsOf(detailQuery)
	if err != nil {
		return nil, err
	}
	d.mu.Lock()
	d.n++
	n := d.n
	d.calls = append(d.calls, reqOut{Subgraph: "details", Kind: kind, Roots: roots, Query: detailQuery})
	d.mu.Unlock()
	return []byte(fmt.Sprintf(`{"data":{"detail":{"text":"detail-text-%d-4e2b","note":"detail-note-%d-4e2b"}}}`, n, n)), nil
}

func (d *detailSource) LoadWithFiles(ctx context.Context, h http.Header, input []byte, _ []*httpclient.FileUpload) ([]byte, error) {
	return d.Load(ctx, h, input)
}

func (d *detailSource) take() []reqOut {
	d.mu.Lock()
	defer d.mu.Unlock()
	out := d.calls
	d.calls = nil
	return out
}

type subWriter struct {
	mu     sync.Mutex
	buf    []byte
	frames chan []byte
	done   chan struct{}
	once   sync.Once
}

func (w *subWriter) Write(p []byte) (int, error) {
	w.mu.Lock()
	w.buf = append(w.buf, p...)
	w.mu.Unlock()
	return len(p), nil
}

func (w *subWriter) Flush() error {
	w.mu.Lock()
	b := w.buf
	w.buf = nil
	w.mu.Unlock()
	w.frames <- b
	return nil
}
func (w *subWriter) Complete()        { w.once.Do(func() { close(w.done) }) }
func (w *subWriter) Heartbeat() error { return nil }
func (w *subWriter) Error(b []byte) {
	w.frames <- append([]byte(nil), b...)
}

type subErrWriter struct{}

func (subErrWriter) WriteError(ctx *resolve.Context, err error, res *resolve.GraphQLResponse, w io.Writer) {
	b, _ := json.Marshal(map[string]any{"errors": []map[string]string{{"message": "subscription update failed: " + err.Error()}}})
	_, _ = w.Write(b)
	if f, ok := w.(interface{ Flush() error }); ok {
		_ = f.Flush()
	}
}

func subsPlan(c *subsIn, idx int, src resolve.SubscriptionDataSource, det resolve.DataSource) *resolve.GraphQLSubscription {
	prot := map[string]bool{}
	for _, p := range c.Protect {
		prot[p] = true
	}
	info := func(parent, name, named, ds string) *resolve.FieldInfo {
		return &resolve.FieldInfo{Name: name, NamedType: named, ParentTypeNames: []string{parent}, ExactParentTypeName: parent,
			Source: resolve.TypeFieldSource{IDs: []string{ds}, Names: []string{ds}}, HasAuthorizationRule: prot[parent+"."+name]}
	}
	leaf := func(parent, name, ds string, nullable bool) *resolve.Field {
		return &resolve.Field{Name: []byte(name), Info: info(parent, name, "String", ds), Value: &resolve.String{Path: []string{name}, Nullable: nullable}}
	}
	detail := &resolve.Field{Name: []byte("detail"), Info: info("Event", "detail", "Detail", "details"),
		Value: &resolve.Object{Path: []string{"detail"}, Nullable: true, TypeName: "Detail", PossibleTypes: map[string]struct{}{"Detail": {}},
			Fields: []*resolve.Field{leaf("Detail", "text", "details", false), leaf("Detail", "note", "details", true)}}}
	ev := &resolve.Field{Name: []byte("ev"), Info: info("Subscription", "ev", "Event", "events"),
		Value: &resolve.Object{Path: []string{"ev"}, Nullable: !c.RootNN, TypeName: "Event", PossibleTypes: map[string]struct{}{"Event": {}},
			Fields: []*resolve.Field{leaf("Event", "id", "events", false), leaf("Event", "secret", "events", true), detail}}}
	// the trigger is keyed by its input: one trigger per case
	input := fmt.Sprintf(`{"url":"ws://events","body":{"query":"subscription{ev(case:%d){id secret __typename}}"}}`, idx)
	// unique per case: identical in-flight subgraph requests of different subscriptions are de-duplicated by the resolver
	detInput, _ := json.Marshal(map[string]any{"method": "POST", "url": fmt.Sprintf("http://details/%d", idx), "body": map[string]string{"query": detailQuery}})
	return &resolve.GraphQLSubscription{
		Trigger: resolve.GraphQLSubscriptionTrigger{
			Input:          []byte(input),
			InputTemplate:  resolve.InputTemplate{Segments: []resolve.TemplateSegment{{SegmentType: resolve.StaticSegmentType, Data: []byte(input)}}},
			Source:         src,
			SourceName:     "events",
			SourceID:       "events",
			PostProcessing: resolve.PostProcessingConfiguration{SelectResponseDataPath: []string{"data"}, SelectResponseErrorsPath: []string{"errors"}},
		},
		Response: &resolve.GraphQLResponse{
			Info: &resolve.GraphQLResponseInfo{OperationType: ast.OperationTypeSubscription},
			Data: &resolve.Object{Fields: []*resolve.Field{ev}},
			RawFetches: []*resolve.FetchItem{{
				Fetch: &resolve.SingleFetch{
					FetchConfiguration: resolve.FetchConfiguration{
						Input:      string(detInput),
						DataSource: det,
						PostProcessing: resolve.PostProcessingConfiguration{
							SelectResponseDataPath:   []string{"data"},
							SelectResponseErrorsPath: []string{"errors"},
						},
					},
					FetchDependencies:    resolve.FetchDependencies{FetchID: 1},
					DataSourceIdentifier: []byte("synth"),
					Info: &resolve.FetchInfo{DataSourceID: "details", DataSourceName: "details", OperationType: ast.OperationTypeQuery,
						RootFields: []resolve.GraphCoordinate{{TypeName: "Event", FieldName: "detail", HasAuthorizationRule: prot["Event.detail"]}}},
				},
				FetchPath:    []resolve.FetchItemPathElement{resolve.ObjectPath("ev")},
				ResponsePath: "ev",
			}},
		},
	}
}

func runSubsCase(resolver *resolve.Resolver, c *subsIn, idx int) (so subsOut) {
	so = subsOut{ID: c.ID, Frames: []caseOut{}, Asked: []string{}}
	defer func() {
		if r := recover(); r != nil {
			so.Panic = fmt.Sprint(r)
		}
	}()
	src := &subSource{started: make(chan struct{})}
	det := &detailSource{}
	sub := subsPlan(c, idx, src, det)
	postprocess.NewProcessor().Process(&plan.SubscriptionResponsePlan{Response: sub})

	a := &authorizer{deny: map[string]bool{}, fail: map[string]bool{}}
	for _, d := range c.Deny {
		a.deny[d] = true
	}
	for _, d := range c.Fail {
		a.fail[d] = true
	}
	cctx, cancel := context.WithCancel(context.Background())
	defer cancel()
	rctx := resolve.NewContext(cctx)
	rctx.Request.ID = uint64(idx + 1)
	switch c.Mode {
	case "post":
		rctx.SetAuthorizer(a)
	case "batch":
		rctx.SetPreFetchFieldAuthorizer(batchAuthorizer{a})
	case "both":
		rctx.SetAuthorizer(a)
		rctx.SetPreFetchFieldAuthorizer(batchAuthorizer{a})
	}
	w := &subWriter{frames: make(chan []byte, 16), done: make(chan struct{})}
	id := resolve.SubscriptionIdentifier{ConnectionID: resolve.ConnectionID(idx + 1), SubscriptionID: int64(idx + 1)}
	if err := resolver.AsyncResolveGraphQLSubscription(rctx, sub, w, id); err != nil {
		so.Err = err.Error()
	}
	take := func(frame []byte) {
		co := caseOut{ID: c.ID, Op: "subs", Mode: c.Mode, Frames: []string{}, Cum: []any{}, Orphans: []any{}, Errors: []errOut{}, Requests: []reqOut{}, Asked: []string{}}
		digest([][]byte{frame}, &co)
		co.Requests = append(co.Requests, det.take()...)
		so.Frames = append(so.Frames, co)
	}
	const wait = 20 * time.Second
	if so.Err != "" {
		// rejected before anything was registered: nothing will be started or written
		a.mu.Lock()
		so.Asked = append(so.Asked, a.asked...)
		a.mu.Unlock()
		select {
		case <-src.started:
			so.Started = true
		case <-time.After(50 * time.Millisecond):
		}
		return so
	}
	// either the trigger starts, or the subscription is answered (denied / error) and completed without starting
	select {
	case <-src.started:
		so.Started = true
	case <-w.done:
		so.Done = true
	case f := <-w.frames:
		take(f)
		select {
		case <-w.done:
			so.Done = true
		case <-src.started:
			so.Started = true
		case <-time.After(wait):
			so.Problem = "frame before start, then neither start nor complete"
		}
	case <-time.After(wait):
		if so.Err == "" {
			so.Problem = "neither Start nor Complete within the timeout"
		}
	}
	if so.Started {
		src.mu.Lock()
		up := src.updater
		src.mu.Unlock()
		for k := 1; k <= c.Updates; k++ {
			up.Update([]byte(fmt.Sprintf(`{"data":{"ev":{"id":"ev-id-%d-7fa1","secret":"ev-secret-%d-7fa1","__typename":"Event"}}}`, k, k)))
			select {
			case f := <-w.frames:
				take(f)
			case <-w.done:
				so.Done = true
				so.Problem = fmt.Sprintf("completed before the payload of update %d", k)
			case <-time.After(wait):
				so.Problem = fmt.Sprintf("no payload for update %d within the timeout", k)
			}
			if so.Problem != "" {
				break
			}
		}
		up.Complete()
		select {
		case <-w.done:
			so.Done = true
		case <-time.After(wait):
			if so.Problem == "" {
				so.Problem = "no Complete after the trigger completed"
			}
		}
	}
	// drain frames that were flushed around completion
	for {
		select {
		case f := <-w.frames:
			take(f)
			continue
		default:
		}
		break
	}
	_ = resolver.UnsubscribeSubscription(id)
	a.mu.Lock()
	so.Asked = append(so.Asked, a.asked...)
	a.mu.Unlock()
	return so
}

func runSubs(in, out string, par int) {
	resolver := resolve.New(context.Background(), resolve.ResolverOptions{
		MaxConcurrency: 64, PropagateSubgraphErrors: true, PropagateSubgraphStatusCodes: true,
		AsyncErrorWriter: subErrWriter{}, SubscriptionHeartbeatInterval: 24 * time.Hour, MaxSubscriptionFetchTimeout: time.Hour,
	})
	var cases []*subsIn
	forEachLine(in, func(line []byte) {
		c := &subsIn{}
		if err := json.Unmarshal(line, c); err != nil {
			fatal(err)
		}
		cases = append(cases, c)
	})
	results := make([]subsOut, len(cases))
	var wg sync.WaitGroup
	work := make(chan int)
	for i := 0; i < par; i++ {
		wg.Add(1)
		go func() {
			defer wg.Done()
			for j := range work {
				results[j] = runSubsCase(resolver, cases[j], j)
			}
		}()
	}
	for j := range cases {
		work <- j
	}
	close(work)
	wg.Wait()
	w := openOut(out)
	defer w.close()
	for i := range results {
		w.write(results[i])
	}
	fmt.Fprintf(os_stderr(), "authz: %d subscription plans\n", len(cases))
}
