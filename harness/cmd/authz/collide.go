package main

// Colliding coordinates (-mode synth, kind "collide"): two protected coordinates whose (data source id, type name,
// field name) concatenate to the same string without a separator (User.sso / Users.so, A.bc / Ab.c, data source "d" +
// type "sT" / data source "ds" + type "T") selected in one request with every pair of decisions.  Hand-built plan
// `{ o1 { <fieldA> } o2 { <fieldB> } }`, real postprocess.Processor + real Resolver.

import (
	"bytes"
	"context"
	"encoding/json"
	"fmt"
	"net/http"
	"strings"
	"sync"

	"github.com/wundergraph/graphql-go-tools/v2/pkg/ast"
	"github.com/wundergraph/graphql-go-tools/v2/pkg/engine/datasource/httpclient"
	"github.com/wundergraph/graphql-go-tools/v2/pkg/engine/plan"
	"github.com/wundergraph/graphql-go-tools/v2/pkg/engine/postprocess"
	"github.com/wundergraph/graphql-go-tools/v2/pkg/engine/resolve"
)

type collideCoord struct {
	DS    string `json:"ds"`
	Type  string `json:"type"`
	Field string `json:"field"`
}

type collideSource struct {
	mu    sync.Mutex
	name  string
	roots []string // response keys served
	objs  map[string]collideCoord
	calls *[]reqOut
}

func (d *collideSource) Load(_ context.Context, _ http.Header, _ []byte) ([]byte, error) {
	var roots []string
	var b strings.Builder
	b.WriteString(`{"data":{`)
	for i, k := range d.roots {
		c := d.objs[k]
		if i > 0 {
			b.WriteByte(',')
		}
		fmt.Fprintf(&b, `%q:{"__typename":%q,%q:"value-%s-%s-%s-9d3e"}`, k, c.Type, c.Field, k, c.Type, c.Field)
		roots = append(roots, "Query."+k)
	}
	b.WriteString(`}}`)
	d.mu.Lock()
	*d.calls = append(*d.calls, reqOut{Subgraph: d.name, Kind: "query", Roots: roots, Query: "{" + strings.Join(d.roots, " ") + "}"})
	d.mu.Unlock()
	return []byte(b.String()), nil
}

func (d *collideSource) LoadWithFiles(ctx context.Context, h http.Header, input []byte, _ []*httpclient.FileUpload) ([]byte, error) {
	return d.Load(ctx, h, input)
}

func runCollideCase(resolver *resolve.Resolver, c *synthIn) (co caseOut) {
	co = caseOut{ID: c.ID, Op: "collide", Mode: c.Mode, Frames: []string{}, Cum: []any{}, Orphans: []any{}, Errors: []errOut{}, Requests: []reqOut{}, Asked: []string{}}
	defer func() {
		if r := recover(); r != nil {
			co.Panic = fmt.Sprint(r)
		}
	}()
	prot := map[string]bool{}
	for _, p := range c.ProtectC {
		prot[p] = true
	}
	var calls []reqOut
	data := &resolve.Object{}
	sources := map[string]*collideSource{}
	var order []string
	for i, cc := range c.Objects {
		key := fmt.Sprintf("o%d", i+1)
		src := sources[cc.DS]
		if src == nil {
			src = &collideSource{name: cc.DS, objs: map[string]collideCoord{}, calls: &calls}
			sources[cc.DS] = src
			order = append(order, cc.DS)
		}
		src.roots = append(src.roots, key)
		src.objs[key] = cc
		source := resolve.TypeFieldSource{IDs: []string{cc.DS}, Names: []string{cc.DS}}
		data.Fields = append(data.Fields, &resolve.Field{
			Name: []byte(key),
			Info: &resolve.FieldInfo{Name: key, NamedType: cc.Type, ParentTypeNames: []string{"Query"}, ExactParentTypeName: "Query", Source: source},
			Value: &resolve.Object{Path: []string{key}, Nullable: true, TypeName: cc.Type, PossibleTypes: map[string]struct{}{cc.Type: {}},
				Fields: []*resolve.Field{{
					Name: []byte(cc.Field),
					Info: &resolve.FieldInfo{Name: cc.Field, NamedType: "String", ParentTypeNames: []string{cc.Type}, ExactParentTypeName: cc.Type,
						Source: source, HasAuthorizationRule: prot[cc.Type+"."+cc.Field]},
					Value: &resolve.String{Path: []string{cc.Field}, Nullable: true},
				}}},
		})
	}
	var raw []*resolve.FetchItem
	for fi, ds := range order {
		src := sources[ds]
		var roots []resolve.GraphCoordinate
		for _, k := range src.roots {
			roots = append(roots, resolve.GraphCoordinate{TypeName: "Query", FieldName: k})
		}
		input, _ := json.Marshal(map[string]any{"method": "POST", "url": "http://" + ds, "body": map[string]string{"query": "{" + strings.Join(src.roots, " ") + "}"}})
		raw = append(raw, &resolve.FetchItem{Fetch: &resolve.SingleFetch{
			FetchConfiguration: resolve.FetchConfiguration{
				Input:      string(input),
				DataSource: src,
				PostProcessing: resolve.PostProcessingConfiguration{
					SelectResponseDataPath:   []string{"data"},
					SelectResponseErrorsPath: []string{"errors"},
				},
			},
			FetchDependencies:    resolve.FetchDependencies{FetchID: fi},
			DataSourceIdentifier: []byte("synth"),
			Info:                 &resolve.FetchInfo{DataSourceID: ds, DataSourceName: ds, OperationType: ast.OperationTypeQuery, RootFields: roots},
		}})
	}
	response := &resolve.GraphQLResponse{Data: data, RawFetches: raw, Info: &resolve.GraphQLResponseInfo{OperationType: ast.OperationTypeQuery}}
	postprocess.NewProcessor().Process(&plan.SynchronousResponsePlan{Response: response})

	a := &authorizer{deny: map[string]bool{}, fail: map[string]bool{}}
	for _, d := range c.DenyC {
		a.deny[d] = true
	}
	rctx := resolve.NewContext(context.Background())
	switch c.Mode {
	case "post":
		rctx.SetAuthorizer(a)
	case "batch":
		rctx.SetPreFetchFieldAuthorizer(batchAuthorizer{a})
	case "both":
		rctx.SetAuthorizer(a)
		rctx.SetPreFetchFieldAuthorizer(batchAuthorizer{a})
	}
	var buf bytes.Buffer
	if _, err := resolver.ResolveGraphQLResponse(rctx, response, nil, &buf); err != nil {
		co.Err = err.Error()
	}
	if buf.Len() > 0 {
		digest([][]byte{buf.Bytes()}, &co)
	}
	co.Requests = append(co.Requests, calls...)
	co.Asked = append(co.Asked, a.asked...)
	return co
}
