// Command authz is the C14 driver ("denied fields never reach the client, denied mutations never reach a subgraph").
//
//	authz -mode shape -in ops.ndjson   -out shapes.ndjson
//	    For every menu operation {id,text}: the *selection shape* computed with vektah/gqlparser (independent of the code
//	    under test) from the client schema of the federationtesting supergraph: per runtime type the response keys with their
//	    coordinate family, nullability per list level and sub-shape. This is what spec/resolve/Authz.tla walks payloads with.
//	-mode run   -in cases.ndjson -out results.ndjson [-par N]
//	    For every case {id,op,text,vars,protect[],deny[],mode none|post|batch}: a REAL federated engine (internal/fedenv) whose
//	    planner configuration marks exactly `protect` with HasAuthorizationRule (one Env per distinct protect set), authorizers
//	    implemented from `deny` (post = resolve.Authorizer, batch = resolve.BatchAuthorizer), records every byte written to the
//	    client (frames), the cumulative data after every frame in tagged form, all error paths, and every subgraph request with
//	    its root fields (top-level fields, or the fields inside `_entities{... on T{..}}`) parsed by gqlparser.
package main

import (
	"bufio"
	"bytes"
	"context"
	"encoding/json"
	"flag"
	"fmt"
	"io"
	"os"
	"sort"
	"strconv"
	"strings"
	"sync"
	"time"

	"github.com/vektah/gqlparser/v2"
	"github.com/vektah/gqlparser/v2/ast"
	"github.com/vektah/gqlparser/v2/parser"

	"github.com/wundergraph/graphql-go-tools/execution/engine"
	"github.com/wundergraph/graphql-go-tools/v2/pkg/engine/plan"
	"github.com/wundergraph/graphql-go-tools/v2/pkg/engine/resolve"

	"verif/harness/internal/fedenv"
)

func fatal(err error) {
	fmt.Fprintln(os.Stderr, "authz:", err)
	os.Exit(1)
}

// ------------------------------------------------------------------------------------------------ ordered JSON

// JV is a JSON value that keeps member order.
type JV struct {
	K     byte // o l s n(umber) b z(null)
	Keys  []string
	Vals  []*JV
	Items []*JV
	S     string
}

func parseJV(data []byte) (*JV, error) {
	dec := json.NewDecoder(bytes.NewReader(data))
	dec.UseNumber()
	v, err := readJV(dec)
	if err != nil {
		return nil, err
	}
	if _, err := dec.Token(); err != io.EOF {
		return nil, fmt.Errorf("trailing data after JSON value")
	}
	return v, nil
}

func readJV(dec *json.Decoder) (*JV, error) {
	tok, err := dec.Token()
	if err != nil {
		return nil, err
	}
	switch t := tok.(type) {
	case json.Delim:
		if t == '{' {
			o := &JV{K: 'o'}
			for dec.More() {
				kt, err := dec.Token()
				if err != nil {
					return nil, err
				}
				v, err := readJV(dec)
				if err != nil {
					return nil, err
				}
				o.Keys = append(o.Keys, kt.(string))
				o.Vals = append(o.Vals, v)
			}
			_, err := dec.Token()
			return o, err
		}
		l := &JV{K: 'l'}
		for dec.More() {
			v, err := readJV(dec)
			if err != nil {
				return nil, err
			}
			l.Items = append(l.Items, v)
		}
		_, err := dec.Token()
		return l, err
	case string:
		return &JV{K: 's', S: t}, nil
	case json.Number:
		return &JV{K: 'n', S: t.String()}, nil
	case bool:
		return &JV{K: 'b', S: strconv.FormatBool(t)}, nil
	case nil:
		return &JV{K: 'z'}, nil
	}
	return nil, fmt.Errorf("unexpected token %v", tok)
}

func (v *JV) get(key string) *JV {
	if v == nil || v.K != 'o' {
		return nil
	}
	for i, k := range v.Keys {
		if k == key {
			return v.Vals[i]
		}
	}
	return nil
}

func (v *JV) clone() *JV {
	if v == nil {
		return nil
	}
	c := &JV{K: v.K, S: v.S}
	c.Keys = append([]string(nil), v.Keys...)
	for _, x := range v.Vals {
		c.Vals = append(c.Vals, x.clone())
	}
	for _, x := range v.Items {
		c.Items = append(c.Items, x.clone())
	}
	return c
}

// tagged form for TLC: every scalar carries its value as a STRING so that no comparison ever mixes types.
func (v *JV) tag() any {
	switch v.K {
	case 'o':
		vals := make([]any, len(v.Vals))
		for i, x := range v.Vals {
			vals[i] = x.tag()
		}
		keys := v.Keys
		if keys == nil {
			keys = []string{}
		}
		return map[string]any{"t": "o", "k": keys, "v": vals}
	case 'l':
		vals := make([]any, len(v.Items))
		for i, x := range v.Items {
			vals[i] = x.tag()
		}
		return map[string]any{"t": "l", "v": vals}
	case 's':
		return map[string]any{"t": "s", "v": v.S}
	case 'n':
		if strings.ContainsAny(v.S, ".eE") {
			return map[string]any{"t": "f", "v": v.S}
		}
		return map[string]any{"t": "i", "v": v.S}
	case 'b':
		return map[string]any{"t": "b", "v": v.S}
	}
	return map[string]any{"t": "n"}
}

// merge deep-merges src into dst (objects by key, lists by index); scalars / nulls of src replace.
func merge(dst, src *JV) *JV {
	if dst == nil || src == nil {
		return src
	}
	if dst.K == 'o' && src.K == 'o' {
		for i, k := range src.Keys {
			found := false
			for j, dk := range dst.Keys {
				if dk == k {
					dst.Vals[j] = merge(dst.Vals[j], src.Vals[i])
					found = true
					break
				}
			}
			if !found {
				dst.Keys = append(dst.Keys, k)
				dst.Vals = append(dst.Vals, src.Vals[i])
			}
		}
		return dst
	}
	if dst.K == 'l' && src.K == 'l' && len(dst.Items) == len(src.Items) {
		for i := range src.Items {
			dst.Items[i] = merge(dst.Items[i], src.Items[i])
		}
		return dst
	}
	return src
}

func pathOf(v *JV) ([]string, bool) {
	if v == nil || v.K != 'l' {
		return nil, false
	}
	out := make([]string, 0, len(v.Items))
	for _, e := range v.Items {
		switch e.K {
		case 's':
			out = append(out, e.S)
		case 'n':
			out = append(out, "#"+e.S)
		default:
			return nil, false
		}
	}
	return out, true
}

// skeleton wraps v in objects / lists along path (list holes are nulls).
func skeleton(path []string, v *JV) *JV {
	for i := len(path) - 1; i >= 0; i-- {
		p := path[i]
		if strings.HasPrefix(p, "#") {
			n, _ := strconv.Atoi(p[1:])
			l := &JV{K: 'l'}
			for j := 0; j < n; j++ {
				l.Items = append(l.Items, &JV{K: 'z'})
			}
			l.Items = append(l.Items, v)
			v = l
		} else {
			v = &JV{K: 'o', Keys: []string{p}, Vals: []*JV{v}}
		}
	}
	return v
}

func navigate(root *JV, path []string) *JV {
	cur := root
	for _, p := range path {
		if cur == nil {
			return nil
		}
		if strings.HasPrefix(p, "#") {
			i, err := strconv.Atoi(p[1:])
			if err != nil || cur.K != 'l' || i < 0 || i >= len(cur.Items) {
				return nil
			}
			cur = cur.Items[i]
		} else {
			cur = cur.get(p)
		}
	}
	return cur
}

// ------------------------------------------------------------------------------------------------ shape

type shapeField struct {
	Key  string   `json:"key"`
	Fam  string   `json:"fam"`
	RC   string   `json:"rc"` // coordinate of the runtime type's field
	Name string   `json:"name"`
	NN   []bool   `json:"nn"`
	Leaf bool     `json:"leaf"`
	Obj  shapeObj `json:"obj"`
}

type shapeVariant struct {
	Types  []string     `json:"types"`
	Fields []shapeField `json:"fields"`
}

type shapeObj struct {
	V []shapeVariant `json:"v"`
}

type shaper struct {
	schema *ast.Schema
	doc    *ast.QueryDocument
	fams   map[string][]string // fam name -> coordinates
	eager  map[string]bool     // families with at least one occurrence outside every @defer fragment
}

// possible runtime object types of a named type.
func (s *shaper) possible(name string) []string {
	def := s.schema.Types[name]
	if def == nil {
		return nil
	}
	if def.Kind == ast.Object {
		return []string{name}
	}
	var out []string
	for _, d := range s.schema.GetPossibleTypes(def) {
		out = append(out, d.Name)
	}
	sort.Strings(out)
	return out
}

func (s *shaper) applies(runtime, cond string) bool {
	if cond == "" || cond == runtime {
		return true
	}
	for _, p := range s.possible(cond) {
		if p == runtime {
			return true
		}
	}
	return false
}

// family of the coordinate runtime.field: closed over "interface declares the field" <-> "type implements the interface".
func (s *shaper) family(runtime, field string) string {
	seen := map[string]bool{}
	var visit func(t string)
	visit = func(t string) {
		if seen[t] {
			return
		}
		def := s.schema.Types[t]
		if def == nil || def.Fields.ForName(field) == nil {
			return
		}
		seen[t] = true
		for _, i := range def.Interfaces {
			visit(i)
		}
		if def.Kind == ast.Interface {
			for _, d := range s.schema.GetPossibleTypes(def) {
				visit(d.Name)
			}
			for _, o := range s.schema.Types {
				if o.Kind == ast.Interface {
					for _, i := range o.Interfaces {
						if i == t {
							visit(o.Name)
						}
					}
				}
			}
		}
	}
	visit(runtime)
	var coords []string
	for t := range seen {
		coords = append(coords, t+"."+field)
	}
	sort.Strings(coords)
	name := strings.Join(coords, "+")
	s.fams[name] = coords
	return name
}

type collected struct {
	key    string
	fields []*ast.Field
	eager  bool // some occurrence is not inside a @defer fragment
}

func hasDefer(ds ast.DirectiveList) bool { return ds.ForName("defer") != nil }

func (s *shaper) collect(runtime string, set ast.SelectionSet, deferred bool, out *[]*collected) {
	for _, sel := range set {
		switch x := sel.(type) {
		case *ast.Field:
			key := x.Alias
			if key == "" {
				key = x.Name
			}
			var c *collected
			for _, e := range *out {
				if e.key == key {
					c = e
				}
			}
			if c == nil {
				c = &collected{key: key}
				*out = append(*out, c)
			}
			c.fields = append(c.fields, x)
			if !deferred {
				c.eager = true
			}
		case *ast.InlineFragment:
			if s.applies(runtime, x.TypeCondition) {
				s.collect(runtime, x.SelectionSet, deferred || hasDefer(x.Directives), out)
			}
		case *ast.FragmentSpread:
			def := s.doc.Fragments.ForName(x.Name)
			if def != nil && s.applies(runtime, def.TypeCondition) {
				s.collect(runtime, def.SelectionSet, deferred || hasDefer(x.Directives), out)
			}
		}
	}
}

func nnOf(t *ast.Type) []bool {
	var out []bool
	for t != nil {
		out = append(out, t.NonNull)
		t = t.Elem
	}
	return out
}

func namedOf(t *ast.Type) string {
	for t.Elem != nil {
		t = t.Elem
	}
	return t.NamedType
}

func (s *shaper) obj(typeName string, sets []ast.SelectionSet, deferred bool) (shapeObj, error) {
	var o shapeObj
	byJSON := map[string]int{}
	for _, rt := range s.possible(typeName) {
		var cs []*collected
		for _, set := range sets {
			s.collect(rt, set, deferred, &cs)
		}
		def := s.schema.Types[rt]
		var fields []shapeField
		for _, c := range cs {
			name := c.fields[0].Name
			if name == "__typename" {
				continue
			}
			fd := def.Fields.ForName(name)
			if fd == nil {
				return o, fmt.Errorf("type %s has no field %s", rt, name)
			}
			for _, f := range c.fields {
				if f.Name != name {
					return o, fmt.Errorf("response key %s merges different fields on %s", c.key, rt)
				}
			}
			sf := shapeField{Key: c.key, Name: name, Fam: s.family(rt, name), RC: rt + "." + name, NN: nnOf(fd.Type), Obj: shapeObj{V: []shapeVariant{}}}
			if c.eager {
				s.eager[sf.Fam] = true
			}
			named := s.schema.Types[namedOf(fd.Type)]
			if named == nil {
				return o, fmt.Errorf("unknown type %s", namedOf(fd.Type))
			}
			switch named.Kind {
			case ast.Object, ast.Interface, ast.Union:
				var subs []ast.SelectionSet
				for _, f := range c.fields {
					subs = append(subs, f.SelectionSet)
				}
				so, err := s.obj(named.Name, subs, !c.eager)
				if err != nil {
					return o, err
				}
				sf.Obj = so
			default:
				sf.Leaf = true
			}
			fields = append(fields, sf)
		}
		if fields == nil {
			fields = []shapeField{}
		}
		b, _ := json.Marshal(fields)
		if i, ok := byJSON[string(b)]; ok {
			o.V[i].Types = append(o.V[i].Types, rt)
			continue
		}
		byJSON[string(b)] = len(o.V)
		o.V = append(o.V, shapeVariant{Types: []string{rt}, Fields: fields})
	}
	return o, nil
}

func collectFams(o shapeObj, into map[string]bool, splits map[string]string) {
	for _, v := range o.V {
		for _, f := range v.Fields {
			into[f.Fam] = true
			if f.RC != f.Fam {
				splits[f.RC] = f.Fam
			}
			collectFams(f.Obj, into, splits)
		}
	}
}

type opIn struct {
	ID   string `json:"id"`
	Text string `json:"text"`
}

func runShape(in, out string) {
	env, err := fedenv.New(fedenv.Options{})
	if err != nil {
		fatal(err)
	}
	defer env.Close()
	schema, gerr := gqlparser.LoadSchema(&ast.Source{Name: "client", Input: env.SupergraphSDL()})
	if gerr != nil {
		fatal(fmt.Errorf("client schema: %v", gerr))
	}
	w := openOut(out)
	defer w.close()
	forEachLine(in, func(line []byte) {
		var op opIn
		if err := json.Unmarshal(line, &op); err != nil {
			fatal(err)
		}
		doc, errs := gqlparser.LoadQuery(schema, op.Text)
		if errs != nil {
			fatal(fmt.Errorf("op %s is not valid against the client schema: %v", op.ID, errs))
		}
		if len(doc.Operations) != 1 {
			fatal(fmt.Errorf("op %s: exactly one operation expected", op.ID))
		}
		o := doc.Operations[0]
		root := "Query"
		switch o.Operation {
		case ast.Mutation:
			root = "Mutation"
		case ast.Subscription:
			root = "Subscription"
		}
		s := &shaper{schema: schema, doc: doc, fams: map[string][]string{}, eager: map[string]bool{}}
		so, err := s.obj(root, []ast.SelectionSet{o.SelectionSet}, false)
		if err != nil {
			fatal(fmt.Errorf("op %s: %v", op.ID, err))
		}
		used := map[string]bool{}
		splitOf := map[string]string{}
		collectFams(so, used, splitOf)
		splits := []map[string]string{}
		var splitKeys []string
		for c := range splitOf {
			splitKeys = append(splitKeys, c)
		}
		sort.Strings(splitKeys)
		for _, c := range splitKeys {
			splits = append(splits, map[string]string{"c": c, "fam": splitOf[c]})
		}
		var fams []string
		for f := range used {
			fams = append(fams, f)
		}
		sort.Strings(fams)
		coords := map[string][]string{}
		deferfams := []string{}
		for _, f := range fams {
			coords[f] = s.fams[f]
			if !s.eager[f] {
				deferfams = append(deferfams, f)
			}
		}
		w.write(map[string]any{"id": op.ID, "kind": string(o.Operation), "defer": strings.Contains(op.Text, "@defer"),
			"shape": so, "fams": fams, "famcoords": coords, "deferfams": deferfams, "splits": splits})
	})
}

// ------------------------------------------------------------------------------------------------ run

type caseIn struct {
	ID      string   `json:"id"`
	Op      string   `json:"op"`
	Text    string   `json:"text"`
	Vars    string   `json:"vars"`
	Protect []string `json:"protect"`
	Deny    []string `json:"deny"`
	Mode    string   `json:"mode"` // none | post | batch | both
	Fail    []string `json:"fail"` // coordinates for which the authorizer returns an error
	Fresh   bool     `json:"fresh"`
}

const denyReason = "policy-says-no"

type authorizer struct {
	mu    sync.Mutex
	deny  map[string]bool
	fail  map[string]bool
	asked []string
}

var errAuthorizer = fmt.Errorf("authorizer backend unavailable")

func (a *authorizer) decide(kind string, c resolve.GraphCoordinate) bool {
	name := c.TypeName + "." + c.FieldName
	a.mu.Lock()
	a.asked = append(a.asked, kind+":"+name)
	a.mu.Unlock()
	return a.deny[name]
}

func (a *authorizer) fails(c resolve.GraphCoordinate) bool {
	return a.fail[c.TypeName+"."+c.FieldName]
}

func (a *authorizer) AuthorizePreFetch(ctx *resolve.Context, dataSourceID string, input json.RawMessage, coordinate resolve.GraphCoordinate) (*resolve.AuthorizationDeny, error) {
	if a.fails(coordinate) {
		return nil, errAuthorizer
	}
	if a.decide("prefetch", coordinate) {
		return &resolve.AuthorizationDeny{Reason: denyReason}, nil
	}
	return nil, nil
}

func (a *authorizer) AuthorizeObjectField(ctx *resolve.Context, dataSourceID string, object json.RawMessage, coordinate resolve.GraphCoordinate) (*resolve.AuthorizationDeny, error) {
	if a.fails(coordinate) {
		return nil, errAuthorizer
	}
	if a.decide("field", coordinate) {
		return &resolve.AuthorizationDeny{Reason: denyReason}, nil
	}
	return nil, nil
}

func (a *authorizer) HasResponseExtensionData(ctx *resolve.Context) bool { return false }

func (a *authorizer) RenderResponseExtension(ctx *resolve.Context, out io.Writer) error { return nil }

type batchAuthorizer struct{ a *authorizer }

func (b batchAuthorizer) AuthorizeFields(ctx *resolve.Context, coordinates []resolve.GraphCoordinate) ([]resolve.AuthorizationDecision, error) {
	out := make([]resolve.AuthorizationDecision, len(coordinates))
	for i, c := range coordinates {
		if b.a.fails(c) {
			return nil, errAuthorizer
		}
		if b.a.decide("batch", c) {
			out[i] = resolve.AuthorizationDecision{Allowed: false, Reason: denyReason}
		} else {
			out[i] = resolve.AuthorizationDecision{Allowed: true}
		}
	}
	return out, nil
}

func newEnv(protect []string) (*fedenv.Env, error) {
	return fedenv.New(fedenv.Options{
		ConfigurePlanner: func(c *plan.Configuration) {
			for _, p := range protect {
				i := strings.IndexByte(p, '.')
				tn, fn := p[:i], p[i+1:]
				found := false
				for j := range c.Fields {
					if c.Fields[j].TypeName == tn && c.Fields[j].FieldName == fn {
						c.Fields[j].HasAuthorizationRule = true
						found = true
					}
				}
				if !found {
					c.Fields = append(c.Fields, plan.FieldConfiguration{TypeName: tn, FieldName: fn, HasAuthorizationRule: true})
				}
			}
		},
	})
}

type reqOut struct {
	Subgraph string   `json:"sg"`
	Kind     string   `json:"kind"`
	Roots    []string `json:"roots"`
	Query    string   `json:"query"`
}

func rootsOf(query string) (string, []string, error) {
	doc, err := parser.ParseQuery(&ast.Source{Input: query})
	if err != nil {
		return "", nil, err
	}
	if len(doc.Operations) != 1 {
		return "", nil, fmt.Errorf("%d operations", len(doc.Operations))
	}
	op := doc.Operations[0]
	rootType := "Query"
	switch op.Operation {
	case ast.Mutation:
		rootType = "Mutation"
	case ast.Subscription:
		rootType = "Subscription"
	}
	var roots []string
	add := func(s string) {
		for _, r := range roots {
			if r == s {
				return
			}
		}
		roots = append(roots, s)
	}
	var inFrag func(t string, set ast.SelectionSet)
	inFrag = func(t string, set ast.SelectionSet) {
		for _, sel := range set {
			switch x := sel.(type) {
			case *ast.Field:
				if x.Name != "__typename" {
					add(t + "." + x.Name)
				}
			case *ast.InlineFragment:
				tt := t
				if x.TypeCondition != "" {
					tt = x.TypeCondition
				}
				inFrag(tt, x.SelectionSet)
			case *ast.FragmentSpread:
				if d := doc.Fragments.ForName(x.Name); d != nil {
					inFrag(d.TypeCondition, d.SelectionSet)
				}
			}
		}
	}
	for _, sel := range op.SelectionSet {
		f, ok := sel.(*ast.Field)
		if !ok {
			return "", nil, fmt.Errorf("top-level selection is not a field")
		}
		if f.Name == "_entities" {
			inFrag("_Entity", f.SelectionSet)
			continue
		}
		if f.Name != "__typename" {
			add(rootType + "." + f.Name)
		}
	}
	return string(op.Operation), roots, nil
}

type errOut struct {
	Frame   int      `json:"frame"`
	HasPath bool     `json:"haspath"`
	Path    []string `json:"path"`
	Msg     string   `json:"msg"`
	Code    string   `json:"code"`
}

type caseOut struct {
	ID       string   `json:"id"`
	Op       string   `json:"op"`
	Mode     string   `json:"mode"`
	Err      string   `json:"err"`
	Frames   []string `json:"frames"`
	Cum      []any    `json:"cum"`   // tagged cumulative data after frame i
	Orphans  []any    `json:"orph"`  // incremental data whose anchor was never delivered, rooted by a skeleton
	Final    string   `json:"final"` // compact JSON of the last cumulative data
	Errors   []errOut `json:"errors"`
	Requests []reqOut `json:"requests"`
	Asked    []string `json:"asked"`
	Problem  string   `json:"problem"` // harness-level problem (frame not parseable, ...)
	Panic    string   `json:"panic"`
}

func (v *JV) compact() string {
	var b strings.Builder
	var w func(x *JV)
	w = func(x *JV) {
		switch x.K {
		case 'o':
			b.WriteByte('{')
			for i, k := range x.Keys {
				if i > 0 {
					b.WriteByte(',')
				}
				kb, _ := json.Marshal(k)
				b.Write(kb)
				b.WriteByte(':')
				w(x.Vals[i])
			}
			b.WriteByte('}')
		case 'l':
			b.WriteByte('[')
			for i, e := range x.Items {
				if i > 0 {
					b.WriteByte(',')
				}
				w(e)
			}
			b.WriteByte(']')
		case 's':
			sb, _ := json.Marshal(x.S)
			b.Write(sb)
		case 'n', 'b':
			b.WriteString(x.S)
		default:
			b.WriteString("null")
		}
	}
	w(v)
	return b.String()
}

func collectErrors(frame int, prefix []string, errs *JV, out *[]errOut) {
	if errs == nil || errs.K != 'l' {
		return
	}
	for _, e := range errs.Items {
		eo := errOut{Frame: frame, Path: []string{}}
		if m := e.get("message"); m != nil && m.K == 's' {
			eo.Msg = m.S
		}
		if c := e.get("extensions").get("code"); c != nil && c.K == 's' {
			eo.Code = c.S
		}
		if p, ok := pathOf(e.get("path")); ok {
			eo.HasPath = true
			eo.Path = p
		}
		_ = prefix
		*out = append(*out, eo)
	}
}

// digest turns the frames of one execution into cumulative payloads and the list of errors.
func digest(frames [][]byte, co *caseOut) {
	var cum *JV
	pending := map[string][]string{}
	for i, fr := range frames {
		co.Frames = append(co.Frames, string(fr))
		v, err := parseJV(fr)
		if err != nil || v.K != 'o' {
			co.Problem = fmt.Sprintf("frame %d is not a JSON object: %v", i, err)
			return
		}
		collectErrors(i, nil, v.get("errors"), &co.Errors)
		if d := v.get("data"); d != nil {
			if cum == nil {
				cum = d.clone()
			} else {
				co.Problem = fmt.Sprintf("frame %d carries a second top-level data member", i)
				return
			}
		}
		if p := v.get("pending"); p != nil && p.K == 'l' {
			for _, e := range p.Items {
				id := e.get("id")
				path, ok := pathOf(e.get("path"))
				if id == nil || !ok {
					co.Problem = fmt.Sprintf("frame %d: malformed pending entry", i)
					return
				}
				pending[id.S] = path
			}
		}
		if inc := v.get("incremental"); inc != nil && inc.K == 'l' {
			for _, e := range inc.Items {
				id := e.get("id")
				if id == nil {
					co.Problem = fmt.Sprintf("frame %d: incremental entry without id", i)
					return
				}
				base, ok := pending[id.S]
				if !ok {
					co.Problem = fmt.Sprintf("frame %d: incremental entry for unknown pending id %s", i, id.S)
					return
				}
				path := append([]string(nil), base...)
				if sp, ok := pathOf(e.get("subPath")); ok {
					path = append(path, sp...)
				}
				collectErrors(i, path, e.get("errors"), &co.Errors)
				if d := e.get("data"); d != nil && cum != nil {
					target := navigate(cum, path)
					if target == nil || target.K != 'o' {
						// data for an anchor the client never received (stream well-formedness is C10's business):
						// keep it as a payload of its own, rooted by a skeleton along the path
						co.Orphans = append(co.Orphans, skeleton(path, d.clone()).tag())
						continue
					}
					merge(target, d.clone())
				}
			}
		}
		if cp := v.get("completed"); cp != nil && cp.K == 'l' {
			for _, e := range cp.Items {
				collectErrors(i, nil, e.get("errors"), &co.Errors)
			}
		}
		if cum == nil {
			cum = &JV{K: 'z'}
		}
		co.Cum = append(co.Cum, cum.clone().tag())
		co.Final = cum.compact()
	}
	if len(frames) == 0 {
		co.Cum = []any{}
	}
}

func runCase(env *fedenv.Env, c *caseIn) (co caseOut) {
	co = caseOut{ID: c.ID, Op: c.Op, Mode: c.Mode, Frames: []string{}, Cum: []any{}, Orphans: []any{}, Errors: []errOut{}, Requests: []reqOut{}, Asked: []string{}}
	defer func() {
		if r := recover(); r != nil {
			co.Panic = fmt.Sprint(r)
		}
	}()
	env.Reset()
	a := &authorizer{deny: map[string]bool{}, fail: map[string]bool{}}
	for _, d := range c.Deny {
		a.deny[d] = true
	}
	for _, d := range c.Fail {
		a.fail[d] = true
	}
	var opts []engine.ExecutionOptions
	switch c.Mode {
	case "post":
		opts = append(opts, engine.WithAuthorizer(a))
	case "batch":
		opts = append(opts, engine.WithPreFetchFieldAuthorizer(batchAuthorizer{a}))
	case "both":
		opts = append(opts, engine.WithAuthorizer(a), engine.WithPreFetchFieldAuthorizer(batchAuthorizer{a}))
	}
	ctx, cancel := context.WithTimeout(context.Background(), 30*time.Second)
	defer cancel()
	res, err := env.ExecuteFull(ctx, c.Text, c.Vars, "", opts...)
	if err != nil {
		co.Err = err.Error()
	}
	if res != nil {
		digest(res.Frames, &co)
	}
	for _, x := range env.Exchanges() {
		kind, roots, perr := rootsOf(x.Query)
		if perr != nil {
			co.Problem = fmt.Sprintf("subgraph request not parseable: %v: %s", perr, x.Query)
		}
		if roots == nil {
			roots = []string{}
		}
		co.Requests = append(co.Requests, reqOut{Subgraph: x.Subgraph, Kind: kind, Roots: roots, Query: x.Query})
	}
	// parallel fetches arrive in scheduler order: make the record deterministic
	sort.SliceStable(co.Requests, func(i, j int) bool {
		if co.Requests[i].Subgraph != co.Requests[j].Subgraph {
			return co.Requests[i].Subgraph < co.Requests[j].Subgraph
		}
		return co.Requests[i].Query < co.Requests[j].Query
	})
	a.mu.Lock()
	co.Asked = append(co.Asked, a.asked...)
	a.mu.Unlock()
	return co
}

func runCases(in, out string, par int) {
	var cases []*caseIn
	forEachLine(in, func(line []byte) {
		c := &caseIn{}
		if err := json.Unmarshal(line, c); err != nil {
			fatal(err)
		}
		cases = append(cases, c)
	})
	// group by protect set: one Env (one planner configuration) per group
	groups := map[string][]int{}
	var order []string
	for i, c := range cases {
		sort.Strings(c.Protect)
		k := strings.Join(c.Protect, ",")
		if c.Fresh {
			k = fmt.Sprintf("fresh-%d", i)
		}
		if _, ok := groups[k]; !ok {
			order = append(order, k)
		}
		groups[k] = append(groups[k], i)
	}
	results := make([]caseOut, len(cases))
	work := make(chan string)
	var wg sync.WaitGroup
	var failMu sync.Mutex
	var failure error
	for w := 0; w < par; w++ {
		wg.Add(1)
		go func() {
			defer wg.Done()
			for k := range work {
				idx := groups[k]
				env, err := newEnv(cases[idx[0]].Protect)
				if err != nil {
					failMu.Lock()
					failure = err
					failMu.Unlock()
					continue
				}
				for _, i := range idx {
					results[i] = runCase(env, cases[i])
				}
				env.Close()
			}
		}()
	}
	for _, k := range order {
		work <- k
	}
	close(work)
	wg.Wait()
	if failure != nil {
		fatal(failure)
	}
	w := openOut(out)
	defer w.close()
	for i := range results {
		w.write(results[i])
	}
	fmt.Fprintf(os.Stderr, "authz: %d cases, %d engine configurations\n", len(cases), len(order))
}

// ------------------------------------------------------------------------------------------------ io

type outFile struct {
	f *os.File
	w *bufio.Writer
}

func openOut(path string) *outFile {
	f, err := os.Create(path)
	if err != nil {
		fatal(err)
	}
	return &outFile{f: f, w: bufio.NewWriterSize(f, 1<<20)}
}

func (o *outFile) write(v any) {
	var buf bytes.Buffer
	enc := json.NewEncoder(&buf)
	enc.SetEscapeHTML(false)
	if err := enc.Encode(v); err != nil {
		fatal(err)
	}
	o.w.Write(buf.Bytes())
}

func (o *outFile) close() {
	o.w.Flush()
	o.f.Close()
}

func forEachLine(path string, fn func([]byte)) {
	f, err := os.Open(path)
	if err != nil {
		fatal(err)
	}
	defer f.Close()
	sc := bufio.NewScanner(f)
	sc.Buffer(make([]byte, 1<<20), 1<<28)
	for sc.Scan() {
		line := bytes.TrimSpace(sc.Bytes())
		if len(line) == 0 {
			continue
		}
		fn(append([]byte(nil), line...))
	}
	if err := sc.Err(); err != nil {
		fatal(err)
	}
}

func os_stderr() io.Writer { return os.Stderr }

func main() {
	mode := flag.String("mode", "run", "shape | run | synth | subs")
	in := flag.String("in", "", "input NDJSON")
	out := flag.String("out", "", "output NDJSON")
	par := flag.Int("par", 8, "parallel engine configurations")
	flag.Parse()
	if *in == "" || *out == "" {
		fatal(fmt.Errorf("-in and -out are required"))
	}
	switch *mode {
	case "shape":
		runShape(*in, *out)
	case "run":
		runCases(*in, *out, *par)
	case "synth":
		runSynth(*in, *out)
	case "subs":
		runSubs(*in, *out, *par)
	default:
		fatal(fmt.Errorf("unknown mode %q", *mode))
	}
}
