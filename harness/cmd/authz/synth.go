package main

// Synthetic plans at the resolve level (-mode synth): the planner always gives every mutation root field its own
// request, so "a mutation / subscription request with SEVERAL root fields of which SOME are denied" can only be
// exercised with a hand-built plan.  The plan is built from exported resolve types, post-processed by the real
// postprocess.Processor (fetch tree + AuthorizationCoordinates) and resolved by the real Resolver; the data source
// is a recorder that answers every root field of its request with a sentinel string.

import (
	"bytes"
	"context"
	"encoding/json"
	"fmt"
	"net/http"
	"strings"
	"sync"

	"github.com/wundergraph/graphql-go-tools/v2/pkg/ast"
	"github.com/wundergraph/graphql-go-tools/v2/pkg/engine/datasource/httpclient"
	"github.com/wundergraph/graphql-go-tools/v2/pkg/engine/plan"
	"github.com/wundergraph/graphql-go-tools/v2/pkg/engine/postprocess"
	"github.com/wundergraph/graphql-go-tools/v2/pkg/engine/resolve"
)

type synthIn struct {
	ID      string `json:"id"`
	Kind    string `json:"kind"`    // query | mutation | subscription
	Layout  []int  `json:"layout"`  // root fields per request
	NNFirst bool   `json:"nnfirst"` // first root field is non-null
	Protect []int  `json:"protect"` // root field numbers (1-based)
	Deny    []int  `json:"deny"`
	Mode    string `json:"mode"` // none | post | batch | both
	// kind "collide": two objects with one leaf each, coordinates that collide when concatenated without a separator
	Objects  []collideCoord `json:"objects"`
	ProtectC []string       `json:"protectc"`
	DenyC    []string       `json:"denyc"`
}

type synthSource struct {
	mu     sync.Mutex
	name   string
	query  string
	fields []string
	calls  *[]reqOut
}

func (d *synthSource) Load(_ context.Context, _ http.Header, input []byte) ([]byte, error) {
	kind, roots, err := rootsOf(d.query)
	if err != nil {
		return nil, err
	}
	d.mu.Lock()
	*d.calls = append(*d.calls, reqOut{Subgraph: d.name, Kind: kind, Roots: roots, Query: d.query})
	d.mu.Unlock()
	var b strings.Builder
	b.WriteString(`{"data":{`)
	for i, f := range d.fields {
		if i > 0 {
			b.WriteByte(',')
		}
		fmt.Fprintf(&b, `%q:"value-of-%s-8c1f"`, f, f)
	}
	b.WriteString(`}}`)
	return []byte(b.String()), nil
}

func (d *synthSource) LoadWithFiles(ctx context.Context, h http.Header, input []byte, _ []*httpclient.FileUpload) ([]byte, error) {
	return d.Load(ctx, h, input)
}

func rootTypeOf(kind string) (string, ast.OperationType) {
	switch kind {
	case "mutation":
		return "Mutation", ast.OperationTypeMutation
	case "subscription":
		return "Subscription", ast.OperationTypeSubscription
	}
	return "Query", ast.OperationTypeQuery
}

func has(xs []int, x int) bool {
	for _, y := range xs {
		if y == x {
			return true
		}
	}
	return false
}

func runSynthCase(resolver *resolve.Resolver, c *synthIn) (co caseOut) {
	co = caseOut{ID: c.ID, Op: "synth", Mode: c.Mode, Frames: []string{}, Cum: []any{}, Orphans: []any{}, Errors: []errOut{}, Requests: []reqOut{}, Asked: []string{}}
	defer func() {
		if r := recover(); r != nil {
			co.Panic = fmt.Sprint(r)
		}
	}()
	rootType, opType := rootTypeOf(c.Kind)
	var calls []reqOut
	var callsMu sync.Mutex
	_ = callsMu
	data := &resolve.Object{}
	var raw []*resolve.FetchItem
	n := 0
	for fi, k := range c.Layout {
		ds := fmt.Sprintf("ds%d", fi+1)
		src := &synthSource{name: ds, calls: &calls}
		var roots []resolve.GraphCoordinate
		for j := 0; j < k; j++ {
			n++
			name := fmt.Sprintf("f%d", n)
			protected := has(c.Protect, n)
			src.fields = append(src.fields, name)
			roots = append(roots, resolve.GraphCoordinate{TypeName: rootType, FieldName: name, HasAuthorizationRule: protected})
			data.Fields = append(data.Fields, &resolve.Field{
				Name: []byte(name),
				Info: &resolve.FieldInfo{
					Name: name, NamedType: "String", ParentTypeNames: []string{rootType}, ExactParentTypeName: rootType,
					Source:               resolve.TypeFieldSource{IDs: []string{ds}, Names: []string{ds}},
					HasAuthorizationRule: protected,
				},
				Value: &resolve.String{Path: []string{name}, Nullable: !(c.NNFirst && n == 1)},
			})
		}
		src.query = c.Kind + "{" + strings.Join(src.fields, " ") + "}"
		if c.Kind == "query" {
			src.query = "{" + strings.Join(src.fields, " ") + "}"
		}
		input, _ := json.Marshal(map[string]any{"method": "POST", "url": "http://" + ds, "body": map[string]string{"query": src.query}})
		raw = append(raw, &resolve.FetchItem{Fetch: &resolve.SingleFetch{
			FetchConfiguration: resolve.FetchConfiguration{
				Input:      string(input),
				DataSource: src,
				PostProcessing: resolve.PostProcessingConfiguration{
					SelectResponseDataPath:   []string{"data"},
					SelectResponseErrorsPath: []string{"errors"},
				},
			},
			FetchDependencies:    resolve.FetchDependencies{FetchID: fi},
			DataSourceIdentifier: []byte("synth"),
			Info:                 &resolve.FetchInfo{DataSourceID: ds, DataSourceName: ds, OperationType: opType, RootFields: roots},
		}})
	}
	response := &resolve.GraphQLResponse{
		Data:       data,
		RawFetches: raw,
		Info:       &resolve.GraphQLResponseInfo{OperationType: opType},
	}
	p := &plan.SynchronousResponsePlan{Response: response}
	postprocess.NewProcessor().Process(p)

	a := &authorizer{deny: map[string]bool{}, fail: map[string]bool{}}
	for _, d := range c.Deny {
		a.deny[fmt.Sprintf("%s.f%d", rootType, d)] = true
	}
	rctx := resolve.NewContext(context.Background())
	switch c.Mode {
	case "post":
		rctx.SetAuthorizer(a)
	case "batch":
		rctx.SetPreFetchFieldAuthorizer(batchAuthorizer{a})
	case "both":
		rctx.SetAuthorizer(a)
		rctx.SetPreFetchFieldAuthorizer(batchAuthorizer{a})
	}
	var buf bytes.Buffer
	if _, err := resolver.ResolveGraphQLResponse(rctx, response, nil, &buf); err != nil {
		co.Err = err.Error()
	}
	if buf.Len() > 0 {
		digest([][]byte{buf.Bytes()}, &co)
	}
	co.Requests = append(co.Requests, calls...)
	co.Asked = append(co.Asked, a.asked...)
	return co
}

func runSynth(in, out string) {
	resolver := resolve.New(context.Background(), resolve.ResolverOptions{
		MaxConcurrency: 64, PropagateSubgraphErrors: true, PropagateSubgraphStatusCodes: true,
	})
	w := openOut(out)
	defer w.close()
	n := 0
	forEachLine(in, func(line []byte) {
		c := &synthIn{}
		if err := json.Unmarshal(line, c); err != nil {
			fatal(err)
		}
		if c.Kind == "collide" {
			w.write(runCollideCase(resolver, c))
		} else {
			w.write(runSynthCase(resolver, c))
		}
		n++
	})
	fmt.Fprintf(os_stderr(), "authz: %d synthetic plans\n", n)
}
