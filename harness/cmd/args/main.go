// Command args replays TLC-generated argument-value cases (spec/core/GQLLiteral.tla, Gen_C15*.tla)
// into a real execution engine with ONE GraphQL subgraph and records, per case, what the code did:
//
//   - the operation and Document.Input.Variables after the engine's own normalization steps
//     (normalize, validate, normalize with variable extraction), evaluated into a tagged value
//   - the request the subgraph received (query text + variables object), evaluated with an
//     independent parser (vektah/gqlparser) into a tagged value ("what the subgraph computes")
//   - the same for the JSON-variable "twin" of the case (the same value supplied as a variable)
//
// Input (-in): NDJSON, one case per line (shape defined by spec/core/GQLLiteral.tla):
//
//	{"id":"..","ty":"String","expr":EXPR,"vars":[{"name":[cp],"ty":"Int","st":"absent|null|val","j":EXPR,"hasd":bool,"d":EXPR}],"tw":EXPR}
//	EXPR = {"k":"str|bstr|num|enum|bool|null|var|list|obj|omit","text":[cp..],"items":[EXPR..],"keys":[[cp..]..]}
//
// Output (-out): NDJSON, one observation per line (consumed by spec/core/Trace_C15.tla).
// All texts cross the boundary as arrays of Unicode code points; values are uniformly tagged
// records {"t","s","c","k"} (TLC's Json module can read neither null nor fractions).
package main

import (
	"bufio"
	"bytes"
	"context"
	"encoding/json"
	"flag"
	"fmt"
	"io"
	"mime"
	"mime/multipart"
	"net/http"
	"os"
	"runtime/debug"
	"strings"
	"sync"
	"unicode/utf8"

	"github.com/jensneuse/abstractlogger"
	"github.com/wundergraph/astjson"
	gqlast "github.com/vektah/gqlparser/v2/ast"
	gqlparser "github.com/vektah/gqlparser/v2/parser"

	"github.com/wundergraph/graphql-go-tools/execution/engine"
	"github.com/wundergraph/graphql-go-tools/execution/graphql"
	"github.com/wundergraph/graphql-go-tools/v2/pkg/astnormalization"
	"github.com/wundergraph/graphql-go-tools/v2/pkg/astparser"
	"github.com/wundergraph/graphql-go-tools/v2/pkg/astprinter"
	"github.com/wundergraph/graphql-go-tools/v2/pkg/astvalidation"
	"github.com/wundergraph/graphql-go-tools/v2/pkg/engine/datasource/graphql_datasource"
	"github.com/wundergraph/graphql-go-tools/v2/pkg/engine/datasource/httpclient"
	"github.com/buger/jsonparser"
	"github.com/wundergraph/graphql-go-tools/v2/pkg/engine/plan"
	"github.com/wundergraph/graphql-go-tools/v2/pkg/engine/resolve"
)

// ------------------------------------------------------------------ schema (mirrored in GQLLiteral.tla: ElemType / InFieldType)

type tyInfo struct {
	gql  string // GraphQL type text
	elem string // element type code for lists
	dflt string // argument default of the root field (GraphQL literal), "" = none
}

var types = map[string]tyInfo{
	"Int": {gql: "Int"}, "Float": {gql: "Float"}, "String": {gql: "String"}, "Boolean": {gql: "Boolean"},
	"ID": {gql: "ID"}, "E": {gql: "E"}, "Big": {gql: "Big"}, "In": {gql: "In"}, "NStr": {gql: "String!"},
	"LInt": {gql: "[Int]", elem: "Int"}, "LStr": {gql: "[String]", elem: "String"}, "LE": {gql: "[E]", elem: "E"},
	"LIn": {gql: "[In]", elem: "In"}, "LLInt": {gql: "[[Int]]", elem: "LInt"}, "LBig": {gql: "[Big]", elem: "Big"},
	// input objects whose fields have default values, lists of them
	"InD": {gql: "InD"}, "InD2": {gql: "InD2"}, "LInD": {gql: "[InD]", elem: "InD"}, "LInD2": {gql: "[InD2]", elem: "InD2"},
	// A*: same GraphQL type as the base, the root field has an argument default (mirrors GQLLiteral!Base / ArgDefault)
	"AInt": {gql: "Int", elem: "", dflt: "7"}, "AStr": {gql: "String", dflt: `"d\t\"q"`}, "AE": {gql: "E", dflt: "B"},
	"ALInt": {gql: "[Int]", elem: "Int", dflt: "[1, null]"}, "AInD": {gql: "InD", dflt: `{s: "given"}`},
	"ALInD2": {gql: "[InD2]", elem: "InD2", dflt: "[{}, {x: 2}]"},
}

// root fields f_<code>(a: T [= default]); M is the multi-argument field (see mFields)
var typeOrder = []string{"Int", "Float", "String", "Boolean", "ID", "E", "Big", "In", "NStr", "LInt", "LStr", "LE", "LIn", "LLInt", "LBig",
	"InD", "LInD", "AInt", "AStr", "AE", "ALInt", "AInD", "ALInD2"}

var base = map[string]string{"AInt": "Int", "AStr": "String", "AE": "E", "ALInt": "LInt", "AInD": "InD", "ALInD2": "LInD2"}

func baseOf(ty string) string {
	if b, ok := base[ty]; ok {
		return b
	}
	return ty
}

var upTypes = []string{"Int", "String", "ID", "In", "LInt"}

type fieldDef struct{ name, ty, dflt string }

// input object types (mirrors GQLLiteral!InFieldTy / ObjKeyTy / FieldDefault)
var objFields = map[string][]fieldDef{
	"In": {{"i", "Int", ""}, {"s", "String", ""}, {"f", "Float", ""}, {"b", "Boolean", ""}, {"e", "E", ""}, {"d", "ID", ""}, {"g", "Big", ""},
		{"l", "LInt", ""}, {"ls", "LStr", ""}, {"o", "In", ""}, {"lo", "LIn", ""}},
	"InD": {{"i", "Int", "7"}, {"s", "String", `"d\t\"q"`}, {"e", "E", "B"}, {"f", "Float", "1.5e1"}, {"l", "LInt", "[1, 2]"},
		{"o", "InD2", `{y: "z"}`}, {"lo", "LInD2", "[{x: 1}, {}]"}, {"n", "Int", ""}},
	"InD2": {{"x", "Int", "9"}, {"y", "String", ""}},
}

// the arguments of f_M: the case treats them as the fields of a pseudo object of "type" M
var mFields = []fieldDef{{"a", "Int", ""}, {"b", "Int", ""}, {"c", "ID", ""}, {"d", "String", ""}, {"e", "LInt", ""}, {"f", "Float", ""}}

func schemaSDL() string {
	var b strings.Builder
	b.WriteString("schema { query: Query }\nscalar Big\nscalar Upload\nenum E { A B }\n")
	for _, t := range []string{"In", "InD", "InD2"} {
		fmt.Fprintf(&b, "input %s {", t)
		for _, f := range objFields[t] {
			fmt.Fprintf(&b, " %s: %s", f.name, types[f.ty].gql)
			if f.dflt != "" {
				fmt.Fprintf(&b, " = %s", f.dflt)
			}
		}
		b.WriteString(" }\n")
	}
	b.WriteString("type Query {\n")
	for _, t := range typeOrder {
		fmt.Fprintf(&b, "  f_%s(a: %s", t, types[t].gql)
		if types[t].dflt != "" {
			fmt.Fprintf(&b, " = %s", types[t].dflt)
		}
		b.WriteString("): String\n")
	}
	// upload lane: the same argument next to a file (multipart request path, Source.LoadWithFiles)
	for _, t := range upTypes {
		fmt.Fprintf(&b, "  u_%s(a: %s, file: Upload): String\n", t, types[t].gql)
	}
	b.WriteString("  f_M(")
	for i, f := range mFields {
		if i > 0 {
			b.WriteString(", ")
		}
		fmt.Fprintf(&b, "%s: %s", f.name, types[f.ty].gql)
	}
	b.WriteString("): String\n}\n")
	return b.String()
}

// ------------------------------------------------------------------ case model

type Expr struct {
	K     string  `json:"k"`
	Text  []int   `json:"text"`
	Items []Expr  `json:"items"`
	Keys  [][]int `json:"keys"`
}

type Var struct {
	Name []int  `json:"name"`
	Ty   string `json:"ty"`
	St   string `json:"st"`
	J    Expr   `json:"j"`
	HasD bool   `json:"hasd"`
	D    Expr   `json:"d"`
}

type Case struct {
	ID   string `json:"id"`
	Ty   string `json:"ty"`
	Expr Expr   `json:"expr"`
	Vars []Var  `json:"vars"`
	Tw   Expr   `json:"tw"`
	// Comp adds a companion root field  zz: f_Int(a: $zz)  whose variable is none | absent | null | val:
	// a second, independent variable in the same request (undefined-variable tracking is per request).
	Comp string `json:"comp"`
	// Up sends the request as a file upload: field u_<ty>(a: .., file: $file), variables.file = null, one file attached
	// (multipart request to the subgraph, graphql_datasource Source.LoadWithFiles).
	Up bool `json:"up"`
	// Pre puts a sibling field  zq: f_<ty>(a: "<text of the main literal>")  BEFORE the main field (custom scalar / ID
	// positions, main literal without quotes): two extracted literals of the same type whose JSON texts differ only by the
	// quotes must stay two variables (variable de-duplication in variables_extraction.go variableExists).
	Pre bool `json:"pre"`
}

// V is the uniformly tagged value crossing Go -> TLC.
// t: x (not provided) | n | s | numraw | e | b | l | o | err
type V struct {
	T string  `json:"t"`
	S []int   `json:"s"`
	C []V     `json:"c"`
	K [][]int `json:"k"`
}

func mk(t string) V { return V{T: t, S: []int{}, C: []V{}, K: [][]int{}} }
func mkErr(msg string) V {
	v := mk("err")
	v.S = cps(msg)
	return v
}

func cps(s string) []int {
	out := make([]int, 0, len(s))
	for _, r := range s {
		out = append(out, int(r))
	}
	return out
}

func str(cp []int) string {
	var b strings.Builder
	for _, c := range cp {
		b.WriteRune(rune(c))
	}
	return b.String()
}

// Obs is what is observed at one observation point (after normalization / at the subgraph).
type Obs struct {
	OK     bool   `json:"ok"`     // the stage was reached (document accepted / subgraph called)
	Valid  bool   `json:"valid"`  // strict JSON validity of the variables object
	HasKey bool   `json:"haskey"` // the variable the argument refers to is a key of the variables object
	HasArg bool   `json:"hasarg"` // the argument is present in the operation text
	Val    V      `json:"val"`    // value of the argument evaluated under the variables
	Multi  bool   `json:"multi"`  // the subgraph request was multipart/form-data (file upload path)
	Comp   string `json:"comp"`   // state in which the companion variable $zz arrived: none | absent | null | val | other
	Err    string `json:"err"`
	Query  string `json:"query"`
	Vars   string `json:"vars"`
}

type Line struct {
	ID    string `json:"id"`
	C     Case   `json:"c"`
	Query string `json:"query"`
	QVars string `json:"qvars"`
	Norm  Obs    `json:"norm"`
	Sub   Obs    `json:"sub"`
	HasTw bool   `json:"hastw"`
	TwSub Obs    `json:"twsub"`
	Panic string `json:"panic"`
}

// ------------------------------------------------------------------ rendering the case into GraphQL / JSON text

func renderExpr(b *strings.Builder, e Expr) {
	switch e.K {
	case "str":
		b.WriteByte('"')
		b.WriteString(str(e.Text))
		b.WriteByte('"')
	case "bstr":
		b.WriteString(`"""`)
		b.WriteString(str(e.Text))
		b.WriteString(`"""`)
	case "num", "enum", "bool", "null":
		b.WriteString(str(e.Text))
	case "var":
		b.WriteByte('$')
		b.WriteString(str(e.Text))
	case "list":
		b.WriteByte('[')
		for i, it := range e.Items {
			if i > 0 {
				b.WriteString(", ")
			}
			renderExpr(b, it)
		}
		b.WriteByte(']')
	case "obj":
		b.WriteByte('{')
		for i, it := range e.Items {
			if i > 0 {
				b.WriteString(", ")
			}
			b.WriteString(str(e.Keys[i]))
			b.WriteString(": ")
			renderExpr(b, it)
		}
		b.WriteByte('}')
	default:
		panic("renderExpr: bad kind " + e.K)
	}
}

// renderJSON renders a JSON-mode expression: strings are JSON string *spellings* (verbatim between the quotes),
// numbers are JSON number spellings, enums do not exist (they are strings).
func renderJSON(b *strings.Builder, e Expr) {
	switch e.K {
	case "str":
		b.WriteByte('"')
		b.WriteString(str(e.Text))
		b.WriteByte('"')
	case "num", "bool", "null":
		b.WriteString(str(e.Text))
	case "list":
		b.WriteByte('[')
		for i, it := range e.Items {
			if i > 0 {
				b.WriteByte(',')
			}
			renderJSON(b, it)
		}
		b.WriteByte(']')
	case "obj":
		b.WriteByte('{')
		for i, it := range e.Items {
			if i > 0 {
				b.WriteByte(',')
			}
			b.WriteByte('"')
			b.WriteString(str(e.Keys[i]))
			b.WriteString(`":`)
			renderJSON(b, it)
		}
		b.WriteByte('}')
	default:
		panic("renderJSON: bad kind " + e.K)
	}
}

func buildRequest(c Case) (query string, vars string) {
	var q strings.Builder
	comp := c.Comp != "" && c.Comp != "none"
	if len(c.Vars) > 0 || comp || c.Up {
		q.WriteString("query(")
		if c.Up {
			q.WriteString("$file: Upload")
			if len(c.Vars) > 0 || comp {
				q.WriteString(", ")
			}
		}
		for i, v := range c.Vars {
			if i > 0 {
				q.WriteString(", ")
			}
			fmt.Fprintf(&q, "$%s: %s", str(v.Name), types[v.Ty].gql)
			if v.HasD {
				q.WriteString(" = ")
				renderExpr(&q, v.D)
			}
		}
		if comp {
			if len(c.Vars) > 0 {
				q.WriteString(", ")
			}
			q.WriteString("$zz: Int")
		}
		q.WriteString(") ")
	}
	if c.Up {
		fmt.Fprintf(&q, "{ u_%s(", c.Ty)
		if c.Expr.K != "omit" {
			q.WriteString("a: ")
			renderExpr(&q, c.Expr)
			q.WriteString(", ")
		}
		q.WriteString("file: $file)")
	} else {
		q.WriteString("{ ")
		if c.Pre && c.Ty != "M" && c.Expr.K != "omit" {
			var t strings.Builder
			renderExpr(&t, c.Expr)
			if txt := t.String(); txt != "" && !strings.ContainsAny(txt, "\"\\$\n\r") {
				fmt.Fprintf(&q, "zq: f_%s(a: \"%s\") ", c.Ty, txt)
			}
		}
		fmt.Fprintf(&q, "f_%s", c.Ty)
	}
	if c.Up {
		// arguments already written
	} else if c.Ty == "M" {
		// the pseudo object's fields are the arguments of the field
		if len(c.Expr.Items) > 0 {
			q.WriteString("(")
			for i, it := range c.Expr.Items {
				if i > 0 {
					q.WriteString(", ")
				}
				q.WriteString(str(c.Expr.Keys[i]))
				q.WriteString(": ")
				renderExpr(&q, it)
			}
			q.WriteString(")")
		}
	} else if c.Expr.K != "omit" {
		q.WriteString("(a: ")
		renderExpr(&q, c.Expr)
		q.WriteString(")")
	}
	if comp {
		q.WriteString(" zz: f_Int(a: $zz)")
	}
	q.WriteString(" }")
	var j strings.Builder
	j.WriteByte('{')
	first := true
	if c.Up {
		j.WriteString(`"file":null`)
		first = false
	}
	switch c.Comp {
	case "null":
		if !first {
			j.WriteByte(',')
		}
		j.WriteString(`"zz":null`)
		first = false
	case "val":
		if !first {
			j.WriteByte(',')
		}
		j.WriteString(`"zz":7`)
		first = false
	}
	for _, v := range c.Vars {
		if v.St == "absent" {
			continue
		}
		if !first {
			j.WriteByte(',')
		}
		first = false
		fmt.Fprintf(&j, `"%s":`, str(v.Name))
		if v.St == "null" {
			j.WriteString("null")
		} else {
			renderJSON(&j, v.J)
		}
	}
	j.WriteByte('}')
	return q.String(), j.String()
}

func buildTwin(c Case) (query string, vars string) {
	var j strings.Builder
	j.WriteString(`{"tw":`)
	renderJSON(&j, c.Tw)
	j.WriteByte('}')
	return fmt.Sprintf("query($tw: %s) { f_%s(a: $tw) }", types[c.Ty].gql, c.Ty), j.String()
}

// ------------------------------------------------------------------ strict JSON reader (order + duplicates preserved, numbers as spellings)

type jnode struct {
	kind string // null bool num str arr obj
	b    bool
	s    string
	arr  []*jnode
	keys []string
	vals []*jnode
}

func strictJSON(b []byte) (*jnode, error) {
	if !utf8.Valid(b) {
		return nil, fmt.Errorf("invalid UTF-8")
	}
	if !json.Valid(b) {
		return nil, fmt.Errorf("not valid JSON")
	}
	dec := json.NewDecoder(bytes.NewReader(b))
	dec.UseNumber()
	n, err := readNode(dec)
	if err != nil {
		return nil, err
	}
	if _, err := dec.Token(); err != io.EOF {
		return nil, fmt.Errorf("trailing data")
	}
	return n, nil
}

func readNode(dec *json.Decoder) (*jnode, error) {
	tok, err := dec.Token()
	if err != nil {
		return nil, err
	}
	switch t := tok.(type) {
	case nil:
		return &jnode{kind: "null"}, nil
	case bool:
		return &jnode{kind: "bool", b: t}, nil
	case json.Number:
		return &jnode{kind: "num", s: string(t)}, nil
	case string:
		return &jnode{kind: "str", s: t}, nil
	case json.Delim:
		switch t {
		case '[':
			n := &jnode{kind: "arr"}
			for dec.More() {
				c, err := readNode(dec)
				if err != nil {
					return nil, err
				}
				n.arr = append(n.arr, c)
			}
			if _, err := dec.Token(); err != nil {
				return nil, err
			}
			return n, nil
		case '{':
			n := &jnode{kind: "obj"}
			for dec.More() {
				k, err := dec.Token()
				if err != nil {
					return nil, err
				}
				ks, ok := k.(string)
				if !ok {
					return nil, fmt.Errorf("non-string key")
				}
				c, err := readNode(dec)
				if err != nil {
					return nil, err
				}
				n.keys = append(n.keys, ks)
				n.vals = append(n.vals, c)
			}
			if _, err := dec.Token(); err != nil {
				return nil, err
			}
			return n, nil
		}
	}
	return nil, fmt.Errorf("unexpected token %v", tok)
}

func (n *jnode) get(key string) (*jnode, int) {
	var found *jnode
	cnt := 0
	for i, k := range n.keys {
		if k == key {
			found = n.vals[i]
			cnt++
		}
	}
	return found, cnt
}

// ------------------------------------------------------------------ the subgraph's (independent) evaluation of an argument

func isList(ty string) bool { return types[ty].elem != "" }

func fieldType(ty, field string) (string, bool) {
	ty = baseOf(ty)
	if ty == "Big" {
		return "Big", true
	}
	fs := objFields[ty]
	if ty == "M" {
		fs = mFields
	}
	for _, f := range fs {
		if f.name == field {
			return f.ty, true
		}
	}
	return "", false
}

func isObjTy(ty string) bool {
	ty = baseOf(ty)
	_, ok := objFields[ty]
	return ok || ty == "Big"
}

func fromJSON(n *jnode, ty string) V {
	ty = baseOf(ty)
	switch n.kind {
	case "null":
		return mk("n")
	case "bool":
		if ty != "Boolean" && ty != "Big" {
			return mkErr("boolean for " + ty)
		}
		v := mk("b")
		if n.b {
			v.S = []int{1}
		} else {
			v.S = []int{0}
		}
		return v
	case "num":
		switch ty {
		case "Int", "Float", "ID", "Big":
		default:
			return mkErr("number for " + ty)
		}
		v := mk("numraw")
		v.S = cps(n.s)
		return v
	case "str":
		switch ty {
		case "E":
			v := mk("e")
			v.S = cps(n.s)
			return v
		case "String", "NStr", "ID", "Big":
			v := mk("s")
			v.S = cps(n.s)
			return v
		}
		return mkErr("string for " + ty)
	case "arr":
		et := types[ty].elem
		if ty == "Big" {
			et = "Big"
		}
		if et == "" {
			return mkErr("list for " + ty)
		}
		v := mk("l")
		for _, c := range n.arr {
			v.C = append(v.C, fromJSON(c, et))
		}
		return v
	case "obj":
		if !isObjTy(ty) {
			return mkErr("object for " + ty)
		}
		v := mk("o")
		for i, k := range n.keys {
			ft, ok := fieldType(ty, k)
			if !ok {
				return mkErr("unknown input field " + k)
			}
			v.K = append(v.K, cps(k))
			v.C = append(v.C, fromJSON(n.vals[i], ft))
		}
		return v
	}
	return mkErr("bad json node")
}

type evalCtx struct {
	vars *jnode
	defs gqlast.VariableDefinitionList
}

// eval follows CoerceArgumentValues / literal coercion of the GraphQL specification:
// a variable without a runtime value evaluates to its default, else "not provided" (x);
// x inside an input object drops the field; x inside a list becomes null.
func (c *evalCtx) eval(v *gqlast.Value, ty string) V {
	ty = baseOf(ty)
	switch v.Kind {
	case gqlast.Variable:
		if c.vars != nil {
			if n, cnt := c.vars.get(v.Raw); cnt == 1 {
				return fromJSON(n, ty)
			} else if cnt > 1 {
				return mkErr("duplicate variable key " + v.Raw)
			}
		}
		if d := c.defs.ForName(v.Raw); d != nil && d.DefaultValue != nil {
			return c.eval(d.DefaultValue, ty)
		}
		return mk("x")
	case gqlast.IntValue, gqlast.FloatValue:
		switch ty {
		case "Int", "Float", "ID", "Big":
		default:
			return mkErr("number literal for " + ty)
		}
		if v.Kind == gqlast.FloatValue && (ty == "Int" || ty == "ID") {
			return mkErr("float literal for " + ty)
		}
		r := mk("numraw")
		r.S = cps(v.Raw)
		return r
	case gqlast.StringValue, gqlast.BlockValue:
		switch ty {
		case "String", "NStr", "ID", "Big":
		default:
			return mkErr("string literal for " + ty)
		}
		r := mk("s")
		r.S = cps(v.Raw)
		return r
	case gqlast.BooleanValue:
		if ty != "Boolean" && ty != "Big" {
			return mkErr("boolean literal for " + ty)
		}
		r := mk("b")
		if v.Raw == "true" {
			r.S = []int{1}
		} else {
			r.S = []int{0}
		}
		return r
	case gqlast.NullValue:
		return mk("n")
	case gqlast.EnumValue:
		if ty != "E" && ty != "Big" {
			return mkErr("enum literal for " + ty)
		}
		r := mk("e")
		r.S = cps(v.Raw)
		return r
	case gqlast.ListValue:
		et := types[ty].elem
		if ty == "Big" {
			et = "Big"
		}
		if et == "" {
			return mkErr("list literal for " + ty)
		}
		r := mk("l")
		for _, ch := range v.Children {
			x := c.eval(ch.Value, et)
			if x.T == "x" {
				x = mk("n")
			}
			r.C = append(r.C, x)
		}
		return r
	case gqlast.ObjectValue:
		if !isObjTy(ty) {
			return mkErr("object literal for " + ty)
		}
		r := mk("o")
		for _, ch := range v.Children {
			ft, ok := fieldType(ty, ch.Name)
			if !ok {
				return mkErr("unknown input field " + ch.Name)
			}
			x := c.eval(ch.Value, ft)
			if x.T == "x" {
				continue
			}
			r.K = append(r.K, cps(ch.Name))
			r.C = append(r.C, x)
		}
		return r
	}
	return mkErr("bad value kind")
}

// observe evaluates argument `a` of root field f_<ty> of the (single) operation in `query` under `varsJSON`.
func observe(query string, varsJSON []byte, ty string) (o Obs) {
	o.OK = true
	o.Query = query
	o.Vars = string(varsJSON)
	o.Val = mk("x")
	var vars *jnode
	o.Valid = true
	if len(bytes.TrimSpace(varsJSON)) > 0 {
		n, err := strictJSON(varsJSON)
		if err != nil {
			o.Valid = false
			o.Err = "variables: " + err.Error()
			o.Val = mkErr(o.Err)
			return o
		}
		if n.kind == "obj" {
			vars = n
			seen := map[string]bool{}
			for _, k := range n.keys {
				if seen[k] {
					o.Valid = false
					o.Err = "variables: duplicate key " + k
				}
				seen[k] = true
			}
		} else if n.kind != "null" {
			o.Valid = false
			o.Err = "variables: not an object"
		}
	}
	doc, perr := gqlparser.ParseQuery(&gqlast.Source{Input: query})
	if perr != nil {
		o.Err = "operation text not parseable by the independent parser: " + perr.Error()
		o.Val = mkErr(o.Err)
		return o
	}
	if len(doc.Operations) != 1 {
		o.Err = "expected exactly one operation"
		o.Val = mkErr(o.Err)
		return o
	}
	op := doc.Operations[0]
	var fld *gqlast.Field
	for _, s := range op.SelectionSet {
		// the companion field is aliased zz; gqlparser sets Alias = Name when there is no alias
		if f, ok := s.(*gqlast.Field); ok && (f.Name == "f_"+ty || f.Name == "u_"+ty) && f.Alias == f.Name {
			fld = f
		}
	}
	o.Comp = "none"
	for _, s := range op.SelectionSet {
		if f, ok := s.(*gqlast.Field); ok && f.Alias == "zz" {
			o.Comp = "other"
			if a := f.Arguments.ForName("a"); a == nil {
				o.Comp = "absent"
			} else if a.Value.Kind == gqlast.Variable {
				var n *jnode
				cnt := 0
				if vars != nil {
					n, cnt = vars.get(a.Value.Raw)
				}
				switch {
				case cnt == 0 && op.VariableDefinitions.ForName(a.Value.Raw) != nil && op.VariableDefinitions.ForName(a.Value.Raw).DefaultValue == nil:
					o.Comp = "absent"
				case cnt == 1 && n.kind == "null":
					o.Comp = "null"
				case cnt == 1 && n.kind == "num" && n.s == "7":
					o.Comp = "val"
				}
			} else if a.Value.Kind == gqlast.NullValue {
				o.Comp = "null"
			} else if a.Value.Kind == gqlast.IntValue && a.Value.Raw == "7" {
				o.Comp = "val"
			}
		}
	}
	if fld == nil {
		o.Err = "root field f_" + ty + " not selected"
		o.Val = mkErr(o.Err)
		return o
	}
	if ty == "M" {
		c := &evalCtx{vars: vars, defs: op.VariableDefinitions}
		v := mk("o")
		for _, a := range fld.Arguments {
			ft, ok := fieldType("M", a.Name)
			if !ok {
				o.Val = mkErr("unknown argument " + a.Name)
				return o
			}
			x := c.eval(a.Value, ft)
			if x.T == "x" {
				continue
			}
			v.K = append(v.K, cps(a.Name))
			v.C = append(v.C, x)
		}
		o.HasArg = len(fld.Arguments) > 0
		o.Val = v
		return o
	}
	arg := fld.Arguments.ForName("a")
	if arg == nil {
		return o // not provided
	}
	o.HasArg = true
	if arg.Value.Kind == gqlast.Variable && vars != nil {
		_, cnt := vars.get(arg.Value.Raw)
		o.HasKey = cnt > 0
	}
	c := &evalCtx{vars: vars, defs: op.VariableDefinitions}
	o.Val = c.eval(arg.Value, ty)
	return o
}

// ------------------------------------------------------------------ the fake subgraph (echo mode) behind http.RoundTripper

type subgraph struct {
	mu    sync.Mutex
	calls int
	query string
	vars  []byte
	raw   []byte
	bad   string
	multi bool
}

func (s *subgraph) reset() {
	s.mu.Lock()
	s.calls, s.query, s.vars, s.raw, s.bad, s.multi = 0, "", nil, nil, "", false
	s.mu.Unlock()
}

func (s *subgraph) RoundTrip(r *http.Request) (*http.Response, error) {
	body, _ := io.ReadAll(r.Body)
	_ = r.Body.Close()
	s.mu.Lock()
	defer s.mu.Unlock()
	s.calls++
	if mt, params, err := mime.ParseMediaType(r.Header.Get("Content-Type")); err == nil && mt == "multipart/form-data" {
		// GraphQL multipart request: the JSON envelope is the form field "operations"
		s.multi = true
		var ops []byte
		mr := multipart.NewReader(bytes.NewReader(body), params["boundary"])
		for {
			part, err := mr.NextPart()
			if err != nil {
				break
			}
			if part.FormName() == "operations" {
				ops, _ = io.ReadAll(part)
			}
		}
		body = ops
	}
	s.raw = body
	resp := `{"data":null}`
	var env struct {
		Query     string          `json:"query"`
		Variables json.RawMessage `json:"variables"`
	}
	if !utf8.Valid(body) || !json.Valid(body) {
		s.bad = "request body is not valid JSON"
	} else if err := json.Unmarshal(body, &env); err != nil {
		s.bad = "request body: " + err.Error()
	} else {
		s.query = env.Query
		s.vars = env.Variables
		// answer every selected root field with a string
		if doc, err := gqlparser.ParseQuery(&gqlast.Source{Input: env.Query}); err == nil && len(doc.Operations) == 1 {
			var b strings.Builder
			b.WriteString(`{"data":{`)
			n := 0
			for _, sel := range doc.Operations[0].SelectionSet {
				if f, ok := sel.(*gqlast.Field); ok {
					if n > 0 {
						b.WriteByte(',')
					}
					n++
					name := f.Alias
					if name == "" {
						name = f.Name
					}
					fmt.Fprintf(&b, `%q:"ok"`, name)
				}
			}
			b.WriteString(`}}`)
			resp = b.String()
		}
	}
	return &http.Response{StatusCode: 200, Header: http.Header{"Content-Type": []string{"application/json"}},
		Body: io.NopCloser(strings.NewReader(resp)), Request: r}, nil
}

// ------------------------------------------------------------------ engine

type worker struct {
	sub    *subgraph
	eng    *engine.ExecutionEngine
	schema *graphql.Schema
}

func newWorker(ctx context.Context) (*worker, error) {
	sdl := schemaSDL()
	schema, err := graphql.NewSchemaFromString(sdl)
	if err != nil {
		return nil, fmt.Errorf("schema: %w", err)
	}
	sub := &subgraph{}
	client := &http.Client{Transport: sub}
	factory, err := graphql_datasource.NewFactory(ctx, client, graphql_datasource.NewGraphQLSubscriptionClient(ctx,
		graphql_datasource.WithUpgradeClient(client), graphql_datasource.WithStreamingClient(client)))
	if err != nil {
		return nil, err
	}
	sc, err := graphql_datasource.NewSchemaConfiguration(sdl, nil)
	if err != nil {
		return nil, err
	}
	custom, err := graphql_datasource.NewConfiguration(graphql_datasource.ConfigurationInput{
		Fetch:               &graphql_datasource.FetchConfiguration{URL: "http://subgraph.verif/graphql", Method: "POST"},
		SchemaConfiguration: sc,
	})
	if err != nil {
		return nil, err
	}
	var fieldNames []string
	var fieldCfg plan.FieldConfigurations
	for _, t := range typeOrder {
		fieldNames = append(fieldNames, "f_"+t)
		fieldCfg = append(fieldCfg, plan.FieldConfiguration{TypeName: "Query", FieldName: "f_" + t, Path: []string{"f_" + t},
			Arguments: []plan.ArgumentConfiguration{{Name: "a", SourceType: plan.FieldArgumentSource}}})
	}
	for _, t := range upTypes {
		fieldNames = append(fieldNames, "u_"+t)
		fieldCfg = append(fieldCfg, plan.FieldConfiguration{TypeName: "Query", FieldName: "u_" + t, Path: []string{"u_" + t},
			Arguments: []plan.ArgumentConfiguration{{Name: "a", SourceType: plan.FieldArgumentSource}, {Name: "file", SourceType: plan.FieldArgumentSource}}})
	}
	fieldNames = append(fieldNames, "f_M")
	var margs []plan.ArgumentConfiguration
	for _, f := range mFields {
		margs = append(margs, plan.ArgumentConfiguration{Name: f.name, SourceType: plan.FieldArgumentSource})
	}
	fieldCfg = append(fieldCfg, plan.FieldConfiguration{TypeName: "Query", FieldName: "f_M", Path: []string{"f_M"}, Arguments: margs})
	ds, err := plan.NewDataSourceConfiguration[graphql_datasource.Configuration]("sub", factory,
		&plan.DataSourceMetadata{RootNodes: []plan.TypeField{{TypeName: "Query", FieldNames: fieldNames}}}, custom)
	if err != nil {
		return nil, err
	}
	conf := engine.NewConfiguration(schema)
	conf.SetDataSources([]plan.DataSource{ds})
	conf.SetFieldConfigurations(fieldCfg)
	eng, err := engine.NewExecutionEngine(ctx, abstractlogger.Noop{}, conf, resolve.ResolverOptions{MaxConcurrency: 64})
	if err != nil {
		return nil, err
	}
	return &worker{sub: sub, eng: eng, schema: schema}, nil
}

// normalizeLikeEngine runs exactly the normalization steps of ExecutionEngine.Execute on a fresh request.
func (w *worker) normalizeLikeEngine(query, vars, ty string) (o Obs) {
	defer func() {
		if r := recover(); r != nil {
			o = Obs{Err: fmt.Sprintf("panic: %v", r), Val: mkErr("panic")}
			o.Query = "PANIC"
		}
	}()
	req := graphql.Request{Query: query}
	if vars != "" {
		req.Variables = json.RawMessage(vars)
	}
	fail := func(stage string, err error, errs fmt.Stringer) Obs {
		msg := stage
		if err != nil {
			msg += ": " + err.Error()
		} else if errs != nil {
			msg += ": " + errs.String()
		}
		return Obs{OK: false, Err: msg, Val: mk("x")}
	}
	res, err := req.Normalize(w.schema,
		astnormalization.WithRemoveFragmentDefinitions(),
		astnormalization.WithRemoveUnusedVariables(),
		astnormalization.WithInlineFragmentSpreads(),
		astnormalization.WithEnableDefer(),
		astnormalization.WithPrevalidationRules(
			astvalidation.DeferStreamOnValidOperations(),
			astvalidation.DeferStreamHaveUniqueLabels(),
			astvalidation.DirectivesAreInValidLocations(),
			astvalidation.StreamAppliedToListFieldsOnly()),
	)
	if err != nil || !res.Successful {
		return fail("normalize", err, errStringer{res.Errors})
	}
	vres, err := req.ValidateForSchema(w.schema)
	if err != nil || !vres.Valid {
		return fail("validate", err, errStringer{vres.Errors})
	}
	res, err = req.Normalize(w.schema, astnormalization.WithExtractVariables(), astnormalization.WithRemoveUnusedVariables())
	if err != nil || !res.Successful {
		return fail("extract", err, errStringer{res.Errors})
	}
	var buf bytes.Buffer
	if err := astprinter.Print(req.Document(), &buf); err != nil {
		return fail("print", err, nil)
	}
	return observe(buf.String(), req.Variables, ty)
}

type errStringer struct{ e interface{ Error() string } }

func (e errStringer) String() string {
	if e.e == nil {
		return ""
	}
	defer func() { _ = recover() }()
	return e.e.Error()
}

func (w *worker) execute(query, vars, ty string, up bool) (o Obs, panicMsg string) {
	w.sub.reset()
	req := graphql.Request{Query: query}
	if vars != "" {
		req.Variables = json.RawMessage(vars)
	}
	rw := graphql.NewEngineResultWriter()
	var err error
	func() {
		defer func() {
			if r := recover(); r != nil {
				panicMsg = fmt.Sprintf("%v\n%s", r, debug.Stack())
			}
		}()
		var opts []engine.ExecutionOptions
		if up {
			// DoMultipartForm removes the file after the request: a fresh one per execution
			f, ferr := os.CreateTemp("", "verif-c15-upload-*.txt")
			if ferr != nil {
				err = ferr
				return
			}
			_, _ = f.WriteString("file content")
			_ = f.Close()
			defer os.Remove(f.Name())
			path := f.Name()
			opts = append(opts, engine.VerifWithResolveContext(func(rc *resolve.Context) {
				rc.Files = []*httpclient.FileUpload{httpclient.NewFileUpload(path, "upload.txt", "variables.file")}
			}))
		}
		err = w.eng.Execute(context.Background(), &req, &rw, opts...)
	}()
	if panicMsg != "" {
		return Obs{Err: "panic", Val: mkErr("panic")}, panicMsg
	}
	w.sub.mu.Lock()
	calls, q, v, raw, bad, multi := w.sub.calls, w.sub.query, append([]byte(nil), w.sub.vars...), string(w.sub.raw), w.sub.bad, w.sub.multi
	w.sub.mu.Unlock()
	if calls == 0 {
		msg := "subgraph not called"
		if err != nil {
			msg += ": " + err.Error()
		} else {
			msg += ": " + rw.String()
		}
		return Obs{OK: false, Err: msg, Val: mk("x")}, ""
	}
	if bad != "" {
		return Obs{OK: true, Valid: false, Err: bad, Val: mkErr(bad), Query: raw}, ""
	}
	if calls > 1 {
		return Obs{OK: true, Valid: true, Err: "subgraph called more than once", Val: mkErr("multiple calls"), Query: raw}, ""
	}
	o = observe(q, v, ty)
	o.Multi = multi
	return o, ""
}

func (w *worker) run(c Case) Line {
	l := Line{ID: c.ID, C: c}
	q, v := buildRequest(c)
	l.Query, l.QVars = q, v
	l.Norm = w.normalizeLikeEngine(q, v, c.Ty)
	if l.Norm.Query == "PANIC" {
		l.Panic = "normalization: " + l.Norm.Err
	}
	var p string
	l.Sub, p = w.execute(q, v, c.Ty, c.Up)
	if p != "" {
		l.Panic = p
	}
	l.TwSub = Obs{Val: mk("x")}
	if c.Tw.K != "omit" {
		l.HasTw = true
		tq, tv := buildTwin(c)
		l.TwSub, p = w.execute(tq, tv, c.Ty, false)
		if p != "" {
			l.Panic = p
		}
	}
	return l
}

// ------------------------------------------------------------------ render mode: the variable renderers of template data sources
//
// Input  (-mode render): {"id","ty","kind":"json|plain|gql|csv","j":EXPR(JSON mode)}
// The value j is the context variable x; a hand-built resolve.InputTemplate renders it through the REAL renderer:
//
//	json   {"v":<x>}                       JSONVariableRenderer            output must be JSON, member v evaluated
//	plain  <x>                             PlainVariableRenderer           string: the raw characters; else JSON
//	gql    {"query":"{f_T(a: <x>)}"}       GraphQLVariableRenderer         output must be JSON, the query is parsed by
//	                                       (built from the type ref)       gqlparser and the argument evaluated at T
//	csv    <x1>,<x2>,..                    CSVVariableRenderer             the raw text
type RCase struct {
	ID   string `json:"id"`
	Ty   string `json:"ty"`
	Kind string `json:"kind"`
	J    Expr   `json:"j"`
}

type RLine struct {
	ID      string `json:"id"`
	C       RCase  `json:"c"`
	Valid   bool   `json:"valid"`   // the rendered input is valid JSON (json, gql) / could be read back (plain non-string)
	OutV    V      `json:"outv"`    // the rendered value read back by the independent parsers
	OutText []int  `json:"outtext"` // the rendered bytes as code points (plain, csv)
	Out     string `json:"out"`
	Err     string `json:"err"`
	Panic   bool   `json:"panic"`
}

func (w *worker) render(c RCase) (l RLine) {
	l = RLine{ID: c.ID, C: c, OutV: mk("x"), OutText: []int{}}
	defer func() {
		if r := recover(); r != nil {
			l.Panic = true
			l.Err = fmt.Sprintf("panic: %v", r)
		}
	}()
	var jb strings.Builder
	jb.WriteString(`{"x":`)
	renderJSON(&jb, c.J)
	jb.WriteByte('}')
	ctx := resolve.NewContext(context.Background())
	ctx.Variables = astjson.MustParseBytes([]byte(jb.String()))
	var r resolve.VariableRenderer
	prefix, suffix := "", ""
	switch c.Kind {
	case "json":
		r = resolve.NewJSONVariableRenderer()
		prefix, suffix = `{"v":`, `}`
	case "plain":
		r = resolve.NewPlainVariableRenderer()
	case "csv":
		r = resolve.NewCSVVariableRenderer(resolve.JsonRootType{Value: jsonparser.Array, Kind: resolve.JsonRootTypeKindSingle})
	case "gql":
		op, rep := astparser.ParseGraphqlDocumentString(fmt.Sprintf("query($x: %s){f_%s(a: $x)}", types[c.Ty].gql, c.Ty))
		if rep.HasErrors() {
			l.Err = "operation for the renderer: " + rep.Error()
			return l
		}
		gr, err := resolve.NewGraphQLVariableRendererFromTypeRefWithoutValidation(&op, w.schema.Document(), op.VariableDefinitions[0].Type)
		if err != nil {
			l.Err = err.Error()
			return l
		}
		r = gr
		prefix, suffix = fmt.Sprintf(`{"query":"{f_%s(a: `, c.Ty), `)}"}`
	default:
		l.Err = "bad kind"
		return l
	}
	tpl := resolve.InputTemplate{Segments: []resolve.TemplateSegment{
		{SegmentType: resolve.StaticSegmentType, Data: []byte(prefix)},
		{SegmentType: resolve.VariableSegmentType, VariableKind: resolve.ContextVariableKind, VariableSourcePath: []string{"x"}, Renderer: r},
		{SegmentType: resolve.StaticSegmentType, Data: []byte(suffix)},
	}}
	var buf bytes.Buffer
	if err := tpl.Render(ctx, nil, &buf); err != nil {
		l.Err = "render: " + err.Error()
		return l
	}
	out := buf.Bytes()
	l.Out = string(out)
	switch c.Kind {
	case "json":
		n, err := strictJSON(out)
		if err != nil {
			l.Err = err.Error()
			return l
		}
		l.Valid = true
		if v, cnt := n.get("v"); cnt == 1 {
			l.OutV = fromJSON(v, c.Ty)
		}
	case "gql":
		n, err := strictJSON(out)
		if err != nil {
			l.Err = err.Error()
			return l
		}
		l.Valid = true
		q, _ := n.get("query")
		if q == nil || q.kind != "str" {
			l.OutV = mkErr("no query")
			return l
		}
		o := observe(q.s, nil, c.Ty)
		l.OutV = o.Val
		l.Err = o.Err
	case "plain":
		l.OutText = cps(string(out))
		if c.J.K != "str" {
			if n, err := strictJSON(out); err == nil {
				l.Valid = true
				l.OutV = fromJSON(n, c.Ty)
			} else {
				l.Err = err.Error()
			}
		} else {
			l.Valid = utf8.Valid(out)
		}
	case "csv":
		l.OutText = cps(string(out))
		l.Valid = utf8.Valid(out)
	}
	return l
}

func runRender(in, out string) {
	f, err := os.Open(in)
	if err != nil {
		fmt.Fprintln(os.Stderr, err)
		os.Exit(2)
	}
	defer f.Close()
	w, err := newWorker(context.Background())
	if err != nil {
		fmt.Fprintln(os.Stderr, "engine setup failed:", err)
		os.Exit(2)
	}
	of, err := os.Create(out)
	if err != nil {
		fmt.Fprintln(os.Stderr, err)
		os.Exit(2)
	}
	bw := bufio.NewWriterSize(of, 1<<20)
	enc := json.NewEncoder(bw)
	enc.SetEscapeHTML(false)
	sc := bufio.NewScanner(f)
	sc.Buffer(make([]byte, 1<<20), 1<<26)
	for sc.Scan() {
		if len(bytes.TrimSpace(sc.Bytes())) == 0 {
			continue
		}
		var c RCase
		if err := json.Unmarshal(sc.Bytes(), &c); err != nil {
			fmt.Fprintln(os.Stderr, "bad case line:", err)
			os.Exit(2)
		}
		l := w.render(c)
		fixExpr(&l.C.J)
		fixV(&l.OutV)
		if l.OutText == nil {
			l.OutText = []int{}
		}
		if err := enc.Encode(&l); err != nil {
			fmt.Fprintln(os.Stderr, err)
			os.Exit(2)
		}
	}
	_ = bw.Flush()
	_ = of.Close()
}

func main() {
	in := flag.String("in", "", "cases NDJSON")
	out := flag.String("out", "", "observations NDJSON")
	nw := flag.Int("workers", 8, "parallel engines")
	printSchema := flag.Bool("schema", false, "print the schema and exit")
	mode := flag.String("mode", "exec", "exec: replay cases through the engine; render: variable renderers on hand-built templates")
	flag.Parse()
	if *mode == "render" {
		runRender(*in, *out)
		return
	}
	if *printSchema {
		fmt.Print(schemaSDL())
		return
	}
	f, err := os.Open(*in)
	if err != nil {
		fmt.Fprintln(os.Stderr, err)
		os.Exit(2)
	}
	defer f.Close()
	var cases []Case
	sc := bufio.NewScanner(f)
	sc.Buffer(make([]byte, 1<<20), 1<<26)
	for sc.Scan() {
		if len(bytes.TrimSpace(sc.Bytes())) == 0 {
			continue
		}
		var c Case
		if err := json.Unmarshal(sc.Bytes(), &c); err != nil {
			fmt.Fprintln(os.Stderr, "bad case line:", err)
			os.Exit(2)
		}
		cases = append(cases, c)
	}
	lines := make([]Line, len(cases))
	var wg sync.WaitGroup
	ctx := context.Background()
	errs := make(chan error, *nw)
	for k := 0; k < *nw; k++ {
		wg.Add(1)
		go func(k int) {
			defer wg.Done()
			w, err := newWorker(ctx)
			if err != nil {
				errs <- err
				return
			}
			for i := k; i < len(cases); i += *nw {
				lines[i] = w.run(cases[i])
			}
		}(k)
	}
	wg.Wait()
	select {
	case err := <-errs:
		fmt.Fprintln(os.Stderr, "engine setup failed:", err)
		os.Exit(2)
	default:
	}
	of, err := os.Create(*out)
	if err != nil {
		fmt.Fprintln(os.Stderr, err)
		os.Exit(2)
	}
	bw := bufio.NewWriterSize(of, 1<<20)
	enc := json.NewEncoder(bw)
	enc.SetEscapeHTML(false)
	for i := range lines {
		normalise(&lines[i])
		if err := enc.Encode(&lines[i]); err != nil {
			fmt.Fprintln(os.Stderr, err)
			os.Exit(2)
		}
	}
	_ = bw.Flush()
	_ = of.Close()
}

// normalise makes every slice non-nil so that TLC never sees JSON null.
func normalise(l *Line) {
	for _, o := range []*Obs{&l.Norm, &l.Sub, &l.TwSub} {
		if o.Comp == "" {
			o.Comp = "none"
		}
	}
	fixCase(&l.C)
	fixV(&l.Norm.Val)
	fixV(&l.Sub.Val)
	fixV(&l.TwSub.Val)
}

func fixV(v *V) {
	if v.T == "" {
		v.T = "x"
	}
	if v.S == nil {
		v.S = []int{}
	}
	if v.C == nil {
		v.C = []V{}
	}
	if v.K == nil {
		v.K = [][]int{}
	}
	for i := range v.C {
		fixV(&v.C[i])
	}
}

func fixExpr(e *Expr) {
	if e.K == "" {
		e.K = "omit"
	}
	if e.Text == nil {
		e.Text = []int{}
	}
	if e.Items == nil {
		e.Items = []Expr{}
	}
	if e.Keys == nil {
		e.Keys = [][]int{}
	}
	for i := range e.Items {
		fixExpr(&e.Items[i])
	}
}

func fixCase(c *Case) {
	fixExpr(&c.Expr)
	fixExpr(&c.Tw)
	if c.Comp == "" {
		c.Comp = "none"
	}
	if c.Vars == nil {
		c.Vars = []Var{}
	}
	for i := range c.Vars {
		if c.Vars[i].Name == nil {
			c.Vars[i].Name = []int{}
		}
		fixExpr(&c.Vars[i].J)
		fixExpr(&c.Vars[i].D)
	}
}
