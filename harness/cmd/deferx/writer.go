package main

import (
	"bytes"
	"errors"
	"sync"
	"sync/atomic"

	"verif/harness/internal/quiesce"
)

// frameRec is one flushed chunk with the goroutines that wrote into it.
type frameRec struct {
	Bytes   []byte
	Writers map[int64]bool
}

// deferWriter is the resolve.SubscriptionResponseWriter handed to engine.Execute. It records every call, detects
// overlapping calls and can park the calling goroutine once, either at the first Write of incremental frame
// ParkAt ("w": the frame is begun, nothing flushed) or on entry of the Flush that would commit it ("f": all bytes
// written, not committed). While parked the controller releases another subgraph response: with the DataBuffer
// lock held across merge+render+flush the other group cannot touch the writer.
type deferWriter struct {
	mu        sync.Mutex
	in        atomic.Int32
	cur       bytes.Buffer
	curW      map[int64]bool
	frames    []frameRec
	calls     []string // w f c e h
	completed int
	overlap   bool
	flushes   atomic.Int32

	// client disconnect: the Flush that would commit frame number cutAt (0 = the initial frame) fails, the request
	// context is cancelled at that moment and every later writer call fails as well
	cutAt     int // -1 = never
	cancel    func()
	failed    atomic.Bool
	afterFail int // Write/Flush calls made after a writer call had already returned an error

	parkKind string
	parkAt   int
	parked   chan struct{} // closed by the controller to resume
	isParked atomic.Bool
	didPark  bool
}

func (w *deferWriter) enter() func() {
	if w.in.Add(1) != 1 {
		w.mu.Lock()
		w.overlap = true
		w.mu.Unlock()
	}
	return func() { w.in.Add(-1) }
}

func (w *deferWriter) maybePark(kind string) {
	w.mu.Lock()
	doit := !w.didPark && w.parkKind == kind && w.parkAt > 0 && len(w.frames) == w.parkAt &&
		(kind == "f" || w.cur.Len() == 0)
	if doit {
		w.didPark = true
	}
	w.mu.Unlock()
	if doit {
		w.isParked.Store(true)
		<-w.parked
		w.isParked.Store(false)
	}
}

var errClientGone = errors.New("verif: client disconnected")

func (w *deferWriter) Write(p []byte) (int, error) {
	defer w.enter()()
	if w.failed.Load() {
		w.mu.Lock()
		w.afterFail++
		w.calls = append(w.calls, "W")
		w.mu.Unlock()
		return 0, errClientGone
	}
	w.maybePark("w")
	g := quiesce.Goid()
	w.mu.Lock()
	w.cur.Write(p)
	if w.curW == nil {
		w.curW = map[int64]bool{}
	}
	w.curW[g] = true
	w.calls = append(w.calls, "w")
	w.mu.Unlock()
	return len(p), nil
}

func (w *deferWriter) Flush() error {
	defer w.enter()()
	if w.failed.Load() {
		w.mu.Lock()
		w.afterFail++
		w.calls = append(w.calls, "X")
		w.mu.Unlock()
		return errClientGone
	}
	w.maybePark("f")
	w.mu.Lock()
	if w.cutAt >= 0 && len(w.frames) == w.cutAt {
		// the client went away: this frame is lost
		w.cur.Reset()
		w.curW = nil
		w.calls = append(w.calls, "x")
		w.mu.Unlock()
		w.failed.Store(true)
		if w.cancel != nil {
			w.cancel()
		}
		return errClientGone
	}
	w.frames = append(w.frames, frameRec{Bytes: append([]byte(nil), w.cur.Bytes()...), Writers: w.curW})
	w.cur.Reset()
	w.curW = nil
	w.calls = append(w.calls, "f")
	w.mu.Unlock()
	w.flushes.Add(1)
	return nil
}

func (w *deferWriter) Complete() {
	defer w.enter()()
	w.mu.Lock()
	w.completed++
	w.calls = append(w.calls, "c")
	w.mu.Unlock()
}

func (w *deferWriter) Heartbeat() error {
	defer w.enter()()
	w.mu.Lock()
	w.calls = append(w.calls, "h")
	w.mu.Unlock()
	return nil
}

func (w *deferWriter) Error(data []byte) {
	defer w.enter()()
	w.mu.Lock()
	w.cur.Write(data)
	w.calls = append(w.calls, "e")
	w.mu.Unlock()
}

// finish moves a trailing unflushed part (synchronous plans never flush) into a last frame.
func (w *deferWriter) finish() {
	w.mu.Lock()
	defer w.mu.Unlock()
	if w.cur.Len() > 0 && !w.failed.Load() {
		w.frames = append(w.frames, frameRec{Bytes: append([]byte(nil), w.cur.Bytes()...), Writers: w.curW})
		w.cur.Reset()
		w.calls = append(w.calls, "F") // implicit
	}
}
