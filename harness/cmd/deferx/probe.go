package main

import (
	"bufio"
	"context"
	"fmt"
	"os"
	"strings"
	"time"

	"verif/harness/internal/fedenv"
)

// probe: read one query per line from stdin (optionally "VARS\t{json}\tquery"), print frames + exchanges. Development aid.
func probe() {
	env, err := fedenv.New(fedenv.Options{})
	if err != nil {
		fmt.Fprintln(os.Stderr, err)
		os.Exit(1)
	}
	defer env.Close()
	sc := bufio.NewScanner(os.Stdin)
	sc.Buffer(make([]byte, 1<<20), 1<<20)
	for sc.Scan() {
		line := strings.TrimSpace(sc.Text())
		if line == "" || strings.HasPrefix(line, "#") {
			continue
		}
		vars := ""
		if strings.HasPrefix(line, "VARS\t") {
			parts := strings.SplitN(line, "\t", 3)
			vars, line = parts[1], parts[2]
		}
		env.Reset()
		ctx, cancel := context.WithTimeout(context.Background(), 10*time.Second)
		res, err := env.ExecuteFull(ctx, line, vars, "")
		cancel()
		fmt.Printf("== %s\n", line)
		if err != nil {
			fmt.Printf("  ERR: %v\n", err)
		}
		if res != nil {
			for i, f := range res.Frames {
				fmt.Printf("  frame %d: %s\n", i, f)
			}
			fmt.Printf("  completed=%d overlap=%v\n", res.Completed, res.Overlap)
		}
		for _, x := range env.Exchanges() {
			fmt.Printf("    #%d %-8s %s\n       <- %s\n", x.Seq, x.Subgraph, x.RequestText, x.ResponseText)
		}
	}
}
