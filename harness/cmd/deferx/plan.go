package main

import (
	"sort"

	"github.com/wundergraph/graphql-go-tools/v2/pkg/engine/plan"
	"github.com/wundergraph/graphql-go-tools/v2/pkg/engine/resolve"
)

type descOut struct {
	ID     int      `json:"id"`
	Parent int      `json:"parent"`
	Path   []string `json:"path"`
	Label  string   `json:"label"`
}

// treeOut mirrors the node shape of spec/resolve/DeferStream.tla BuildTree: k = S|Q|P|-, g = group id, c = children.
type treeOut struct {
	K string    `json:"k"`
	G int       `json:"g"`
	C []treeOut `json:"c"`
}

func exportTree(n *resolve.DeferTreeNode, groups *[]int) treeOut {
	if n == nil {
		return treeOut{K: "-", C: []treeOut{}}
	}
	switch n.Kind {
	case resolve.DeferTreeNodeKindSingle:
		g := 0
		if n.Item != nil {
			g = n.Item.DeferID
			*groups = append(*groups, g)
		}
		return treeOut{K: "S", G: g, C: []treeOut{}}
	case resolve.DeferTreeNodeKindSequence, resolve.DeferTreeNodeKindParallel:
		k := "Q"
		if n.Kind == resolve.DeferTreeNodeKindParallel {
			k = "P"
		}
		out := treeOut{K: k, C: []treeOut{}}
		for _, c := range n.ChildNodes {
			out.C = append(out.C, exportTree(c, groups))
		}
		return out
	}
	return treeOut{K: "?", C: []treeOut{}}
}

// exportPlan returns descriptors (sorted by id), the execution tree and the ids that have a fetch group.
func exportPlan(p plan.Plan) (isDefer bool, descs []descOut, tree treeOut, groups []int) {
	dp, ok := p.(*plan.DeferResponsePlan)
	if !ok || dp.Response == nil {
		return false, []descOut{}, treeOut{K: "-", C: []treeOut{}}, []int{}
	}
	descs = []descOut{}
	for _, d := range dp.Response.DeferDescriptors {
		path := d.Path
		if path == nil {
			path = []string{}
		}
		descs = append(descs, descOut{ID: d.ID, Parent: d.ParentID, Path: path, Label: d.Label})
	}
	sort.Slice(descs, func(i, j int) bool { return descs[i].ID < descs[j].ID })
	groups = []int{}
	tree = exportTree(dp.Response.DeferTree, &groups)
	sort.Ints(groups)
	return true, descs, tree, groups
}

// deferredField is one field of the response plan that carries a defer id, with the id of the nearest enclosing
// deferred object field (owner, 0 = none). The renderer (resolvable.go collectDeferFields / isDeferAncestor) reaches
// a field of defer B inside an object of defer A only if A is an ancestor of B in the descriptors; a field for which
// that does not hold can never be rendered ("orphan").
type deferredField struct {
	Path   []string `json:"path"`
	ID     int      `json:"id"`
	Owner  int      `json:"owner"`
	Orphan bool     `json:"orphan"`
}

func exportDeferredFields(p plan.Plan) []deferredField {
	out := []deferredField{}
	dp, ok := p.(*plan.DeferResponsePlan)
	if !ok || dp.Response == nil || dp.Response.Response == nil || dp.Response.Response.Data == nil {
		return out
	}
	descs := dp.Response.DeferDescriptors
	isAncestorOrSelf := func(a, b int) bool {
		for i := 0; b != 0 && i < 64; i++ {
			if a == b {
				return true
			}
			b = descs[b].ParentID
		}
		return false
	}
	var walkNode func(n resolve.Node, path []string, owner int)
	walkObj := func(o *resolve.Object, path []string, owner int) {
		for _, f := range o.Fields {
			id := 0
			if f.Defer != nil {
				id = f.Defer.DeferID
			}
			fp := append(append([]string(nil), path...), string(f.Name))
			next := owner
			if id != 0 {
				out = append(out, deferredField{Path: fp, ID: id, Owner: owner, Orphan: owner != 0 && !isAncestorOrSelf(owner, id)})
				next = id
			}
			walkNode(f.Value, fp, next)
		}
	}
	walkNode = func(n resolve.Node, path []string, owner int) {
		switch x := n.(type) {
		case *resolve.Object:
			walkObj(x, path, owner)
		case *resolve.Array:
			walkNode(x.Item, path, owner)
		}
	}
	walkObj(dp.Response.Response.Data, nil, 0)
	return out
}
