package main

import (
	"bytes"
	"encoding/json"
	"io"
	"strconv"
)

// Tagged JSON for TLC (spec/resolve/DeferStream.tla): objects {"t":"o","o":{..}}, lists {"t":"l","l":[..]},
// leaves {"t":"s|i|f|b|n","s":"<text>"} — TLC's Json module cannot read null / floats and cannot compare values
// of different shapes, so every leaf is text with a kind tag.
type tv = map[string]any

func tagValue(v any) tv {
	switch x := v.(type) {
	case nil:
		return tv{"t": "n", "s": "null"}
	case bool:
		return tv{"t": "b", "s": strconv.FormatBool(x)}
	case json.Number:
		s := x.String()
		if _, err := strconv.ParseInt(s, 10, 64); err == nil {
			return tv{"t": "i", "s": s}
		}
		return tv{"t": "f", "s": s}
	case string:
		return tv{"t": "s", "s": x}
	case []any:
		l := make([]any, len(x))
		for i := range x {
			l[i] = tagValue(x[i])
		}
		return tv{"t": "l", "l": l}
	case map[string]any:
		o := make(map[string]any, len(x))
		for k, e := range x {
			o[k] = tagValue(e)
		}
		return tv{"t": "o", "o": o}
	}
	return tv{"t": "!", "s": "unsupported"}
}

// path element: uniform shape {"t":"k"|"x","k":name,"x":index}
func tagPath(p []any) ([]any, bool) {
	out := make([]any, 0, len(p))
	for _, e := range p {
		switch x := e.(type) {
		case string:
			out = append(out, tv{"t": "k", "k": x, "x": 0})
		case json.Number:
			i, err := strconv.Atoi(x.String())
			if err != nil || i < 0 {
				return nil, false
			}
			out = append(out, tv{"t": "x", "k": "", "x": i})
		default:
			return nil, false
		}
	}
	return out, true
}

// parseOne decodes exactly one JSON value (numbers kept as text); trailing non-space bytes = not one document.
func parseOne(b []byte) (any, bool) {
	dec := json.NewDecoder(bytes.NewReader(b))
	dec.UseNumber()
	var v any
	if err := dec.Decode(&v); err != nil {
		return nil, false
	}
	var extra any
	if err := dec.Decode(&extra); err != io.EOF {
		return nil, false
	}
	return v, true
}

var nullDoc = tv{"t": "n", "s": "null"}

type frameEv struct {
	Ev        string `json:"ev"`
	K         int    `json:"k"`
	Ok        bool   `json:"ok"`
	Why       string `json:"why"`
	HasData   bool   `json:"hasData"`
	Data      tv     `json:"data"`
	TopErrors bool   `json:"topErrors"`
	Pending   []any  `json:"pending"`
	Inc       []any  `json:"inc"`
	Completed []any  `json:"completed"`
	HasNextP  bool   `json:"hasNextPresent"`
	HasNext   bool   `json:"hasNext"`
	Writers   int    `json:"writers"`
}

// tagFrame converts one flushed chunk to the event the trace specification consumes. A chunk that is not exactly one
// JSON object of frame shape yields ok=false (bytes of several frames interleaved / concatenated / torn).
func tagFrame(k int, fr frameRec) frameEv {
	ev := frameEv{Ev: "frame", K: k, Data: nullDoc, Pending: []any{}, Inc: []any{}, Completed: []any{}, Writers: len(fr.Writers)}
	bad := func(why string) frameEv {
		ev.Ok = false
		ev.Why = why
		ev.Pending, ev.Inc, ev.Completed = []any{}, []any{}, []any{}
		return ev
	}
	v, ok := parseOne(fr.Bytes)
	if !ok {
		return bad("chunk is not exactly one JSON document")
	}
	obj, ok := v.(map[string]any)
	if !ok {
		return bad("chunk is not a JSON object")
	}
	for key := range obj {
		switch key {
		case "data", "errors", "extensions", "pending", "incremental", "completed", "hasNext":
		default:
			return bad("unknown member " + key)
		}
	}
	if d, has := obj["data"]; has {
		ev.HasData = true
		ev.Data = tagValue(d)
	}
	if e, has := obj["errors"]; has {
		if l, ok := e.([]any); ok && len(l) > 0 {
			ev.TopErrors = true
		}
	}
	if hn, has := obj["hasNext"]; has {
		b, ok := hn.(bool)
		if !ok {
			return bad("hasNext is not a boolean")
		}
		ev.HasNextP, ev.HasNext = true, b
	}
	id := func(m map[string]any) (string, bool) {
		s, ok := m["id"].(string)
		return s, ok && s != ""
	}
	if p, has := obj["pending"]; has {
		l, ok := p.([]any)
		if !ok {
			return bad("pending is not a list")
		}
		for _, e := range l {
			m, ok := e.(map[string]any)
			if !ok {
				return bad("pending entry is not an object")
			}
			i, ok := id(m)
			if !ok {
				return bad("pending entry without id")
			}
			pl, ok := m["path"].([]any)
			if !ok {
				return bad("pending entry without path")
			}
			tp, ok := tagPath(pl)
			if !ok {
				return bad("pending path malformed")
			}
			label, _ := m["label"].(string)
			ev.Pending = append(ev.Pending, tv{"id": i, "path": tp, "label": label})
		}
	}
	if p, has := obj["incremental"]; has {
		l, ok := p.([]any)
		if !ok {
			return bad("incremental is not a list")
		}
		for _, e := range l {
			m, ok := e.(map[string]any)
			if !ok {
				return bad("incremental item is not an object")
			}
			i, ok := id(m)
			if !ok {
				return bad("incremental item without id")
			}
			sub := []any{}
			if sp, has := m["subPath"]; has {
				spl, ok := sp.([]any)
				if !ok {
					return bad("subPath is not a list")
				}
				if sub, ok = tagPath(spl); !ok {
					return bad("subPath malformed")
				}
			}
			d, has := m["data"]
			if !has {
				return bad("incremental item without data")
			}
			errs := false
			if el, ok := m["errors"].([]any); ok && len(el) > 0 {
				errs = true
			}
			ev.Inc = append(ev.Inc, tv{"id": i, "sub": sub, "data": tagValue(d), "err": errs})
		}
	}
	if p, has := obj["completed"]; has {
		l, ok := p.([]any)
		if !ok {
			return bad("completed is not a list")
		}
		for _, e := range l {
			m, ok := e.(map[string]any)
			if !ok {
				return bad("completed entry is not an object")
			}
			i, ok := id(m)
			if !ok {
				return bad("completed entry without id")
			}
			errs := false
			if el, ok := m["errors"].([]any); ok && len(el) > 0 {
				errs = true
			}
			ev.Completed = append(ev.Completed, tv{"id": i, "err": errs})
		}
	}
	ev.Ok = true
	return ev
}
