// Command validate replays TLC-generated documents (spec/core Gen_C04) into the admission sequence of the
// execution engine: graphql.Request.Normalize with the engine's option set, then ValidateForSchema with default
// options (package admit mirrors ExecutionEngine.Execute).  It records accept / reject and the first message.
//
//	-catalog  JSON lines, one schema of the TLA+ catalog per line (printed by Gen_Catalog)
//	-in       NDJSON cases {"id":N,"schema":"pets","doc":{...},"vars":[...]}
//	-out      NDJSON results for python (text, stage, message, round-trip self check, calibration verdict)
//	-trace    NDJSON observations for TLC trace validation (Trace_C04): {"id","schema","doc","accept"}
//	-calib    also run gqlparser's validator (calibration aid for the spec; never part of the verdict)
package main

import (
	"bufio"
	"bytes"
	"encoding/json"
	"flag"
	"fmt"
	"io"
	"os"
	"strings"

	"github.com/vektah/gqlparser/v2/ast"
	"github.com/wundergraph/graphql-go-tools/execution/graphql"
	"github.com/wundergraph/graphql-go-tools/v2/pkg/astprinter"
	"github.com/wundergraph/graphql-go-tools/v2/pkg/astvalidation"
	"github.com/wundergraph/graphql-go-tools/v2/pkg/operationreport"

	"verif/harness/internal/admit"
	"verif/harness/internal/gqlast"
	"verif/harness/internal/sdl"
)

type Case struct {
	ID      int             `json:"id"`
	Schema  string          `json:"schema"`
	Doc     json.RawMessage `json:"doc"`
	Vars    []sdl.Var       `json:"vars"`
	RawVars json.RawMessage `json:"-"`
}

type Result struct {
	ID        int      `json:"id"`
	Accept    bool     `json:"accept"`
	Stage     string   `json:"stage"`
	Msg       string   `json:"msg"`
	Panic     string   `json:"panic"`
	Frames    string   `json:"frames"` // innermost library functions on the panic stack
	Text      string   `json:"text"`
	Vars      string   `json:"vars"`
	RoundTrip string   `json:"roundtrip"` // "" = printed text re-parsed by gqlparser equals the case's document
	Reused    string   `json:"reused"`    // verdict of ONE long-lived OperationValidator fed with every normalized document in turn: accept | reject | skip | panic:..
	AfterOpts string   `json:"afteropts"` // verdict of ValidateForSchema() after ValidateForSchema(relaxed options) on the same request
	Calib     []string `json:"calib"`     // rules gqlparser reports (only with -calib)
	CalibErr  string   `json:"calib_err"`
}

type loaded struct {
	spec   *sdl.Schema
	text   string
	schema *graphql.Schema
	gqlp   *ast.Schema
}

func fatal(f string, a ...any) {
	fmt.Fprintf(os.Stderr, f+"\n", a...)
	os.Exit(3)
}

func loadCatalog(path string) map[string]*loaded {
	f, err := os.Open(path)
	if err != nil {
		fatal("catalog: %v", err)
	}
	defer f.Close()
	out := map[string]*loaded{}
	sc := bufio.NewScanner(f)
	sc.Buffer(make([]byte, 1<<20), 1<<26)
	for sc.Scan() {
		if len(bytes.TrimSpace(sc.Bytes())) == 0 {
			continue
		}
		var s sdl.Schema
		if err := json.Unmarshal(sc.Bytes(), &s); err != nil {
			fatal("catalog: %v", err)
		}
		l := &loaded{spec: &s, text: sdl.PrintSchema(&s)}
		// self check of the trusted base: the printed SDL, loaded by gqlparser and converted back, is the catalog entry
		gs, err := gqlast.LoadSchema(l.text)
		if err != nil {
			fatal("catalog %s: gqlparser rejects the printed SDL: %v\n%s", s.ID, err, l.text)
		}
		l.gqlp = gs
		a, _ := json.Marshal(gqlast.NormalizeSchema(&s))
		b, _ := json.Marshal(gqlast.NormalizeSchema(gqlast.SchemaToSpec(s.ID, gs)))
		if !bytes.Equal(a, b) {
			fatal("catalog %s: SDL round trip differs\nspec:   %s\nparsed: %s", s.ID, a, b)
		}
		schema, err := graphql.NewSchemaFromString(l.text)
		if err != nil {
			fatal("catalog %s: the library rejects the schema: %v\n%s", s.ID, err, l.text)
		}
		l.schema = schema
		out[s.ID] = l
	}
	return out
}

// reusedVerdict normalizes a fresh request and validates it with the long-lived validator (the verdict must not depend on
// what that validator saw before: Go-side equality with the fresh verdict, no oracle needed).
func reusedVerdict(v *astvalidation.OperationValidator, schema *graphql.Schema, opName, text, vars string) (out string) {
	defer func() {
		if r := recover(); r != nil {
			out = fmt.Sprintf("panic:%v", r)
		}
	}()
	req := graphql.Request{OperationName: opName, Variables: json.RawMessage(vars), Query: text}
	nres, err := req.Normalize(schema, admit.EngineNormalizeOptions()...)
	if err != nil || !nres.Successful {
		return "skip"
	}
	var report operationreport.Report
	v.Validate(req.Document(), schema.Document(), &report)
	if report.HasErrors() {
		return "reject"
	}
	return "accept"
}

// afterOptionsVerdict: ValidateForSchema with default options after a call with relaxed options on the same request.
func afterOptionsVerdict(schema *graphql.Schema, opName, text, vars string) (out string) {
	defer func() {
		if r := recover(); r != nil {
			out = fmt.Sprintf("panic:%v", r)
		}
	}()
	req := graphql.Request{OperationName: opName, Variables: json.RawMessage(vars), Query: text}
	nres, err := req.Normalize(schema, admit.EngineNormalizeOptions()...)
	if err != nil || !nres.Successful {
		return "skip"
	}
	if _, err := req.ValidateForSchema(schema, astvalidation.WithRelaxFieldSelectionMergingNullability(), astvalidation.WithAllowStringLiteralsForEnums()); err != nil {
		return "skip"
	}
	vres, err := req.ValidateForSchema(schema)
	if err != nil || !vres.Valid {
		return "reject"
	}
	return "accept"
}

func main() {
	catalog := flag.String("catalog", "", "")
	in := flag.String("in", "", "")
	outp := flag.String("out", "", "")
	tracep := flag.String("trace", "", "")
	calib := flag.Bool("calib", false, "")
	dumpSDL := flag.Bool("sdl", false, "print the SDL of the catalog and exit")
	adhoc := flag.String("adhoc", "", "schema id: read one GraphQL document from stdin, print the outcome of the admission sequence (stand-alone reproduction)")
	adhocVars := flag.String("vars", "{}", "request variables for -adhoc")
	adhocOp := flag.String("op", "", "operationName for -adhoc")
	flag.Parse()
	cat := loadCatalog(*catalog)
	if *adhoc != "" {
		l := cat[*adhoc]
		if l == nil {
			fatal("unknown schema %q", *adhoc)
		}
		text, _ := io.ReadAll(os.Stdin)
		req := graphql.Request{OperationName: *adhocOp, Variables: json.RawMessage(*adhocVars), Query: string(text)}
		o := admit.Validate(&req, l.schema)
		fmt.Printf("accept=%v stage=%q msg=%q panic=%q\n", o.Accept, o.Stage, o.Msg, o.Panic)
		if o.Stage == "panic" {
			fmt.Println(o.Stack)
		} else {
			printed, _ := astprinter.PrintStringIndent(req.Document(), "  ")
			fmt.Printf("document after the sequence:\n%s\nvariables: %s\n", printed, req.Variables)
		}
		rules, err := gqlast.Calibrate(l.gqlp, string(text))
		fmt.Printf("gqlparser (calibration only): %v %v\n", rules, err)
		return
	}
	if *dumpSDL {
		for id, l := range cat {
			fmt.Printf("# %s\n%s\n", id, l.text)
		}
		return
	}
	fin, err := os.Open(*in)
	if err != nil {
		fatal("%v", err)
	}
	defer fin.Close()
	fout, err := os.Create(*outp)
	if err != nil {
		fatal("%v", err)
	}
	defer fout.Close()
	ftr, err := os.Create(*tracep)
	if err != nil {
		fatal("%v", err)
	}
	defer ftr.Close()
	wout := bufio.NewWriterSize(fout, 1<<20)
	wtr := bufio.NewWriterSize(ftr, 1<<20)
	defer wout.Flush()
	defer wtr.Flush()
	reused := astvalidation.DefaultOperationValidator()
	sc := bufio.NewScanner(fin)
	sc.Buffer(make([]byte, 1<<20), 1<<26)
	for sc.Scan() {
		if len(bytes.TrimSpace(sc.Bytes())) == 0 {
			continue
		}
		var c Case
		if err := json.Unmarshal(sc.Bytes(), &c); err != nil {
			fatal("case: %v", err)
		}
		l := cat[c.Schema]
		if l == nil {
			fatal("case %d: unknown schema %q", c.ID, c.Schema)
		}
		var doc sdl.Doc
		if err := json.Unmarshal(c.Doc, &doc); err != nil {
			fatal("case %d: %v", c.ID, err)
		}
		res := Result{ID: c.ID, Text: sdl.PrintDoc(&doc), Vars: sdl.PrintVars(c.Vars), Calib: []string{}}
		// self check: text -> gqlparser -> spec form == the case
		if back, err := gqlast.ParseDoc(res.Text, doc.OpName); err != nil {
			res.RoundTrip = "gqlparser cannot parse the printed document: " + err.Error()
		} else {
			a, _ := json.Marshal(&doc)
			b, _ := json.Marshal(back)
			if !bytes.Equal(a, b) {
				res.RoundTrip = "printed document parses to a different document: " + string(b)
			}
		}
		req := graphql.Request{OperationName: doc.OpName, Variables: json.RawMessage(res.Vars), Query: res.Text}
		o := admit.Validate(&req, l.schema)
		res.Accept, res.Stage, res.Msg, res.Panic = o.Accept, o.Stage, o.Msg, o.Panic
		if o.Panic != "" {
			res.Frames = admit.Frames(o.Stack, 2)
		}
		res.Reused = reusedVerdict(reused, l.schema, doc.OpName, res.Text, res.Vars)
		res.AfterOpts = afterOptionsVerdict(l.schema, doc.OpName, res.Text, res.Vars)
		if *calib {
			rules, err := gqlast.Calibrate(l.gqlp, res.Text)
			if err != nil {
				res.CalibErr = err.Error()
			} else if rules != nil {
				res.Calib = rules
			}
		}
		b, _ := json.Marshal(&res)
		wout.Write(b)
		wout.WriteByte('\n')
		vj, _ := json.Marshal(c.Vars)
		if len(c.Vars) == 0 {
			vj = []byte("[]")
		}
		// what the validator saw: the document after Normalize, printed by the library and re-read by gqlparser
		// (used by Trace_C04 only to *name* the cause of an accepted invalid operation, never for the verdict)
		ndoc := &sdl.Doc{Ops: []sdl.Op{}, Frags: []sdl.Frag{}, OpName: doc.OpName}
		if res.Accept {
			if printed, err := astprinter.PrintString(req.Document()); err == nil {
				nd, err := gqlast.ParseDoc(printed, doc.OpName)
				if err != nil && strings.HasPrefix(printed, "@") {
					// the library prints an anonymous query that carries directives without the keyword "query", which is
					// not GraphQL syntax (reported to C05); repaired here because this path only names causes
					nd, err = gqlast.ParseDoc("query "+printed, doc.OpName)
				}
				if err == nil {
					ndoc = nd
				} else {
					ndoc.Ops = append(ndoc.Ops, sdl.Op{Op: "unparseable", Vars: []sdl.VarDef{}, Dirs: []sdl.Dir{}, Sel: []sdl.Sel{}})
				}
			}
		}
		tr, _ := json.Marshal(map[string]any{"id": c.ID, "schema": c.Schema, "doc": c.Doc, "vars": json.RawMessage(vj), "accept": res.Accept, "panicked": res.Panic != "", "ndoc": ndoc})
		wtr.Write(tr)
		wtr.WriteByte('\n')
	}
	if err := sc.Err(); err != nil {
		fatal("%v", err)
	}
}
