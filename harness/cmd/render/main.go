// Command render replays TLC-generated (plan tree, subgraph payload) cases of spec/resolve/Render.tla
// into the real response renderer of graphql-go-tools and records the bytes it produced.
//
// Input (-in): NDJSON, one case per line (exactly what Gen_Render prints):
//
//	{"id":"..","T":<node>,"j":<tagged json>}
//	node  = {"k":"Object|Array|String|Int|Float|Boolean|Enum|Scalar|BigInt|Custom|StaticString|EmptyObject|EmptyArray|Null",
//	         "n":bool,"fs":[field..],"it":[node]?,"pt":[possible types],"tn":"type name (StaticString: the value)",
//	         "vals":[enum values],"inacc":[inaccessible enum values]}
//	field = {"name":"response key","key":"json key in the subgraph data","on":[type names],
//	         "pon":[{"d":depth,"names":[type names]}],"deny":bool,"v":node}
//	tagged json: {"t":"n"} {"t":"b","v":true} {"t":"i","v":3} {"t":"f","v":"1.5"} {"t":"g","v":"2147483648"} {"t":"s","v":"x"}
//	             {"t":"l","v":[..]} {"t":"o","k":[..],"v":[..]}   ({"t":"x"} = absent, only as an object member)
//
// Output (-out): NDJSON, one observation per (case, entry point):
//
//	{"id":"..","entry":"resolvable|resolver|arena|ext","raw":"<bytes>","valid":bool,"dup":bool,"why":"..",
//	 "panic":"..","site":"..","err":"..","out":<tagged json of the whole response, when valid>}
//
// Entry points: "resolvable" = Resolvable.Init + Resolve (the code under test, directly);
// "resolver" = Resolver.ResolveGraphQLResponse with one fetch from a static data source answering {"data":j};
// "arena" = Resolver.ArenaResolveGraphQLResponse with the same fetch;
// "x:<mask>" (-extmod N: for every N-th case, 8 masks) = "resolver" with a subset of the sources that write `extensions`
// switched on: 1 valueCompletion (ApolloCompatibilityValueCompletionInExtensions), 2 authorizer extension, 4 forwarded
// subgraph extensions (allow list incl. the gateway's reserved keys, last-write), 8 rate limit stats, 16 query plan, 32 trace;
// cost control always on.
// "Custom" nodes use the resolver wrapStrings (string s -> {"c": s}, anything else an error). Every field is protected
// (HasAuthorizationRule); when a case denies a field ("deny") the post-fetch authorizer authz is installed and denies it.
// Go-side checks that need no oracle: the bytes are exactly one strict JSON value (encoding/json, an
// implementation independent of astjson) and no object has a duplicate key. Everything else is judged by TLC.
package main

import (
	"bufio"
	"bytes"
	"context"
	"encoding/json"
	"flag"
	"fmt"
	"io"
	"math"
	"net/http"
	"os"
	"regexp"
	"runtime/debug"
	"strconv"
	"strings"
	"time"

	"github.com/wundergraph/graphql-go-tools/v2/pkg/ast"
	"github.com/wundergraph/graphql-go-tools/v2/pkg/engine/datasource/httpclient"
	"github.com/wundergraph/graphql-go-tools/v2/pkg/engine/resolve"
)

// ---------------------------------------------------------------- case format

type TJ struct {
	T string          `json:"t"`
	V json.RawMessage `json:"v,omitempty"`
	K []string        `json:"k,omitempty"`
}

type Node struct {
	K     string   `json:"k"`
	N     bool     `json:"n"`
	Fs    []Field  `json:"fs"`
	It    []Node   `json:"it"`
	Pt    []string `json:"pt"`
	Tn    string   `json:"tn"`
	Vals  []string `json:"vals"`
	Inacc []string `json:"inacc"`
}

type Pon struct {
	D     int      `json:"d"`
	Names []string `json:"names"`
}

type Field struct {
	Name string   `json:"name"`
	Key  string   `json:"key"`
	On   []string `json:"on"`
	Pon  []Pon    `json:"pon"`
	Deny bool     `json:"deny"`
	V    Node     `json:"v"`
}

type Case struct {
	ID string `json:"id"`
	T  Node   `json:"T"`
	J  TJ     `json:"j"`
}

type Obs struct {
	ID    string `json:"id"`
	Entry string `json:"entry"`
	Raw   string `json:"raw"`
	Valid bool   `json:"valid"`
	Dup   bool   `json:"dup"`
	Why   string `json:"why,omitempty"`
	Panic string `json:"panic,omitempty"`
	Site  string `json:"site,omitempty"` // innermost function of package resolve on the stack of a panic
	Err   string `json:"err,omitempty"`
	Out   any    `json:"out,omitempty"`
}

// ---------------------------------------------------------------- tagged json -> bytes

func writeTJ(b *bytes.Buffer, v TJ) error {
	switch v.T {
	case "n":
		b.WriteString("null")
	case "b":
		b.Write(bytes.TrimSpace(v.V))
	case "i":
		b.Write(bytes.TrimSpace(v.V))
	case "f", "g":
		var s string
		if err := json.Unmarshal(v.V, &s); err != nil {
			return fmt.Errorf("number literal must be a string: %w", err)
		}
		b.WriteString(s)
	case "s":
		b.Write(bytes.TrimSpace(v.V))
	case "l":
		var xs []TJ
		if len(v.V) > 0 {
			if err := json.Unmarshal(v.V, &xs); err != nil {
				return err
			}
		}
		b.WriteByte('[')
		for i, x := range xs {
			if i > 0 {
				b.WriteByte(',')
			}
			if err := writeTJ(b, x); err != nil {
				return err
			}
		}
		b.WriteByte(']')
	case "o":
		var xs []TJ
		if len(v.V) > 0 {
			if err := json.Unmarshal(v.V, &xs); err != nil {
				return err
			}
		}
		if len(xs) != len(v.K) {
			return fmt.Errorf("object with %d keys and %d values", len(v.K), len(xs))
		}
		b.WriteByte('{')
		first := true
		for i, x := range xs {
			if x.T == "x" {
				continue // absent member
			}
			if !first {
				b.WriteByte(',')
			}
			first = false
			kb, _ := json.Marshal(v.K[i])
			b.Write(kb)
			b.WriteByte(':')
			if err := writeTJ(b, x); err != nil {
				return err
			}
		}
		b.WriteByte('}')
	default:
		return fmt.Errorf("unknown tag %q", v.T)
	}
	return nil
}

// ---------------------------------------------------------------- bytes -> tagged json (strict)

var intLit = regexp.MustCompile(`^-?(0|[1-9][0-9]*)$`)

// tagNumber: "i" = integral value representable as a 32-bit signed integer (GraphQL Int, value kept),
// "g" = integral value outside that range, "f" = non-integral; "g"/"f" keep the literal text.
// This classification is the only number semantics outside the TLA+ spec.
func tagNumber(lit string) any {
	if intLit.MatchString(lit) {
		if n, err := strconv.ParseInt(lit, 10, 64); err == nil && n >= math.MinInt32 && n <= math.MaxInt32 {
			return map[string]any{"t": "i", "v": n}
		}
		return map[string]any{"t": "g", "v": lit}
	}
	f, err := strconv.ParseFloat(lit, 64)
	if err != nil && !math.IsInf(f, 0) {
		return map[string]any{"t": "f", "v": lit}
	}
	if math.IsInf(f, 0) || f == math.Trunc(f) {
		if f >= math.MinInt32 && f <= math.MaxInt32 {
			return map[string]any{"t": "i", "v": int64(f)}
		}
		return map[string]any{"t": "g", "v": lit}
	}
	return map[string]any{"t": "f", "v": lit}
}

type strictParser struct {
	dec *json.Decoder
	dup bool
}

func (p *strictParser) value() (any, error) {
	tok, err := p.dec.Token()
	if err != nil {
		return nil, err
	}
	switch t := tok.(type) {
	case nil:
		return map[string]any{"t": "n"}, nil
	case bool:
		return map[string]any{"t": "b", "v": t}, nil
	case json.Number:
		return tagNumber(t.String()), nil
	case string:
		return map[string]any{"t": "s", "v": t}, nil
	case json.Delim:
		switch t {
		case '[':
			xs := []any{}
			for p.dec.More() {
				x, err := p.value()
				if err != nil {
					return nil, err
				}
				xs = append(xs, x)
			}
			if _, err := p.dec.Token(); err != nil {
				return nil, err
			}
			return map[string]any{"t": "l", "v": xs}, nil
		case '{':
			ks := []string{}
			vs := []any{}
			seen := map[string]bool{}
			for p.dec.More() {
				kt, err := p.dec.Token()
				if err != nil {
					return nil, err
				}
				k, ok := kt.(string)
				if !ok {
					return nil, fmt.Errorf("object key is not a string")
				}
				if seen[k] {
					p.dup = true
				}
				seen[k] = true
				x, err := p.value()
				if err != nil {
					return nil, err
				}
				ks = append(ks, k)
				vs = append(vs, x)
			}
			if _, err := p.dec.Token(); err != nil {
				return nil, err
			}
			return map[string]any{"t": "o", "k": ks, "v": vs}, nil
		}
	}
	return nil, fmt.Errorf("unexpected token %v", tok)
}

func strictParse(raw []byte) (out any, valid bool, dup bool, why string) {
	if !json.Valid(raw) {
		return nil, false, false, "not a syntactically valid JSON text (encoding/json.Valid)"
	}
	p := &strictParser{dec: json.NewDecoder(bytes.NewReader(raw))}
	p.dec.UseNumber()
	v, err := p.value()
	if err != nil {
		return nil, false, false, "token stream error: " + err.Error()
	}
	if _, err := p.dec.Token(); err != io.EOF {
		return nil, false, false, "more than one JSON value"
	}
	if p.dup {
		return v, true, true, "duplicate object key"
	}
	return v, true, false, ""
}

// ---------------------------------------------------------------- plan tree

func bs(xs []string) [][]byte {
	if len(xs) == 0 {
		return nil
	}
	out := make([][]byte, len(xs))
	for i, x := range xs {
		out[i] = []byte(x)
	}
	return out
}

func build(n Node, path []string, parentType string) resolve.Node {
	switch n.K {
	case "Object":
		o := &resolve.Object{Nullable: n.N, Path: path, TypeName: n.Tn, SourceName: "sg", PossibleTypes: map[string]struct{}{}}
		for _, t := range n.Pt {
			o.PossibleTypes[t] = struct{}{}
		}
		for _, f := range n.Fs {
			fld := &resolve.Field{Name: []byte(f.Name), OnTypeNames: bs(f.On)}
			for _, p := range f.Pon {
				fld.ParentOnTypeNames = append(fld.ParentOnTypeNames, resolve.ParentOnTypeNames{Depth: p.D, Names: bs(p.Names)})
			}
			fld.Value = build(f.V, []string{f.Key}, n.Tn)
			if s, ok := fld.Value.(*resolve.String); ok && f.Key == "__typename" {
				s.IsTypeName = true
			}
			fld.Info = &resolve.FieldInfo{Name: f.Name, ExactParentTypeName: n.Tn, ParentTypeNames: append([]string{n.Tn}, n.Pt...),
				NamedType: f.V.Tn, Source: resolve.TypeFieldSource{IDs: []string{"sg"}, Names: []string{"sg"}},
				// every field is protected; the harness authorizer (installed when the case denies something) denies DENY_*
				HasAuthorizationRule: true}
			if f.Deny {
				fld.Info.Name = "DENY_" + f.Name
			}
			o.Fields = append(o.Fields, fld)
		}
		return o
	case "Array":
		return &resolve.Array{Nullable: n.N, Path: path, Item: build(n.It[0], nil, parentType)}
	case "String":
		return &resolve.String{Nullable: n.N, Path: path}
	case "Int":
		return &resolve.Integer{Nullable: n.N, Path: path}
	case "Float":
		return &resolve.Float{Nullable: n.N, Path: path}
	case "Boolean":
		return &resolve.Boolean{Nullable: n.N, Path: path}
	case "Enum":
		return &resolve.Enum{Nullable: n.N, Path: path, TypeName: n.Tn, Values: n.Vals, InaccessibleValues: n.Inacc}
	case "Scalar":
		return &resolve.Scalar{Nullable: n.N, Path: path}
	case "BigInt":
		return &resolve.BigInt{Nullable: n.N, Path: path}
	case "Custom":
		return &resolve.CustomNode{CustomResolve: wrapStrings{}, Nullable: n.N, Path: path}
	case "StaticString":
		return &resolve.StaticString{Path: path, Value: n.Tn}
	case "EmptyObject":
		return &resolve.EmptyObject{}
	case "EmptyArray":
		return &resolve.EmptyArray{}
	case "Null":
		return &resolve.Null{}
	}
	panic("unknown node kind " + n.K)
}

// wrapStrings is the custom resolve func of "Custom" nodes: a JSON string s becomes {"c": s}, anything else is an error
type wrapStrings struct{}

func (wrapStrings) Resolve(ctx *resolve.Context, value []byte) ([]byte, error) {
	v := bytes.TrimSpace(value)
	if len(v) == 0 || v[0] != '"' {
		return nil, fmt.Errorf("custom scalar cannot represent value: %s", v)
	}
	return append(append([]byte(`{"c":`), v...), '}'), nil
}

func denies(n Node) bool {
	for _, f := range n.Fs {
		if f.Deny || denies(f.V) {
			return true
		}
	}
	for _, it := range n.It {
		if denies(it) {
			return true
		}
	}
	return false
}

// authz is the post-fetch authorizer: denies every coordinate whose field name starts with DENY_
type authz struct{ ext bool }

func (a authz) AuthorizePreFetch(ctx *resolve.Context, dataSourceID string, input json.RawMessage, coordinate resolve.GraphCoordinate) (*resolve.AuthorizationDeny, error) {
	return nil, nil
}
func (a authz) AuthorizeObjectField(ctx *resolve.Context, dataSourceID string, object json.RawMessage, coordinate resolve.GraphCoordinate) (*resolve.AuthorizationDeny, error) {
	if strings.HasPrefix(coordinate.FieldName, "DENY_") {
		return &resolve.AuthorizationDeny{Reason: "denied by the harness"}, nil
	}
	return nil, nil
}
func (a authz) HasResponseExtensionData(ctx *resolve.Context) bool { return a.ext }
func (a authz) RenderResponseExtension(ctx *resolve.Context, out io.Writer) error {
	_, err := out.Write([]byte(`{"missingScopes":[]}`))
	return err
}

type limiter struct{}

func (limiter) RateLimitPreFetch(ctx *resolve.Context, info *resolve.FetchInfo, input json.RawMessage) (*resolve.RateLimitDeny, error) {
	return nil, nil
}
func (limiter) RenderResponseExtension(ctx *resolve.Context, out io.Writer) error {
	_, err := out.Write([]byte(`{"requestRate":1,"remaining":9}`))
	return err
}

// ---------------------------------------------------------------- entry points

type staticDS struct{ body []byte }

func (d staticDS) Load(ctx context.Context, headers http.Header, input []byte) ([]byte, error) {
	return append([]byte(nil), d.body...), nil
}
func (d staticDS) LoadWithFiles(ctx context.Context, headers http.Header, input []byte, files []*httpclient.FileUpload) ([]byte, error) {
	return d.Load(ctx, headers, input)
}

func response(root *resolve.Object, data []byte, ext bool) *resolve.GraphQLResponse {
	input := `{"method":"POST","url":"http://sg","body":{"query":"{a z}"}}`
	body := append([]byte(`{"data":`), data...)
	if ext {
		// subgraph extensions: a free key, a key outside the allow list, and keys the gateway reserves for itself
		body = append(body, `,"extensions":{"k":{"n":1},"other":2,"authorization":{"x":1},"rateLimit":3,"trace":4,"queryPlan":5,"valueCompletion":6}`...)
	}
	body = append(body, '}')
	return &resolve.GraphQLResponse{
		Info: &resolve.GraphQLResponseInfo{OperationType: ast.OperationTypeQuery},
		Fetches: resolve.Single(&resolve.SingleFetch{
			FetchConfiguration: resolve.FetchConfiguration{
				DataSource:     staticDS{body: body},
				Input:          input,
				PostProcessing: resolve.PostProcessingConfiguration{SelectResponseDataPath: []string{"data"}, SelectResponseErrorsPath: []string{"errors"}},
			},
			InputTemplate: resolve.InputTemplate{Segments: []resolve.TemplateSegment{{SegmentType: resolve.StaticSegmentType, Data: []byte(input)}}},
			Info: &resolve.FetchInfo{DataSourceID: "sg", DataSourceName: "sg", OperationType: ast.OperationTypeQuery,
				RootFields: []resolve.GraphCoordinate{{TypeName: "Query", FieldName: "a"}}},
		}),
		Data: root,
	}
}

var resolveFrame = regexp.MustCompile(`engine/resolve\.\(\*?(\w+)\)\.(\w+)`)

func guarded(f func() ([]byte, error)) (raw []byte, perr, site string, err error) {
	defer func() {
		if p := recover(); p != nil {
			perr = fmt.Sprint(p)
			if perr == "" {
				perr = "panic"
			}
			if m := resolveFrame.FindStringSubmatch(string(debug.Stack())); m != nil {
				site = m[1] + "." + m[2]
			}
		}
	}()
	raw, err = f()
	return
}

var resolver, resolverExt, resolverExtVC *resolve.Resolver

func run(c Case, entry string) Obs {
	o := Obs{ID: c.ID, Entry: entry}
	var data bytes.Buffer
	if err := writeTJ(&data, c.J); err != nil {
		o.Err = "harness: bad payload: " + err.Error()
		return o
	}
	deny := denies(c.T)
	raw, p, site, err := guarded(func() ([]byte, error) {
		root := build(c.T, nil, "Query").(*resolve.Object)
		var out bytes.Buffer
		switch entry {
		case "resolvable":
			ctx := resolve.NewContext(context.Background())
			if deny {
				ctx.SetAuthorizer(authz{})
			}
			r := resolve.NewResolvable(nil, resolve.ResolvableOptions{})
			if err := r.Init(ctx, data.Bytes(), ast.OperationTypeQuery); err != nil {
				return nil, fmt.Errorf("init: %w", err)
			}
			if err := r.Resolve(context.Background(), root, nil, &out); err != nil {
				return out.Bytes(), err
			}
		case "resolver":
			ctx := resolve.NewContext(context.Background())
			ctx.ExecutionOptions.DisableSubgraphRequestDeduplication = true
			if deny {
				ctx.SetAuthorizer(authz{})
			}
			if _, err := resolver.ResolveGraphQLResponse(ctx, response(root, data.Bytes(), false), nil, &out); err != nil {
				return out.Bytes(), err
			}
		case "arena":
			ctx := resolve.NewContext(context.Background())
			ctx.ExecutionOptions.DisableSubgraphRequestDeduplication = true
			ctx.ExecutionOptions.DisableInboundRequestDeduplication = true
			if deny {
				ctx.SetAuthorizer(authz{})
			}
			if _, err := resolver.ArenaResolveGraphQLResponse(ctx, response(root, data.Bytes(), false), &out); err != nil {
				return out.Bytes(), err
			}
		default:
			// "x:<mask>": a SUBSET of the sources that write into `extensions`
			//   1 valueCompletion (ApolloCompatibilityValueCompletionInExtensions)   2 authorizer extension
			//   4 forwarded subgraph extensions (allow list, last-write)             8 rate limit stats
			//  16 query plan                                                         32 trace
			// cost control statistics are always collected during the print walk
			mask, merr := strconv.Atoi(strings.TrimPrefix(entry, "x:"))
			if merr != nil || !strings.HasPrefix(entry, "x:") {
				return nil, fmt.Errorf("harness: unknown entry %q", entry)
			}
			ctx := resolve.NewContext(context.Background())
			ctx.ExecutionOptions.DisableSubgraphRequestDeduplication = true
			if mask&2 != 0 || deny {
				ctx.SetAuthorizer(authz{ext: mask&2 != 0})
			}
			if mask&8 != 0 {
				ctx.SetRateLimiter(limiter{})
				ctx.RateLimitOptions = resolve.RateLimitOptions{Enable: true, IncludeStatsInResponseExtension: true, Rate: 10, Burst: 10, Period: time.Second, RateLimitKey: "k"}
			}
			if mask&16 != 0 {
				ctx.ExecutionOptions.IncludeQueryPlanInResponse = true
			}
			if mask&32 != 0 {
				ctx.TracingOptions = resolve.TraceOptions{Enable: true, IncludeTraceOutputInResponseExtensions: true}
			}
			rs := resolverExt
			if mask&1 != 0 {
				rs = resolverExtVC
			}
			if _, err := rs.ResolveGraphQLResponse(ctx, response(root, data.Bytes(), mask&4 != 0), nil, &out); err != nil {
				return out.Bytes(), err
			}
		}
		return out.Bytes(), nil
	})
	o.Raw = string(raw)
	o.Panic = p
	o.Site = site
	if err != nil {
		o.Err = err.Error()
	}
	if p != "" || err != nil {
		return o
	}
	o.Out, o.Valid, o.Dup, o.Why = strictParse(raw)
	return o
}

func main() {
	in := flag.String("in", "", "cases (NDJSON)")
	outp := flag.String("out", "", "observations (NDJSON)")
	entries := flag.String("entries", "resolvable,resolver,arena", "entry points to drive")
	extmod := flag.Int("extmod", 0, "additionally drive 8 extension-source subsets x:<mask> for every N-th case (0 = never)")
	flag.Parse()
	f, err := os.Open(*in)
	if err != nil {
		fmt.Fprintln(os.Stderr, err)
		os.Exit(2)
	}
	defer f.Close()
	of, err := os.Create(*outp)
	if err != nil {
		fmt.Fprintln(os.Stderr, err)
		os.Exit(2)
	}
	defer of.Close()
	w := bufio.NewWriterSize(of, 1<<20)
	defer w.Flush()
	rctx, cancel := context.WithCancel(context.Background())
	defer cancel()
	resolver = resolve.New(rctx, resolve.ResolverOptions{MaxConcurrency: 4})
	extOpts := func(vc bool) resolve.ResolverOptions {
		return resolve.ResolverOptions{MaxConcurrency: 4, AllowCustomExtensionProperties: true,
			ResolvableOptions: resolve.ResolvableOptions{
				AllowedSubgraphExtensions:    map[string]struct{}{"k": {}, "authorization": {}, "rateLimit": {}, "trace": {}, "queryPlan": {}, "valueCompletion": {}},
				ExtensionForwardingAlgorithm: resolve.ExtensionForwardingAlgorithmLastWrite,
				EnableCostControl:            true,
				ApolloCompatibilityValueCompletionInExtensions: vc,
			}}
	}
	resolverExt = resolve.New(rctx, extOpts(false))
	resolverExtVC = resolve.New(rctx, extOpts(true))
	sc := bufio.NewScanner(f)
	sc.Buffer(make([]byte, 1<<20), 1<<26)
	enc := json.NewEncoder(w)
	enc.SetEscapeHTML(false)
	n := 0
	for sc.Scan() {
		line := bytes.TrimSpace(sc.Bytes())
		if len(line) == 0 {
			continue
		}
		var c Case
		if err := json.Unmarshal(line, &c); err != nil {
			fmt.Fprintf(os.Stderr, "bad case line %d: %v\n", n+1, err)
			os.Exit(2)
		}
		es := strings.Split(*entries, ",")
		if *extmod > 0 && n%*extmod == 0 {
			// all subsets of {valueCompletion, authorization, subgraph}; the rate limit / query plan / trace bits rotate with the case
			hi := (n / *extmod) % 8
			for lo := 0; lo < 8; lo++ {
				es = append(es, fmt.Sprintf("x:%d", lo|hi<<3))
			}
		}
		for _, e := range es {
			if err := enc.Encode(run(c, e)); err != nil {
				fmt.Fprintln(os.Stderr, err)
				os.Exit(2)
			}
		}
		n++
	}
	if err := sc.Err(); err != nil {
		fmt.Fprintln(os.Stderr, err)
		os.Exit(2)
	}
	fmt.Fprintf(os.Stderr, "render: %d cases\n", n)
}
