// Command faults is the C07 driver (checks/c07.py, spec/resolve/FetchExec.tla).
//
//	faults -mode plan -in ops.json   -out plans.ndjson
//	    for every operation of the menu: fault-free execution on a fresh fedenv gateway; exports the real fetch
//	    tree (ids, kinds, dependencies, Sequence/Parallel structure), the exchanges R0 tagged with their fetch id,
//	    the ld.* hook events, the response and the nullability shape of the response (computed with gqlparser
//	    from the supergraph SDL, independent of the code under test).
//	faults -mode run  -ops ops.json -in cases.ndjson -out results.ndjson
//	    for every TLC-generated case {id, op, faults:{fetchId:kind}, order:[fetch ids]}: fresh gateway, the faults
//	    are injected by the fedenv interceptor (exchange -> fetch id via the ld.load hook of the same goroutine),
//	    the completion order is enforced by holding every exchange until all fetches that precede it in `order`
//	    have merged / were skipped; records exchanges, hook events, the response and whether it arrived in time.
package main

import (
	"bufio"
	"bytes"
	"context"
	"encoding/json"
	"flag"
	"fmt"
	"io"
	"net/http"
	"os"
	"regexp"
	"runtime"
	"sort"
	"strconv"
	"strings"
	"sync"
	"sync/atomic"
	"time"

	"github.com/vektah/gqlparser/v2"
	gast "github.com/vektah/gqlparser/v2/ast"
	"github.com/wundergraph/graphql-go-tools/v2/pkg/engine/resolve"

	"verif/harness/internal/fedenv"
	"verif/harness/internal/minifed"
)

type Op struct {
	ID    string `json:"id"`
	Query string `json:"query"`
	Vars  string `json:"vars"`
	Name  string `json:"name"`
	Multi bool   `json:"multi"` // build the gateway with EnableMultiFetch
	Env   string `json:"env"`   // "" = federationtesting supergraph, "mini" = internal/minifed
	// ErrMode: how subgraph errors reach the client: "" = resolver default (wrapped), "pass" = pass-through with the
	// subgraph's own paths, "rewrite" = pass-through + RewriteSubgraphErrorPaths
	ErrMode string `json:"errmode"`
}

type Case struct {
	ID     string            `json:"id"`
	Op     string            `json:"op"`
	Faults map[string]string `json:"faults"`
	Order  []int             `json:"order"`
	// Variant refines the fault kinds of the case (chosen by TLC, see variantOf): status code of Non2xxNonJSON, shape of
	// the errors array / type of "extensions" of PartialData and ErrorsNoData. 0 = the plain kind.
	Variant int `json:"variant"`
	// Then: id of the operation executed as the SECOND request on the same gateway ("" = the same operation again)
	Then string `json:"then"`
}

type Event struct {
	Seq int    `json:"seq"`
	P   string `json:"p"`
	A   int64  `json:"a"`
	B   int64  `json:"b"`
}

type Xchg struct {
	Seq       int      `json:"seq"`
	Fetch     int      `json:"fetch"`
	Subgraph  string   `json:"subgraph"`
	Query     string   `json:"query"`
	Variables string   `json:"variables"`
	Reps      []string `json:"reps"`
	IsEntity  bool     `json:"is_entity"`
	Fault     string   `json:"fault"`
	Applied   bool     `json:"applied"`
	Status    int      `json:"status"`
	Response  string   `json:"response"`
	Err       string   `json:"err"`
	Cancelled bool     `json:"cancelled"`
}

type FetchDesc struct {
	ID       int    `json:"id"`
	Kind     string `json:"kind"`
	DS       string `json:"ds"`
	Subgraph string `json:"subgraph"`
	Path     string `json:"path"`
	Deps     []int  `json:"deps"`
	// MultiEntityFetch: the merged original fetches (alias of their _entities field, response path)
	Entries []EntryDesc `json:"entries,omitempty"`
}

type EntryDesc struct {
	Alias string `json:"alias"`
	Path  string `json:"path"`
}

type Tree struct {
	K  string  `json:"k"` // S | P | F
	ID int     `json:"id"`
	C  []*Tree `json:"c,omitempty"`
}

type Shape struct {
	NN     int               `json:"nn"`
	List   *Shape            `json:"list,omitempty"`
	Fields map[string]*Shape `json:"fields,omitempty"`
}

type Out struct {
	ID         string      `json:"id"`
	Op         string      `json:"op"`
	Err        string      `json:"err"`
	Arrived    bool        `json:"arrived"`
	ElapsedMS  int64       `json:"elapsed_ms"`
	Response   string      `json:"response"`
	Exchanges  []Xchg      `json:"exchanges"`
	Events     []Event     `json:"events"`
	Unrealised bool        `json:"unrealised"`
	Panic      string      `json:"panic"`
	Tree       *Tree       `json:"tree,omitempty"`
	Fetches    []FetchDesc `json:"fetches,omitempty"`
	Shape      *Shape      `json:"shape,omitempty"`
	ShapeErr   string      `json:"shape_err,omitempty"`
	// the same operation executed a second time, fault-free, on the SAME gateway (run mode only)
	Repeat *Repeat `json:"repeat,omitempty"`
}

type Repeat struct {
	Arrived   bool   `json:"arrived"`
	ElapsedMS int64  `json:"elapsed_ms"`
	Err       string `json:"err"`
	Response  string `json:"response"`
	Exchanges []Xchg `json:"exchanges"`
}

func goid() int64 {
	var buf [64]byte
	n := runtime.Stack(buf[:], false)
	b := buf[len("goroutine "):n]
	i := bytes.IndexByte(b, ' ')
	id, _ := strconv.ParseInt(string(b[:i]), 10, 64)
	return id
}

// recorder receives the ld.* hook events of the case that is currently executing.
type recorder struct {
	mu       sync.Mutex
	cond     *sync.Cond
	events   []Event
	seq      int
	byGoid   map[int64]int
	finished map[int]bool
	free     bool
}

func newRecorder() *recorder {
	r := &recorder{byGoid: map[int64]int{}, finished: map[int]bool{}}
	r.cond = sync.NewCond(&r.mu)
	return r
}

func (r *recorder) hook(point string, a, b uint64) {
	if !strings.HasPrefix(point, "ld.") {
		return
	}
	r.mu.Lock()
	r.seq++
	r.events = append(r.events, Event{Seq: r.seq, P: point, A: int64(a), B: int64(b)})
	switch point {
	case "ld.prepared", "ld.load":
		r.byGoid[goid()] = int(int64(a))
	case "ld.merged", "ld.skipped":
		r.finished[int(int64(a))] = true
		r.cond.Broadcast()
	}
	r.mu.Unlock()
}

func (r *recorder) note(p string, a, b int64) {
	r.mu.Lock()
	r.seq++
	r.events = append(r.events, Event{Seq: r.seq, P: p, A: a, B: b})
	r.mu.Unlock()
}

var (
	curMu sync.Mutex
	cur   *recorder
)

func install() {
	resolve.VerifHook = func(point string, a, b uint64) {
		curMu.Lock()
		r := cur
		curMu.Unlock()
		if r != nil {
			r.hook(point, a, b)
		}
	}
}

func exportTree(env *fedenv.Env, n *resolve.FetchTreeNode, fetches *[]FetchDesc) *Tree {
	if n == nil {
		return nil
	}
	switch n.Kind {
	case resolve.FetchTreeNodeKindSingle:
		if n.Item == nil || n.Item.Fetch == nil {
			return nil
		}
		f := n.Item.Fetch
		d := FetchDesc{ID: -1, Path: n.Item.ResponsePath, Deps: []int{}}
		if deps := f.Dependencies(); deps != nil {
			d.ID = deps.FetchID
			d.Deps = append(d.Deps, deps.DependsOnFetchIDs...)
		}
		switch f.FetchKind() {
		case resolve.FetchKindSingle:
			d.Kind = "Single"
		case resolve.FetchKindEntity:
			d.Kind = "Entity"
		case resolve.FetchKindEntityBatch:
			d.Kind = "BatchEntity"
		default:
			d.Kind = "Multi"
		}
		if m, ok := f.(*resolve.MultiEntityFetch); ok {
			for _, e := range m.Input.Entries {
				ed := EntryDesc{Alias: e.Alias}
				if e.Item != nil {
					ed.Path = e.Item.ResponsePath
				}
				d.Entries = append(d.Entries, ed)
			}
		}
		if info := f.FetchInfo(); info != nil {
			d.DS = info.DataSourceID
			d.Subgraph = env.SubgraphNameByID(info.DataSourceID)
		}
		*fetches = append(*fetches, d)
		return &Tree{K: "F", ID: d.ID}
	case resolve.FetchTreeNodeKindSequence, resolve.FetchTreeNodeKindParallel:
		t := &Tree{K: "S", ID: -1}
		if n.Kind == resolve.FetchTreeNodeKindParallel {
			t.K = "P"
		}
		for _, c := range n.ChildNodes {
			if ct := exportTree(env, c, fetches); ct != nil {
				t.C = append(t.C, ct)
			}
		}
		return t
	}
	return nil
}

// ---- nullability shape of the response, from the supergraph SDL with an independent parser

func typeShape(t *gast.Type, sel gast.SelectionSet) *Shape {
	s := &Shape{}
	if t.NonNull {
		s.NN = 1
	}
	if t.Elem != nil {
		s.List = typeShape(t.Elem, sel)
		return s
	}
	if len(sel) > 0 {
		s.Fields = map[string]*Shape{}
		fieldsOf(sel, s.Fields)
	}
	return s
}

func mergeShape(a, b *Shape) *Shape {
	if a == nil {
		return b
	}
	if b.NN == 0 {
		a.NN = 0
	}
	if a.List != nil && b.List != nil {
		a.List = mergeShape(a.List, b.List)
	}
	for k, v := range b.Fields {
		if a.Fields == nil {
			a.Fields = map[string]*Shape{}
		}
		a.Fields[k] = mergeShape(a.Fields[k], v)
	}
	return a
}

func fieldsOf(sel gast.SelectionSet, out map[string]*Shape) {
	for _, s := range sel {
		switch x := s.(type) {
		case *gast.Field:
			if x.Definition == nil {
				continue
			}
			out[x.Alias] = mergeShape(out[x.Alias], typeShape(x.Definition.Type, x.SelectionSet))
		case *gast.InlineFragment:
			fieldsOf(x.SelectionSet, out)
		case *gast.FragmentSpread:
			if x.Definition != nil {
				fieldsOf(x.Definition.SelectionSet, out)
			}
		}
	}
}

func shapeOf(schema *gast.Schema, op Op) (*Shape, error) {
	doc, errs := gqlparser.LoadQuery(schema, op.Query)
	if len(errs) > 0 {
		return nil, errs
	}
	o := doc.Operations.ForName(op.Name)
	if o == nil {
		return nil, fmt.Errorf("operation %q not found", op.Name)
	}
	s := &Shape{NN: 0, Fields: map[string]*Shape{}}
	fieldsOf(o.SelectionSet, s.Fields)
	return s, nil
}

// nullLastField sets the last member of a JSON object other than __typename to null (member order kept).
func nullLastField(obj json.RawMessage) (json.RawMessage, string, bool) {
	dec := json.NewDecoder(bytes.NewReader(obj))
	if tok, err := dec.Token(); err != nil || tok != json.Delim('{') {
		return nil, "", false
	}
	var keys []string
	var vals []json.RawMessage
	for dec.More() {
		kt, err := dec.Token()
		if err != nil {
			return nil, "", false
		}
		var v json.RawMessage
		if dec.Decode(&v) != nil {
			return nil, "", false
		}
		keys = append(keys, kt.(string))
		vals = append(vals, v)
	}
	idx := -1
	for i, k := range keys {
		if k != "__typename" {
			idx = i
		}
	}
	if idx < 0 {
		return nil, "", false
	}
	vals[idx] = json.RawMessage("null")
	var buf bytes.Buffer
	buf.WriteByte('{')
	for i := range keys {
		if i > 0 {
			buf.WriteByte(',')
		}
		kb, _ := json.Marshal(keys[i])
		buf.Write(kb)
		buf.WriteByte(':')
		buf.Write(vals[i])
	}
	buf.WriteByte('}')
	return buf.Bytes(), keys[idx], true
}

// alias of the _entities fields of a MultiEntityFetch request
var multiAliasRe = regexp.MustCompile(`^f[0-9]+$`)

// partialData turns a genuine subgraph answer into a partial one: the last field of the last element of every _entities
// array (plain or aliased) resp. the last root field of data becomes null and an errors entry with its path is added.
// Variants of a kind (Case.Variant modulo the number of variants of the kind):
//
//	Non2xxNonJSON  status of the unparseable answer: 500, 302 (no Location), 401, 403, 429
//	PartialData    0 one error with the path of the hole; 1..3 a path-less companion BEFORE it (no path / path:null /
//	               path:[]); 4 the companion after it; 5..9 the error carries "extensions" of type string / array /
//	               number / bool / object
//	ErrorsNoData   0 plain; 1..5 "extensions" of type string / array / number / bool / object, with "data":null
var (
	non2xxStatuses = []int{500, 302, 401, 403, 429}
	oddExtensions  = []string{`"UPSTREAM_UNAVAILABLE"`, `["a",1]`, `42`, `true`, `{"code":"DOWNSTREAM_SERVICE_ERROR"}`}
)

func variantsOf(kind string) int {
	switch kind {
	case "Non2xxNonJSON":
		return len(non2xxStatuses)
	case "PartialData":
		return 5 + len(oddExtensions)
	case "ErrorsNoData":
		return 1 + len(oddExtensions)
	}
	return 1
}

// shapeErrors applies a PartialData variant to the list of path errors of one answer.
func shapeErrors(fid, variant int, errs []string) []string {
	companion := func(path string) string {
		return fmt.Sprintf(`{"message":"faults: backend degraded (fetch %d)"%s}`, fid, path)
	}
	switch {
	case variant == 1:
		return append([]string{companion("")}, errs...)
	case variant == 2:
		return append([]string{companion(`,"path":null`)}, errs...)
	case variant == 3:
		return append([]string{companion(`,"path":[]`)}, errs...)
	case variant == 4:
		return append(errs, companion(""))
	case variant >= 5 && variant < 5+len(oddExtensions):
		out := make([]string, len(errs))
		for i, e := range errs {
			out[i] = strings.TrimSuffix(e, "}") + `,"extensions":` + oddExtensions[variant-5] + "}"
		}
		return out
	}
	return errs
}

func partialData(fid int, variant int, status int, body []byte) (int, []byte) {
	var doc map[string]json.RawMessage
	if json.Unmarshal(body, &doc) != nil {
		return status, body
	}
	dec := json.NewDecoder(bytes.NewReader(doc["data"]))
	tok, err := dec.Token()
	if err != nil || tok != json.Delim('{') {
		return status, body
	}
	// keep the member order of data
	type kv struct {
		k string
		v json.RawMessage
	}
	var members []kv
	for dec.More() {
		kt, err := dec.Token()
		if err != nil {
			return status, body
		}
		var v json.RawMessage
		if dec.Decode(&v) != nil {
			return status, body
		}
		members = append(members, kv{kt.(string), v})
	}
	if len(members) == 0 {
		return status, body
	}
	var errs []string
	entity := false
	for i := range members {
		var arr []json.RawMessage
		if (members[i].k == "_entities" || multiAliasRe.MatchString(members[i].k)) && json.Unmarshal(members[i].v, &arr) == nil && len(arr) > 0 && bytes.HasPrefix(bytes.TrimSpace(members[i].v), []byte("[")) {
			entity = true
			last := len(arr) - 1
			if ent, field, ok := nullLastField(arr[last]); ok {
				// field-level hole: the last field of the last entity could not be resolved
				arr[last] = ent
				errs = append(errs, fmt.Sprintf(`{"message":"faults: injected partial failure (fetch %d)","path":[%q,%d,%q]}`, fid, members[i].k, last, field))
			} else {
				arr[last] = json.RawMessage("null")
				errs = append(errs, fmt.Sprintf(`{"message":"faults: injected partial failure (fetch %d)","path":[%q,%d]}`, fid, members[i].k, last))
			}
			members[i].v, _ = json.Marshal(arr)
		}
	}
	if !entity {
		last := len(members) - 1
		members[last].v = json.RawMessage("null")
		errs = append(errs, fmt.Sprintf(`{"message":"faults: injected partial failure (fetch %d)","path":[%q]}`, fid, members[last].k))
	}
	errs = shapeErrors(fid, variant, errs)
	var buf bytes.Buffer
	buf.WriteString(`{"errors":[` + strings.Join(errs, ",") + `],"data":{`)
	for i, m := range members {
		if i > 0 {
			buf.WriteByte(',')
		}
		kb, _ := json.Marshal(m.k)
		buf.Write(kb)
		buf.WriteByte(':')
		buf.Write(m.v)
	}
	buf.WriteString("}}")
	return status, buf.Bytes()
}

// limiter denies the fetches of the case that carry the fault "RateLimited" (resolve.Context.SetRateLimiter). The fetch is
// identified through the ld.prepared hook that fired in the same goroutine just before the pre-fetch validation.
type limiter struct {
	rec    *recorder
	denied map[int]bool
	off    *atomic.Bool
}

func (l *limiter) RateLimitPreFetch(_ *resolve.Context, _ *resolve.FetchInfo, _ json.RawMessage) (*resolve.RateLimitDeny, error) {
	if l.off.Load() {
		return nil, nil
	}
	l.rec.mu.Lock()
	defer l.rec.mu.Unlock()
	fid, ok := l.rec.byGoid[goid()]
	if !ok || !l.denied[fid] {
		return nil, nil
	}
	l.rec.seq++
	l.rec.events = append(l.rec.events, Event{Seq: l.rec.seq, P: "deny", A: int64(fid)})
	return &resolve.RateLimitDeny{Reason: "faults: over the limit"}, nil
}

func (l *limiter) RenderResponseExtension(*resolve.Context, io.Writer) error { return nil }

// ---- one execution

func execute(op Op, c *Case, withPlan bool, second *Op) Out {
	out := Out{Op: op.ID}
	if c != nil {
		out.ID = c.ID
	} else {
		out.ID = op.ID
	}
	rec := newRecorder()
	faults := map[int]fedenv.Fault{}
	rewrites := map[int]func(int, []byte) (int, []byte){}
	denied := map[int]bool{}
	customs := map[int]fedenv.Action{}
	var order []int
	if c != nil {
		for k, v := range c.Faults {
			id, err := strconv.Atoi(k)
			variant := c.Variant % variantsOf(v)
			if err == nil && v == "Non2xxNonJSON" && variant > 0 {
				st := non2xxStatuses[variant]
				customs[id] = fedenv.Action{Fault: fedenv.FaultCustom, Status: st, Header: map[string][]string{"Content-Type": {"text/html"}},
					Body: []byte(fmt.Sprintf("<html><body><h1>%d %s</h1></body></html>", st, http.StatusText(st)))}
				continue
			}
			if err == nil && v == "ErrorsNoData" && variant > 0 {
				customs[id] = fedenv.Action{Fault: fedenv.FaultCustom, Status: 200, Body: []byte(fmt.Sprintf(
					`{"errors":[{"message":"faults: injected subgraph error (fetch %d)","extensions":%s}],"data":null}`, id, oddExtensions[variant-1]))}
				continue
			}
			if err == nil && v == "RateLimited" {
				denied[id] = true
				continue
			}
			if err == nil && v == "Non2xxJSON" {
				// 503 with the genuine, valid GraphQL body
				rewrites[id] = func(_ int, body []byte) (int, []byte) { return 503, body }
				continue
			}
			if err == nil && v == "PartialData" {
				// 200 with data + errors: one part of the genuine data is nulled and reported
				fid := id
				rewrites[id] = func(st int, body []byte) (int, []byte) { return partialData(fid, variant, st, body) }
				continue
			}
			f, ok := fedenv.ParseFault(v)
			if err != nil || !ok {
				out.Err = "bad fault spec " + k + ":" + v
				return out
			}
			faults[id] = f
		}
		order = c.Order
	}
	pos := map[int]int{}
	for i, f := range order {
		pos[f] = i
	}
	var xmu sync.Mutex
	xfetch := map[int]int{} // exchange seq -> fetch id
	var phase2 atomic.Bool
	opts := fedenv.Options{}
	if op.Env == "mini" {
		opts = minifed.Options()
	}
	opts.EnableMultiFetch = op.Multi
	if op.ErrMode != "" {
		ro := resolve.ResolverOptions{MaxConcurrency: 1024}
		if opts.ResolverOptions != nil {
			ro = *opts.ResolverOptions
		}
		ro.PropagateSubgraphErrors = true
		ro.SubgraphErrorPropagationMode = resolve.SubgraphErrorPropagationModePassThrough
		ro.RewriteSubgraphErrorPaths = op.ErrMode == "rewrite"
		opts.ResolverOptions = &ro
	}
	if len(denied) > 0 {
		rl := &limiter{rec: rec, denied: denied, off: &phase2}
		opts.ResolveContext = func(rc *resolve.Context) {
			rc.RateLimitOptions = resolve.RateLimitOptions{Enable: true}
			rc.SetRateLimiter(rl)
		}
	}
	opts.Interceptor = func(x *fedenv.Exchange) fedenv.Action {
		if phase2.Load() {
			return fedenv.Action{}
		}
		rec.mu.Lock()
		fid, ok := rec.byGoid[goid()]
		if !ok {
			fid = -1
		}
		// completion order: wait until every fetch that precedes this one in `order` is finished
		if p, has := pos[fid]; has {
			deadline := time.Now().Add(3 * time.Second)
			for !rec.free {
				waiting := false
				for _, g := range order[:p] {
					if !rec.finished[g] {
						waiting = true
						break
					}
				}
				if !waiting {
					break
				}
				if !time.Now().Before(deadline) {
					out.Unrealised = true
					break
				}
				t := time.AfterFunc(time.Until(deadline)+time.Millisecond, func() {
					rec.mu.Lock()
					rec.cond.Broadcast()
					rec.mu.Unlock()
				})
				rec.cond.Wait()
				t.Stop()
			}
		}
		rec.seq++
		rec.events = append(rec.events, Event{Seq: rec.seq, P: "req", A: int64(fid), B: int64(x.Seq)})
		rec.mu.Unlock()
		xmu.Lock()
		xfetch[x.Seq] = fid
		xmu.Unlock()
		if a, ok := customs[fid]; ok {
			return a
		}
		return fedenv.Action{Fault: faults[fid], Rewrite: rewrites[fid]}
	}
	env, err := fedenv.New(opts)
	if err != nil {
		out.Err = "fedenv: " + err.Error()
		return out
	}
	defer env.Close()
	curMu.Lock()
	cur = rec
	curMu.Unlock()
	type res struct {
		body []byte
		err  error
		pan  string
	}
	done := make(chan res, 1)
	ctx, cancel := context.WithCancel(context.Background())
	defer cancel()
	t0 := time.Now()
	go func() {
		var r res
		defer func() {
			if p := recover(); p != nil {
				buf := make([]byte, 4096)
				buf = buf[:runtime.Stack(buf, false)]
				r.pan = fmt.Sprintf("%v\n%s", p, buf)
			}
			done <- r
		}()
		r.body, r.err = env.Execute(ctx, op.Query, op.Vars, op.Name)
	}()
	var r res
	select {
	case r = <-done:
		out.Arrived = true
	case <-time.After(10 * time.Second):
		// open all gates and give it another 5 s
		rec.mu.Lock()
		rec.free = true
		rec.cond.Broadcast()
		rec.mu.Unlock()
		select {
		case r = <-done:
		case <-time.After(5 * time.Second):
		}
	}
	out.ElapsedMS = time.Since(t0).Milliseconds()
	curMu.Lock()
	cur = nil
	curMu.Unlock()
	out.Response = string(r.body)
	out.Panic = r.pan
	if r.err != nil {
		out.Err = r.err.Error()
	}
	rec.mu.Lock()
	out.Events = append([]Event(nil), rec.events...)
	rec.mu.Unlock()
	out.Exchanges = exportExchanges(env.Exchanges(), func(seq int) int {
		xmu.Lock()
		defer xmu.Unlock()
		if fid, ok := xfetch[seq]; ok {
			return fid
		}
		return -1
	})
	if withPlan {
		var fetches []FetchDesc
		out.Tree = exportTree(env, env.LastFetchTree(), &fetches)
		out.Fetches = fetches
		sh, err := shapeOf(schemaFor(op.Env), op)
		if err != nil {
			out.ShapeErr = err.Error()
		}
		out.Shape = sh
	}
	if c != nil && out.Arrived && out.Panic == "" {
		// fault, then repeat: the same operation once more on the same gateway, nothing fails this time
		phase2.Store(true)
		env.Reset()
		rctx, rcancel := context.WithTimeout(context.Background(), 10*time.Second)
		t1 := time.Now()
		rdone := make(chan res, 1)
		go func() {
			var r res
			defer func() {
				if p := recover(); p != nil {
					r.pan = fmt.Sprint(p)
				}
				rdone <- r
			}()
			o2 := op
			if second != nil {
				o2 = *second
			}
			r.body, r.err = env.Execute(rctx, o2.Query, o2.Vars, o2.Name)
		}()
		rp := &Repeat{}
		select {
		case r2 := <-rdone:
			rp.Arrived = rctx.Err() == nil
			rp.Response = string(r2.body)
			if r2.err != nil {
				rp.Err = r2.err.Error()
			}
			if r2.pan != "" {
				rp.Err = "panic: " + r2.pan
			}
		case <-time.After(15 * time.Second):
		}
		rcancel()
		rp.ElapsedMS = time.Since(t1).Milliseconds()
		rp.Exchanges = exportExchanges(env.Exchanges(), func(int) int { return -1 })
		out.Repeat = rp
	}
	return out
}

func exportExchanges(xs []*fedenv.Exchange, fetchOf func(seq int) int) []Xchg {
	var outx []Xchg
	for _, x := range xs {
		fid := fetchOf(x.Seq)
		xo := Xchg{Seq: x.Seq, Fetch: fid, Subgraph: x.Subgraph, Query: x.Query, Variables: string(x.Variables), Fault: x.Fault, Applied: x.FaultApplied,
			Status: x.Status, Response: x.ResponseText, Err: x.Err, Cancelled: x.Cancelled, Reps: []string{}}
		var vars map[string]json.RawMessage
		if len(x.Variables) > 0 && json.Unmarshal(x.Variables, &vars) == nil {
			// plain entity fetch: "representations"; MultiEntityFetch: "representations_f<N>" per merged fetch
			keys := make([]string, 0, len(vars))
			for k := range vars {
				if strings.HasPrefix(k, "representations") {
					keys = append(keys, k)
				}
			}
			sort.Strings(keys)
			for _, k := range keys {
				xo.IsEntity = true
				var arr []json.RawMessage
				if json.Unmarshal(vars[k], &arr) != nil {
					continue
				}
				for _, rp := range arr {
					var buf bytes.Buffer
					txt := string(rp)
					if json.Compact(&buf, rp) == nil {
						txt = buf.String()
					}
					if k != "representations" {
						txt = k + ":" + txt
					}
					xo.Reps = append(xo.Reps, txt)
				}
			}
		}
		outx = append(outx, xo)
	}
	return outx
}

var (
	schemaMu sync.Mutex
	schemas  = map[string]*gast.Schema{}
)

// schemaFor parses the supergraph SDL of the environment with gqlparser (independent of the code under test).
func schemaFor(envName string) *gast.Schema {
	schemaMu.Lock()
	defer schemaMu.Unlock()
	if s, ok := schemas[envName]; ok {
		return s
	}
	o := fedenv.Options{}
	if envName == "mini" {
		o = minifed.Options()
	}
	probe, err := fedenv.New(o)
	if err != nil {
		fmt.Fprintln(os.Stderr, "faults: ", err)
		os.Exit(2)
	}
	defer probe.Close()
	s, err := gqlparser.LoadSchema(&gast.Source{Name: "supergraph", Input: probe.SupergraphSDL()})
	if err != nil {
		fmt.Fprintln(os.Stderr, "faults: supergraph SDL:", err)
		os.Exit(2)
	}
	schemas[envName] = s
	return s
}

func main() {
	mode := flag.String("mode", "plan", "plan | run")
	in := flag.String("in", "", "plan: ops.json; run: cases.ndjson")
	opsPath := flag.String("ops", "", "run: ops.json")
	outPath := flag.String("out", "", "output ndjson")
	flag.Parse()
	install()
	die := func(err error) {
		if err != nil {
			fmt.Fprintln(os.Stderr, "faults:", err)
			os.Exit(2)
		}
	}
	of, err := os.Create(*outPath)
	die(err)
	defer of.Close()
	w := bufio.NewWriterSize(of, 1<<20)
	defer w.Flush()
	enc := json.NewEncoder(w)
	enc.SetEscapeHTML(false)
	readOps := func(p string) []Op {
		b, err := os.ReadFile(p)
		die(err)
		var ops []Op
		die(json.Unmarshal(b, &ops))
		return ops
	}
	switch *mode {
	case "plan":
		for _, op := range readOps(*in) {
			die(enc.Encode(execute(op, nil, true, nil)))
		}
	case "run":
		ops := map[string]Op{}
		for _, o := range readOps(*opsPath) {
			ops[o.ID] = o
		}
		f, err := os.Open(*in)
		die(err)
		defer f.Close()
		sc := bufio.NewScanner(f)
		sc.Buffer(make([]byte, 1<<20), 1<<26)
		for sc.Scan() {
			line := bytes.TrimSpace(sc.Bytes())
			if len(line) == 0 {
				continue
			}
			var c Case
			die(json.Unmarshal(line, &c))
			op, ok := ops[c.Op]
			if !ok {
				die(fmt.Errorf("unknown op %q", c.Op))
			}
			var second *Op
			if c.Then != "" {
				o2, ok := ops[c.Then]
				if !ok {
					die(fmt.Errorf("unknown op %q", c.Then))
				}
				second = &o2
			}
			o := execute(op, &c, false, second)
			die(enc.Encode(o))
			if !o.Arrived || (o.Repeat != nil && !o.Repeat.Arrived) {
				// a participant is still running: its hook events would pollute the next case; stop here,
				// the check restarts the driver on the remaining cases
				w.Flush()
				os.Exit(3)
			}
		}
		die(sc.Err())
	default:
		die(fmt.Errorf("unknown mode %q", *mode))
	}
}
