package main

// Entity flavour of the hand-built plans (Sched.Kinds non-empty): the dependency forest is realised with the fetch KINDS of
// the engine instead of plain SingleFetches. A request without dependency is a root SingleFetch ("S") that merges the object
//
//	{"id":f,"h":<hash of its input>,"list":[{"k":1,"p":h},{"k":2,"p":h}]}
//
// at <root>.f<f>. A request with one direct dependency p is an EntityFetch ("E": one representation rendered from the object
// p produced, merged INTO that object at e<f>) or a BatchEntityFetch ("B": one representation per list element / per object
// below an array, `_entities` merged positionally into the items at e<f>). Every entity carries the hash of its
// representation, which carries the hash of the parent: the final data encodes what every request saw.

import (
	"encoding/json"
	"fmt"
	"sort"

	"github.com/wundergraph/graphql-go-tools/v2/pkg/ast"
	"github.com/wundergraph/graphql-go-tools/v2/pkg/engine/resolve"
)

type pathEl struct {
	Arr  bool
	Name string
}

type entPlan struct {
	kinds  []string
	parent map[int]int
	loc    map[int][]pathEl // where the object(s) request f produces live
	kids   map[int][]int
}

func hasArr(p []pathEl) bool {
	for _, e := range p {
		if e.Arr {
			return true
		}
	}
	return false
}

func newEntPlan(s Sched) *entPlan {
	e := &entPlan{kinds: s.Kinds, parent: map[int]int{}, loc: map[int][]pathEl{}, kids: map[int][]int{}}
	for f := 1; f <= len(s.Deps); f++ {
		if len(s.Deps[f-1]) > 0 {
			p := s.Deps[f-1][0]
			e.parent[f] = p
			e.kids[p] = append(e.kids[p], f)
		}
	}
	var loc func(f int) []pathEl
	loc = func(f int) []pathEl {
		if l, ok := e.loc[f]; ok {
			return l
		}
		var l []pathEl
		p, ok := e.parent[f]
		switch {
		case !ok:
			l = []pathEl{{Name: fieldName(f)}}
		case e.kinds[f-1] == "B" && !hasArr(loc(p)):
			l = append(append([]pathEl(nil), loc(p)...), pathEl{Arr: true, Name: "list"}, pathEl{Name: entName(f)})
		default:
			l = append(append([]pathEl(nil), loc(p)...), pathEl{Name: entName(f)})
		}
		e.loc[f] = l
		return l
	}
	for f := 1; f <= len(s.Deps); f++ {
		loc(f)
	}
	return e
}

func entName(f int) string { return fmt.Sprintf("e%d", f) }

// overList: the items of batch request f are the list elements of its parent's object (else: objects below an array)
func (e *entPlan) overList(f int) bool {
	return e.kinds[f-1] == "B" && !hasArr(e.loc[e.parent[f]])
}

func objVar(path ...string) resolve.TemplateSegment {
	return resolve.TemplateSegment{SegmentType: resolve.VariableSegmentType, VariableKind: resolve.ObjectVariableKind,
		VariableSourcePath: path, Renderer: resolve.NewJSONVariableRenderer()}
}

func static(s string) resolve.TemplateSegment {
	return resolve.TemplateSegment{SegmentType: resolve.StaticSegmentType, Data: []byte(s)}
}

func (e *entPlan) buildFetch(ds resolve.DataSource, f int, deps []int) *resolve.FetchTreeNode {
	name := fmt.Sprintf("sg%d", f)
	info := &resolve.FetchInfo{DataSourceID: name, DataSourceName: name, OperationType: ast.OperationTypeQuery}
	fd := resolve.FetchDependencies{FetchID: f - 1}
	for _, d := range deps {
		fd.DependsOnFetchIDs = append(fd.DependsOnFetchIDs, d-1)
	}
	p, nested := e.parent[f]
	if !nested {
		return resolve.Single(&resolve.SingleFetch{
			FetchDependencies: fd,
			FetchConfiguration: resolve.FetchConfiguration{DataSource: ds, PostProcessing: resolve.PostProcessingConfiguration{
				SelectResponseDataPath: []string{"data"}, SelectResponseErrorsPath: []string{"errors"}, MergePath: []string{fieldName(f)}}},
			InputTemplate:        resolve.InputTemplate{Segments: []resolve.TemplateSegment{static(fmt.Sprintf(`{"f":%d,"ent":true,"in":{}}`, f))}},
			DataSourceIdentifier: []byte("verif"),
			Info:                 info,
		})
	}
	// the items: the object(s) of the parent, or the elements of its list
	var path []resolve.FetchItemPathElement
	for _, el := range e.loc[p] {
		if el.Arr {
			path = append(path, resolve.ArrayPath(el.Name))
		} else {
			path = append(path, resolve.ObjectPath(el.Name))
		}
	}
	item := resolve.InputTemplate{SetTemplateOutputToNullOnVariableNull: true,
		Segments: []resolve.TemplateSegment{static(`{"__typename":"T","h":`), objVar("h"), static(`}`)}}
	if e.overList(f) {
		path = append(path, resolve.ArrayPath("list"))
		item.Segments = []resolve.TemplateSegment{static(`{"__typename":"T","k":`), objVar("k"), static(`,"p":`), objVar("p"), static(`}`)}
	}
	header := resolve.InputTemplate{Segments: []resolve.TemplateSegment{static(fmt.Sprintf(`{"f":%d,"ent":true,"reps":[`, f))}}
	footer := resolve.InputTemplate{Segments: []resolve.TemplateSegment{static(`]}`)}}
	if e.kinds[f-1] == "E" {
		return resolve.Single(&resolve.EntityFetch{
			FetchDependencies: fd,
			Input:             resolve.EntityInput{Header: header, Item: item, SkipErrItem: true, Footer: footer},
			DataSource:        ds,
			PostProcessing: resolve.PostProcessingConfiguration{SelectResponseDataPath: []string{"data", "_entities", "0"},
				SelectResponseErrorsPath: []string{"errors"}, MergePath: []string{entName(f)}},
			DataSourceIdentifier: []byte("verif"),
			Info:                 info,
		}, path...)
	}
	return resolve.Single(&resolve.BatchEntityFetch{
		FetchDependencies: fd,
		Input: resolve.BatchInput{Header: header, Items: []resolve.InputTemplate{item}, SkipNullItems: true, SkipEmptyObjectItems: true,
			SkipErrItems: true, Separator: resolve.InputTemplate{Segments: []resolve.TemplateSegment{static(`,`)}}, Footer: footer},
		DataSource: ds,
		PostProcessing: resolve.PostProcessingConfiguration{SelectResponseDataPath: []string{"data", "_entities"},
			SelectResponseErrorsPath: []string{"errors"}, MergePath: []string{entName(f)}},
		DataSourceIdentifier: []byte("verif"),
		Info:                 info,
	}, path...)
}

// ---- the data universe of the entity flavour ---------------------------------------------------------------------------------

func entObject(f int, input any) map[string]any {
	h := hashOf(canon(input))
	return map[string]any{"id": f, "h": h, "list": []any{map[string]any{"k": 1, "p": h}, map[string]any{"k": 2, "p": h}}}
}

// entAnswer answers a request of the entity flavour; saw = the parent whose data the representations carry.
func entAnswer(f int, raw []byte, fail bool) (out []byte, sawParent bool) {
	var in struct {
		Reps []map[string]any `json:"reps"`
	}
	_ = json.Unmarshal(raw, &in)
	var data any
	if in.Reps == nil {
		data = entObject(f, map[string]any{"f": f})
	} else {
		sawParent = len(in.Reps) > 0
		ents := []any{}
		for _, r := range in.Reps {
			if r["h"] == nil && r["p"] == nil {
				sawParent = false
			}
			ents = append(ents, entObject(f, map[string]any{"f": f, "rep": r}))
		}
		data = map[string]any{"_entities": ents}
	}
	resp := map[string]any{"data": data}
	if fail {
		resp["errors"] = []any{map[string]any{"message": fmt.Sprintf("boom %d", f)}}
	}
	b, _ := json.Marshal(resp)
	return b, sawParent
}

// ---- response plan and oracle ------------------------------------------------------------------------------------------------

func (e *entPlan) objectNode(f int, path []string) *resolve.Object {
	var inList, inObj []int
	for _, c := range e.kids[f] {
		if e.overList(c) {
			inList = append(inList, c)
		} else {
			inObj = append(inObj, c)
		}
	}
	sort.Ints(inList)
	sort.Ints(inObj)
	elem := &resolve.Object{Nullable: true, Fields: []*resolve.Field{
		{Name: []byte("k"), Value: &resolve.Integer{Path: []string{"k"}, Nullable: true}},
		{Name: []byte("p"), Value: &resolve.String{Path: []string{"p"}, Nullable: true}},
	}}
	for _, c := range inList {
		elem.Fields = append(elem.Fields, &resolve.Field{Name: []byte(entName(c)), Value: e.objectNode(c, []string{entName(c)})})
	}
	o := &resolve.Object{Path: path, Nullable: true, Fields: []*resolve.Field{
		{Name: []byte("id"), Value: &resolve.Integer{Path: []string{"id"}, Nullable: true}},
		{Name: []byte("h"), Value: &resolve.String{Path: []string{"h"}, Nullable: true}},
		{Name: []byte("list"), Value: &resolve.Array{Path: []string{"list"}, Nullable: true, Item: elem}},
	}}
	for _, c := range inObj {
		o.Fields = append(o.Fields, &resolve.Field{Name: []byte(entName(c)), Value: e.objectNode(c, []string{entName(c)})})
	}
	return o
}

func (e *entPlan) dataNode() *resolve.Object {
	var roots []int
	for f := 1; f <= len(e.kinds); f++ {
		if _, ok := e.parent[f]; !ok {
			roots = append(roots, f)
		}
	}
	d := &resolve.Object{}
	for _, r := range roots {
		d.Fields = append(d.Fields, &resolve.Field{Name: []byte(fieldName(r)), Value: e.objectNode(r, []string{fieldName(r)})})
	}
	return d
}

// value evaluates request f for the representation rep (nil for a root) and everything below it, without any loader.
func (e *entPlan) value(f int, rep map[string]any) map[string]any {
	var o map[string]any
	if rep == nil {
		o = entObject(f, map[string]any{"f": f})
	} else {
		o = entObject(f, map[string]any{"f": f, "rep": rep})
	}
	for _, c := range e.kids[f] {
		if e.overList(c) {
			for _, el := range o["list"].([]any) {
				m := el.(map[string]any)
				m[entName(c)] = e.value(c, map[string]any{"__typename": "T", "k": m["k"], "p": m["p"]})
			}
		} else {
			o[entName(c)] = e.value(c, map[string]any{"__typename": "T", "h": o["h"]})
		}
	}
	return o
}

func (e *entPlan) expected() string {
	out := map[string]any{}
	for f := 1; f <= len(e.kinds); f++ {
		if _, ok := e.parent[f]; !ok {
			out[fieldName(f)] = e.value(f, nil)
		}
	}
	// through JSON once so that numbers compare like the parsed response
	var generic any
	_ = json.Unmarshal([]byte(canon(out)), &generic)
	return canon(generic)
}
