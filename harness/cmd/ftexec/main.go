// Command ftexec is the driver of C08 part (b): it executes hand-built plans (a TLC-chosen or
// post-processor-produced fetch tree whose requests read the data of the requests they depend on through
// template variables) with the REAL resolve.Resolver / resolve.Loader and forces the TLC-generated
// schedule (spec/resolve/Gen_FTRun.tla) with the fetch-keyed gate scheduler: hook points ld.* of build
// tag verif inside the loader plus the harness-side data source gate ds.load.
//
// Input  (-in):  NDJSON {"id":"..","grp":"..","tree":{..},"deps":[[..],..],"fail":[3],"arena":false,
//
//	"init":[1,2],"steps":[{"f":1,"a":"P","exp":[]},{"f":1,"a":"F","exp":[3]},..]}
//
// Output (-out): NDJSON event stream for Trace_FTRun.tla (traces separated by "reset" lines),
// (-res) one result line per schedule with the Go-side observations (response, data source call counts...).
package main

import (
	"bufio"
	"bytes"
	"context"
	"encoding/json"
	"errors"
	"flag"
	"fmt"
	"hash/fnv"
	"net/http"
	"os"
	"sort"
	"sync"
	"time"

	"github.com/wundergraph/graphql-go-tools/v2/pkg/ast"
	"github.com/wundergraph/graphql-go-tools/v2/pkg/engine/datasource/httpclient"
	"github.com/wundergraph/graphql-go-tools/v2/pkg/engine/resolve"

	"verif/harness/internal/ftgate"
)

type Node struct {
	K  string  `json:"k"`
	ID int     `json:"id"`
	M  []int   `json:"m"`
	C  []*Node `json:"c"`
}

type Sched struct {
	ID   string  `json:"id"`
	Grp  string  `json:"grp"`
	Tree *Node   `json:"tree"`
	Deps [][]int `json:"deps"`
	Fail []int   `json:"fail"`
	// Ghost: requests located below an object no request provides (a null / absent ancestor in a real plan):
	// a non-entity nested fetch whose fetch path selects no item
	Ghost []int `json:"ghost"`
	// Terr: the request whose data source fails with a transport error (0 = none)
	Terr int `json:"terr"`
	// Kinds: entity flavour (entity.go): per request "S" root SingleFetch, "E" EntityFetch, "B" BatchEntityFetch; deps is a forest
	Kinds []string      `json:"kinds"`
	Arena bool          `json:"arena"`
	Init  []int         `json:"init"`
	Steps []ftgate.Step `json:"steps"`
}

type Result struct {
	ID         string         `json:"id"`
	Grp        string         `json:"grp"`
	Data       string         `json:"data"`        // canonical (key-sorted) JSON of response.data
	Errors     []string       `json:"errors"`      // canonical JSON of every entry of response.errors, sorted
	ExpectData string         `json:"expect_data"` // what a dependency-ordered evaluation of the same data sources yields
	Raw        string         `json:"raw"`
	Err        string         `json:"err"`
	Unrealised int            `json:"unrealised"`
	Wedged     bool           `json:"wedged"`
	DSCalls    map[string]int `json:"ds_calls"`
	ProbeMoved bool           `json:"probe_moved"` // the tried fetch entered the critical section while another one held it
	Events     int            `json:"events"`
}

// ---- the fake subgraphs ---------------------------------------------------------------------

func canon(v any) string {
	b, _ := json.Marshal(v) // maps are marshalled with sorted keys
	return string(b)
}

func hashOf(s string) string {
	h := fnv.New64a()
	h.Write([]byte(s))
	return fmt.Sprintf("%016x", h.Sum64())
}

// answer is the data universe: the payload of request f is a function of the (canonicalised) input only.
func answer(f int, input any, fail bool) []byte {
	h := hashOf(canon(input))
	if fail {
		return []byte(fmt.Sprintf(`{"errors":[{"message":"boom %d"}],"data":{"id":%d,"h":"%s"}}`, f, f, h))
	}
	return []byte(fmt.Sprintf(`{"data":{"id":%d,"h":"%s"}}`, f, h))
}

var errTransport = errors.New("verif: injected transport error")

type gatedDS struct {
	parent map[int]int // entity flavour: the request whose object(s) a request reads
	gate   *ftgate.Gate
	terr   int
	fail   map[int]bool
	mu     *sync.Mutex
	calls  map[int]int
}

func (d gatedDS) Load(ctx context.Context, headers http.Header, input []byte) ([]byte, error) {
	var in struct {
		F   int                        `json:"f"`
		Ent bool                       `json:"ent"`
		In  map[string]json.RawMessage `json:"in"`
	}
	var generic any
	if err := json.Unmarshal(input, &in); err != nil {
		return nil, fmt.Errorf("verif: data source got a malformed input %q: %w", input, err)
	}
	_ = json.Unmarshal(input, &generic)
	saw := []int{}
	for k, v := range in.In {
		if !bytes.Equal(bytes.TrimSpace(v), []byte("null")) {
			var n int
			fmt.Sscanf(k, "d%d", &n)
			saw = append(saw, n)
		}
	}
	sort.Ints(saw)
	d.mu.Lock()
	d.calls[in.F]++
	d.mu.Unlock()
	if in.Ent {
		out, sawParent := entAnswer(in.F, input, d.fail[in.F])
		if sawParent && d.parent[in.F] != 0 {
			saw = []int{d.parent[in.F]}
		}
		d.gate.Arrive("ds.load", in.F, 0, saw)
		return out, nil
	}
	d.gate.Arrive("ds.load", in.F, 0, saw)
	if in.F == d.terr {
		return nil, errTransport
	}
	return answer(in.F, generic, d.fail[in.F]), nil
}

func (d gatedDS) LoadWithFiles(ctx context.Context, headers http.Header, input []byte, files []*httpclient.FileUpload) ([]byte, error) {
	return d.Load(ctx, headers, input)
}

// ---- plan construction ----------------------------------------------------------------------

func fieldName(f int) string { return fmt.Sprintf("f%d", f) }

func buildFetch(ds resolve.DataSource, f int, deps []int) *resolve.SingleFetch {
	sorted := append([]int(nil), deps...)
	sort.Ints(sorted)
	var segs []resolve.TemplateSegment
	static := func(s string) {
		segs = append(segs, resolve.TemplateSegment{SegmentType: resolve.StaticSegmentType, Data: []byte(s)})
	}
	static(fmt.Sprintf(`{"f":%d,"in":{`, f))
	realDeps := make([]int, 0, len(sorted))
	for i, d := range sorted {
		if i > 0 {
			static(",")
		}
		static(fmt.Sprintf(`"d%d":`, d))
		// what request f reads: the object request d merged at <root>.f<d>
		segs = append(segs, resolve.TemplateSegment{SegmentType: resolve.VariableSegmentType, VariableKind: resolve.ObjectVariableKind,
			VariableSourcePath: []string{fieldName(d)}, Renderer: resolve.NewJSONVariableRenderer()})
		realDeps = append(realDeps, d-1)
	}
	static("}}")
	name := fmt.Sprintf("sg%d", f)
	return &resolve.SingleFetch{
		FetchDependencies: resolve.FetchDependencies{FetchID: f - 1, DependsOnFetchIDs: realDeps},
		FetchConfiguration: resolve.FetchConfiguration{
			DataSource: ds,
			PostProcessing: resolve.PostProcessingConfiguration{SelectResponseDataPath: []string{"data"},
				SelectResponseErrorsPath: []string{"errors"}, MergePath: []string{fieldName(f)}},
		},
		InputTemplate:        resolve.InputTemplate{Segments: segs},
		DataSourceIdentifier: []byte("verif"),
		Info: &resolve.FetchInfo{DataSourceID: name, DataSourceName: name, OperationType: ast.OperationTypeQuery,
			RootFields: []resolve.GraphCoordinate{{TypeName: "Query", FieldName: fieldName(f)}}},
	}
}

func buildTree(n *Node, ds resolve.DataSource, deps [][]int, ghost map[int]bool, ent *entPlan, ids *[]int) *resolve.FetchTreeNode {
	switch n.K {
	case "F":
		*ids = append(*ids, n.ID)
		if ent != nil {
			return ent.buildFetch(ds, n.ID, deps[n.ID-1])
		}
		if ghost[n.ID] {
			return resolve.Single(buildFetch(ds, n.ID, deps[n.ID-1]), resolve.ObjectPath(fmt.Sprintf("ghost%d", n.ID)), resolve.ObjectPath("x"))
		}
		return resolve.Single(buildFetch(ds, n.ID, deps[n.ID-1]))
	case "S", "P":
		ch := make([]*resolve.FetchTreeNode, 0, len(n.C))
		for _, c := range n.C {
			ch = append(ch, buildTree(c, ds, deps, ghost, ent, ids))
		}
		if n.K == "S" {
			return resolve.Sequence(ch...)
		}
		return resolve.Parallel(ch...)
	}
	panic("bad node kind " + n.K)
}

func buildResponse(s Sched, ds resolve.DataSource) (*resolve.GraphQLResponse, []int) {
	var ids []int
	ghost := map[int]bool{}
	for _, f := range s.Ghost {
		ghost[f] = true
	}
	var ent *entPlan
	if len(s.Kinds) > 0 {
		ent = newEntPlan(s)
	}
	tree := buildTree(s.Tree, ds, s.Deps, ghost, ent, &ids)
	sorted := append([]int(nil), ids...)
	sort.Ints(sorted)
	if ent != nil {
		return &resolve.GraphQLResponse{Info: &resolve.GraphQLResponseInfo{OperationType: ast.OperationTypeQuery}, Fetches: tree, Data: ent.dataNode()}, sorted
	}
	var fields []*resolve.Field
	for _, f := range sorted {
		fields = append(fields, &resolve.Field{
			Name: []byte(fieldName(f)),
			Value: &resolve.Object{Path: []string{fieldName(f)}, Nullable: true, Fields: []*resolve.Field{
				{Name: []byte("id"), Value: &resolve.Integer{Path: []string{"id"}, Nullable: true}},
				{Name: []byte("h"), Value: &resolve.String{Path: []string{"h"}, Nullable: true}},
			}},
		})
	}
	return &resolve.GraphQLResponse{
		Info:    &resolve.GraphQLResponseInfo{OperationType: ast.OperationTypeQuery},
		Fetches: tree,
		Data:    &resolve.Object{Fields: fields},
	}, sorted
}

// expected evaluates the same data sources in dependency order without any loader.
func expected(ids []int, deps [][]int, fail map[int]bool, ghost map[int]bool, terr int) string {
	bad := map[int]bool{}
	if terr != 0 {
		bad[terr] = true
		for changed := true; changed; {
			changed = false
			for _, f := range ids {
				for _, d := range deps[f-1] {
					if bad[d] && !bad[f] {
						bad[f], changed = true, true
					}
				}
			}
		}
	}
	val := map[int]any{}
	var eval func(f int) any
	eval = func(f int) any {
		if v, ok := val[f]; ok {
			return v
		}
		if bad[f] {
			// the request failed, or (transitively) reads from a request that failed: it is not merged / not issued
			val[f] = nil
			return nil
		}
		if ghost[f] {
			// a request whose fetch path selects no item has nowhere to merge: its field stays null
			val[f] = nil
			return nil
		}
		in := map[string]any{}
		for _, d := range deps[f-1] {
			in[fmt.Sprintf("d%d", d)] = eval(d)
		}
		input := map[string]any{"f": f, "in": in}
		var resp struct {
			Data any `json:"data"`
		}
		// round-trip through JSON exactly like the data source does
		var generic any
		_ = json.Unmarshal([]byte(canon(input)), &generic)
		_ = json.Unmarshal(answer(f, generic, fail[f]), &resp)
		val[f] = resp.Data
		return resp.Data
	}
	out := map[string]any{}
	for _, f := range ids {
		out[fieldName(f)] = eval(f)
	}
	return canon(out)
}

type capture struct{ buf []byte }

func (c *capture) Write(p []byte) (int, error) { c.buf = append(c.buf, p...); return len(p), nil }

// ---- one schedule -----------------------------------------------------------------------------

func runSchedule(s Sched, evw *bufio.Writer) Result {
	res := Result{ID: s.ID, Grp: s.Grp, DSCalls: map[string]int{}, Errors: []string{}}
	gate := ftgate.New("ld.prepare", "ds.load")
	fail := map[int]bool{}
	for _, f := range s.Fail {
		fail[f] = true
	}
	mu := &sync.Mutex{}
	calls := map[int]int{}
	ds := gatedDS{gate: gate, terr: s.Terr, fail: fail, mu: mu, calls: calls, parent: map[int]int{}}
	if len(s.Kinds) > 0 {
		ds.parent = newEntPlan(s).parent
	}
	resp, ids := buildResponse(s, ds)
	ghost := map[int]bool{}
	for _, f := range s.Ghost {
		ghost[f] = true
	}
	res.ExpectData = expected(ids, s.Deps, fail, ghost, s.Terr)
	if len(s.Kinds) > 0 {
		res.ExpectData = newEntPlan(s).expected()
	}

	resolve.VerifHook = func(point string, a, b uint64) {
		if ftgate.KnownPoint(point) { // hooks of other checks share resolve.VerifHook
			gate.Arrive(point, int(a)+1, b, nil)
		}
	}
	defer func() { resolve.VerifHook = nil }()
	rctx, rcancel := context.WithCancel(context.Background())
	defer rcancel()
	resolver := resolve.New(rctx, resolve.ResolverOptions{MaxConcurrency: 16})
	rc := resolve.NewContext(context.Background())
	rc.ExecutionOptions.DisableSubgraphRequestDeduplication = true
	rc.ExecutionOptions.DisableInboundRequestDeduplication = true
	w := &capture{}
	done := make(chan struct{})
	var runErr error
	var panicked any
	go func() {
		defer close(done)
		defer func() {
			if p := recover(); p != nil {
				panicked = p
			}
		}()
		if s.Arena {
			_, runErr = resolver.ArenaResolveGraphQLResponse(rc, resp, w)
		} else {
			_, runErr = resolver.ResolveGraphQLResponse(rc, resp, nil, w)
		}
	}()

	// the lines of one trace are written together when the schedule is finished: a crash of the process (a panic in a
	// goroutine of the code under test cannot be recovered here) leaves no partial trace behind
	var lines [][]byte
	emit := func(m map[string]any) {
		b, _ := json.Marshal(m)
		lines = append(lines, b)
	}
	defer func() {
		for _, b := range lines {
			evw.Write(b)
			evw.WriteByte('\n')
		}
	}()
	emit(map[string]any{"ev": "reset", "id": s.ID, "f": 0, "b": 0, "saw": []int{}, "tree": s.Tree, "deps": s.Deps})

	unreal, moved := gate.RunSteps(s.Init, s.Steps, "ds.load")
	res.Unrealised, res.ProbeMoved = unreal, moved
	ok := unreal == 0
	// everything was released by the schedule; if not (unrealised step) open all gates
	finished := false
	select {
	case <-done:
		finished = true
	case <-time.After(200 * time.Millisecond):
	}
	if !finished {
		if ok {
			res.Unrealised++
		}
		gate.Drain()
		select {
		case <-done:
		case <-time.After(ftgate.WedgeWait):
			res.Wedged = true
		}
	}
	gate.Drain()
	for _, e := range gate.Events() {
		saw := e.Saw
		if saw == nil {
			saw = []int{}
		}
		emit(map[string]any{"ev": e.Point, "f": e.F, "b": int(e.B), "saw": saw})
	}
	res.Events = gate.Len()
	if panicked != nil {
		res.Err = fmt.Sprint("panic: ", panicked)
	} else if runErr != nil {
		res.Err = runErr.Error()
	}
	retOK := 0
	if !res.Wedged && res.Err == "" {
		retOK = 1
	}
	if !res.Wedged {
		emit(map[string]any{"ev": "return", "f": 0, "b": retOK, "saw": []int{}})
	}
	mu.Lock()
	for f, c := range calls {
		res.DSCalls[fmt.Sprint(f)] = c
	}
	mu.Unlock()
	if !res.Wedged {
		res.Raw = string(w.buf)
		var doc struct {
			Data   any   `json:"data"`
			Errors []any `json:"errors"`
		}
		if err := json.Unmarshal(w.buf, &doc); err != nil {
			if res.Err == "" {
				res.Err = "response is not JSON: " + err.Error()
			}
		} else {
			res.Data = canon(doc.Data)
			for _, e := range doc.Errors {
				res.Errors = append(res.Errors, canon(e))
			}
			sort.Strings(res.Errors)
		}
	}
	return res
}

func main() {
	in := flag.String("in", "", "schedules NDJSON")
	out := flag.String("out", "events.ndjson", "event stream for TLC")
	resf := flag.String("res", "results.ndjson", "per-schedule results")
	progressf := flag.String("progress", "", "file that always names the input line being processed (crash attribution)")
	from := flag.Int("from", 0, "skip the first N input lines and append to the outputs (continue after a crash)")
	flag.Parse()
	f, err := os.Open(*in)
	if err != nil {
		fmt.Fprintln(os.Stderr, err)
		os.Exit(3)
	}
	defer f.Close()
	openOut := os.Create
	if *from > 0 {
		openOut = func(name string) (*os.File, error) {
			return os.OpenFile(name, os.O_CREATE|os.O_WRONLY|os.O_APPEND, 0o644)
		}
	}
	var prog *os.File
	if *progressf != "" {
		prog, _ = os.Create(*progressf)
		defer prog.Close()
	}
	of, _ := openOut(*out)
	defer of.Close()
	evw := bufio.NewWriterSize(of, 1<<20)
	defer evw.Flush()
	rf, _ := openOut(*resf)
	defer rf.Close()
	rw := bufio.NewWriter(rf)
	defer rw.Flush()
	sc := bufio.NewScanner(f)
	sc.Buffer(make([]byte, 1<<20), 1<<26)
	lineNo := 0
	for sc.Scan() {
		line := bytes.TrimSpace(sc.Bytes())
		lineNo++
		if len(line) == 0 || lineNo <= *from {
			continue
		}
		if prog != nil {
			evw.Flush()
			rw.Flush()
			prog.WriteAt([]byte(fmt.Sprintf("%12d\n", lineNo)), 0)
		}
		var s Sched
		if err := json.Unmarshal(line, &s); err != nil {
			fmt.Fprintln(os.Stderr, "bad schedule:", err)
			os.Exit(3)
		}
		r := runSchedule(s, evw)
		b, _ := json.Marshal(r)
		rw.Write(b)
		rw.WriteByte('\n')
	}
}
