// Command vars replays the TLC-generated cases of spec/core/Gen_Coerce.tla (check C06) into the real
// code and records what it did.
//
// Input (-in): NDJSON. Line 1 is the header printed by the generator
//
//	{"header":{"schema":{..type defs..},"vartypes":[..],"varlits":[..],"nnpos":[..]}}
//
// from which the SDL is printed (so specification and code see the same schema); every other line is
//
//	{"id":"..","case":{"vm":"obj|none|null","pos":"same|nn","extra":bool,"vars":[{"name","tix","dm","val"}]}}
//
// where val is an abstract tagged JSON value (see GQLCoerce.tla); every leaf is made concrete here with a
// unique sentinel.
//
// Output (-out): NDJSON, three observations per case (the case is echoed so that the trace specification
// can recompute the verdict):
//
//	who = "engine": ExecutionEngine.Execute against a recording subgraph; acc <=> no error and the subgraph was called
//	who = "val":    VariablesValidator.ValidateWithRemap after the engine's normalization steps
//	who = "valq":   the same with DisableExposingVariablesContent
//	who = "engl" / "engp": ONE long-lived engine executes every case twice, as it arrives and normalized by the caller
//	                first (Execute branches on IsNormalized()), all 2N requests interleaved in a seed-shuffled order
//	who = "vall" / "vallq": the same two, but ONE long-lived validator instance each for the whole sequence of cases
//	                (seed-shuffled order): the verdict for a request must not depend on earlier requests
//
// q = the quoted tokens of the rejection message (".[" canonicalised to "["), leak = number of sentinel
// leaves of the variables that occur in the message.
package main

import (
	"bufio"
	"bytes"
	"context"
	"encoding/json"
	"flag"
	"fmt"
	"io"
	"math/rand"
	"net/http"
	"os"
	"runtime/debug"
	"sort"
	"strconv"
	"strings"
	"sync"

	"github.com/jensneuse/abstractlogger"

	"github.com/wundergraph/graphql-go-tools/execution/engine"
	"github.com/wundergraph/graphql-go-tools/execution/graphql"
	"github.com/wundergraph/graphql-go-tools/v2/pkg/astnormalization"
	"github.com/wundergraph/graphql-go-tools/v2/pkg/astvalidation"
	"github.com/wundergraph/graphql-go-tools/v2/pkg/engine/datasource/graphql_datasource"
	"github.com/wundergraph/graphql-go-tools/v2/pkg/engine/plan"
	"github.com/wundergraph/graphql-go-tools/v2/pkg/engine/resolve"
	"github.com/wundergraph/graphql-go-tools/v2/pkg/operationreport"
	"github.com/wundergraph/graphql-go-tools/v2/pkg/variablesvalidation"
)

type TypeRef struct {
	K  string   `json:"k"`
	N  string   `json:"n,omitempty"`
	Of *TypeRef `json:"of,omitempty"`
}

func (t TypeRef) String() string {
	switch t.K {
	case "nn":
		return t.Of.String() + "!"
	case "list":
		return "[" + t.Of.String() + "]"
	}
	return t.N
}

type FieldDef struct {
	Name string  `json:"name"`
	Type TypeRef `json:"type"`
	Def  bool    `json:"def"`
	Lit  string  `json:"lit"`
}

type TypeDef struct {
	Kind   string     `json:"kind"`
	Values []string   `json:"values"`
	Hidden []string   `json:"hidden"`
	OneOf  bool       `json:"oneOf"`
	Fields []FieldDef `json:"fields"`
}

type Header struct {
	Schema   map[string]TypeDef `json:"schema"`
	VarTypes []TypeRef          `json:"vartypes"`
	VarLits  []string           `json:"varlits"`
	NNPos    []int              `json:"nnpos"`
	Extra    string             `json:"extraname"`
	Hosts    []Host             `json:"hosts"`
	Cat      int                `json:"cat"`
}

// Host: the variable is used inside an argument literal: field(x: pre $x post)
type Host struct {
	Tix   int    `json:"tix"`
	Field string `json:"field"`
	Pre   string `json:"pre"`
	Post  string `json:"post"`
}

type Val struct {
	T string          `json:"t"`
	V json.RawMessage `json:"v,omitempty"`
	N int             `json:"n,omitempty"`
	E []Entry         `json:"e,omitempty"`
}

type Entry struct {
	K string `json:"k"`
	V Val    `json:"v"`
}

type Var struct {
	Name string `json:"name"`
	Tix  int    `json:"tix"`
	DM   string `json:"dm"`
	Val  Val    `json:"val"`
}

type Case struct {
	VM       string `json:"vm"`
	Pos      string `json:"pos"`
	Host     int    `json:"host"`
	Extra    bool   `json:"extra"`
	DupV     Val    `json:"dupv"`
	DupFirst bool   `json:"dupfirst"`
	Vars     []Var  `json:"vars"`
}

type Line struct {
	Header *Header         `json:"header,omitempty"`
	ID     string          `json:"id,omitempty"`
	Case   *Case           `json:"case,omitempty"`
	Raw    json.RawMessage `json:"-"`
}

type Obs struct {
	ID     string          `json:"id"`
	Case   json.RawMessage `json:"case"`
	Who    string          `json:"who"`
	Acc    bool            `json:"acc"`
	Expose bool            `json:"expose"`
	NQ     int             `json:"nq"`
	Q      []string        `json:"q"`
	Leak   int             `json:"leak"`
	// not read by the trace specification: for replay files and evidence
	Msg   string `json:"msg"`
	Query string `json:"query"`
	Vars  string `json:"vars"`
	Sent  string `json:"sent"`
	Resp  string `json:"resp"`
	Stage string `json:"stage"`
	Pos   int    `json:"pos"` // long-lived validators: position of the case in their sequence
}

// ------------------------------------------------------------------ SDL

func sdl(h *Header) string {
	var b strings.Builder
	b.WriteString("schema { query: Query }\n")
	b.WriteString("directive @inaccessible on FIELD_DEFINITION | OBJECT | INTERFACE | UNION | ARGUMENT_DEFINITION | SCALAR | ENUM | ENUM_VALUE | INPUT_OBJECT | INPUT_FIELD_DEFINITION\n")
	names := make([]string, 0, len(h.Schema))
	for n := range h.Schema {
		names = append(names, n)
	}
	sort.Strings(names)
	builtin := map[string]bool{"Int": true, "Float": true, "String": true, "Boolean": true, "ID": true}
	for _, n := range names {
		d := h.Schema[n]
		switch d.Kind {
		case "scalar":
			if !builtin[n] {
				fmt.Fprintf(&b, "scalar %s\n", n)
			}
		case "enum":
			fmt.Fprintf(&b, "enum %s {", n)
			for _, v := range d.Values {
				fmt.Fprintf(&b, " %s", v)
			}
			for _, v := range d.Hidden {
				fmt.Fprintf(&b, " %s @inaccessible", v)
			}
			b.WriteString(" }\n")
		case "input":
			fmt.Fprintf(&b, "input %s", n)
			if d.OneOf {
				b.WriteString(" @oneOf")
			}
			b.WriteString(" {\n")
			for _, f := range d.Fields {
				fmt.Fprintf(&b, "  %s: %s", f.Name, f.Type)
				if f.Def {
					fmt.Fprintf(&b, " = %s", f.Lit)
				}
				b.WriteString("\n")
			}
			b.WriteString("}\n")
		}
	}
	b.WriteString("type Query {\n")
	for i, t := range h.VarTypes {
		fmt.Fprintf(&b, "  t%d(x: %s): String\n", i+1, t)
	}
	for _, i := range h.NNPos {
		fmt.Fprintf(&b, "  n%d(x: %s!): String\n", i, h.VarTypes[i-1])
	}
	b.WriteString("}\n")
	return b.String()
}

func queryFields(h *Header) []string {
	var out []string
	for i := range h.VarTypes {
		out = append(out, fmt.Sprintf("t%d", i+1))
	}
	for _, i := range h.NNPos {
		out = append(out, fmt.Sprintf("n%d", i))
	}
	return out
}

// ------------------------------------------------------------------ concretisation: abstract value -> JSON with unique sentinels

type concretizer struct {
	k         int
	sentinels []string
}

func (c *concretizer) render(v Val, out *bytes.Buffer) {
	switch v.T {
	case "n":
		out.WriteString("null")
	case "b":
		c.k++
		if c.k%2 == 0 {
			out.WriteString("true")
		} else {
			out.WriteString("false")
		}
	case "i":
		c.k++
		s := fmt.Sprint(7000 + c.k)
		c.sentinels = append(c.sentinels, s)
		out.WriteString(s)
	case "I":
		c.k++
		s := fmt.Sprint(int64(2147483648) + int64(c.k))
		c.sentinels = append(c.sentinels, s)
		out.WriteString(s)
	case "f":
		c.k++
		s := fmt.Sprintf("%d.5", 7000+c.k)
		c.sentinels = append(c.sentinels, s)
		out.WriteString(s)
	case "N":
		// a JSON number in a given spelling (1.0, 1e2, -0, 1e400 ...): written verbatim, not a sentinel
		var sp string
		_ = json.Unmarshal(v.V, &sp)
		out.WriteString(sp)
	case "s":
		var cls string
		_ = json.Unmarshal(v.V, &cls)
		c.k++
		s := cls
		if cls == "any" {
			s = fmt.Sprintf("SENT%dX", c.k)
		}
		c.sentinels = append(c.sentinels, s)
		out.WriteString(`"` + s + `"`)
	case "l":
		var items []Val
		if v.N > 0 {
			if err := json.Unmarshal(v.V, &items); err != nil {
				panic(err)
			}
		}
		out.WriteString("[")
		for i, it := range items {
			if i > 0 {
				out.WriteString(",")
			}
			c.render(it, out)
		}
		out.WriteString("]")
	case "o":
		out.WriteString("{")
		for i, e := range v.E {
			if i > 0 {
				out.WriteString(",")
			}
			out.WriteString(`"` + e.K + `":`)
			c.render(e.V, out)
		}
		out.WriteString("}")
	default:
		panic("cannot render value class " + v.T)
	}
}

// request builds the HTTP request body a client would send for the case.
func buildRequest(h *Header, c *Case) (body []byte, query string, variables string, sentinels []string) {
	var defs, sels []string
	for i, v := range c.Vars {
		t := h.VarTypes[v.Tix-1]
		d := fmt.Sprintf("$%s: %s", v.Name, t)
		if v.DM == "def" {
			d += " = " + h.VarLits[v.Tix-1]
		}
		defs = append(defs, d)
		field := fmt.Sprintf("t%d", v.Tix)
		if c.Pos == "nn" {
			field = fmt.Sprintf("n%d", v.Tix)
		}
		alias := ""
		if i > 0 {
			alias = fmt.Sprintf("f%d: ", i)
		}
		if c.Pos == "host" {
			hst := h.Hosts[c.Host-1]
			sels = append(sels, fmt.Sprintf("%s%s(x: %s$%s%s)", alias, hst.Field, hst.Pre, v.Name, hst.Post))
			continue
		}
		sels = append(sels, fmt.Sprintf("%s%s(x: $%s)", alias, field, v.Name))
	}
	query = fmt.Sprintf("query Q(%s) { %s }", strings.Join(defs, ", "), strings.Join(sels, " "))
	cz := &concretizer{}
	var vb bytes.Buffer
	switch c.VM {
	case "none":
	case "null":
		vb.WriteString("null")
	default:
		vb.WriteString("{")
		first := true
		writeDup := func() {
			if c.DupV.T == "x" || c.DupV.T == "" {
				return
			}
			if !first {
				vb.WriteString(",")
			}
			first = false
			vb.WriteString(`"` + c.Vars[0].Name + `":`)
			cz.render(c.DupV, &vb)
		}
		if c.DupFirst {
			writeDup()
		}
		for _, v := range c.Vars {
			if v.Val.T == "x" {
				continue
			}
			if !first {
				vb.WriteString(",")
			}
			first = false
			vb.WriteString(`"` + v.Name + `":`)
			cz.render(v.Val, &vb)
		}
		if !c.DupFirst {
			writeDup()
		}
		if c.Extra {
			if !first {
				vb.WriteString(",")
			}
			vb.WriteString(`"` + h.Extra + `":"SENT0X"`)
			cz.sentinels = append(cz.sentinels, "SENT0X")
		}
		vb.WriteString("}")
	}
	variables = vb.String()
	qj, _ := json.Marshal(query)
	var rb bytes.Buffer
	rb.WriteString(`{"operationName":"Q","query":`)
	rb.Write(qj)
	if c.VM != "none" {
		rb.WriteString(`,"variables":`)
		rb.WriteString(variables)
	}
	rb.WriteString("}")
	return rb.Bytes(), query, variables, cz.sentinels
}

// ------------------------------------------------------------------ message facts

func quoted(msg string) []string {
	parts := strings.Split(msg, `"`)
	out := []string{}
	seen := map[string]bool{}
	for i := 1; i < len(parts); i += 2 {
		tok := strings.ReplaceAll(parts[i], ".[", "[")
		if len(tok) > 200 {
			tok = tok[:200]
		}
		if !seen[tok] {
			seen[tok] = true
			out = append(out, tok)
		}
	}
	return out
}

func leaks(msg string, sentinels []string) int {
	n := 0
	for _, s := range sentinels {
		if strings.Contains(msg, s) {
			n++
		}
	}
	return n
}

// ------------------------------------------------------------------ the recording subgraph

type recorder struct {
	mu     sync.Mutex
	bodies map[string]string // request id (header) -> body
	fields []string
}

type ridKey struct{}

func (r *recorder) RoundTrip(req *http.Request) (*http.Response, error) {
	var body []byte
	if req.Body != nil {
		body, _ = io.ReadAll(req.Body)
	}
	rid, _ := req.Context().Value(ridKey{}).(string)
	r.mu.Lock()
	r.bodies[rid] = string(body)
	r.mu.Unlock()
	var b bytes.Buffer
	b.WriteString(`{"data":{`)
	for i, f := range r.fields {
		if i > 0 {
			b.WriteString(",")
		}
		fmt.Fprintf(&b, `"%s":"ok"`, f)
	}
	for i := 1; i < 4; i++ {
		fmt.Fprintf(&b, `,"f%d":"ok"`, i)
	}
	b.WriteString("}}")
	return &http.Response{StatusCode: 200, Header: http.Header{"Content-Type": []string{"application/json"}}, Body: io.NopCloser(&b), Request: req}, nil
}

func (r *recorder) take(rid string) (string, bool) {
	r.mu.Lock()
	defer r.mu.Unlock()
	b, ok := r.bodies[rid]
	delete(r.bodies, rid)
	return b, ok
}

func newEngine(h *Header, schemaSDL string, rec *recorder) (*engine.ExecutionEngine, *graphql.Schema, error) {
	schema, err := graphql.NewSchemaFromString(schemaSDL)
	if err != nil {
		return nil, nil, fmt.Errorf("schema: %w", err)
	}
	client := &http.Client{Transport: rec}
	ctx := context.Background()
	factory, err := graphql_datasource.NewFactory(ctx, client, graphql_datasource.NewGraphQLSubscriptionClient(ctx,
		graphql_datasource.WithUpgradeClient(client), graphql_datasource.WithStreamingClient(client)))
	if err != nil {
		return nil, nil, err
	}
	sc, err := graphql_datasource.NewSchemaConfiguration(schemaSDL, nil)
	if err != nil {
		return nil, nil, err
	}
	custom, err := graphql_datasource.NewConfiguration(graphql_datasource.ConfigurationInput{
		Fetch:               &graphql_datasource.FetchConfiguration{URL: "https://subgraph.invalid/", Method: "POST"},
		SchemaConfiguration: sc,
	})
	if err != nil {
		return nil, nil, err
	}
	fields := queryFields(h)
	ds, err := plan.NewDataSourceConfiguration[graphql_datasource.Configuration]("ds", factory,
		&plan.DataSourceMetadata{RootNodes: []plan.TypeField{{TypeName: "Query", FieldNames: fields}}}, custom)
	if err != nil {
		return nil, nil, err
	}
	conf := engine.NewConfiguration(schema)
	conf.SetDataSources([]plan.DataSource{ds})
	var fcs plan.FieldConfigurations
	for _, f := range fields {
		fcs = append(fcs, plan.FieldConfiguration{TypeName: "Query", FieldName: f, Path: []string{f},
			Arguments: []plan.ArgumentConfiguration{{Name: "x", SourceType: plan.FieldArgumentSource}}})
	}
	conf.SetFieldConfigurations(fcs)
	eng, err := engine.NewExecutionEngine(ctx, abstractlogger.NoopLogger, conf, resolve.ResolverOptions{MaxConcurrency: 1024})
	return eng, schema, err
}

// ------------------------------------------------------------------ observers

func safely(stage *string, fn func() error) (err error) {
	defer func() {
		if r := recover(); r != nil {
			*stage = "panic"
			// first frame inside the library = where it panicked
			at := "?"
			for _, line := range strings.Split(string(debug.Stack()), "\n") {
				if strings.Contains(line, "graphql-go-tools/") && strings.Contains(line, "(") && !strings.HasPrefix(line, "\t") {
					at = line[strings.LastIndex(line, "/")+1:]
					if i := strings.LastIndex(at, "("); i > 0 {
						at = at[:i]
					}
					break
				}
			}
			err = fmt.Errorf("panic at %s: %v", at, r)
		}
	}()
	return fn()
}

// observeEngine: the whole pipeline. accepted <=> Execute returned no error and the subgraph request was sent.
func observeEngine(eng *engine.ExecutionEngine, rec *recorder, id string, body []byte) (acc bool, msg, sent, resp, stage string) {
	return observeEngineMode(eng, nil, rec, id, body)
}

// observeEngineMode: with preNormalize != nil the CALLER normalizes the request first (graphql.Request.Normalize with
// its default options: variable extraction, fragment inlining, unused variables removed) and then hands it to
// Execute, which branches on IsNormalized() and skips its own normalization and variable renaming.
func observeEngineMode(eng *engine.ExecutionEngine, preNormalize *graphql.Schema, rec *recorder, id string, body []byte) (acc bool, msg, sent, resp, stage string) {
	var req graphql.Request
	if err := graphql.UnmarshalRequest(bytes.NewReader(body), &req); err != nil {
		return false, "unmarshal: " + err.Error(), "", "", "unmarshal"
	}
	if preNormalize != nil {
		stage = "prenormalize"
		err := safely(&stage, func() error {
			result, err := req.Normalize(preNormalize)
			if err != nil {
				return err
			} else if !result.Successful {
				return result.Errors
			}
			return nil
		})
		if err != nil {
			return false, err.Error(), "", "", stage
		}
	}
	w := graphql.NewEngineResultWriter()
	ctx := context.WithValue(context.Background(), ridKey{}, id)
	stage = "execute"
	err := safely(&stage, func() error { return eng.Execute(ctx, &req, &w) })
	sent, wasSent := rec.take(id)
	resp = w.String()
	if err != nil {
		return false, err.Error(), sent, resp, stage
	}
	if !wasSent {
		return false, resp, sent, resp, "not-sent"
	}
	return true, "", sent, resp, stage
}

// prepared is a request after the engine's normalization steps (execution_engine.go Execute), ready for the validator.
type prepared struct {
	req   graphql.Request
	vars  []byte
	remap map[string]string
}

// prepare runs the engine's steps in front of variable validation: normalize, ValidateForSchema, normalize
// with variable extraction, VariablesMapper.
func prepare(schema *graphql.Schema, body []byte) (p *prepared, stage string, err error) {
	p = &prepared{}
	if err := graphql.UnmarshalRequest(bytes.NewReader(body), &p.req); err != nil {
		return nil, "unmarshal", fmt.Errorf("unmarshal: %w", err)
	}
	req := &p.req
	stage = "normalize1"
	err = safely(&stage, func() error {
		result, err := req.Normalize(schema,
			astnormalization.WithRemoveFragmentDefinitions(),
			astnormalization.WithRemoveUnusedVariables(),
			astnormalization.WithInlineFragmentSpreads(),
			astnormalization.WithEnableDefer(),
			astnormalization.WithPrevalidationRules(
				astvalidation.DeferStreamOnValidOperations(),
				astvalidation.DeferStreamHaveUniqueLabels(),
				astvalidation.DirectivesAreInValidLocations(),
				astvalidation.StreamAppliedToListFieldsOnly()),
		)
		if err != nil {
			return err
		} else if !result.Successful {
			return result.Errors
		}
		stage = "validate"
		if vr, err := req.ValidateForSchema(schema); err != nil {
			return err
		} else if !vr.Valid {
			return vr.Errors
		}
		stage = "normalize2"
		result, err = req.Normalize(schema, astnormalization.WithExtractVariables(), astnormalization.WithRemoveUnusedVariables())
		if err != nil {
			return err
		} else if !result.Successful {
			return result.Errors
		}
		stage = "remap"
		var remapReport operationreport.Report
		p.remap = astnormalization.NewVariablesMapper().NormalizeOperation(req.Document(), schema.Document(), &remapReport)
		if remapReport.HasErrors() {
			return remapReport
		}
		p.vars = []byte(req.Variables)
		if len(bytes.TrimSpace(p.vars)) == 0 || bytes.Equal(bytes.TrimSpace(p.vars), []byte("null")) {
			// a request without variables has the empty variables object
			p.vars = []byte("{}")
		}
		return nil
	})
	if err != nil {
		return nil, stage, err
	}
	return p, "variables", nil
}

// validateWith calls the given validator instance on a prepared request.
func validateWith(validator *variablesvalidation.VariablesValidator, schema *graphql.Schema, p *prepared) (acc bool, msg, stage string) {
	stage = "variables"
	err := safely(&stage, func() error {
		return validator.ValidateWithRemap(p.req.Document(), schema.Document(), p.vars, p.remap)
	})
	if err != nil {
		return false, err.Error(), stage
	}
	return true, "", stage
}

// observeValidator: a fresh validator called directly after the engine's normalization steps.
func observeValidator(schema *graphql.Schema, body []byte, disableContent bool) (acc bool, msg, stage string) {
	p, stage, err := prepare(schema, body)
	if err != nil {
		return false, err.Error(), stage
	}
	validator := variablesvalidation.NewVariablesValidator(variablesvalidation.VariablesValidatorOptions{
		DisableExposingVariablesContent: disableContent,
	})
	return validateWith(validator, schema, p)
}

func main() {
	in := flag.String("in", "", "cases (NDJSON)")
	out := flag.String("out", "", "observations (NDJSON)")
	printSDL := flag.Bool("sdl", false, "print the SDL and exit")
	workers := flag.Int("workers", 8, "parallel cases")
	flag.Parse()
	f, err := os.Open(*in)
	if err != nil {
		fmt.Fprintln(os.Stderr, err)
		os.Exit(2)
	}
	defer f.Close()
	sc := bufio.NewScanner(f)
	sc.Buffer(make([]byte, 1<<20), 1<<26)
	var hdr *Header
	type job struct {
		idx  int
		id   string
		c    *Case
		rawc json.RawMessage
	}
	var jobs []job
	for sc.Scan() {
		b := bytes.TrimSpace(sc.Bytes())
		if len(b) == 0 {
			continue
		}
		var raw struct {
			Header *Header         `json:"header"`
			ID     string          `json:"id"`
			Case   json.RawMessage `json:"case"`
		}
		if err := json.Unmarshal(b, &raw); err != nil {
			fmt.Fprintln(os.Stderr, "bad input line:", err)
			os.Exit(2)
		}
		if raw.Header != nil {
			hdr = raw.Header
			continue
		}
		var c Case
		if err := json.Unmarshal(raw.Case, &c); err != nil {
			fmt.Fprintln(os.Stderr, "bad case:", err)
			os.Exit(2)
		}
		jobs = append(jobs, job{idx: len(jobs), id: raw.ID, c: &c, rawc: append(json.RawMessage(nil), raw.Case...)})
	}
	if hdr == nil {
		fmt.Fprintln(os.Stderr, "no header line")
		os.Exit(2)
	}
	schemaSDL := sdl(hdr)
	if *printSDL {
		fmt.Print(schemaSDL)
		return
	}
	results := make([][]Obs, len(jobs))
	var wg sync.WaitGroup
	ch := make(chan job)
	for w := 0; w < *workers; w++ {
		// one engine (resolver, plan cache, recording subgraph) per worker: executions on one engine are
		// sequential, so the subgraph single-flight never merges the upstream requests of two cases
		rec := &recorder{bodies: map[string]string{}, fields: queryFields(hdr)}
		eng, schema, err := newEngine(hdr, schemaSDL, rec)
		if err != nil {
			fmt.Fprintln(os.Stderr, "engine setup failed:", err)
			fmt.Fprintln(os.Stderr, schemaSDL)
			os.Exit(2)
		}
		wg.Add(1)
		go func() {
			defer wg.Done()
			for j := range ch {
				body, query, variables, sentinels := buildRequest(hdr, j.c)
				mk := func(who string, acc bool, expose bool, msg string) Obs {
					q := quoted(msg)
					if acc {
						q = []string{}
					}
					return Obs{ID: j.id, Case: j.rawc, Who: who, Acc: acc, Expose: expose, NQ: len(q), Q: q,
						Leak: leaks(msg, sentinels), Msg: msg, Query: query, Vars: variables}
				}
				acc, msg, sent, resp, stage := observeEngine(eng, rec, j.id, body)
				o1 := mk("engine", acc, true, msg)
				o1.Sent, o1.Resp, o1.Stage = sent, resp, stage
				acc2, msg2, stage2 := observeValidator(schema, body, false)
				o2 := mk("val", acc2, true, msg2)
				o2.Stage = stage2
				acc3, msg3, stage3 := observeValidator(schema, body, true)
				o3 := mk("valq", acc3, false, msg3)
				o3.Stage = stage3
				results[j.idx] = []Obs{o1, o2, o3}
			}
		}()
	}
	for _, j := range jobs {
		ch <- j
	}
	close(ch)
	wg.Wait()
	// Long-lived validators: ONE instance (per exposure option) validates the whole sequence of cases in a
	// seed-shuffled order, as a server does that keeps its validator. The verdict for a request must not depend
	// on the requests before it, so these observations are judged exactly like those of a fresh validator.
	{
		seed, _ := strconv.ParseInt(os.Getenv("VERIF_SEED"), 10, 64)
		order := rand.New(rand.NewSource(seed)).Perm(len(jobs))
		schema, err := graphql.NewSchemaFromString(schemaSDL)
		if err != nil {
			fmt.Fprintln(os.Stderr, "schema:", err)
			os.Exit(2)
		}
		long := variablesvalidation.NewVariablesValidator(variablesvalidation.VariablesValidatorOptions{})
		longQuiet := variablesvalidation.NewVariablesValidator(variablesvalidation.VariablesValidatorOptions{DisableExposingVariablesContent: true})
		for pos, idx := range order {
			j := jobs[idx]
			body, query, variables, sentinels := buildRequest(hdr, j.c)
			mk := func(who string, acc bool, expose bool, msg, stage string) Obs {
				q := quoted(msg)
				if acc {
					q = []string{}
				}
				return Obs{ID: j.id, Case: j.rawc, Who: who, Acc: acc, Expose: expose, NQ: len(q), Q: q,
					Leak: leaks(msg, sentinels), Msg: msg, Query: query, Vars: variables, Stage: stage, Pos: pos}
			}
			p, stage, err := prepare(schema, body)
			if err != nil {
				results[idx] = append(results[idx], mk("vall", false, true, err.Error(), stage), mk("vallq", false, false, err.Error(), stage))
				continue
			}
			acc, msg, stage := validateWith(long, schema, p)
			accq, msgq, stageq := validateWith(longQuiet, schema, p)
			results[idx] = append(results[idx], mk("vall", acc, true, msg, stage), mk("vallq", accq, false, msgq, stageq))
		}
	}
	// History lane on ONE long-lived engine: every case is executed twice on the same engine instance, once as it
	// arrives (the engine normalizes and renames variables; who = "engl") and once normalized by the caller first
	// (who = "engp"); the 2N requests are interleaved in a seed-shuffled order, so engine-normalized and
	// caller-normalized requests alternate. The verdict for a request must not depend on the requests before it.
	{
		seed, _ := strconv.ParseInt(os.Getenv("VERIF_SEED"), 10, 64)
		rec := &recorder{bodies: map[string]string{}, fields: queryFields(hdr)}
		eng, schema, err := newEngine(hdr, schemaSDL, rec)
		if err != nil {
			fmt.Fprintln(os.Stderr, "engine setup failed:", err)
			os.Exit(2)
		}
		order := rand.New(rand.NewSource(seed + 7919)).Perm(2 * len(jobs))
		lane := make([][2]*Obs, len(jobs))
		for pos, k := range order {
			idx, pre := k/2, k%2 == 1
			j := jobs[idx]
			body, query, variables, sentinels := buildRequest(hdr, j.c)
			who, rid := "engl", j.id+"#l"
			var preSchema *graphql.Schema
			if pre {
				who, rid, preSchema = "engp", j.id+"#p", schema
			}
			acc, msg, sent, resp, stage := observeEngineMode(eng, preSchema, rec, rid, body)
			q := quoted(msg)
			if acc {
				q = []string{}
			}
			lane[idx][k%2] = &Obs{ID: j.id, Case: j.rawc, Who: who, Acc: acc, Expose: true, NQ: len(q), Q: q,
				Leak: leaks(msg, sentinels), Msg: msg, Query: query, Vars: variables, Sent: sent, Resp: resp, Stage: stage, Pos: pos}
		}
		for idx := range lane {
			results[idx] = append(results[idx], *lane[idx][0], *lane[idx][1])
		}
	}
	of, err := os.Create(*out)
	if err != nil {
		fmt.Fprintln(os.Stderr, err)
		os.Exit(2)
	}
	bw := bufio.NewWriterSize(of, 1<<20)
	enc := json.NewEncoder(bw)
	enc.SetEscapeHTML(false)
	for _, rs := range results {
		for _, o := range rs {
			if err := enc.Encode(o); err != nil {
				fmt.Fprintln(os.Stderr, err)
				os.Exit(2)
			}
		}
	}
	bw.Flush()
	of.Close()
}
