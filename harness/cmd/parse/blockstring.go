package main

import "bytes"

func isBlank(c byte) bool { return c == ' ' || c == '\t' }

func isWS(c byte) bool { return c == ' ' || c == '\t' || c == '\n' || c == '\r' }

// blockStringSemantic computes the specification's BlockStringValue() (GraphQL October 2021,
// section 2.9.4) for a block string whose trimmed literal is input[cs:ce].  The lexer under test
// trims white space around the literal; the raw block is recovered by extending the range over
// the white space up to the delimiters.  When the surrounding bytes are not what a block string
// looks like the trimmed literal itself is used (no alarm can come from the recovery).
func blockStringSemantic(input []byte, cs, ce int) []byte {
	if cs < 0 || ce > len(input) || cs > ce {
		return nil
	}
	s, e := cs, ce
	for s > 0 && isWS(input[s-1]) {
		s--
	}
	for e < len(input) && isWS(input[e]) {
		e++
	}
	openOK := s >= 3 && input[s-1] == '"' && input[s-2] == '"' && input[s-3] == '"'
	closeOK := e == len(input) || (e+3 <= len(input) && input[e] == '"' && input[e+1] == '"' && input[e+2] == '"')
	if !openOK || !closeOK {
		s, e = cs, ce
	}
	return blockStringValue(input[s:e])
}

func blockStringValue(raw []byte) []byte {
	// 1. split into lines at LineTerminator (\n | \r\n | \r)
	var lines [][]byte
	start := 0
	for i := 0; i < len(raw); i++ {
		if raw[i] == '\n' || raw[i] == '\r' {
			lines = append(lines, raw[start:i])
			if raw[i] == '\r' && i+1 < len(raw) && raw[i+1] == '\n' {
				i++
			}
			start = i + 1
		}
	}
	lines = append(lines, raw[start:])
	// 2. common indent of all lines but the first that contain a non-blank character
	common := -1
	for i, l := range lines {
		if i == 0 {
			continue
		}
		ind := 0
		for ind < len(l) && isBlank(l[ind]) {
			ind++
		}
		if ind < len(l) && (common == -1 || ind < common) {
			common = ind
		}
	}
	// 3. remove it
	if common > 0 {
		for i := 1; i < len(lines); i++ {
			n := common
			if n > len(lines[i]) {
				n = len(lines[i])
			}
			lines[i] = lines[i][n:]
		}
	}
	// 4. drop leading and trailing blank lines
	allBlank := func(l []byte) bool {
		for _, c := range l {
			if !isBlank(c) {
				return false
			}
		}
		return true
	}
	for len(lines) > 0 && allBlank(lines[0]) {
		lines = lines[1:]
	}
	for len(lines) > 0 && allBlank(lines[len(lines)-1]) {
		lines = lines[:len(lines)-1]
	}
	out := bytes.Join(lines, []byte{'\n'})
	// lexical escape of the block string: \""" denotes """
	return bytes.ReplaceAll(out, []byte(`\"""`), []byte(`"""`))
}
