package main

// Independent reading of a generated document with vektah/gqlparser (not code under test).
// Used only to cross-check the *generator*: a TLC-generated document must be syntactically valid
// and the spec's Depth/FieldCount must agree with what an independent parser sees.  A disagreement
// is a model problem (INCONCLUSIVE), never a verdict about /repo.

import (
	gast "github.com/vektah/gqlparser/v2/ast"
	gparser "github.com/vektah/gqlparser/v2/parser"
)

func gqWalk(set gast.SelectionSet, level int, fields, depth *int) {
	if len(set) == 0 {
		return
	}
	if level > *depth {
		*depth = level
	}
	for _, sel := range set {
		switch x := sel.(type) {
		case *gast.Field:
			*fields++
			gqWalk(x.SelectionSet, level+1, fields, depth)
		case *gast.InlineFragment:
			gqWalk(x.SelectionSet, level+1, fields, depth)
		}
	}
}

// gqQuery returns ("ok"|"err", fields, depth, message).
func gqQuery(text string) (status string, fields, depth int, msg string) {
	defer func() {
		if r := recover(); r != nil {
			status, msg = "err", "gqlparser panicked"
		}
	}()
	doc, err := gparser.ParseQuery(&gast.Source{Input: text})
	if err != nil {
		return "err", 0, 0, err.Error()
	}
	for _, op := range doc.Operations {
		gqWalk(op.SelectionSet, 1, &fields, &depth)
	}
	for _, fr := range doc.Fragments {
		gqWalk(fr.SelectionSet, 1, &fields, &depth)
	}
	return "ok", fields, depth, ""
}

func gqSchema(text string) (status string, msg string) {
	defer func() {
		if r := recover(); r != nil {
			status, msg = "err", "gqlparser panicked"
		}
	}()
	_, err := gparser.ParseSchema(&gast.Source{Input: text})
	if err != nil {
		return "err", err.Error()
	}
	return "ok", ""
}
