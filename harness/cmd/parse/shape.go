package main

// Structural dump ("shape") of an ast.Document and the reference/position sweep.
//
// The shape is written by hand against the exported AST structs (not through astvisitor /
// astprinter, which are code under test): it follows RootNodes in order and descends through
// every Refs list, dumping names and values as the *bytes they reference* and nothing that is
// layout (positions, Has* flags, list capacities).  String values and descriptions are dumped
// as (block?, semantic value) where the semantic value of a block string is computed by this
// package's own implementation of the specification's BlockStringValue() on the bytes between
// the delimiters (blockstring.go).
//
// Every ByteSliceReference met on the way is bounds-checked; sweepRefs additionally visits every
// slice of the document by reflection so that nodes which are not reachable from RootNodes are
// covered as well.

import (
	"fmt"
	"reflect"
	"strconv"
	"strings"

	"github.com/wundergraph/graphql-go-tools/v2/pkg/ast"
	"github.com/wundergraph/graphql-go-tools/v2/pkg/lexer/position"
)

type shaper struct {
	d      *ast.Document
	in     []byte
	sb     strings.Builder
	oob    string // first out-of-bounds reference / dangling ref found
	fields int    // number of Field selections reachable from operations and fragments
	depth  int    // max nesting of selection sets reachable from one definition
	guard  int    // recursion guard against cyclic refs
}

func (s *shaper) bad(format string, a ...any) {
	if s.oob == "" {
		s.oob = fmt.Sprintf(format, a...)
	}
}

func (s *shaper) bytes(what string, r ast.ByteSliceReference) []byte {
	if r.Start > r.End || int(r.End) > len(s.in) {
		s.bad("%s: byte range [%d,%d) outside input of length %d", what, r.Start, r.End, len(s.in))
		return nil
	}
	return s.in[r.Start:r.End]
}

func (s *shaper) w(parts ...string) {
	for _, p := range parts {
		s.sb.WriteString(p)
	}
}

func (s *shaper) q(b []byte) { s.sb.WriteString(strconv.Quote(string(b))) }

func idx[T any](s *shaper, what string, sl []T, i int) (*T, bool) {
	if i < 0 || i >= len(sl) {
		s.bad("%s: ref %d outside [0,%d)", what, i, len(sl))
		return nil, false
	}
	return &sl[i], true
}

func (s *shaper) description(d ast.Description) {
	if !d.IsDefined {
		return
	}
	s.w("(desc ")
	s.str("description", d.Content, d.IsBlockString)
	s.w(")")
}

// str dumps a string literal: block flag + semantic value.
func (s *shaper) str(what string, content ast.ByteSliceReference, block bool) {
	c := s.bytes(what, content)
	if block {
		s.w("block:")
		if c == nil && (content.Start > content.End || int(content.End) > len(s.in)) {
			s.q(nil)
			return
		}
		s.q(blockStringSemantic(s.in, int(content.Start), int(content.End)))
		return
	}
	s.w("str:")
	s.q(c)
}

func (s *shaper) typ(ref int) {
	s.guard++
	defer func() { s.guard-- }()
	if s.guard > 20000000 {
		s.bad("type nesting: cyclic or absurdly deep refs")
		return
	}
	t, ok := idx(s, "Types", s.d.Types, ref)
	if !ok {
		s.w("(type ?)")
		return
	}
	switch t.TypeKind {
	case ast.TypeKindNamed:
		s.w("(named ")
		s.q(s.bytes("type name", t.Name))
		s.w(")")
	case ast.TypeKindList:
		s.w("(list ")
		s.typ(t.OfType)
		s.w(")")
	case ast.TypeKindNonNull:
		s.w("(nonnull ")
		s.typ(t.OfType)
		s.w(")")
	default:
		s.w("(type-unknown)")
	}
}

func (s *shaper) value(v ast.Value) {
	s.guard++
	defer func() { s.guard-- }()
	if s.guard > 20000000 {
		s.bad("value nesting: cyclic or absurdly deep refs")
		return
	}
	switch v.Kind {
	case ast.ValueKindString:
		if sv, ok := idx(s, "StringValues", s.d.StringValues, v.Ref); ok {
			s.str("string value", sv.Content, sv.BlockString)
		}
	case ast.ValueKindBoolean:
		if v.Ref != 0 && v.Ref != 1 {
			s.bad("BooleanValues: ref %d", v.Ref)
			return
		}
		s.w("bool:", strconv.Itoa(v.Ref))
	case ast.ValueKindInteger:
		if iv, ok := idx(s, "IntValues", s.d.IntValues, v.Ref); ok {
			s.w("int:")
			if iv.Negative {
				s.w("-")
			}
			s.q(s.bytes("int value", iv.Raw))
		}
	case ast.ValueKindFloat:
		if fv, ok := idx(s, "FloatValues", s.d.FloatValues, v.Ref); ok {
			s.w("float:")
			if fv.Negative {
				s.w("-")
			}
			s.q(s.bytes("float value", fv.Raw))
		}
	case ast.ValueKindVariable:
		if vv, ok := idx(s, "VariableValues", s.d.VariableValues, v.Ref); ok {
			s.w("var:")
			s.q(s.bytes("variable name", vv.Name))
		}
	case ast.ValueKindNull:
		s.w("null")
	case ast.ValueKindEnum:
		if ev, ok := idx(s, "EnumValues", s.d.EnumValues, v.Ref); ok {
			s.w("enum:")
			s.q(s.bytes("enum value", ev.Name))
		}
	case ast.ValueKindList:
		if lv, ok := idx(s, "ListValues", s.d.ListValues, v.Ref); ok {
			s.w("[")
			for _, r := range lv.Refs {
				if ev, ok := idx(s, "Values", s.d.Values, r); ok {
					s.value(*ev)
				}
				s.w(" ")
			}
			s.w("]")
		}
	case ast.ValueKindObject:
		if ov, ok := idx(s, "ObjectValues", s.d.ObjectValues, v.Ref); ok {
			s.w("{")
			for _, r := range ov.Refs {
				if of, ok := idx(s, "ObjectFields", s.d.ObjectFields, r); ok {
					s.q(s.bytes("object field name", of.Name))
					s.w(":")
					s.value(of.Value)
				}
				s.w(" ")
			}
			s.w("}")
		}
	default:
		s.w("(value-unknown ", strconv.Itoa(int(v.Kind)), ")")
	}
}

func (s *shaper) directives(l ast.DirectiveList) {
	for _, r := range l.Refs {
		d, ok := idx(s, "Directives", s.d.Directives, r)
		if !ok {
			continue
		}
		s.w("(@")
		s.q(s.bytes("directive name", d.Name))
		s.arguments(d.Arguments)
		s.w(")")
	}
}

func (s *shaper) arguments(l ast.ArgumentList) {
	for _, r := range l.Refs {
		a, ok := idx(s, "Arguments", s.d.Arguments, r)
		if !ok {
			continue
		}
		s.w("(arg ")
		s.q(s.bytes("argument name", a.Name))
		s.w(" ")
		s.value(a.Value)
		s.w(")")
	}
}

func (s *shaper) selectionSet(ref int, level int) {
	s.guard++
	defer func() { s.guard-- }()
	if s.guard > 20000000 {
		s.bad("selection nesting: cyclic or absurdly deep refs")
		return
	}
	set, ok := idx(s, "SelectionSets", s.d.SelectionSets, ref)
	if !ok {
		return
	}
	if level > s.depth {
		s.depth = level
	}
	s.w("{")
	for _, sr := range set.SelectionRefs {
		sel, ok := idx(s, "Selections", s.d.Selections, sr)
		if !ok {
			continue
		}
		switch sel.Kind {
		case ast.SelectionKindField:
			f, ok := idx(s, "Fields", s.d.Fields, sel.Ref)
			if !ok {
				continue
			}
			s.fields++
			s.w("(field ")
			if f.Alias.IsDefined {
				s.q(s.bytes("alias", f.Alias.Name))
				s.w(":")
			}
			s.q(s.bytes("field name", f.Name))
			s.arguments(f.Arguments)
			s.directives(f.Directives)
			if f.HasSelections {
				s.selectionSet(f.SelectionSet, level+1)
			}
			s.w(")")
		case ast.SelectionKindFragmentSpread:
			fs, ok := idx(s, "FragmentSpreads", s.d.FragmentSpreads, sel.Ref)
			if !ok {
				continue
			}
			s.w("(spread ")
			s.q(s.bytes("fragment spread name", fs.FragmentName))
			s.directives(fs.Directives)
			s.w(")")
		case ast.SelectionKindInlineFragment:
			fr, ok := idx(s, "InlineFragments", s.d.InlineFragments, sel.Ref)
			if !ok {
				continue
			}
			s.w("(inline ")
			if fr.TypeCondition.Type != ast.InvalidRef {
				s.w("on ")
				s.typ(fr.TypeCondition.Type)
			}
			s.directives(fr.Directives)
			if fr.HasSelections {
				s.selectionSet(fr.SelectionSet, level+1)
			}
			s.w(")")
		default:
			s.w("(selection-unknown)")
		}
	}
	s.w("}")
}

func (s *shaper) inputValueDefs(l ast.InputValueDefinitionList) {
	for _, r := range l.Refs {
		iv, ok := idx(s, "InputValueDefinitions", s.d.InputValueDefinitions, r)
		if !ok {
			continue
		}
		s.w("(ivd ")
		s.description(iv.Description)
		s.q(s.bytes("input value name", iv.Name))
		s.typ(iv.Type)
		if iv.DefaultValue.IsDefined {
			s.w(" = ")
			s.value(iv.DefaultValue.Value)
		}
		s.directives(iv.Directives)
		s.w(")")
	}
}

func (s *shaper) fieldDefs(l ast.FieldDefinitionList) {
	for _, r := range l.Refs {
		fd, ok := idx(s, "FieldDefinitions", s.d.FieldDefinitions, r)
		if !ok {
			continue
		}
		s.w("(fd ")
		s.description(fd.Description)
		s.q(s.bytes("field definition name", fd.Name))
		s.inputValueDefs(fd.ArgumentsDefinition)
		s.typ(fd.Type)
		s.directives(fd.Directives)
		s.w(")")
	}
}

func (s *shaper) typeList(tag string, l ast.TypeList) {
	if len(l.Refs) == 0 {
		return
	}
	s.w("(", tag)
	for _, r := range l.Refs {
		s.w(" ")
		s.typ(r)
	}
	s.w(")")
}

func (s *shaper) schemaDef(sd ast.SchemaDefinition) {
	s.description(sd.Description)
	s.directives(sd.Directives)
	for _, r := range sd.RootOperationTypeDefinitions.Refs {
		ro, ok := idx(s, "RootOperationTypeDefinitions", s.d.RootOperationTypeDefinitions, r)
		if !ok {
			continue
		}
		s.w("(root ", strconv.Itoa(int(ro.OperationType)), " ")
		s.q(s.bytes("root operation type", ro.NamedType.Name))
		s.w(")")
	}
}

func (s *shaper) objectDef(o ast.ObjectTypeDefinition) {
	s.description(o.Description)
	s.q(s.bytes("object type name", o.Name))
	s.typeList("implements", o.ImplementsInterfaces)
	s.directives(o.Directives)
	s.fieldDefs(o.FieldsDefinition)
}

func (s *shaper) interfaceDef(o ast.InterfaceTypeDefinition) {
	s.description(o.Description)
	s.q(s.bytes("interface type name", o.Name))
	s.typeList("implements", o.ImplementsInterfaces)
	s.directives(o.Directives)
	s.fieldDefs(o.FieldsDefinition)
}

func (s *shaper) inputDef(o ast.InputObjectTypeDefinition) {
	s.description(o.Description)
	s.q(s.bytes("input type name", o.Name))
	s.directives(o.Directives)
	s.inputValueDefs(o.InputFieldsDefinition)
}

func (s *shaper) scalarDef(o ast.ScalarTypeDefinition) {
	s.description(o.Description)
	s.q(s.bytes("scalar type name", o.Name))
	s.directives(o.Directives)
}

func (s *shaper) unionDef(o ast.UnionTypeDefinition) {
	s.description(o.Description)
	s.q(s.bytes("union type name", o.Name))
	s.directives(o.Directives)
	s.typeList("members", o.UnionMemberTypes)
}

func (s *shaper) enumDef(o ast.EnumTypeDefinition) {
	s.description(o.Description)
	s.q(s.bytes("enum type name", o.Name))
	s.directives(o.Directives)
	for _, r := range o.EnumValuesDefinition.Refs {
		ev, ok := idx(s, "EnumValueDefinitions", s.d.EnumValueDefinitions, r)
		if !ok {
			continue
		}
		s.w("(ev ")
		s.description(ev.Description)
		s.q(s.bytes("enum value definition", ev.EnumValue))
		s.directives(ev.Directives)
		s.w(")")
	}
}

func (s *shaper) root(n ast.Node) {
	d := s.d
	switch n.Kind {
	case ast.NodeKindOperationDefinition:
		o, ok := idx(s, "OperationDefinitions", d.OperationDefinitions, n.Ref)
		if !ok {
			return
		}
		s.w("(op ", strconv.Itoa(int(o.OperationType)), " ")
		s.description(o.Description)
		s.q(s.bytes("operation name", o.Name))
		for _, r := range o.VariableDefinitions.Refs {
			vd, ok := idx(s, "VariableDefinitions", d.VariableDefinitions, r)
			if !ok {
				continue
			}
			s.w("(vardef ")
			s.description(vd.Description)
			s.value(vd.VariableValue)
			s.typ(vd.Type)
			if vd.DefaultValue.IsDefined {
				s.w(" = ")
				s.value(vd.DefaultValue.Value)
			}
			s.directives(vd.Directives)
			s.w(")")
		}
		s.directives(o.Directives)
		if o.HasSelections {
			s.selectionSet(o.SelectionSet, 1)
		}
		s.w(")")
	case ast.NodeKindFragmentDefinition:
		f, ok := idx(s, "FragmentDefinitions", d.FragmentDefinitions, n.Ref)
		if !ok {
			return
		}
		s.w("(fragment ")
		s.description(f.Description)
		s.q(s.bytes("fragment name", f.Name))
		s.w(" on ")
		s.typ(f.TypeCondition.Type)
		s.directives(f.Directives)
		if f.HasSelections {
			s.selectionSet(f.SelectionSet, 1)
		}
		s.w(")")
	case ast.NodeKindSchemaDefinition:
		if x, ok := idx(s, "SchemaDefinitions", d.SchemaDefinitions, n.Ref); ok {
			s.w("(schema ")
			s.schemaDef(*x)
			s.w(")")
		}
	case ast.NodeKindSchemaExtension:
		if x, ok := idx(s, "SchemaExtensions", d.SchemaExtensions, n.Ref); ok {
			s.w("(extend-schema ")
			s.schemaDef(x.SchemaDefinition)
			s.w(")")
		}
	case ast.NodeKindObjectTypeDefinition:
		if x, ok := idx(s, "ObjectTypeDefinitions", d.ObjectTypeDefinitions, n.Ref); ok {
			s.w("(type ")
			s.objectDef(*x)
			s.w(")")
		}
	case ast.NodeKindObjectTypeExtension:
		if x, ok := idx(s, "ObjectTypeExtensions", d.ObjectTypeExtensions, n.Ref); ok {
			s.w("(extend-type ")
			s.objectDef(x.ObjectTypeDefinition)
			s.w(")")
		}
	case ast.NodeKindInterfaceTypeDefinition:
		if x, ok := idx(s, "InterfaceTypeDefinitions", d.InterfaceTypeDefinitions, n.Ref); ok {
			s.w("(interface ")
			s.interfaceDef(*x)
			s.w(")")
		}
	case ast.NodeKindInterfaceTypeExtension:
		if x, ok := idx(s, "InterfaceTypeExtensions", d.InterfaceTypeExtensions, n.Ref); ok {
			s.w("(extend-interface ")
			s.interfaceDef(x.InterfaceTypeDefinition)
			s.w(")")
		}
	case ast.NodeKindInputObjectTypeDefinition:
		if x, ok := idx(s, "InputObjectTypeDefinitions", d.InputObjectTypeDefinitions, n.Ref); ok {
			s.w("(input ")
			s.inputDef(*x)
			s.w(")")
		}
	case ast.NodeKindInputObjectTypeExtension:
		if x, ok := idx(s, "InputObjectTypeExtensions", d.InputObjectTypeExtensions, n.Ref); ok {
			s.w("(extend-input ")
			s.inputDef(x.InputObjectTypeDefinition)
			s.w(")")
		}
	case ast.NodeKindScalarTypeDefinition:
		if x, ok := idx(s, "ScalarTypeDefinitions", d.ScalarTypeDefinitions, n.Ref); ok {
			s.w("(scalar ")
			s.scalarDef(*x)
			s.w(")")
		}
	case ast.NodeKindScalarTypeExtension:
		if x, ok := idx(s, "ScalarTypeExtensions", d.ScalarTypeExtensions, n.Ref); ok {
			s.w("(extend-scalar ")
			s.scalarDef(x.ScalarTypeDefinition)
			s.w(")")
		}
	case ast.NodeKindUnionTypeDefinition:
		if x, ok := idx(s, "UnionTypeDefinitions", d.UnionTypeDefinitions, n.Ref); ok {
			s.w("(union ")
			s.unionDef(*x)
			s.w(")")
		}
	case ast.NodeKindUnionTypeExtension:
		if x, ok := idx(s, "UnionTypeExtensions", d.UnionTypeExtensions, n.Ref); ok {
			s.w("(extend-union ")
			s.unionDef(x.UnionTypeDefinition)
			s.w(")")
		}
	case ast.NodeKindEnumTypeDefinition:
		if x, ok := idx(s, "EnumTypeDefinitions", d.EnumTypeDefinitions, n.Ref); ok {
			s.w("(enum ")
			s.enumDef(*x)
			s.w(")")
		}
	case ast.NodeKindEnumTypeExtension:
		if x, ok := idx(s, "EnumTypeExtensions", d.EnumTypeExtensions, n.Ref); ok {
			s.w("(extend-enum ")
			s.enumDef(x.EnumTypeDefinition)
			s.w(")")
		}
	case ast.NodeKindDirectiveDefinition:
		if x, ok := idx(s, "DirectiveDefinitions", d.DirectiveDefinitions, n.Ref); ok {
			s.w("(directive ")
			s.description(x.Description)
			s.q(s.bytes("directive definition name", x.Name))
			s.inputValueDefs(x.ArgumentsDefinition)
			if x.Repeatable.IsRepeatable {
				s.w(" repeatable")
			}
			s.w(" on")
			for l := 0; l < 20; l++ {
				if x.DirectiveLocations.Get(ast.DirectiveLocation(l)) {
					s.w(" ", strconv.Itoa(l))
				}
			}
			s.w(")")
		}
	default:
		s.w("(root-unknown ", strconv.Itoa(int(n.Kind)), ")")
	}
}

// shapeOf returns (shape, first out-of-bounds problem, number of fields, selection depth).
func shapeOf(d *ast.Document, input []byte) (string, string, int, int) {
	s := &shaper{d: d, in: input}
	for _, n := range d.RootNodes {
		s.root(n)
		s.w("\n")
	}
	return s.sb.String(), s.oob, s.fields, s.depth
}

var (
	tBSR = reflect.TypeOf(ast.ByteSliceReference{})
	tPos = reflect.TypeOf(position.Position{})
)

// sweepRefs visits every element of every slice of the document by reflection and checks every
// ByteSliceReference (0 <= start <= end <= len(input)) and every non-zero position.Position
// (line inside the input, column inside [1, len(line)+1], start not after end).
func sweepRefs(d *ast.Document, input []byte) string {
	lineLens := []int{}
	n := 0
	for _, c := range input {
		if c == '\n' {
			lineLens = append(lineLens, n)
			n = 0
		} else {
			n++
		}
	}
	lineLens = append(lineLens, n)
	problem := ""
	var visit func(path string, v reflect.Value)
	visit = func(path string, v reflect.Value) {
		if problem != "" {
			return
		}
		switch v.Kind() {
		case reflect.Struct:
			if v.Type() == tBSR {
				st, en := uint32(v.Field(0).Uint()), uint32(v.Field(1).Uint())
				if st > en || int(en) > len(input) {
					problem = fmt.Sprintf("%s: byte range [%d,%d) outside input of length %d", path, st, en, len(input))
				}
				return
			}
			if v.Type() == tPos {
				ls, le := int(v.Field(0).Uint()), int(v.Field(1).Uint())
				cs, ce := int(v.Field(2).Uint()), int(v.Field(3).Uint())
				if ls == 0 && le == 0 && cs == 0 && ce == 0 {
					return // not set
				}
				if ls < 1 || ls > len(lineLens) || le < ls || le > len(lineLens) {
					problem = fmt.Sprintf("%s: position %d:%d-%d:%d line outside input of %d lines", path, ls, cs, le, ce, len(lineLens))
					return
				}
				if cs < 1 || cs > lineLens[ls-1]+1 || ce < 1 || ce > lineLens[le-1]+1 || (ls == le && ce < cs) {
					problem = fmt.Sprintf("%s: position %d:%d-%d:%d column outside its line (line lengths %d/%d)", path, ls, cs, le, ce, lineLens[ls-1], lineLens[le-1])
				}
				return
			}
			for i := 0; i < v.NumField(); i++ {
				f := v.Type().Field(i)
				if !f.IsExported() {
					continue
				}
				switch f.Name {
				case "Input", "Index", "Refs", "RefIndex", "OnCopyField", "OnMergeFields", "PrintBeforeValue", "PrintAfterValue":
					continue
				}
				visit(path+"."+f.Name, v.Field(i))
			}
		case reflect.Slice, reflect.Array:
			if v.Type().Elem().Kind() != reflect.Struct {
				return
			}
			for i := 0; i < v.Len(); i++ {
				visit(path+"["+strconv.Itoa(i)+"]", v.Index(i))
			}
		}
	}
	visit("doc", reflect.ValueOf(d).Elem())
	return problem
}
