"""C12 — Subscription delivery is ordered, exact, and stops at completion.

spec/conc/Subscriptions.tla (+ MC_Subs, Gen_Subs, Trace_Subs), harness/cmd/subs, checks/subs_common.py.
Properties judged on every recorded trace: NoWriteAfterClose, ClosedOnce, WriterExclusive(T), OrderedExact(T).
"""
import random
from concurrent.futures import ThreadPoolExecutor

import lib
import subs_common as sc

PROP = "C12"


def run(ctx):
    sc.load_own_findings(ctx)
    rng = random.Random(ctx.seed)
    binary = ctx.build("subs")
    if ctx.replay_in:
        return sc.replay_one(ctx, PROP, binary)
    quick = ctx.quick()
    # ---- 1. model checking (in the background while behaviours are generated and replayed) -----------------
    if quick:
        mcs = [("MC_Subs_q_one.cfg", "mc-fixed-1trigger", 900)]
    else:
        mcs = [("MC_Subs_q_one.cfg", "mc-fixed-1trigger", 1800), ("MC_Subs_q_same.cfg", "mc-fixed-same-key-filters", 2400),
               ("MC_Subs_q_diff.cfg", "mc-fixed-two-triggers-one-connection", 2400), ("MC_Subs_t_events2.cfg", "mc-fixed-2events", 2400),
               ("MC_Subs_t_hb.cfg", "mc-fixed-heartbeat-2nd-source-goroutine", 3000),
               ("MC_Subs_live.cfg", "mc-liveness", 2400)]
    pool = ThreadPoolExecutor(max_workers=1)
    mc_future = pool.submit(sc.model_check, ctx, mcs, [("MC_Subs_asis_d5.cfg", ["NoWriteAfterClose"])])
    # ---- 2. generate -------------------------------------------------------------------------------------------
    batches = []
    totals = {}
    # (a) exhaustive: every schedule of {2 subscribers set up one after the other} x {one client-side terminator} x {one source-side
    #     terminator} without events (complete/error/done vs unsubscribe/remove client/shutdown), incl. one mutual-exclusion probe
    s, n = sc.generate(ctx, "term", sc.gen_cfg("term", MaxEvents=0, MaxTerm=1, MaxSrcTerm=1, MaxProbes=1, CfgOK="CfgRace"), rng,
                       cap=500 if quick else None, timeout=1200)
    batches.append(("term", s))
    totals["term"] = n
    # (a') exhaustive: pure delivery, two events through one trigger with every filter combination; each schedule several times
    #      (the order in which the code walks its subscriber map is not ours to choose)
    s, n = sc.generate(ctx, "deliver", sc.gen_cfg("deliver", MaxEvents=2, MaxTerm=0, MaxSrcTerm=0, CfgOK="CfgSame"), rng, timeout=600)
    rep = []
    for k, fk in enumerate(sc.FKS):          # once per way of writing the filter value (static / variable: number, array, true, false, string)
        for x in s:
            y = dict(x)
            y["id"] = "%s-r%d" % (x["id"], k)
            y["kv"] = sc.KVS[k % len(sc.KVS)]
            y["fk"] = fk
            rep.append(y)
    batches.append(("deliver", rep))
    totals["deliver"] = n
    # (a'') exhaustive: one event whose resolution performs a nested fetch per subscriber (the update goroutine sits in the fetch,
    #       outside every lock) racing with one client-side terminator
    s, n = sc.generate(ctx, "fetch", sc.gen_cfg("fetch", MaxEvents=1, MaxTerm=1, MaxSrcTerm=0, CfgOK="CfgFetch"), rng,
                       cap=350 if quick else None, timeout=1200)
    batches.append(("fetch", s))
    totals["fetch"] = n
    if not quick:
        # (b) exhaustive: the same with one event in flight (update vs removal / completion / flush failure)
        s, n = sc.generate(ctx, "ev1", sc.gen_cfg("ev1", MaxEvents=1, MaxTerm=1, MaxSrcTerm=1, CfgOK="CfgSame"), rng, cap=8000, timeout=2400)
        batches.append(("ev1", s))
        totals["ev1"] = n
    # (c) sampled: 2 events, heartbeat, second source goroutine, flush / heartbeat failures, probes, every configuration
    s, n = sc.generate(ctx, "sim", sc.gen_cfg("sim", MaxEvents=2, MaxTerm=1, MaxSrcTerm=1, MaxHB=1, UseD="TRUE", MaxProbes=1, CfgOK="CfgAll", AllowCloseSub="TRUE"),
                       rng, simulate=2600 if quick else 10000, depth=400, timeout=2400, cap=900 if quick else None)
    batches.append(("sim", s))
    totals["sim"] = n
    # (d) sampled: the same with 2 client-side terminators (e.g. flush failure + unsubscribe, remove client + shutdown)
    s, n = sc.generate(ctx, "sim2", sc.gen_cfg("sim2", MaxEvents=2, MaxTerm=2, MaxSrcTerm=1, MaxHB=1, UseD="FALSE", MaxProbes=1, CfgOK="CfgNoFilt"),
                       rng, simulate=800 if quick else 4000, depth=400, timeout=2400, cap=400 if quick else None)
    batches.append(("sim2", s))
    totals["sim2"] = n
    # (e) sampled: three subscriber slots (two triggers + a joiner, re-subscription chains), CloseSubscription from the source
    s, n = sc.generate(ctx, "sim3", sc.gen_cfg("sim3", NS=3, MaxEvents=2, MaxTerm=2, MaxSrcTerm=1, MaxHB=1, UseD="FALSE", StartModes="StartOK",
                                               CfgOK="CfgThree", MaxProbes=1, AllowCloseSub="TRUE"),
                       rng, simulate=500 if quick else 4000, depth=500, timeout=2400, cap=300 if quick else None)
    batches.append(("sim3", s))
    totals["sim3"] = n
    # ---- 3./4. replay + validate -------------------------------------------------------------------------------
    tot = sc.run_batches(ctx, PROP, binary, batches)
    mc_future.result()
    pool.shutdown()
    if tot["unreal"]:
        ctx.notes.append("%d schedules contained a release the real code could not take as scheduled (finished step by step and validated anyway)" % tot["unreal"])
    if tot["free"]:
        ctx.notes.append("%d runs had to be finished with all gates open" % tot["free"])
    ctx.coverage.update({
        "traces_validated_against_impl": tot["accepted"],
        "traces_rejected": tot["rejected"],
        "evaluations": tot["replayed"],
        "distinct_nontrivial": len(tot["distinct"]),
        "rule": "one case = one TLC-generated schedule (configuration: trigger keys, filters, connections, start outcome; sequence of releases of "
                "parked goroutines with the environment's choices) forced on the real resolver and its recorded event stream validated by TLC; "
                "distinct by (configuration, release sequence); non-trivial = the running goroutine changes at least 3 times",
        "generated_behaviours": totals,
        "replayed_per_family": tot["per_family"],
        "samples": tot["samples"][:3],
        "unrealised_schedules": tot["unreal"],
        "invariants_on_traces": sc.INVS[PROP],
        "exhaustive": False,
        "exhaustive_families": ["term", "deliver"] if not quick else ["deliver"],
    })
    ctx.assumptions += [
        "schedules are forced at the verif hook points outside the locks and at the harness gates (Flush); code between two events of one goroutine is atomic with respect to the state it touches (hooks sit inside the protecting lock)",
        "'nothing is written after completion' is judged against the close of the completed channel (the latest point the statement allows)",
        "the solo response of an event is computed by a fresh resolver with that subscriber alone",
        "2 subscriber slots, <= 2 events, <= 2 client-side and 1 source-side terminators per history; heartbeat driven through updater.Heartbeat (interval 24h)",
        "startup hooks (HookableSubscriptionDataSource), UpdateSubscription/CloseSubscription and the synchronous ResolveGraphQLSubscription wrapper are not driven",
    ]
