"""C12 — Subscription delivery is ordered, exact, and stops at completion.

spec/conc/Subscriptions.tla (+ MC_Subs, Gen_Subs, Trace_Subs), harness/cmd/subs, checks/subs_common.py.
Properties judged on every recorded trace: NoWriteAfterClose, ClosedOnce, WriterExclusive(T), OrderedExact(T).
"""
import random
from concurrent.futures import ThreadPoolExecutor

import lib
import subs_common as sc

PROP = "C12"


def run(ctx):
    sc.load_own_findings(ctx)
    rng = random.Random(ctx.seed)
    binary = ctx.build("subs")
    if ctx.replay_in:
        return sc.replay_one(ctx, PROP, binary)
    quick = ctx.quick()
    # ---- 1. model checking (in the background while behaviours are generated and replayed) -----------------
    if quick:
        mcs = [("MC_Subs_q_one.cfg", "mc-fixed-1trigger", 900), ("MC_Subs_f_err.cfg", "mc-fixed-filter-and-render-errors-updatesubscription", 900)]
    else:
        mcs = [("MC_Subs_q_one.cfg", "mc-fixed-1trigger", 1800), ("MC_Subs_q_same.cfg", "mc-fixed-same-key-filters", 2400),
               ("MC_Subs_q_diff.cfg", "mc-fixed-two-triggers-one-connection", 2400), ("MC_Subs_t_events2.cfg", "mc-fixed-2events", 2400),
               ("MC_Subs_t_hb.cfg", "mc-fixed-heartbeat-2nd-source-goroutine", 3000),
               ("MC_Subs_f_err.cfg", "mc-fixed-filter-and-render-errors-updatesubscription", 1800),
               ("MC_Subs_f_sync.cfg", "mc-fixed-synchronous-wrapper", 2400), ("MC_Subs_live.cfg", "mc-liveness", 2400)]
    pool = ThreadPoolExecutor(max_workers=1)
    mc_future = pool.submit(sc.model_check, ctx, mcs, [("MC_Subs_asis_d5.cfg", ["NoWriteAfterClose"])])
    # ---- 2. generate -------------------------------------------------------------------------------------------
    batches = []
    totals = {}
    jobs = []
    # (a) exhaustive: every schedule of {2 subscribers set up one after the other} x {one client-side terminator} x {one source-side
    #     terminator} without events (complete/error/done vs unsubscribe/remove client/shutdown), incl. one mutual-exclusion probe
    jobs.append(("term", sc.gen_cfg("term", MaxEvents=0, MaxTerm=1, MaxSrcTerm=1, MaxProbes=1, CfgOK="CfgRace"), dict(cap=250 if quick else None, timeout=1200)))
    # (a') exhaustive: pure delivery, two events through one trigger with every filter combination; each schedule several times
    #      (the order in which the code walks its subscriber map is not ours to choose)
    jobs.append(("deliver", sc.gen_cfg("deliver", MaxEvents=2, MaxTerm=0, MaxSrcTerm=0, CfgOK="CfgSame"), dict(timeout=600)))
    # (a'') exhaustive: one event whose resolution performs a nested fetch per subscriber (the update goroutine sits in the fetch,
    #       outside every lock) racing with one client-side terminator
    jobs.append(("fetch", sc.gen_cfg("fetch", MaxEvents=1, MaxTerm=1, MaxSrcTerm=0, CfgOK="CfgFetch", Features="FeatFetch"), dict(cap=200 if quick else None, timeout=1200)))
    # (a3) exhaustive: one trigger, two subscribers, one event (Update or UpdateSubscription); subscriber 2's filter fails or its
    #      response cannot be rendered: the error goes to exactly that subscriber, racing with one client-side terminator
    jobs.append(("err", sc.gen_cfg("err", MaxEvents=1, MaxTerm=1, MaxSrcTerm=0, CfgOK="CfgErr", Features="FeatErr", AllowCloseSub="TRUE", MaxProbes=1), dict(cap=300 if quick else None, timeout=1200)))
    if not quick:
        # (b) exhaustive: the same with one event in flight (update vs removal / completion / flush failure)
        jobs.append(("ev1", sc.gen_cfg("ev1", MaxEvents=1, MaxTerm=1, MaxSrcTerm=1, CfgOK="CfgSame"), dict(cap=5000, timeout=2400)))
    # (c) sampled: 2 events, heartbeat, second source goroutine, flush / heartbeat failures, probes, every configuration
    jobs.append(("sim", sc.gen_cfg("sim", MaxEvents=2, MaxTerm=1, MaxSrcTerm=1, MaxHB=1, UseD="TRUE", MaxProbes=1, CfgOK="CfgNoHooks", AllowCloseSub="TRUE", Features="FeatAll"), dict(simulate=2000 if quick else 7000, depth=400, timeout=2400, cap=500 if quick else None)))
    # (d) sampled: the same with 2 client-side terminators (e.g. flush failure + unsubscribe, remove client + shutdown)
    jobs.append(("sim2", sc.gen_cfg("sim2", MaxEvents=2, MaxTerm=2, MaxSrcTerm=1, MaxHB=1, UseD="FALSE", MaxProbes=1, CfgOK="CfgNoFilt"), dict(simulate=800 if quick else 3000, depth=400, timeout=2400, cap=250 if quick else None)))
    # (d2) sampled: subscriber 1 through the synchronous ResolveGraphQLSubscription (select on its request context / the resolver context /
    #      completed): client going away, source completion, shutdown, events, a second (asynchronous) subscriber on the same or another trigger
    jobs.append(("sync", sc.gen_cfg("sync", MaxEvents=2, MaxTerm=2, MaxSrcTerm=1, MaxHB=1, CfgOK="CfgSync", Features="FeatSync", MaxProbes=1), dict(simulate=800 if quick else 4000, depth=400, timeout=2400, cap=300 if quick else None)))
    # (e) sampled: three subscriber slots (two triggers + a joiner, re-subscription chains), CloseSubscription from the source
    jobs.append(("sim3", sc.gen_cfg("sim3", NS=3, MaxEvents=2, MaxTerm=2, MaxSrcTerm=1, MaxHB=1, UseD="FALSE", StartModes="StartOK",
                                               CfgOK="CfgThree", MaxProbes=1, AllowCloseSub="TRUE"), dict(simulate=500 if quick else 2500, depth=500, timeout=2400, cap=250 if quick else None)))
    gen = sc.generate_all(ctx, jobs)
    for tag, _, _ in jobs:
        s, n = gen[tag]
        if tag == "deliver":
            rep = []
            for k, fk in enumerate(sc.FKS):  # once per way of writing the filter (static / variable: number, array, true, false, string; IN / NOT{IN} with 2 templates)
                for x in s:
                    if k > 0 and not any(c["filt"] == "odd" for c in x["subs"]):
                        continue    # nothing to vary without a filter
                    y = dict(x)
                    y["id"] = "%s-r%d" % (x["id"], k)
                    y["kv"] = sc.KVS[k % len(sc.KVS)]
                    y["fk"] = fk
                    rep.append(y)
            s = rep
        batches.append((tag, s))
        totals[tag] = n
    # ---- 3./4. replay + validate -------------------------------------------------------------------------------
    tot = sc.run_batches(ctx, PROP, binary, batches)
    mc_future.result()
    pool.shutdown()
    if tot["unreal"]:
        ctx.notes.append("%d schedules contained a release the real code could not take as scheduled (finished step by step and validated anyway)" % tot["unreal"])
    if tot["free"]:
        ctx.notes.append("%d runs had to be finished with all gates open" % tot["free"])
    ctx.coverage.update({
        "traces_validated_against_impl": tot["accepted"],
        "traces_rejected": tot["rejected"],
        "flaky_rejections": tot["flaky"],   # traces rejected once that were accepted in both re-executions of the same schedule (not counted)
        "evaluations": tot["replayed"],
        "distinct_nontrivial": len(tot["distinct"]),
        "rule": "one case = one TLC-generated schedule (configuration: trigger keys, filters, connections, start outcome; sequence of releases of "
                "parked goroutines with the environment's choices) forced on the real resolver and its recorded event stream validated by TLC; "
                "distinct by (configuration, release sequence); non-trivial = the running goroutine changes at least 3 times",
        "generated_behaviours": totals,
        "replayed_per_family": tot["per_family"],
        "samples": tot["samples"][:3],
        "unrealised_schedules": tot["unreal"],
        "invariants_on_traces": sc.INVS[PROP],
        "exhaustive": False,
        "exhaustive_families": ["term", "deliver", "fetch", "err"] if not quick else ["deliver"],
        "sampled": "ev1 capped, sim/sim2/sync/sim3 are -simulate samples (seeded); thorough is a sample too, sized to stay under 30 min",
    })
    ctx.assumptions += [
        "schedules are forced at the verif hook points outside the locks and at the harness gates (Flush); code between two events of one goroutine is atomic with respect to the state it touches (hooks sit inside the protecting lock)",
        "'nothing is written after completion' is judged against the close of the completed channel (the latest point the statement allows)",
        "the solo response of an event is computed by a fresh resolver with that subscriber alone",
        "2 subscriber slots, <= 2 events, <= 2 client-side and 1 source-side terminators per history; heartbeat driven through updater.Heartbeat (interval 24h)",
        "startup hooks (HookableSubscriptionDataSource), UpdateSubscription/CloseSubscription and the synchronous ResolveGraphQLSubscription wrapper are not driven",
    ]
