"""C20 — gRPC datasource answers are consistent projections of the service data.

Pipeline (design.d/C20.md):
  0. spec/core/GQLShapeProducts.tla is regenerated from products.graphqls of the tree under test and compared
     with the committed module (schema drift => INCONCLUSIVE).
  1. TLC model-checks Gen_C20 with MC_C20.cfg: on every (base, reformulation) pair of the bounded generator the
     reference executor's answers satisfy ShapeOK / Consistent (the relations are satisfiable, every reformulation
     action is meaning preserving); four deliberately broken executors must be rejected (non-vacuity).
  2. TLC generates operations and their reformulation orbits (BFS exhaustive for small bounds, -simulate seeded
     for deeper ones) and prints them.
  3. harness/cmd/grpc runs every operation through grpcdatasource.NewDataSource(...).Load against
     grpctest.MockService on a bufconn, in two lanes (raw text / normalized like graphql_datasource does before
     it builds the gRPC datasource) and records the JSON in tagged form.
  4. TLC (Trace_C20) consumes one observation per step; INVARIANTS ShapeInv, SelfInv, ConsistentInv state the
     property for every answer / every pair of an orbit; acceptance = all lines consumed.  If the strict run is
     rejected, Trace_C20_diag.cfg evaluates the same error sets without stopping so that every failing
     observation can be reported and matched against known findings.
  5. No-oracle observations in python: panic, error instead of data, invalid generated operation (generator bug
     => INCONCLUSIVE).
"""
import collections
import json
import os
import random
import re

import c20_schema
import lib

CORE = "core"
NEG_MUTS = ["dropalias", "flatten", "typename", "firstwins"]

# ---------------------------------------------------------------------------------------------- helpers: ops


def F(name, sel=None, alias="", args=None):
    return {"k": "f", "name": name, "alias": alias, "on": "", "args": args or [], "sel": sel or []}


def I(on, sel):
    return {"k": "i", "name": "", "alias": "", "on": on, "args": [], "sel": sel}


def S(on, sel):
    return {"k": "s", "name": "", "alias": "", "on": on, "args": [], "sel": sel}


def A(name, typ, val, var=""):
    return {"name": name, "type": typ, "var": var, "val": json.dumps(val, separators=(",", ":"))}


def OP(sel, kind="query", fed=None):
    return {"kind": kind, "fed": fed or [], "sel": sel}


def op_sha(op):
    return lib.sha(op)


class Schema:
    def __init__(self, sdl_text):
        self.types = c20_schema.parse_sdl(sdl_text)

    def fdef(self, tn, fn):
        for f in self.types.get(tn, {}).get("fields", []):
            if f["name"] == fn:
                return f
        return None

    def named(self, tn, fn):
        f = self.fdef(tn, fn)
        return c20_schema.named_of(f["type"]) if f else None

    def list_wraps(self, tn, fn):
        f = self.fdef(tn, fn)
        n, t = 0, f["type"] if f else None
        while t and t["k"] != "named":
            if t["k"] == "list":
                n += 1
            t = t["of"]
        return n

    def is_resolver(self, tn, fn):
        f = self.fdef(tn, fn)
        if not f or tn in ("Query", "Mutation"):
            return False
        return bool(f["args"]) or "connect__fieldResolver" in f["dirs"]

    def is_requires(self, tn, fn):
        f = self.fdef(tn, fn)
        return bool(f) and "requires" in f["dirs"]

    def is_abstract(self, tn):
        return self.types.get(tn, {}).get("kind") in ("INTERFACE", "UNION")


def walk(schema, op):
    """yield (field selection, parent type, features) for every field of the operation"""
    root = "Mutation" if op["kind"] == "mutation" else "Query"

    def rec(sel, tn, feat, field_type_abstract):
        for s in sel:
            if s["k"] == "f":
                f = dict(feat)
                f["is_resolver"] = schema.is_resolver(tn, s["name"])
                f["is_requires"] = schema.is_requires(tn, s["name"])
                yield s, tn, f
                nt = schema.named(tn, s["name"]) if s["name"] != "__typename" else None
                if nt and s["sel"]:
                    g = dict(feat)
                    g["in_member_fragment"] = False
                    g["under_nested_list"] = feat["under_nested_list"] or schema.list_wraps(tn, s["name"]) >= 2
                    g["in_resolver"] = feat["in_resolver"] or f["is_resolver"]
                    g["siblings"] = s["sel"]
                    yield from rec(s["sel"], nt, g, schema.is_abstract(nt))
            else:
                g = dict(feat)
                g["in_member_fragment"] = feat["in_member_fragment"] or field_type_abstract
                yield from rec(s["sel"], s["on"], g, field_type_abstract)

    base = {"in_member_fragment": False, "under_nested_list": False, "in_resolver": False, "siblings": op["sel"]}
    yield from rec(op["sel"], root, base, False)


def flat_fields(sel):
    for s in sel:
        if s["k"] == "f":
            yield s
        else:
            yield from flat_fields(s["sel"])


def rep_types(op):
    out = set()
    for s in op["sel"]:
        if s["k"] == "f" and s["name"] == "_entities":
            for a in s["args"]:
                if a["name"] == "representations":
                    for r in json.loads(a["val"]):
                        out.add(r.get("__typename"))
    return out


def op_features(schema, op):
    feats = set()
    for s, tn, f in walk(schema, op):
        if f["is_resolver"] and f["under_nested_list"]:
            feats.add("resolver-under-nested-list")
        if f["is_resolver"] and f["in_member_fragment"]:
            feats.add("resolver-in-member-fragment")
        if f["is_requires"] and len(rep_types(op)) > 1:
            feats.add("requires-mixed-representations")
        if f["in_resolver"] and s["alias"] and any(x["name"] == s["name"] and not x["alias"] for x in flat_fields(f["siblings"])):
            feats.add("aliased-duplicate-in-resolver-selection")
        if f["in_resolver"] and f["is_resolver"]:
            feats.add("nested-resolver")
    return feats


def err_context(schema, op, err):
    """classify one TLC error record {c:[root,type,field], why} for the finding key (see design.d/C20.md)"""
    feats = op_features(schema, op)
    _, tn, fn = err["c"]
    why = err["why"]
    if why == "error-response":
        for k in ("resolver-under-nested-list", "requires-mixed-representations", "resolver-in-member-fragment", "nested-resolver"):
            if k in feats:
                return k
        return "plain"
    here = []
    for s, ptn, f in walk(schema, op):
        if s["name"] == fn and (ptn == tn or tn in ("Query", "Mutation")):
            here.append((s, ptn, f))
    # errors reported at an abstract / entity field are about the keys of its children
    if why in ("keys-match-no-possible-type", "typename-missing") or fn == "_entities":
        if fn == "_entities" and "requires-mixed-representations" in feats:
            return "requires-mixed-representations"
        if "resolver-under-nested-list" in feats:
            return "resolver-under-nested-list"
        if "resolver-in-member-fragment" in feats:
            return "resolver-in-member-fragment"
        if "aliased-duplicate-in-resolver-selection" in feats:
            return "aliased-duplicate-in-resolver-selection"
        return "plain"
    for s, ptn, f in here:
        if f["is_resolver"] and f["under_nested_list"]:
            return "resolver-under-nested-list"
    for s, ptn, f in here:
        if f["is_resolver"] and f["in_member_fragment"]:
            return "resolver-in-member-fragment"
    if why == "missing-key" and "aliased-duplicate-in-resolver-selection" in feats:
        for s, ptn, f in here:
            if f["in_resolver"]:
                return "aliased-duplicate-in-resolver-selection"
    if tn in rep_types(op) and "requires-mixed-representations" in feats:
        return "requires-mixed-representations"
    if "resolver-under-nested-list" in feats and any(f["under_nested_list"] for _, _, f in here):
        return "resolver-under-nested-list"
    return "plain"


ERR_CLASSES = [
    (re.compile(r"length of values doesn't match"), "resolver-length-mismatch"),
    (re.compile(r"field \S+ not found in object"), "resolver-path-not-found"),
    (re.compile(r"is required but has no value"), "required-no-value"),
    (re.compile(r"expected array or object"), "resolver-path-not-composite"),
]


def err_class(msg):
    for rx, name in ERR_CLASSES:
        if rx.search(msg or ""):
            return name
    return "other"


def first_error_message(raw):
    try:
        return json.loads(raw)["errors"][0]["message"]
    except Exception:
        return ""


def roots_of(op):
    out = []

    def rec(sel):
        for s in sel:
            if s["k"] == "f":
                out.append(s["name"])
            else:
                rec(s["sel"])
    rec(op["sel"])
    return ",".join(sorted(set(out)))


# ---------------------------------------------------------------------------------------------- probes

ENT_REPS_P = [{"__typename": "Product", "id": "p1"}, {"__typename": "Product", "id": "p2"}]
ENT_FED_P = [{"type": "Product", "field": "", "sel": "id"}]


def probes():
    """hand-written operations that pin the known findings (same driver, same TLC relations)"""
    ent = lambda sel, alias="": F("_entities", sel, alias=alias, args=[A("representations", "[_Any!]!", ENT_REPS_P, "representations")])
    return [
        # (tag, lane, base op, variant op or None)
        ("repeated-enum-argument", "raw",
         OP([F("categoriesByKinds", [F("id"), F("kind")], args=[A("kinds", "[CategoryKind!]!", ["BOOK", "FURNITURE"])])]), None),
        ("entities-typename-outside-fragment", "raw",
         OP([ent([F("__typename"), I("Product", [F("__typename"), F("id")])])], fed=ENT_FED_P), None),
        ("entities-alias", "raw",
         OP([ent([I("Product", [F("__typename"), F("id")])])], fed=ENT_FED_P),
         OP([ent([I("Product", [F("__typename"), F("id")])], alias="e")], fed=ENT_FED_P)),
        ("entities-implicit-typename", "raw",
         OP([ent([I("Product", [F("__typename"), F("id")])])], fed=ENT_FED_P),
         OP([ent([I("Product", [F("id")])])], fed=ENT_FED_P)),
        ("unnormalized-same-key-duplicate", "raw",
         OP([F("nestedType", [F("b", [F("id"), F("name")])])]),
         OP([F("nestedType", [F("b", [F("id")]), F("b", [F("name")])])])),
        ("unnormalized-fragment-on-object-type", "raw",
         OP([F("users", [F("id"), F("name")])]),
         OP([F("users", [I("User", [F("id")]), F("name")])])),
        ("unnormalized-named-fragment", "raw",
         OP([F("users", [F("id"), F("name")])]),
         OP([F("users", [S("User", [F("id")]), F("name")])])),
    ]


# ---------------------------------------------------------------------------------------------- pipeline


def sync_schema(ctx):
    sdl_file = c20_schema.sdl_path(lib.REPO)
    with open(sdl_file) as f:
        sdl = f.read()
    want = c20_schema.generate(sdl)
    with open(os.path.join(lib.SPEC, CORE, "GQLShapeProducts.tla")) as f:
        have = f.read()
    if want != have:
        raise lib.Inconclusive("spec/core/GQLShapeProducts.tla is out of date w.r.t. %s — rerun checks/c20_schema.py" % sdl_file)
    return sdl_file, Schema(sdl)


def group_records(recs):
    groups = collections.OrderedDict()
    for r in recs:
        g = op_sha(r["base"])
        groups.setdefault(g, {"base": r["base"], "vars": collections.OrderedDict()})
        groups[g]["vars"].setdefault(op_sha(r["op"]), r)
    return groups


def choose(groups, rng, max_groups, max_vars):
    keys = list(groups.keys())
    rng.shuffle(keys)
    keys = keys[:max_groups]
    out = collections.OrderedDict()
    for k in keys:
        vs = list(groups[k]["vars"].values())
        rng.shuffle(vs)
        # prefer variety of last steps
        seen, pick, rest = set(), [], []
        for v in vs:
            a = v["steps"][-1]["a"]
            (pick if a not in seen else rest).append(v)
            seen.add(a)
        out[k] = {"base": groups[k]["base"], "vars": (pick + rest)[:max_vars]}
    return out


def cases_of(groups, seed, prefix):
    cases = []
    for g, v in groups.items():
        for lane in ("raw", "norm"):
            cases.append({"id": "%s%s-%s-b" % (prefix, g, lane), "group": prefix + g, "role": "base" if lane == "raw" else "xbase",
                          "lane": lane, "seed": seed, "op": v["base"], "steps": []})
            for i, r in enumerate(v["vars"]):
                if lane == "raw" and r["normOnly"]:
                    continue
                cases.append({"id": "%s%s-%s-%d" % (prefix, g, lane, i), "group": prefix + g, "role": "variant", "lane": lane,
                              "seed": seed, "op": r["op"], "steps": r["steps"]})
    return cases


def probe_cases(seed):
    cases = []
    for tag, lane, base, var in probes():
        cases.append({"id": "probe-%s-b" % tag, "group": "probe-" + tag, "role": "base", "lane": lane, "seed": seed, "op": base,
                      "steps": [], "probe": tag})
        if var is not None:
            cases.append({"id": "probe-%s-v" % tag, "group": "probe-" + tag, "role": "variant", "lane": lane, "seed": seed, "op": var,
                          "steps": [], "probe": tag})
    return cases


def run_driver(ctx, binary, cases, sdl_file, name):
    cp = ctx.path(name + ".cases.ndjson")
    op = ctx.path(name + ".obs.ndjson")
    lib.write_ndjson(cp, cases)
    ctx.run_bin(binary, ["-in", cp, "-out", op, "-sdl", sdl_file], timeout=3000)
    obs = lib.read_ndjson(op)
    if len(obs) != len(cases):
        raise lib.Inconclusive("driver returned %d observations for %d cases" % (len(obs), len(cases)))
    return obs


def replay_obj(case, o, base_case=None, base_obs=None, extra=None):
    r = {"case": {k: case.get(k) for k in ("id", "lane", "role", "seed", "op", "steps", "probe")},
         "text": o.get("text"), "sent": o.get("sent"), "vars": o.get("vars"), "stage": o.get("stage"),
         "err": (o.get("err") or "")[:400], "observed": o.get("raw")}
    if base_case is not None:
        r["base_case"] = {k: base_case.get(k) for k in ("id", "lane", "role", "seed", "op", "steps", "probe")}
        r["base_text"] = base_obs.get("text")
        r["base_observed"] = base_obs.get("raw")
    if extra:
        r.update(extra)
    return r


def validate(ctx, schema, cases, obs, name):
    """TLC trace validation of all 'ok' observations; returns (#lines accepted, #lines with errors)."""
    by_id = {c["id"]: c for c in cases}
    obs_by_id = {o["id"]: o for o in obs}
    base_of = {}
    cur = None
    for c in cases:
        if c["role"] == "base":
            cur = c["id"]
            base_of[c["id"]] = c["id"]
        else:
            base_of[c["id"]] = cur
            if c["role"] == "xbase":
                cur = c["id"]
    # groups whose base failed before producing JSON are dropped as a whole (the base failure is reported by caller)
    dead = {c["group"] + "/" + c["lane"] for c in cases if c["role"] in ("base", "xbase") and obs_by_id[c["id"]]["stage"] != "ok"}
    rows = []
    for c in cases:
        o = obs_by_id[c["id"]]
        if o["stage"] != "ok" or (c["group"] + "/" + c["lane"]) in dead:
            continue
        role = c["role"]
        if role == "xbase" and (c["group"] + "/raw") in dead:
            role = "base"
        rows.append({"id": c["id"], "role": role, "op": c["op"], "resp": o["resp"]})
    if not rows:
        return 0, 0
    # TLC runs once per batch; batches are cut at group boundaries (a "base" line) to bound memory
    chunks, cur_rows = [], []
    for r in rows:
        if r["role"] == "base" and len(cur_rows) >= CHUNK:
            chunks.append(cur_rows)
            cur_rows = []
        cur_rows.append(r)
    chunks.append(cur_rows)
    ok_total = bad_total = 0
    for ci, chunk in enumerate(chunks):
        ok, bad = validate_chunk(ctx, schema, by_id, obs_by_id, chunk, "%s-%d" % (name, ci))
        ok_total += ok
        bad_total += bad
    return ok_total, bad_total


CHUNK = 12000


def validate_chunk(ctx, schema, by_id, obs_by_id, rows, name):
    tp = ctx.path(name + ".trace.ndjson")
    lib.write_ndjson(tp, rows)
    r = ctx.tlc(CORE, "Trace_C20", "Trace_C20.cfg", workers=1, env={"TRACE": tp}, timeout=3000, deadlock=False,
                count=False, tag="trace-validation-" + name, heap="8g")
    if r.ok:
        return len(rows), 0
    if not r.violated and "TRACE_STUCK_AT_LINE" not in r.out:
        print(r.out[-3000:])
        raise lib.Inconclusive("trace validation failed in an unexpected way: %s" % r.error)
    ctx.log("strict trace validation rejected (%s); enumerating every failing observation" % (r.violated or "stuck"))
    d = ctx.tlc(CORE, "Trace_C20", "Trace_C20_diag.cfg", workers=1, env={"TRACE": tp}, timeout=3000, deadlock=False,
                count=False, tag="trace-diagnosis-" + name, heap="8g")
    if not d.ok:
        print(d.out[-3000:])
        raise lib.Inconclusive("diagnostic trace run failed: %s" % d.error)
    if not d.printed:
        raise lib.Inconclusive("strict run rejected the trace but the diagnostic run found no failing observation")
    bad = 0
    for rec in d.printed:
        bad += 1
        c = by_id[rec["id"]]
        o = obs_by_id[rec["id"]]
        bc = by_id.get(rec["against"]) if rec["against"] else None
        bo = obs_by_id.get(rec["against"]) if rec["against"] else None
        seen = set()
        for rel in ("shape", "self", "agree"):
            for e in rec[rel]:
                if c.get("probe"):
                    key = "probe:%s:%s:%s" % (c["probe"], rel, e["why"])
                elif e["why"] == "error-response":
                    key = "%s:error-response:%s:%s" % (err_context(schema, c["op"], e), err_class(first_error_message(o["raw"])), roots_of(c["op"]))
                else:
                    ctxs = {err_context(schema, c["op"], e)}
                    if rel == "agree" and bc is not None:
                        ctxs.add(err_context(schema, bc["op"], e))
                    ctxs.discard("plain")
                    cx = sorted(ctxs)[0] if ctxs else "plain"
                    key = "%s:%s:%s:%s.%s" % (cx, rel, e["why"], e["c"][1], e["c"][2])
                if key in seen:
                    continue
                seen.add(key)
                what = "%s: %s at %s.%s (root field %s) — lane %s, steps %s; operation: %s; answer: %s" % (
                    {"shape": "answer does not have the shape of the selection", "self": "one position selected twice carries two values",
                     "agree": "a position common to base and reformulation changed its value"}[rel],
                    e["why"], e["c"][1], e["c"][2], e["c"][0], c["lane"], json.dumps([s["a"] for s in c.get("steps", [])]),
                    o["text"][:300], (o["raw"] or "")[:300])
                if rel == "agree" and bo is not None:
                    what += "; base operation: %s; base answer: %s" % (bo["text"][:300], (bo["raw"] or "")[:300])
                ctx.violation(key, what, replay_obj(c, o, bc if rel == "agree" else None, bo if rel == "agree" else None,
                                                    {"relation": rel, "error": e}))
    return len(rows) - bad, bad


def go_side(ctx, schema, cases, obs):
    """observations that need no oracle"""
    stages = collections.Counter()
    for c, o in zip(cases, obs):
        stages[o["stage"]] += 1
        if o["stage"] == "ok":
            continue
        if o["stage"] == "invalid":
            raise lib.Inconclusive("generator produced an operation gqlparser rejects (%s): %s" % (o["err"][:200], o["text"][:300]))
        if o["stage"] == "panic":
            msg = re.sub(r"0x[0-9a-f]+", "0x?", o["err"].splitlines()[0])[:120]
            key = "probe:%s:panic" % c["probe"] if c.get("probe") else "panic:%s:%s" % (msg, roots_of(c["op"]))
            ctx.violation(key, "panic in the gRPC datasource (%s) for operation %s" % (msg, o["text"][:300]), replay_obj(c, o))
            continue
        # parse / normalize / plan / load error for an operation over covered fields
        feats = sorted(op_features(schema, c["op"])) or ["plain"]
        key = ("probe:%s:%s" % (c["probe"], o["stage"])) if c.get("probe") else "%s:%s-error:%s" % (feats[0], o["stage"], roots_of(c["op"]))
        ctx.violation(key, "%s failed for a valid operation over mapped fields: %s — operation %s (lane %s)" % (
            o["stage"], o["err"][:200], o["text"][:300], c["lane"]), replay_obj(c, o))
    return stages


def nontrivial(op):
    def depth(sel):
        return 0 if not sel else 1 + max(depth(s["sel"]) for s in sel)
    return depth(op["sel"]) >= 2


def do_replay(ctx, binary, sdl_file, schema):
    with open(ctx.replay_in) as f:
        rp = json.load(f)
    case = rp["case"]
    cases = []
    if case.get("base_case"):
        b = dict(case["base_case"])
        b["role"] = "base"
        b["group"] = "replay"
        cases.append(b)
    c = dict(case["case"])
    c["group"] = "replay"
    if not cases:
        c["role"] = "base"
    else:
        c["role"] = "variant"
    cases.append(c)
    for x in cases:
        x.setdefault("steps", [])
        x["steps"] = x["steps"] or []
    obs = run_driver(ctx, binary, cases, sdl_file, "replay")
    for o in obs:
        ctx.log("replayed %s lane=%s stage=%s\n    operation: %s\n    answer:    %s %s" % (o["id"], o["lane"], o["stage"], o["text"], o["raw"], o["err"][:300]))
    go_side(ctx, schema, cases, obs)
    ok, bad = validate(ctx, schema, cases, obs, "replay")
    ctx.coverage.update({"traces_validated_against_impl": ok, "evaluations": len(cases), "distinct_nontrivial": 0,
                         "rule": "replay of one stored case", "samples": [], "exhaustive": False})


def own_findings(ctx):
    """findings.d/C20.json is this check's fragment of known-findings.json; entries the coordinator has not merged yet
    are honoured as well (same matching rules, nothing is written)."""
    known = ctx.known()
    have = {(k.get("property"), k.get("key")) for k in known}
    try:
        with open(os.path.join(lib.VERIF, "findings.d", "C20.json")) as f:
            for k in json.load(f):
                if (k.get("property"), k.get("key")) not in have:
                    known.append(k)
    except FileNotFoundError:
        pass


def run(ctx):
    own_findings(ctx)
    rng = random.Random(ctx.seed)
    quick = ctx.quick()
    sdl_file, schema = sync_schema(ctx)
    binary = ctx.build("grpc")
    if ctx.replay_in:
        return do_replay(ctx, binary, sdl_file, schema)
    # ---- 1. model checking ------------------------------------------------------------------------------------
    ctx.tlc_must_pass(CORE, "Gen_C20", "MC_C20.cfg" if quick else "MC_C20_thorough.cfg", timeout=1500, deadlock=False, workers=8, tag="mc-reformulations-preserve-meaning")
    if not quick:
        ctx.tlc_must_pass(CORE, "Gen_C20", "MC_C20_b.cfg", timeout=1500, deadlock=False, workers=8, tag="mc-reformulations-preserve-meaning-lists-unions")
    for m in (NEG_MUTS[:2] if quick else NEG_MUTS):
        r = ctx.tlc(CORE, "Gen_C20", "MC_C20_neg_%s.cfg" % m, timeout=600, deadlock=False, workers=4, count=False, tag="mc-negative-" + m)
        if r.violated != "RefOK":
            raise lib.Inconclusive("sanity: the broken reference executor %r should violate RefOK in the model, got %r" % (m, r.error))
    # ---- 2. generation ----------------------------------------------------------------------------------------
    g1 = ctx.tlc_must_pass(CORE, "Gen_C20", "Gen_C20_bfs.cfg" if quick else "Gen_C20_bfs_thorough.cfg", timeout=1500, deadlock=False, workers=8, tag="gen-bfs")
    bfs_groups = group_records(g1.printed)
    nsim = 300 if quick else 4000
    g2 = ctx.tlc_must_pass(CORE, "Gen_C20", "Gen_C20_sim.cfg", timeout=2400, deadlock=False, workers=1, simulate=nsim, depth=30,
                           seed=ctx.seed, tag="gen-simulate")
    sim_groups = group_records(g2.printed)
    if quick:
        bfs_sel = choose(bfs_groups, rng, 250, 6)
        sim_sel = choose(sim_groups, rng, 300, 6)
    else:
        bfs_sel = choose(bfs_groups, rng, 6000, 4)
        sim_sel = choose(sim_groups, rng, 4000, 6)
    ctx.log("generated: bfs %d bases / %d pairs (chosen %d / %d); simulate %d bases / %d pairs (chosen %d / %d)" % (
        len(bfs_groups), sum(len(v["vars"]) for v in bfs_groups.values()), len(bfs_sel), sum(len(v["vars"]) for v in bfs_sel.values()),
        len(sim_groups), sum(len(v["vars"]) for v in sim_groups.values()), len(sim_sel), sum(len(v["vars"]) for v in sim_sel.values())))
    cases = cases_of(bfs_sel, ctx.seed, "b") + cases_of(sim_sel, ctx.seed, "s")
    pcases = probe_cases(ctx.seed)
    # ---- 3. replay on the real datasource -----------------------------------------------------------------------
    obs = run_driver(ctx, binary, cases, sdl_file, "gen")
    pobs = run_driver(ctx, binary, pcases, sdl_file, "probes")
    stages = go_side(ctx, schema, cases, obs)
    pstages = go_side(ctx, schema, pcases, pobs)
    ctx.log("driver stages: %s; probes: %s" % (dict(stages), dict(pstages)))
    # ---- 4. validation ------------------------------------------------------------------------------------------
    ok, bad = validate(ctx, schema, cases, obs, "gen")
    pok, pbad = validate(ctx, schema, pcases, pobs, "probes")
    ctx.log("trace validation: %d observations accepted, %d with errors; probes %d/%d" % (ok, bad, pok, pbad))
    distinct = set()
    nontriv = set()
    steps_hist = collections.Counter()
    for c in cases:
        h = lib.sha([c["op"], c["lane"]])
        distinct.add(h)
        if c["role"] == "variant" and nontrivial(c["op"]):
            nontriv.add(h)
        for s in c["steps"]:
            steps_hist[s["a"]] += 1
    samples = []
    for c, o in list(zip(cases, obs))[:400]:
        if c["role"] == "variant" and len(samples) < 4:
            samples.append({"id": c["id"], "lane": c["lane"], "steps": c["steps"], "operation": o["text"], "sent": o["sent"], "answer": (o["raw"] or "")[:500]})
    ctx.coverage.update({
        "traces_validated_against_impl": ok + pok,
        "evaluations": len(cases) + len(pcases),
        "distinct_nontrivial": len(nontriv),
        "distinct_operations_executed": len(distinct),
        "observations_with_errors": bad + pbad,
        "rule": "one case = one TLC-generated operation (base or <=3-step reformulation) executed by the real gRPC datasource in one "
                "lane (raw / normalized); distinct by hash of (operation, lane); non-trivial = reformulated operations with nesting depth >= 2",
        "reformulation_steps": dict(steps_hist),
        "driver_stages": dict(stages),
        "samples": samples,
        "invariants_on_traces": ["ShapeInv", "SelfInv", "ConsistentInv"],
        "exhaustive": False,
        "exhaustive_part": "Gen_C20_bfs%s.cfg: every operation within the bounds and its complete 1-step orbit%s" % (
            "" if quick else "_thorough", " (sampled in the quick tier)" if quick else ""),
    })
    ctx.assumptions += [
        "grpctest.MockService is the service; its data is deterministic except for the coordinates listed in c20_schema.NONDET (math/rand), which are compared by shape only",
        "argument values come from fixed pools (c20_schema.ARG_POOLS) and are always passed as variables, as the engine's planner does",
        "lane 'norm' applies astnormalization exactly as graphql_datasource.printOperation does before it builds the gRPC datasource; "
        "named fragments, root-level fragments, fragments on the enclosing object type and same-key duplicates are only checked in that lane",
        "entity fetches follow the federation contract (one fragment per representation type, each selecting __typename)",
        "response key order is not part of the shape (keys are compared as a set, duplicates forbidden)",
    ]
