"""C20 — gRPC datasource answers are consistent projections of the service data.

Pipeline (design.d/C20.md):
  0. spec/core/GQLShapeProducts.tla is regenerated from products.graphqls of the tree under test and compared
     with the committed module (schema drift => INCONCLUSIVE).
  1. TLC model-checks Gen_C20 with MC_C20.cfg: on every (base, reformulation) pair of the bounded generator the
     reference executor's answers satisfy ShapeOK / Consistent (the relations are satisfiable, every reformulation
     action is meaning preserving); four deliberately broken executors must be rejected (non-vacuity).
  2. TLC generates operations and their reformulation orbits (BFS exhaustive for small bounds, -simulate seeded
     for deeper ones) and prints them.
  3. harness/cmd/grpc runs every operation through grpcdatasource.NewDataSource(...).Load against
     grpctest.MockService on a bufconn, in two lanes (raw text / normalized like graphql_datasource does before
     it builds the gRPC datasource) and records the JSON in tagged form.
  4. TLC (Trace_C20) consumes one observation per step; INVARIANTS ShapeInv, SelfInv, ConsistentInv state the
     property for every answer / every pair of an orbit; acceptance = all lines consumed.  If the strict run is
     rejected, Trace_C20_diag.cfg evaluates the same error sets without stopping so that every failing
     observation can be reported and matched against known findings.
  5. No-oracle observations in python: panic, error instead of data, invalid generated operation (generator bug
     => INCONCLUSIVE).
"""
import collections
import json
import os
import random
import re
import shutil

import c20_schema
import lib

CORE = "core"
NEG_MUTS = ["dropalias", "flatten", "typename", "firstwins"]

# ---------------------------------------------------------------------------------------------- helpers: ops


def F(name, sel=None, alias="", args=None):
    return {"k": "f", "name": name, "alias": alias, "on": "", "args": args or [], "sel": sel or []}


def I(on, sel):
    return {"k": "i", "name": "", "alias": "", "on": on, "args": [], "sel": sel}


def S(on, sel):
    return {"k": "s", "name": "", "alias": "", "on": on, "args": [], "sel": sel}


def A(name, typ, val, var=""):
    return {"name": name, "type": typ, "var": var, "val": json.dumps(val, separators=(",", ":")), "str": val if isinstance(val, str) else ""}


def OP(sel, kind="query", fed=None, dv=""):
    return {"kind": kind, "dv": dv, "fed": fed or [], "sel": sel}


def op_sha(op):
    return lib.sha(op)


class Schema:
    def __init__(self, sdl_text):
        self.types = c20_schema.parse_sdl(sdl_text)

    def fdef(self, tn, fn):
        for f in self.types.get(tn, {}).get("fields", []):
            if f["name"] == fn:
                return f
        return None

    def named(self, tn, fn):
        f = self.fdef(tn, fn)
        return c20_schema.named_of(f["type"]) if f else None

    def list_wraps(self, tn, fn):
        f = self.fdef(tn, fn)
        n, t = 0, f["type"] if f else None
        while t and t["k"] != "named":
            if t["k"] == "list":
                n += 1
            t = t["of"]
        return n

    def is_resolver(self, tn, fn):
        f = self.fdef(tn, fn)
        if not f or tn in ("Query", "Mutation"):
            return False
        return bool(f["args"]) or "connect__fieldResolver" in f["dirs"]

    def is_requires(self, tn, fn):
        f = self.fdef(tn, fn)
        return bool(f) and "requires" in f["dirs"]

    def is_abstract(self, tn):
        return self.types.get(tn, {}).get("kind") in ("INTERFACE", "UNION")


def walk(schema, op):
    """yield (field selection, parent type, features) for every field of the operation"""
    root = "Mutation" if op["kind"] == "mutation" else "Query"

    def key(x):
        return x["alias"] or x["name"]

    def rec(sel, tn, feat, field_type_abstract, merged_here=None):
        # selections of all same-key occurrences at this level (what normalization / CollectFields merges)
        if merged_here is None:
            merged_here = {}
            for x in flat_fields(sel):
                merged_here.setdefault(key(x), []).extend(x["sel"])
        for s in sel:
            if s["k"] == "f":
                f = dict(feat)
                f["is_resolver"] = schema.is_resolver(tn, s["name"])
                f["is_requires"] = schema.is_requires(tn, s["name"])
                yield s, tn, f
                nt = schema.named(tn, s["name"]) if s["name"] != "__typename" else None
                if nt and s["sel"]:
                    g = dict(feat)
                    # in_member_fragment is inherited: the context path of every resolver further down still has to
                    # step through the oneof wrapper of the abstract value
                    g["under_nested_list"] = feat["under_nested_list"] or schema.list_wraps(tn, s["name"]) >= 2
                    g["in_resolver"] = feat["in_resolver"] or f["is_resolver"] or f["is_requires"]
                    msel = merged_here.get(key(s), s["sel"])
                    g["siblings"] = msel
                    g["anc"] = feat["anc"] + (id(s),)
                    yield from rec(msel, nt, g, schema.is_abstract(nt))
            else:
                g = dict(feat)
                g["in_member_fragment"] = feat["in_member_fragment"] or field_type_abstract
                yield from rec(s["sel"], s["on"], g, field_type_abstract, merged_here)

    base = {"in_member_fragment": False, "under_nested_list": False, "in_resolver": False, "siblings": op["sel"], "anc": ()}
    yield from rec(op["sel"], root, base, False)


def flat_fields(sel):
    for s in sel:
        if s["k"] == "f":
            yield s
        else:
            yield from flat_fields(s["sel"])


def rep_types(op):
    out = set()
    for s in flat_fields(op["sel"]):
        if s["name"] == "_entities":
            for a in s["args"]:
                if a["name"] == "representations":
                    for r in json.loads(a["val"]):
                        out.add(r.get("__typename"))
    return out


def features_of(op, entries):
    feats = set()
    mixed = len(rep_types(op)) > 1
    for s, tn, f in entries:
        if f["is_resolver"] and f["under_nested_list"]:
            feats.add("resolver-under-nested-list")
        if f["is_resolver"] and f["in_member_fragment"]:
            feats.add("resolver-in-member-fragment")
        if (f["is_requires"] or f["is_resolver"]) and mixed:
            feats.add("mixed-representations")
        if f["in_resolver"] and s["alias"] and any(x["name"] == s["name"] and not x["alias"] for x in flat_fields(f["siblings"])):
            feats.add("aliased-duplicate-in-resolver-selection")
        if f["in_resolver"] and f["is_resolver"]:
            feats.add("nested-resolver")
    return feats


def op_features(schema, op):
    return features_of(op, walk(schema, op))


# contexts of findings that cannot be repaired locally come first: an observation that lies in two known contexts is
# attributed to the one that stays open
FEATURE_PRIORITY = ("mixed-representations", "resolver-in-member-fragment", "resolver-under-nested-list", "nested-resolver")


OPEN_FIRST = ("mixed-representations", "resolver-in-member-fragment", "resolver-under-nested-list",
              "aliased-duplicate-in-resolver-selection", "nested-resolver")


def err_context(schema, op, err):
    """classify one TLC error record {c:[root field, parent type, field], why} for the finding key: which known defect
    context (if any) does the reported coordinate lie in?  Only the part of the operation at / below the coordinate
    counts, so that an unrelated known context elsewhere in the operation cannot absorb the error."""
    root, tn, fn = err["c"]
    why = err["why"]
    entries = list(walk(schema, op))
    if why == "error-response" or not root:
        return next((k for k in FEATURE_PRIORITY if k in features_of(op, entries)), "plain")
    # the selections of the coordinate: field fn with parent type tn below root field `root`
    roots = {id(s) for s, ptn, f in entries if not f["anc"] and s["name"] == root}
    here = [(s, ptn, f) for s, ptn, f in entries
            if s["name"] == fn and (ptn == tn or tn in ("Query", "Mutation")) and (id(s) in roots or (f["anc"] and f["anc"][0] in roots))]
    here_ids = {id(s) for s, _, _ in here}
    below = [e for e in entries if here_ids & set(e[2]["anc"])]
    if not here:
        # the reported key is not a selection of that type (an extra key): everything below the root field counts
        here = [e for e in entries if id(e[0]) in roots]
        below = [e for e in entries if e[2]["anc"] and e[2]["anc"][0] in roots]
    feats = features_of(op, here + below)
    # a key missing / extra in an object: the siblings (same parent selection) decide as well
    if why in ("missing-key", "extra-key"):
        parents = {f["anc"][-1] for _, _, f in here if f["anc"]}
        sibs = [e for e in entries if e[2]["anc"] and e[2]["anc"][-1] in parents]
        feats |= features_of(op, [e for e in sibs if e[0]["name"] == fn])
    return next((k for k in OPEN_FIRST if k in feats), "plain")


ERR_CLASSES = [
    (re.compile(r"length of values doesn't match"), "resolver-length-mismatch"),
    (re.compile(r"field \S+ not found in object"), "resolver-path-not-found"),
    (re.compile(r"is required but has no value"), "required-no-value"),
    (re.compile(r"expected array or object"), "resolver-path-not-composite"),
]


def err_class(msg):
    for rx, name in ERR_CLASSES:
        if rx.search(msg or ""):
            return name
    return "other"


def first_error_message(raw):
    try:
        return json.loads(raw)["errors"][0]["message"]
    except Exception:
        return ""


def roots_of(op):
    out = []

    def rec(sel):
        for s in sel:
            if s["k"] == "f":
                out.append(s["name"])
            else:
                rec(s["sel"])
    rec(op["sel"])
    return ",".join(sorted(set(out)))


# ---------------------------------------------------------------------------------------------- probes

ENT_REPS_P = [{"__typename": "Product", "id": "p1"}, {"__typename": "Product", "id": "p2"}]
ENT_FED_P = [{"type": "Product", "field": "", "sel": "id"}]


def probes():
    """hand-written operations that pin known findings (same driver, same TLC relations).  Every one is a VALID operation
    (gqlparser accepts it) in the form the planner hands over (no un-normalized constructs)."""
    ent = lambda sel, alias="": F("_entities", sel, alias=alias, args=[A("representations", "[_Any!]!", ENT_REPS_P, "representations")])
    return [
        # (tag, lane, base op, variant op or None)
        ("repeated-enum-argument", "raw",
         OP([F("categoriesByKinds", [F("id"), F("kind")], args=[A("kinds", "[CategoryKind!]!", ["BOOK", "FURNITURE"])])]), None),
        ("entities-typename-outside-fragment", "raw",
         OP([ent([F("__typename"), I("Product", [F("__typename"), F("id")])])], fed=ENT_FED_P), None),
        ("entities-alias", "raw",
         OP([ent([I("Product", [F("__typename"), F("id")])])], fed=ENT_FED_P),
         OP([ent([I("Product", [F("__typename"), F("id")])], alias="e")], fed=ENT_FED_P)),
        ("entities-implicit-typename", "raw",
         OP([ent([I("Product", [F("__typename"), F("id")])])], fed=ENT_FED_P),
         OP([ent([I("Product", [F("id")])])], fed=ENT_FED_P)),
    ]


def note_probes():
    """NOT verdict cases.  Valid GraphQL, but in a form the datasource is never driven with: the engine's planner
    normalizes the upstream operation (graphql_datasource.printOperation: fragment spreads inlined, fragments on the
    enclosing type flattened, same-key selections merged; minification - which would introduce named fragments - is
    disabled for gRPC).  The same operations are answered correctly in the norm lane.  What the datasource does with the
    raw text is only recorded as a note in the evidence file."""
    return [
        ("unnormalized-same-key-duplicate", "raw",
         OP([F("nestedType", [F("b", [F("id"), F("name")])])]),
         OP([F("nestedType", [F("b", [F("id")]), F("b", [F("name")])])])),
        ("unnormalized-fragment-on-object-type", "raw",
         OP([F("users", [F("id"), F("name")])]),
         OP([F("users", [I("User", [F("id")]), F("name")])])),
        ("unnormalized-same-type-fragments-in-resolver-selection", "raw",
         OP([F("categories", [F("id"), F("mascot", [I("Cat", [F("name"), F("meowVolume")]), I("Dog", [F("name")])],
                                        args=[A("includeVolume", "Boolean!", True)])])]),
         OP([F("categories", [F("id"), F("mascot", [I("Cat", [F("name")]), I("Cat", [F("meowVolume")]), I("Dog", [F("name")])],
                                        args=[A("includeVolume", "Boolean!", True)])])])),
        ("unnormalized-named-fragment", "raw",
         OP([F("users", [F("id"), F("name")])]),
         OP([F("users", [S("User", [F("id")]), F("name")])])),
    ]


# ---------------------------------------------------------------------------------------------- pipeline


def sync_schema(ctx):
    sdl_file = c20_schema.sdl_path(lib.REPO)
    with open(sdl_file) as f:
        sdl = f.read()
    want = c20_schema.generate(sdl)
    with open(os.path.join(lib.SPEC, CORE, "GQLShapeProducts.tla")) as f:
        have = f.read()
    if want != have:
        raise lib.Inconclusive("spec/core/GQLShapeProducts.tla is out of date w.r.t. %s — rerun checks/c20_schema.py" % sdl_file)
    return sdl_file, Schema(sdl)


def group_records(recs):
    groups = collections.OrderedDict()
    for r in recs:
        g = op_sha(r["base"])
        groups.setdefault(g, {"base": r["base"], "vars": collections.OrderedDict()})
        groups[g]["vars"].setdefault(op_sha(r["op"]), r)
    return groups


def choose(groups, rng, max_groups, max_vars):
    keys = list(groups.keys())
    rng.shuffle(keys)
    keys = keys[:max_groups]
    out = collections.OrderedDict()
    for k in keys:
        vs = list(groups[k]["vars"].values())
        rng.shuffle(vs)
        # prefer variety of last steps
        seen, pick, rest = set(), [], []
        for v in vs:
            a = v["steps"][-1]["a"]
            (pick if a not in seen else rest).append(v)
            seen.add(a)
        out[k] = {"base": groups[k]["base"], "vars": (pick + rest)[:max_vars]}
    return out


def cases_of(groups, seed, prefix):
    cases = []
    for g, v in groups.items():
        for lane in ("raw", "norm"):
            cases.append({"id": "%s%s-%s-b" % (prefix, g, lane), "group": prefix + g, "role": "base" if lane == "raw" else "xbase",
                          "lane": lane, "seed": seed, "op": v["base"], "steps": []})
            for i, r in enumerate(v["vars"]):
                if lane == "raw" and r["normOnly"]:
                    continue
                cases.append({"id": "%s%s-%s-%d" % (prefix, g, lane, i), "group": prefix + g, "role": "variant", "lane": lane,
                              "seed": seed, "op": r["op"], "steps": r["steps"]})
    return cases


def preorder(schema, op):
    """fields of the operation in document order with (is resolver, is an identical same-key copy of an earlier sibling)"""
    out = []

    def rec(sel, tn, seen):
        for s in sel:
            if s["k"] == "f":
                k = (s["alias"] or s["name"], json.dumps(s["args"], sort_keys=True))
                out.append((schema.is_resolver(tn, s["name"]), k in seen))
                seen.add(k)
                nt = schema.named(tn, s["name"]) if s["name"] != "__typename" else None
                if nt and s["sel"]:
                    rec(s["sel"], nt, set())
            else:
                rec(s["sel"], s["on"], seen)
    rec(op["sel"], "Mutation" if op["kind"] == "mutation" else "Query", set())
    return out


def dup_before_resolver(schema, rec):
    """class "a duplicated plain field EARLIER corrupts a field resolver visited LATER": the reformulated operation has an
    identical same-key copy of a non-resolver field (raw lane) and a field resolver after it in document order"""
    if rec["normOnly"]:
        return False
    po = preorder(schema, rec["op"])
    first = next((i for i, (r, d) in enumerate(po) if d and not r), None)
    return first is not None and any(r for r, _ in po[first + 1:])


def choose_res(schema, groups, rng, cap_interesting, cap_other):
    """from the exhaustive users/categories orbit set: the pairs of the class above first"""
    ii, oo = [], []
    for g, v in groups.items():
        for r in v["vars"].values():
            (ii if dup_before_resolver(schema, r) else oo).append((g, r))
    rng.shuffle(ii)
    rng.shuffle(oo)
    out = collections.OrderedDict()
    for g, r in ii[:cap_interesting] + oo[:cap_other]:
        out.setdefault(g, {"base": groups[g]["base"], "vars": []})["vars"].append(r)
    return out, len(ii), len(oo)


def abstract_below_resolver_without_fragment(schema, op):
    """class: an interface / union field nested in the response message of a field resolver (or @requires field) and
    selected ONLY through fields of the abstract type itself (no inline fragment)"""
    for s, tn, f in walk(schema, op):
        if f["in_resolver"] and s["k"] == "f" and s["sel"] and s["name"] != "__typename":
            nt = schema.named(tn, s["name"])
            if nt and schema.is_abstract(nt) and all(x["k"] == "f" for x in s["sel"]):
                return True
    return False


def with_dv(groups, dv):
    """the same operations asked against a data variant of the service (driver: variantService, spec: GQLShapeData)"""
    out = collections.OrderedDict()
    for g, v in groups.items():
        base = dict(v["base"], dv=dv)
        vs = [dict(r, op=dict(r["op"], dv=dv), base=base) for r in v["vars"]] if isinstance(v["vars"], list) else \
             [dict(r, op=dict(r["op"], dv=dv), base=base) for r in v["vars"].values()]
        out[op_sha(base)] = {"base": base, "vars": vs}
    return out


def choose_first(groups, pred, rng, max_groups, max_vars):
    """choose(): groups whose base satisfies pred first"""
    yes = collections.OrderedDict((g, v) for g, v in groups.items() if pred(v["base"]))
    no = collections.OrderedDict((g, v) for g, v in groups.items() if g not in yes)
    out = choose(yes, rng, max_groups, max_vars)
    if len(out) < max_groups:
        out.update(choose(no, rng, max_groups - len(out), max_vars))
    return out, len(yes)


def reuse_cases(schema, groups, rng, seed, max_groups, max_vars):
    """reuse lane: ONE planned datasource per group is loaded with the variables of base, v1, base, v2, ... (v = the same
    operation with other argument values, TLC action Revalue); each reuse answer is paired with the answer of a freshly
    planned datasource for the same variables (trace: fresh = base line, reuse = variant line of the identical
    operation, so ShapeInv holds for it and ConsistentInv demands equality at every position)."""
    keys = [g for g, v in groups.items() if v["base"]["kind"] == "query"]
    rng.shuffle(keys)
    # operations with a chain of field resolvers first (a skipped middle call is what leaks state)
    keys.sort(key=lambda g: 0 if "nested-resolver" in op_features(schema, groups[g]["base"]) else 1)
    cases = []
    for g in keys[:max_groups]:
        base = groups[g]["base"]
        vs = [r["op"] for r in groups[g]["vars"].values()]
        rng.shuffle(vs)
        seq = []
        for v in vs[:max_vars]:
            seq += [base, v]
        seq.append(base)
        for k, o in enumerate(seq):
            cases.append({"id": "r%s-%d-f" % (g, k), "group": "r" + g, "role": "base", "lane": "raw", "seed": seed, "op": o, "steps": [],
                          "rgroup": "r" + g, "ownvars": True})
            cases.append({"id": "r%s-%d-r" % (g, k), "group": "r" + g, "role": "variant", "lane": "reuse", "seed": seed, "op": o,
                          "plan": "r" + g, "rgroup": "r" + g, "ownvars": True, "steps": [{"a": "Reuse", "p": [], "i": k}]})
    return cases


def probe_cases(seed, plist=None):
    cases = []
    for tag, lane, base, var in (plist if plist is not None else probes()):
        cases.append({"id": "probe-%s-b" % tag, "group": "probe-" + tag, "role": "base", "lane": lane, "seed": seed, "op": base,
                      "steps": [], "probe": tag})
        if var is not None:
            cases.append({"id": "probe-%s-v" % tag, "group": "probe-" + tag, "role": "variant", "lane": lane, "seed": seed, "op": var,
                          "steps": [], "probe": tag})
    return cases


class Store:
    """random access to the lines of an NDJSON file by id (lines start with {"id":"..."); nothing is kept in memory
    but the offsets"""

    def __init__(self, path):
        self.path = path
        self.off = {}

    def add(self, ident, offset):
        self.off[ident] = offset

    def get(self, ident):
        if ident not in self.off:
            return None
        with open(self.path, "rb") as f:
            f.seek(self.off[ident])
            return json.loads(f.readline())

    def lines(self):
        with open(self.path, "rb") as f:
            while True:
                off = f.tell()
                line = f.readline()
                if not line:
                    return
                if line.strip():
                    yield off, line


def replay_obj(case, o, base_case=None, base_obs=None, extra=None):
    r = {"case": {k: case.get(k) for k in ("id", "lane", "role", "seed", "op", "steps", "probe", "plan", "group", "rgroup", "ownvars")},
         "text": o.get("text"), "sent": o.get("sent"), "vars": o.get("vars"), "stage": o.get("stage"),
         "err": (o.get("err") or "")[:400], "observed": o.get("raw")}
    if base_case is not None:
        r["base_case"] = {k: base_case.get(k) for k in ("id", "lane", "role", "seed", "op", "steps", "probe", "plan", "group", "rgroup", "ownvars")}
        r["base_text"] = base_obs.get("text")
        r["base_observed"] = base_obs.get("raw")
    if extra:
        r.update(extra)
    return r


CHUNK = 12000


class Batch:
    """one run of the pipeline steps 3-5 over a stream of cases (constant memory)"""

    def __init__(self, ctx, schema, binary, sdl_file, name, notes_only=False):
        self.ctx, self.schema, self.binary, self.sdl_file, self.name = ctx, schema, binary, sdl_file, name
        self.notes_only = notes_only  # observations are recorded as notes, never as a verdict
        self.cases = Store(ctx.path(name + ".cases.ndjson"))
        self.obs = Store(ctx.path(name + ".obs.ndjson"))
        self.n = 0
        self.stages = collections.Counter()
        self.steps_hist = collections.Counter()
        self.distinct = set()
        self.nontriv = set()
        self.samples = []
        self.accepted = 0
        self.bad = 0
        self.plan_ids = {}   # reuse lane: group -> ids of all its cases in execution order

    def write_cases(self, cases):
        with open(self.cases.path, "wb") as f:
            for c in cases:
                self.cases.add(c["id"], f.tell())
                if c.get("rgroup"):
                    self.plan_ids.setdefault(c["rgroup"], []).append(c["id"])
                f.write(json.dumps(c, separators=(",", ":")).encode() + b"\n")
                self.n += 1
                h = lib.sha([c["op"], c["lane"]])
                self.distinct.add(h)
                if c["role"] == "variant" and nontrivial(c["op"]):
                    self.nontriv.add(h)
                for st in c.get("steps") or []:
                    self.steps_hist[st["a"]] += 1

    def run(self):
        ctx = self.ctx
        ctx.run_bin(self.binary, ["-in", self.cases.path, "-out", self.obs.path, "-sdl", self.sdl_file], timeout=6000)
        # ---- stream the observations: no-oracle checks, trace rows cut into batches at group boundaries
        base_ok = {}   # (group, lane of the base line) -> did the last base line of that lane produce JSON?
        chunks = []
        cur = None
        cur_n = 0
        nobs = 0
        for off, line in self.obs.lines():
            o = json.loads(line)
            nobs += 1
            self.obs.add(o["id"], off)
            self.stages[o["stage"]] += 1
            gl = (o["group"], "raw" if o["lane"] == "reuse" else o["lane"])
            if o["role"] in ("base", "xbase"):
                base_ok[gl] = o["stage"] == "ok"
            if o["stage"] != "ok":
                self.go_side(self.cases.get(o["id"]), o)
                continue
            if not base_ok.get(gl, False):
                continue   # its base failed before producing JSON (reported above): nothing to compare with
            role = o["role"]
            if role == "xbase" and not base_ok.get((o["group"], "raw"), False):
                role = "base"
            if cur is None or (role == "base" and cur_n >= CHUNK):
                if cur is not None:
                    cur.close()
                path = ctx.path("%s-%d.trace.ndjson" % (self.name, len(chunks)))
                chunks.append([path, 0])
                cur = open(path, "w")
                cur_n = 0
            cur.write(json.dumps({"id": o["id"], "role": role, "op": o["op"], "resp": o["resp"]}, separators=(",", ":")) + "\n")
            cur_n += 1
            chunks[-1][1] = cur_n
            if role == "variant" and len(self.samples) < 4:
                self.samples.append({"id": o["id"], "lane": o["lane"], "operation": o["text"], "sent": o["sent"], "answer": (o["raw"] or "")[:500]})
        if cur is not None:
            cur.close()
        if nobs != self.n:
            raise lib.Inconclusive("driver returned %d observations for %d cases" % (nobs, self.n))
        # ---- TLC validation, one run per batch
        for ci, (path, nrows) in enumerate(chunks):
            ok, bad = self.validate_chunk(path, nrows, "%s-%d" % (self.name, ci))
            self.accepted += ok
            self.bad += bad

    def go_side(self, c, o):
        """observations that need no oracle"""
        ctx, schema = self.ctx, self.schema
        if self.notes_only:
            if o["stage"] != "invalid":
                ctx.notes.append("note (no verdict) %s: %s %s for %s" % (c.get("probe"), o["stage"], o["err"][:120], o["text"][:200]))
                return
        if o["stage"] == "reuse-text-differs":
            raise lib.Inconclusive("reuse lane: the operations of one plan group do not print to the same text: %s" % o["text"][:300])
        if o["stage"] == "invalid":
            raise lib.Inconclusive("generator produced an operation gqlparser rejects (%s): %s" % (o["err"][:200], o["text"][:300]))
        if o["stage"] == "panic":
            # protobuf-go deliberately varies "proto: " / "proto:\u00a0" between binaries
            msg = re.sub(r"0x[0-9a-f]+", "0x?", o["err"].splitlines()[0].replace("\u00a0", " "))[:120]
            feats = op_features(schema, c["op"])
            cx = next((k for k in FEATURE_PRIORITY if k in feats), "plain")
            key = "probe:%s:panic" % c["probe"] if c.get("probe") else "panic:%s:%s:%s" % (msg, cx, roots_of(c["op"]))
            ctx.violation(key, "panic in the gRPC datasource (%s) for operation %s" % (msg, o["text"][:300]), replay_obj(c, o))
            return
        # parse / normalize / plan / load error for an operation over covered fields
        feats = op_features(schema, c["op"])
        cx = next((k for k in FEATURE_PRIORITY if k in feats), "plain")
        key = ("probe:%s:%s" % (c["probe"], o["stage"])) if c.get("probe") else "%s:%s-error:%s" % (cx, o["stage"], roots_of(c["op"]))
        ctx.violation(key, "%s failed for a valid operation over mapped fields: %s — operation %s (lane %s)" % (
            o["stage"], o["err"][:200], o["text"][:300], c["lane"]), replay_obj(c, o))

    def validate_chunk(self, tp, nrows, name):
        ctx, schema = self.ctx, self.schema
        r = ctx.tlc(CORE, "Trace_C20", "Trace_C20.cfg", workers=1, env={"TRACE": tp}, timeout=3000, deadlock=False,
                    count=False, tag="trace-validation-" + name, heap="6g")
        if r.ok:
            return nrows, 0
        if not r.violated and "TRACE_STUCK_AT_LINE" not in r.out:
            print(r.out[-3000:])
            raise lib.Inconclusive("trace validation failed in an unexpected way: %s" % r.error)
        ctx.log("strict trace validation rejected (%s); enumerating every failing observation" % (r.violated or "stuck"))
        r.out = ""
        d = ctx.tlc(CORE, "Trace_C20", "Trace_C20_diag.cfg", workers=1, env={"TRACE": tp}, timeout=3000, deadlock=False,
                    count=False, tag="trace-diagnosis-" + name, heap="6g")
        if not d.ok:
            print(d.out[-3000:])
            raise lib.Inconclusive("diagnostic trace run failed: %s" % d.error)
        if not d.printed:
            raise lib.Inconclusive("strict run rejected the trace but the diagnostic run found no failing observation")
        bad = 0
        for rec in d.printed:
            bad += 1
            c = self.cases.get(rec["id"])
            o = self.obs.get(rec["id"])
            bc = self.cases.get(rec["against"]) if rec["against"] else None
            bo = self.obs.get(rec["against"]) if rec["against"] else None
            seen = set()
            for rel in ("shape", "self", "agree", "data"):
                for e in rec[rel]:
                    if c.get("probe"):
                        key = "probe:%s:%s:%s" % (c["probe"], rel, e["why"])
                    elif e["why"] == "error-response":
                        key = "%s:error-response:%s:%s" % (err_context(schema, c["op"], e), err_class(first_error_message(o["raw"])), roots_of(c["op"]))
                    else:
                        ctxs = {err_context(schema, c["op"], e)}
                        if rel == "agree" and bc is not None:
                            ctxs.add(err_context(schema, bc["op"], e))
                        ctxs.discard("plain")
                        cx = sorted(ctxs)[0] if ctxs else "plain"
                        key = "%s:%s:%s:%s.%s" % (cx, rel, e["why"], e["c"][1], e["c"][2])
                    if key in seen:
                        continue
                    seen.add(key)
                    if self.notes_only:
                        ctx.notes.append("note (no verdict) %s: raw lane, %s %s at %s.%s for %s -> %s" % (
                            c.get("probe"), rel, e["why"], e["c"][1], e["c"][2], o["text"][:200], (o["raw"] or "")[:200]))
                        continue
                    what = "%s: %s at %s.%s (root field %s) — lane %s, steps %s; operation: %s; answer: %s" % (
                        {"shape": "answer does not have the shape of the selection", "self": "one position selected twice carries two values",
                         "agree": "a position common to base and reformulation changed its value",
                         "data": "a position does not carry the value the service data prescribes (GQLShapeData)"}[rel],
                        e["why"], e["c"][1], e["c"][2], e["c"][0], c["lane"], json.dumps([st["a"] for st in c.get("steps") or []]),
                        o["text"][:300], (o["raw"] or "")[:300])
                    if rel == "agree" and bo is not None:
                        what += "; base operation: %s; base answer: %s" % (bo["text"][:300], (bo["raw"] or "")[:300])
                    extra = {"relation": rel, "error": e}
                    if c.get("plan"):
                        # the answer depends on what the shared datasource was asked before: keep the whole sequence
                        extra["history"] = [self.cases.get(i) for i in self.plan_ids.get(c["plan"], []) if True]
                        extra["history"] = extra["history"][:1 + next((k for k, h in enumerate(extra["history"]) if h["id"] == c["id"]), len(extra["history"]))]
                    ctx.violation(key, what, replay_obj(c, o, bc if rel == "agree" else None, bo if rel == "agree" else None, extra))
        return nrows - bad, bad


def nontrivial(op):
    def depth(sel):
        return 0 if not sel else 1 + max(depth(s["sel"]) for s in sel)
    return depth(op["sel"]) >= 2


def do_replay(ctx, binary, sdl_file, schema):
    with open(ctx.replay_in) as f:
        rp = json.load(f)
    case = rp["case"]
    cases = []
    if case.get("history"):
        cases = [dict(h) for h in case["history"]]
        b = Batch(ctx, schema, binary, sdl_file, "replay")
        b.write_cases(cases)
        b.run()
        for x in cases:
            o = b.obs.get(x["id"])
            ctx.log("replayed %s lane=%s stage=%s\n    operation: %s\n    variables: %s\n    answer:    %s %s" % (
                o["id"], o["lane"], o["stage"], o["text"], json.dumps(o["vars"]), o["raw"], o["err"][:300]))
        ctx.coverage.update({"traces_validated_against_impl": b.accepted, "evaluations": len(cases), "distinct_nontrivial": 0,
                             "rule": "replay of one stored reuse-lane sequence", "samples": [], "exhaustive": False})
        return
    if case.get("base_case"):
        b = dict(case["base_case"])
        b["role"] = "base"
        cases.append(b)
    c = dict(case["case"])
    c["role"] = "variant" if cases else "base"
    cases.append(c)
    for x in cases:
        x["group"] = "replay"
        x["steps"] = x.get("steps") or []
    b = Batch(ctx, schema, binary, sdl_file, "replay")
    b.write_cases(cases)
    b.run()
    for x in cases:
        o = b.obs.get(x["id"])
        ctx.log("replayed %s lane=%s stage=%s\n    operation: %s\n    answer:    %s %s" % (o["id"], o["lane"], o["stage"], o["text"], o["raw"], o["err"][:300]))
    ctx.coverage.update({"traces_validated_against_impl": b.accepted, "evaluations": len(cases), "distinct_nontrivial": 0,
                         "rule": "replay of one stored case", "samples": [], "exhaustive": False})


def own_findings(ctx):
    """findings.d/C20.json is this check's fragment of known-findings.json; entries the coordinator has not merged yet
    are honoured as well (same matching rules, nothing is written)."""
    known = ctx.known()
    have = {(k.get("property"), k.get("key")) for k in known}
    try:
        # VERIF_C20_FINDINGS: another fragment (findings.d/C20.json.after-fix when checking a tree with the fixes applied)
        with open(os.environ.get("VERIF_C20_FINDINGS") or os.path.join(lib.VERIF, "findings.d", "C20.json")) as f:
            for k in json.load(f):
                if (k.get("property"), k.get("key")) not in have:
                    known.append(k)
    except FileNotFoundError:
        pass


def run(ctx):
    own_findings(ctx)
    rng = random.Random(ctx.seed)
    quick = ctx.quick()
    sdl_file, schema = sync_schema(ctx)
    binary = ctx.build("grpc")
    # run a private copy: the shared .build-<hash> directories are removed by other agents' clean-ups while a check runs
    private = ctx.path("grpc-driver")
    shutil.copy2(binary, private)
    binary = private
    if ctx.replay_in:
        return do_replay(ctx, binary, sdl_file, schema)
    # ---- 1. model checking ------------------------------------------------------------------------------------
    ctx.tlc_must_pass(CORE, "Gen_C20", "MC_C20.cfg" if quick else "MC_C20_thorough.cfg", timeout=1500, deadlock=False, workers=8, tag="mc-reformulations-preserve-meaning")
    if not quick:
        ctx.tlc_must_pass(CORE, "Gen_C20", "MC_C20_b.cfg", timeout=1500, deadlock=False, workers=8, tag="mc-reformulations-preserve-meaning-lists-unions")
    for m in (NEG_MUTS[:2] if quick else NEG_MUTS):
        r = ctx.tlc(CORE, "Gen_C20", "MC_C20_neg_%s.cfg" % m, timeout=600, deadlock=False, workers=4, count=False, tag="mc-negative-" + m)
        if r.violated != "RefOK":
            raise lib.Inconclusive("sanity: the broken reference executor %r should violate RefOK in the model, got %r" % (m, r.error))
    # ---- 2. generation ----------------------------------------------------------------------------------------
    g1 = ctx.tlc_must_pass(CORE, "Gen_C20", "Gen_C20_bfs.cfg" if quick else "Gen_C20_bfs_thorough.cfg", timeout=1500, deadlock=False, workers=8, tag="gen-bfs")
    bfs_groups = group_records(g1.printed)
    nsim = 500 if quick else 5000
    g2 = ctx.tlc_must_pass(CORE, "Gen_C20", "Gen_C20_sim.cfg", timeout=2400, deadlock=False, workers=1, simulate=nsim, depth=30,
                           seed=ctx.seed, tag="gen-simulate")
    recs2 = g2.printed
    sim_groups = group_records([r for r in recs2 if r["steps"][0]["a"] != "Revalue"])
    reuse_groups = group_records([r for r in recs2 if r["steps"][0]["a"] == "Revalue"])
    # targeted exhaustive sets: (3) duplicates before field resolvers, (4) argument re-valuations over resolver chains
    g3 = ctx.tlc_must_pass(CORE, "Gen_C20", "Gen_C20_res.cfg", timeout=1500, deadlock=False, workers=8, tag="gen-bfs-duplicate-before-resolver")
    res_groups = group_records(g3.printed)
    g4 = ctx.tlc_must_pass(CORE, "Gen_C20", "Gen_C20_reuse.cfg", timeout=1500, deadlock=False, workers=8, tag="gen-bfs-revalue")
    for g, v in group_records(g4.printed).items():
        reuse_groups.setdefault(g, v)["vars"].update(v["vars"])
    # exhaustive set over the roots of the data universe (GQLShapeData): every selection of <= 3 fields, one reformulation each
    g5 = ctx.tlc_must_pass(CORE, "Gen_C20", "Gen_C20_data.cfg", timeout=1500, deadlock=False, workers=8, tag="gen-bfs-data-universe-roots")
    data_groups = group_records(g5.printed)
    data_sel = choose(data_groups, rng, 250 if quick else 10 ** 9, 1 if quick else 2)
    # (5) abstract fields below field resolvers with / without fragments; (6) nested lists with null inner lists and
    # (7) default-valued resolver context fields: data variant v1 of the service
    g6 = ctx.tlc_must_pass(CORE, "Gen_C20", "Gen_C20_abs.cfg", timeout=1500, deadlock=False, workers=8, tag="gen-bfs-abstract-below-resolver")
    abs_sel, n_abs = choose_first(group_records(g6.printed), lambda o: abstract_below_resolver_without_fragment(schema, o), rng,
                                  110 if quick else 10 ** 9, 2)
    g7 = ctx.tlc_must_pass(CORE, "Gen_C20", "Gen_C20_nl.cfg", timeout=1500, deadlock=False, workers=8, tag="gen-bfs-nested-lists-null-inner")
    nl_sel = with_dv(choose(group_records(g7.printed), rng, 60 if quick else 10 ** 9, 2), "v1")
    g8 = ctx.tlc_must_pass(CORE, "Gen_C20", "Gen_C20_ctx.cfg", timeout=1500, deadlock=False, workers=8, tag="gen-bfs-resolver-context")
    ctx_groups = group_records(g8.printed)
    has_res = lambda o: any(f["is_resolver"] for _, _, f in walk(schema, o))
    ctx_v1, n_ctx = choose_first(ctx_groups, has_res, rng, 100 if quick else 10 ** 9, 2)
    ctx_v1 = with_dv(ctx_v1, "v1")
    ctx_st, _ = choose_first(ctx_groups, has_res, rng, 40 if quick else 1500, 1)
    ctx.log("classes 5-7: abstract-below-resolver %d bases w/o fragment, chosen %d groups; nested-list variant %d groups; resolver-context %d bases with resolvers, chosen %d (v1) + %d (stock)" % (
        n_abs, len(abs_sel), len(nl_sel), n_ctx, len(ctx_v1), len(ctx_st)))
    g6.printed = g7.printed = g8.printed = None
    del ctx_groups
    res_sel, n_int, n_oth = choose_res(schema, res_groups, rng, 400 if quick else 10 ** 9, 100 if quick else 3000)
    rcases = reuse_cases(schema, reuse_groups, rng, ctx.seed, 100 if quick else 1500, 3)
    ctx.log("targeted: duplicate-before-resolver %d pairs (+%d other) of the users/categories orbit set, chosen %d; reuse lane %d groups, %d loads" % (
        n_int, n_oth, sum(len(v["vars"]) for v in res_sel.values()), len({c["group"] for c in rcases}), len(rcases) // 2))
    if quick:
        bfs_sel = choose(bfs_groups, rng, 250, 6)
        sim_sel = choose(sim_groups, rng, 10 ** 9, 10 ** 9)
    else:
        bfs_sel = choose(bfs_groups, rng, 10 ** 9, 3)
        sim_sel = choose(sim_groups, rng, 10 ** 9, 10 ** 9)
    ctx.log("generated: bfs %d bases / %d pairs (chosen %d / %d); simulate %d bases / %d pairs (chosen %d / %d)" % (
        len(bfs_groups), sum(len(v["vars"]) for v in bfs_groups.values()), len(bfs_sel), sum(len(v["vars"]) for v in bfs_sel.values()),
        len(sim_groups), sum(len(v["vars"]) for v in sim_groups.values()), len(sim_sel), sum(len(v["vars"]) for v in sim_sel.values())))
    ctx.log("data-universe roots: %d bases, chosen %d" % (len(data_groups), len(data_sel)))
    g1.printed = g2.printed = g3.printed = g4.printed = g5.printed = None
    del bfs_groups, sim_groups, res_groups, reuse_groups, recs2, data_groups
    # ---- 3./4./5. replay on the real datasource, no-oracle checks, TLC validation --------------------------------
    gen = Batch(ctx, schema, binary, sdl_file, "gen")
    gen.write_cases(cases_of(bfs_sel, ctx.seed, "b") + cases_of(sim_sel, ctx.seed, "s") + cases_of(res_sel, ctx.seed, "d") + cases_of(data_sel, ctx.seed, "v")
                    + cases_of(abs_sel, ctx.seed, "a") + cases_of(nl_sel, ctx.seed, "n") + cases_of(ctx_v1, ctx.seed, "c") + cases_of(ctx_st, ctx.seed, "k") + rcases)
    del abs_sel, nl_sel, ctx_v1, ctx_st
    del bfs_sel, sim_sel, res_sel, data_sel, rcases
    gen.run()
    pr = Batch(ctx, schema, binary, sdl_file, "probes")
    pr.write_cases(probe_cases(ctx.seed))
    pr.run()
    nt = Batch(ctx, schema, binary, sdl_file, "notes", notes_only=True)
    nt.write_cases(probe_cases(ctx.seed, note_probes()))
    nt.run()
    ctx.log("driver stages: %s; probes: %s" % (dict(gen.stages), dict(pr.stages)))
    ctx.log("trace validation: %d observations accepted, %d with errors; probes %d/%d" % (gen.accepted, gen.bad, pr.accepted, pr.bad))
    ok, bad, pok, pbad = gen.accepted, gen.bad, pr.accepted, pr.bad
    ncases, npcases = gen.n, pr.n
    nontriv, distinct, steps_hist, stages, samples = gen.nontriv, gen.distinct, gen.steps_hist, gen.stages, gen.samples
    ctx.coverage.update({
        "traces_validated_against_impl": ok + pok,
        "evaluations": ncases + npcases,
        "distinct_nontrivial": len(nontriv),
        "distinct_operations_executed": len(distinct),
        "observations_with_errors": bad + pbad,
        "rule": "one case = one TLC-generated operation (base or <=3-step reformulation) executed by the real gRPC datasource in one "
                "lane (raw / normalized); distinct by hash of (operation, lane); non-trivial = reformulated operations with nesting depth >= 2",
        "reformulation_steps": dict(steps_hist),
        "driver_stages": dict(stages),
        "samples": samples,
        "invariants_on_traces": ["ShapeInv", "SelfInv", "ConsistentInv", "ValueInv"],
        "exhaustive": False,
        "exhaustive_part": "Gen_C20_bfs%s.cfg: every operation within the bounds and its complete 1-step orbit%s" % (
            "" if quick else "_thorough", " (sampled in the quick tier)" if quick else ""),
    })
    ctx.assumptions += [
        "grpctest.MockService is the service; its data is deterministic except for the coordinates listed in c20_schema.NONDET (math/rand), which are compared by shape only",
        "argument values come from fixed pools (c20_schema.ARG_POOLS) and are always passed as variables, as the engine's planner does",
        "lane 'norm' applies astnormalization exactly as graphql_datasource.printOperation does before it builds the gRPC datasource; "
        "named fragments, root-level fragments, fragments on the enclosing object type and same-key duplicates are only checked in that lane",
        "reuse lane: one planned datasource answers a sequence of variable sets (base, v1, base, v2, ...); every answer must agree at every position with the answer of a freshly planned datasource (history independence); queries only",
        "data variant v1 (driver variantService: categories with an empty name in the middle, a blog post with null inner lists) is service data the stock mock never returns; its universe is GQLShapeData!CategoriesV1 / BlogPostV1",
        "entity fetches follow the federation contract (one fragment per representation type, each selecting __typename)",
        "response key order is not part of the shape (keys are compared as a set, duplicates forbidden)",
    ]
