"""C02 — Rendered response is well-formed and type-safe whatever subgraphs return.

Pipeline (design.d/C02.md):
  1. TLC model-checks spec/resolve/Render.tla through the generator spec Gen_Render: for every generated
     (plan tree T, payload j) the reference completion Complete(T,j) satisfies the relation RenderOK and the
     three canonical wrong renderers are rejected (non-vacuity); a negative control must be violated.
  2. The same TLC runs print every state of the generator as one case (BFS = exhaustive to the depth bound,
     -simulate -seed VERIF_SEED for deeper trees).
  3. harness/cmd/render builds the real resolve.Object tree for each case and renders j through three entry
     points (Resolvable.Init+Resolve, Resolver.ResolveGraphQLResponse and ArenaResolveGraphQLResponse with a
     static data source); Go-side: no panic, no error, bytes are one strict JSON value without duplicate keys.
  4. TLC (Trace_Render) binds `out` from every recorded observation and evaluates the relation
     Verdict(T, j, out) of Render.tla on it; the failed conjuncts of every violating line are reported.
"""
import concurrent.futures
import json
import os
import random
import shutil

import lib

SPEC_DIR = os.environ.get("VERIF_C02_SPEC", "resolve")   # development copies: VERIF_C02_SPEC=<abs dir> VERIF_C02_CMD=<cmd>
CMD = os.environ.get("VERIF_C02_CMD", "render")
ENTRIES = ["resolvable", "resolver", "arena"]
KINDS = ["String", "Int", "Float", "Boolean", "Enum", "Scalar", "Other"]
MODEL_INVS = ["SpecSelfConsistent", "WellTypedExact", "RejectsNaive", "RejectsSilent", "RejectsTooFar"]
CONJUNCTS = ["WellFormed", "TypeSafe", "Keys", "Projection", "NullProp", "Reported"]
MAX_REPLAYS_PER_KEY = 3
BATCH = 20000


# ---------------------------------------------------------------------------------------------- helpers
def load_own_findings(ctx):
    """findings.d/C02.json is this check's fragment of known-findings.json (merged / swapped by the coordinator);
    honour it directly so that the check behaves the same before and after the merge. An entry of the fragment
    overrides the entry with the same key in known-findings.json (status fixed suppresses nothing).
    VERIF_C02_FINDINGS=<file> reads another fragment instead (used to try findings.d/C02.json.after-fix)."""
    path = os.environ.get("VERIF_C02_FINDINGS") or os.path.join(lib.VERIF, "findings.d", "C02.json")
    try:
        with open(path) as f:
            mine = [e for e in json.load(f) if e.get("property") == ctx.prop]
    except FileNotFoundError:
        mine = []
    keys = {e.get("key") for e in mine}
    known = [k for k in ctx.known() if not (k.get("property") == ctx.prop and k.get("key") in keys)]
    ctx._known = known + mine


def untag(v):
    t = v["t"]
    if t == "n":
        return None
    if t == "x":
        return "<absent>"
    if t in ("s", "b", "i"):
        return v["v"]
    if t in ("f", "g"):
        return "num(%s)" % v["v"]
    if t == "l":
        return [untag(x) for x in v["v"]]
    if t == "o":
        return {k: untag(x) for k, x in zip(v["k"], v["v"]) if x["t"] != "x"}
    return "?"


def raw_json(v):
    """tagged -> JSON text exactly as the harness feeds it to the renderer"""
    t = v["t"]
    if t == "n":
        return "null"
    if t in ("s", "b", "i"):
        return json.dumps(v["v"])
    if t in ("f", "g"):
        return v["v"]
    if t == "l":
        return "[" + ",".join(raw_json(x) for x in v["v"]) + "]"
    if t == "o":
        return "{" + ",".join(json.dumps(k) + ":" + raw_json(x) for k, x in zip(v["k"], v["v"]) if x["t"] != "x") + "}"
    return "?"


def show_type(T):
    n = "" if T["n"] else "!"
    if T["k"] == "Object":
        fs = []
        for f in T["fs"]:
            s = f["name"]
            if f["key"] != f["name"]:
                s += "<-" + f["key"]
            if f["on"]:
                s += " on " + "|".join(f["on"])
            if f.get("pon"):
                s += " parent-on " + "|".join(f["pon"][0]["names"])
            fs.append(s + ": " + show_type(f["v"]))
        return ("{" + ", ".join(fs) + "}" + ("<" + "|".join(T["pt"]) + ">" if len(T["pt"]) > 1 else "")) + n
    if T["k"] == "Array":
        return "[" + show_type(T["it"][0]) + "]" + n
    if T["k"] == "Scalar":
        return "ID" + n
    return T["k"] + n


def finding_key(c, w):
    """canonical signature of one failed conjunct: the conjunct + the class of the position it is about
    (w = [alias/]<node kind>:<found>[@item|@item-field], see Cls in Render.tla)"""
    base = w.split("@")[0]
    if c == "TypeSafe" and w == "Int:f":
        return "int-accepts-fraction"
    if c == "TypeSafe" and w == "Int:g":
        return "int-accepts-out-of-range"
    if c == "Reported" and w.startswith("alias/"):
        return "error-path-uses-upstream-alias"
    if c == "Reported" and base.startswith("Object:") and base not in ("Object:null", "Object:typename"):
        return "error-path-doubled:object-for-non-object-value"
    if c == "Reported" and base.startswith("Array:") and base != "Array:null":
        return "error-path-doubled:list-for-non-list-value"
    if c == "Reported" and w == "Enum:inaccessible@item-field":
        return "error-path-inaccessible-enum-field-of-list-item"
    return "%s:%s" % (c, w)


def dedupe(printed, into, min_depth=0):
    n = 0
    for o in printed:
        if not isinstance(o, dict) or "T" not in o or "j" not in o:
            continue
        if o.get("d", 0) < min_depth:
            continue
        h = lib.sha([o["T"], o["j"]])
        if h not in into:
            o["id"] = h
            into[h] = o
            n += 1
    return n


class Judge:
    """replays cases into the real code and has TLC judge the observations"""

    def __init__(self, ctx, binary):
        self.ctx = ctx
        self.binary = binary
        self.round = 0
        self.evaluations = 0
        self.validated = 0
        self.per_key = {}
        self.fail_cases = 0
        self.identical_entries = 0
        self.differing_entries = 0
        self.ext_subsets = set()
        self.compat_only = 0

    def report(self, key, what, case, obs, extra=None):
        n = self.per_key.get(key, 0)
        self.per_key[key] = n + 1
        if n >= MAX_REPLAYS_PER_KEY:
            return
        rep = {"T": case["T"], "j": case["j"], "type": show_type(case["T"]), "subgraph_data": raw_json(case["j"]),
               "entry": obs.get("entry"), "rendered": obs.get("raw"), "expected_by_spec": untag(case["exp"]) if case.get("exp") else None}
        if extra:
            rep.update(extra)
        self.ctx.violation(key, "%s; type %s, subgraph data %s, rendered %s" % (
            what, rep["type"], rep["subgraph_data"], (obs.get("raw") or "")[:300]), rep)

    def run(self, cases):
        """cases: dict id -> case. Returns number of cases with at least one failure (known or not)."""
        ctx = self.ctx
        self.round += 1
        tag = "r%d" % self.round
        cp = ctx.path("cases-%s.ndjson" % tag)
        op = ctx.path("obs-%s.ndjson" % tag)
        ids = sorted(cases)
        lib.write_ndjson(cp, [{"id": i, "T": cases[i]["T"], "j": cases[i]["j"]} for i in ids])
        extmod = 4 if ctx.quick() else 8   # 8 subsets of the sources that write `extensions` (entries x:<mask>) for every N-th case
        ctx.run_bin(self.binary, ["-in", cp, "-out", op, "-entries", ",".join(ENTRIES), "-extmod", str(extmod)], timeout=1800)
        lines = []  # (case id, obs) to be judged by TLC
        failing = set()
        nobs = 0
        with open(op) as f:
            cur = None
            group = []
            for line in f:
                o = json.loads(line)
                nobs += 1
                if cur is not None and o["id"] != cur:
                    self._group(cases[cur], group, lines, failing)
                    group = []
                cur = o["id"]
                group.append(o)
            if group:
                self._group(cases[cur], group, lines, failing)
        if nobs != len(ids) * len(ENTRIES) + 8 * ((len(ids) + extmod - 1) // extmod):
            raise lib.Inconclusive("harness returned %d observations for %d cases" % (nobs, len(ids)))
        self.evaluations += nobs
        # ---- TLC judges the observations, batch by batch
        batches = [lines[i:i + BATCH] for i in range(0, len(lines), BATCH)]
        paths = []
        for bi, b in enumerate(batches):
            tp = ctx.path("trace-%s-%d.ndjson" % (tag, bi))
            with open(tp, "w") as f:
                for cid, o in b:
                    c = cases[cid]
                    f.write(json.dumps({"id": cid + ":" + o["entry"], "T": c["T"], "j": c["j"], "out": o["out"]}, separators=(",", ":")))
                    f.write("\n")
            paths.append(tp)

        def one(tp):
            return ctx.tlc(SPEC_DIR, "Trace_Render", "Trace_Render_report.cfg", workers=1, env={"TRACE": tp}, timeout=1800,
                           deadlock=False, count=False, heap="6g", tag="trace-validation")

        with concurrent.futures.ThreadPoolExecutor(max_workers=3) as ex:
            results = list(ex.map(one, paths))
        for b, r in zip(batches, results):
            if not r.ok:
                print(r.out[-3000:])
                raise lib.Inconclusive("trace validation did not complete (%s) — machinery problem, not a verdict" % r.error)
            self.validated += len(b)
            seen = set()
            for rep in r.printed:
                if not isinstance(rep, dict) or "line" not in rep or rep["line"] in seen:
                    continue
                seen.add(rep["line"])
                cid, o = b[rep["line"] - 1]
                if rep["id"] != cid + ":" + o["entry"]:
                    raise lib.Inconclusive("trace validation report does not line up with the batch")
                failing.add(cid)
                for fl in rep["fails"]:
                    key = finding_key(fl["c"], fl["w"])
                    self.report(key, "relation RenderOK violated on the recorded output: conjunct %s fails (%s)" % (fl["c"], fl["w"]),
                                cases[cid], o, {"failed_conjuncts": rep["fails"]})
        self.fail_cases += len(failing)
        return len(failing)

    def _group(self, case, group, lines, failing):
        """Go-side verdicts that need no oracle + de-duplication of identical outputs of the entry points."""
        seen = set()
        for o in group:
            xmask = int(o["entry"][2:]) if o["entry"].startswith("x:") else None
            sfx = ":extensions" if xmask is not None else ""
            if o.get("panic"):
                failing.add(case["id"])
                self.report("panic:" + (o.get("site") or "unknown"), "the renderer panicked (%s in %s)" % (o["panic"], o.get("site")), case, o)
                continue
            if o.get("err"):
                if o["err"].startswith("harness:"):
                    raise lib.Inconclusive("harness could not drive case %s: %s" % (case["id"], o["err"]))
                failing.add(case["id"])
                self.report("resolve-error", "no response: Resolve returned an error (%s)" % o["err"], case, o)
                continue
            if not o["valid"]:
                failing.add(case["id"])
                self.report("invalid-json" + sfx, "the response is not one syntactically valid JSON value (%s)" % o.get("why"), case, o)
                continue
            if o["dup"]:
                failing.add(case["id"])
                self.report("duplicate-key" + sfx, "an object in the response has a duplicate key", case, o)
            out = o["out"]
            if xmask is not None:
                # every subset of the extension sources, also with the Apollo value-completion option: the document is
                # well-formed (above) and `extensions` holds exactly the switched-on sources, each once
                self.ext_subsets.add(xmask)
                top = dict(zip(out["k"], out["v"])) if out["t"] == "o" else {}
                ext = top.get("extensions")
                keys = sorted(ext["k"]) if ext is not None and ext["t"] == "o" else ([] if ext is None else None)
                want = sorted(k for bit, k in ((2, "authorization"), (4, "k"), (8, "rateLimit"), (16, "queryPlan"), (32, "trace")) if xmask & bit)
                if keys is None or [k for k in keys if k != "valueCompletion"] != want or ("valueCompletion" in keys and not xmask & 1):
                    failing.add(case["id"])
                    self.report("extensions-content", "extensions must hold exactly %s (+ valueCompletion with the option), got %s" % (want, keys), case, o)
                if xmask & 1:
                    self.compat_only += 1
                    continue  # Apollo-compat option: only well-formedness is demanded, the relation is for the standard mode
                if ext is not None:
                    i = out["k"].index("extensions")
                    out = {"t": "o", "k": out["k"][:i] + out["k"][i + 1:], "v": out["v"][:i] + out["v"][i + 1:]}
                    o = dict(o, out=out)
            key = json.dumps(out, separators=(",", ":"), sort_keys=True)
            if key in seen:
                self.identical_entries += 1
                continue  # same response (extensions aside) as another entry point's, which TLC judges
            if seen:
                self.differing_entries += 1
            seen.add(key)
            lines.append((case["id"], o))


def binding_selftest(ctx, judge_cases, binary):
    """The validator must reject a corrupted observation (strict mode: the relation as INVARIANTS)."""
    # pick a well-typed case with a String leaf under "a" and an offending one
    good = next((c for c in judge_cases.values() if not c["cls"] and c["d"] == 0 and c["T"]["fs"][0]["v"]["k"] == "String"), None)
    bad = next((c for c in judge_cases.values() if c["cls"] == ["String:null"] and c["d"] == 0 and not c["T"]["fs"][0]["v"]["n"]), None)
    if good is None or bad is None:
        raise lib.Inconclusive("binding self-test: no suitable cases")
    cp = ctx.path("bind-cases.ndjson")
    op = ctx.path("bind-obs.ndjson")
    lib.write_ndjson(cp, [{"id": c["id"], "T": c["T"], "j": c["j"]} for c in (good, bad)])
    ctx.run_bin(binary, ["-in", cp, "-out", op, "-entries", "resolvable"])
    obs = lib.read_ndjson(op)
    if len(obs) != 2 or not all(o.get("valid") for o in obs):
        return  # the main pass reports this

    def strict(rows, name):
        tp = ctx.path("bind-%s.ndjson" % name)
        lib.write_ndjson(tp, rows)
        return ctx.tlc(SPEC_DIR, "Trace_Render", "Trace_Render.cfg", workers=1, env={"TRACE": tp}, timeout=300, deadlock=False,
                       count=False, heap="2g", tag="binding-" + name)

    rows = [{"id": c["id"], "T": c["T"], "j": c["j"], "out": o["out"]} for c, o in zip((good, bad), obs)]
    r = strict(rows, "intact")
    if not r.ok:
        return  # genuine failure on an intact trace: reported by the main pass
    # corrupt one recorded field of the well-typed observation: data.a "s" -> "S"
    c1 = json.loads(json.dumps(rows))
    data = c1[0]["out"]["v"][c1[0]["out"]["k"].index("data")]
    data["v"][data["k"].index("a")] = {"t": "s", "v": "S"}
    r1 = strict(c1, "corrupt-value")
    # drop the recorded errors of the offending observation
    c2 = json.loads(json.dumps(rows))
    o2 = c2[1]["out"]
    if "errors" in o2["k"]:
        i = o2["k"].index("errors")
        del o2["k"][i]
        del o2["v"][i]
    r2 = strict(c2, "drop-errors")
    if r1.violated != "ProjectionInv" or r2.violated != "ReportedInv":
        raise lib.Inconclusive("binding self-test: the validator accepted a corrupted observation (%r, %r)" % (r1.violated or r1.error, r2.violated or r2.error))
    ctx.notes.append("binding self-test: corrupted leaf value rejected by ProjectionInv, dropped errors rejected by ReportedInv")


def replay_file(ctx, binary):
    with open(ctx.replay_in) as f:
        rep = json.load(f)
    c = rep["case"]
    case = {"T": c["T"], "j": c["j"], "cls": [], "d": -1}
    case["id"] = lib.sha([case["T"], case["j"]])
    j = Judge(ctx, binary)
    j.run({case["id"]: case})
    ctx.coverage.update({"traces_validated_against_impl": j.validated, "evaluations": j.evaluations, "distinct_nontrivial": 1,
                         "rule": "replay of one recorded case", "samples": [{"type": show_type(case["T"]), "subgraph_data": raw_json(case["j"])}],
                         "exhaustive": False})


# ---------------------------------------------------------------------------------------------- main
def run(ctx):
    load_own_findings(ctx)
    rng = random.Random(ctx.seed)
    binary = ctx.build(CMD)
    # private copy: other agents' mutant runs remove /verif/.build-* directories at any moment
    private = ctx.path("render-bin")
    shutil.copy2(binary, private)
    binary = private
    if ctx.replay_in:
        return replay_file(ctx, binary)
    quick = ctx.quick()
    # ---- 1. model check + 2. generate ----------------------------------------------------------
    r = ctx.tlc(SPEC_DIR, "Gen_Render", "MC_Render_neg.cfg", timeout=300, deadlock=False, workers=2, count=False, tag="mc-negative-control")
    if r.violated != "NaiveAccepted":
        raise lib.Inconclusive("sanity: the relation must reject the unchecked renderer in the model, got %r" % (r.violated or r.error))
    judge = Judge(ctx, binary)
    all_ids = set()
    nontrivial = 0
    offender_classes = {}
    samples = []
    by_depth = {}

    def account(cases):
        nonlocal nontrivial
        for c in cases.values():
            if c["id"] in all_ids:
                continue
            all_ids.add(c["id"])
            by_depth[c["d"]] = by_depth.get(c["d"], 0) + 1
            if c["cls"]:
                nontrivial += 1
            for x in c["cls"]:
                offender_classes[x] = offender_classes.get(x, 0) + 1

    def sample(cases, k):
        ids = sorted(cases)
        for i in rng.sample(ids, min(k, len(ids))):
            c = cases[i]
            samples.append({"type": show_type(c["T"]), "subgraph_data": raw_json(c["j"]), "offending_positions": c["cls"],
                            "expected_by_spec": untag(c["exp"])})

    # ---- deeper trees by simulation (several TLC processes, seeds derived from VERIF_SEED); started now, they
    # run in the background while the exhaustive part is generated, replayed and judged
    chunks, walks = (4, 25) if quick else (8, 150)

    def sim(k):
        return ctx.tlc(SPEC_DIR, "Gen_Render", "Gen_Render_sim.cfg", timeout=2400, deadlock=False, workers=1, simulate=walks, depth=5,
                       seed=ctx.seed * 1000 + k, heap="3g", tag="gen+mc simulate depth 3-5 chunk %d" % k)

    sim_pool = concurrent.futures.ThreadPoolExecutor(max_workers=4)
    sim_futures = [sim_pool.submit(sim, k) for k in range(chunks)]

    if quick:
        parts = [("Gen_Render_q.cfg", "gen+mc depth<=2 (deep seeds)")]
    else:
        parts = [("Gen_Render_t_%s.cfg" % k, "gen+mc depth<=2 seed kind %s" % k) for k in KINDS]
    for cfg, tag in parts:
        g = ctx.tlc_must_pass(SPEC_DIR, "Gen_Render", cfg, timeout=2400, deadlock=False, workers=8, tag=tag)
        cases = {}
        dedupe(g.printed, cases)
        g.printed = None
        g.out = ""
        new = {i: c for i, c in cases.items() if i not in all_ids}
        if len(cases) < g.distinct * 0.8:
            raise lib.Inconclusive("generator printed %d cases for %d distinct states" % (len(cases), g.distinct))
        account(new)
        ctx.log("%s: %d distinct states, %d new cases" % (cfg, g.distinct, len(new)))
        if not samples:
            binding_selftest(ctx, new, binary)
        sample(new, 2)
        nf = judge.run(new)
        ctx.log("%s: %d cases replayed, %d with a failed conjunct / Go-side failure" % (cfg, len(new), nf))
    # ---- deeper trees: collect the simulation runs started above -------------------------------------
    sims = [f.result() for f in sim_futures]
    sim_pool.shutdown()
    cases = {}
    for g in sims:
        if not g.ok:
            print(g.out[-3000:])
            raise lib.Inconclusive("TLC did not pass on Gen_Render simulation (%s) — model-level problem" % g.error)
        dedupe(g.printed, cases, min_depth=3)
        g.printed = None
        g.out = ""
    new = {i: c for i, c in cases.items() if i not in all_ids}
    account(new)
    sample(new, 2)
    if new:
        nf = judge.run(new)
        ctx.log("simulate: %d deep cases replayed, %d with a failed conjunct / Go-side failure" % (len(new), nf))
    # ---- evidence ------------------------------------------------------------------------------------
    extra = {k: n for k, n in judge.per_key.items()}
    ctx.coverage.update({
        "traces_validated_against_impl": judge.validated,
        "evaluations": judge.evaluations,
        "distinct_nontrivial": nontrivial,
        "distinct_cases": len(all_ids),
        "rule": "one case = one TLC-generated (plan tree, subgraph payload) pair, distinct by hash of (T, j); every case is rendered "
                "through 3 entry points (evaluations); byte-identical outputs of one case are judged once by TLC "
                "(traces_validated_against_impl = observation lines TLC evaluated the relation on); non-trivial = the payload has at "
                "least one offending position (null/absent in a non-null position or an ill-typed value)",
        "cases_by_depth": {str(k): v for k, v in sorted(by_depth.items())},
        "offending_position_classes": dict(sorted(offender_classes.items())),
        "failed_conjunct_hits_by_key": extra,
        "cases_with_failure": judge.fail_cases,
        "entry_point_outputs_identical": judge.identical_entries,
        "entry_point_outputs_differing": judge.differing_entries,
        "extension_source_subsets_exercised": len(judge.ext_subsets),
        "renderings_with_apollo_value_completion_judged_for_well_formedness_only": judge.compat_only,
        "model_invariants": MODEL_INVS,
        "relation_conjuncts": CONJUNCTS,
        "samples": samples[:6],
        "exhaustive": not quick,
    })
    ctx.assumptions += [
        "plan trees are built the way plan.Visitor builds them: field value Path = [json key], list item Path = nil, root object non-null with empty path; "
        "response key = json key except for the planner-generated-alias variant",
        "ID and custom scalars (resolve.Scalar) accept any JSON value; a concrete object's __typename is never contradicted by the payload",
        "numbers are classified Go-side into int32-integral / other integral / non-integral (tags i/g/f); everything else is judged by the TLA+ relation",
        "Apollo compatibility options off, no authorizer, no @defer, no custom field renderer",
        ("exhaustive to nesting depth 2 below the root field over all leaf kinds, nullabilities, payload menu and wraps; depth 3-5 sampled"
         if not quick else "depth 2 only for the seed subset DeepSeed; depth 3-5 sampled"),
    ]
