"""C08 — Fetch execution respects data dependencies under every schedule.

Pipeline (DESIGN.md §5 C08, design.d/C08.md):
  1. TLC model-checks spec/resolve/FetchTree.tla (MC_FT): for every Sequence/Parallel tree over <= N fetches and every
     interleaving of the loader's steps  WellFormed(tree, deps) => [](DepsRespected /\\ SawAllDeps), every request prepared
     exactly once, termination, order independence of what every request read; a negative configuration (one dependency
     the tree does not order) must be rejected by the model.
  2. Part (a), structural: TLC enumerates EVERY labelled dependency DAG (Gen_FTDag, strata plain / multi / paths / dedup),
     harness/cmd/postprocess runs the REAL postprocess.Processor on each in every mode, TLC (Trace_FTPost) evaluates
     FTPlan!Verdict = WellFormed of the real tree for the case (+ exactly one request per class of identical requests,
     only legal merges).
  3. Part (b), dynamic: TLC enumerates every schedule (Gen_FTRun: prepare / finish steps of every request, lock probes) of
     (i) every alternating tree over <= 4 fetches, (ii) trees the real post-processor produced in (a), (iii) the real
     federated plans of a query menu (internal/fedenv); harness/cmd/ftexec and cmd/ftfed force each schedule on the real
     resolve.Loader with the fetch-keyed gate scheduler; TLC (Trace_FTRun) validates every recorded event stream.
  4. Go/python-side comparisons that need no oracle: response equal to a dependency-ordered evaluation / to the ungated
     baseline, identical across all schedules of one plan (data after key sort, errors as multisets), every data source
     called exactly once, nobody wedged.
"""
import concurrent.futures
import json
import os
import random
import shutil

import lib

SPEC = "resolve"
MODES = {
    "plain": "legacy/asc,legacy/desc,legacy/shuf,dag/asc,dag/desc,dag+multi/asc",
    "multi": "legacy+multi/asc,dag+multi/asc,legacy+multi/desc,dag/asc",
    "paths": "legacy/asc,dag/asc,legacy/desc,dag+multi/shuf",
    "dedup": "legacy/asc,dag/asc,legacy/desc,dag/desc,legacy-dedup/asc,dag-dedup/shuf",
    "defer": "legacy/asc,dag/asc,legacy/desc,dag/desc",
}
END = {"ev": "end", "f": 0, "b": 0, "saw": []}
MAX_REPORTS = 40


def mode_name(m):
    return "%s%s%s/%s" % ("dag" if m["dag"] else "legacy", "+multi" if m["multi"] else "", "" if m["dedup"] else "-dedup", m["order"])


def show(t):
    if t["k"] == "F":
        return str(t["id"]) if len(t["m"]) < 2 else "%d%s" % (t["id"], t["m"])
    return t["k"] + "(" + ",".join(show(c) for c in t["c"]) + ")"


# ------------------------------------------------------------------------------------------------ part (a)
def drive_post(ctx, binary, cp, op, pp, modes, st, cases, extra=()):
    """Run the driver; a crash of the process (fatal error in the real code, e.g. a stack overflow, cannot be recovered
    in-process) is attributed to the case being processed, reported, and the run continues after it."""
    prog = cp + ".progress"
    start = 0
    mlist = [m.strip() for m in modes.split(",")]
    for crash in range(6):
        args = ["-in", cp, "-out", op, "-panics", pp, "-modes", modes, "-progress", prog] + list(extra)
        if start:
            args += ["-from", str(start)]
        p = ctx.run_bin(binary, args, timeout=3000, check=False)
        if p.returncode == 0:
            return
        if p.returncode == 3 or not os.path.exists(prog):
            raise lib.Inconclusive("harness postprocess exited %d: %s" % (p.returncode, p.stderr[-500:]))
        with open(prog) as f:
            parts = f.read().split()
        if len(parts) < 2:
            raise lib.Inconclusive("harness postprocess exited %d before its first case" % p.returncode)
        line, mi = int(parts[0]), int(parts[1])
        c = cases[line - 1]
        reason = next((x for x in p.stderr.splitlines() if x.startswith("fatal error") or x.startswith("runtime:") or x.startswith("panic:")), "exit %d" % p.returncode)
        st["rejected"] += 1
        if st["reports"] < MAX_REPORTS:
            st["reports"] += 1
            ctx.violation("post:crash:%s" % mlist[mi].split("/")[0],
                          "the real post-processor crashed the process (%s) on case %s in mode %s" % (reason, json.dumps(c["c"]), mlist[mi]),
                          {"kind": "post", "c": c["c"], "modes": mlist[mi], "crash": reason})
        start = line
    ctx.notes.append("postprocess driver: more than 5 crashes, the remaining cases of the stratum were not run")


def reuse_lane(ctx, binary, stratum, cases, modes, st, rng, cap):
    """ONE long-lived postprocess.Processor per mode processes a seed-shuffled sequence of the generated plans (fetch ids are
    reused across plans by construction). Returns the observation / panic files (every tree is judged by TLC like any other);
    a tree that differs from the tree a fresh Processor produces for the same plan is history dependence: reported here."""
    seq = list(cases)
    rng.shuffle(seq)
    seq = [{"id": c["id"], "c": c["c"]} for c in seq[:cap]]
    cp, op, pp, mm = (ctx.path("%s-%s-reuse.ndjson" % (k, stratum)) for k in ("cases", "obs", "panics", "mismatch"))
    lib.write_ndjson(cp, seq)
    drive_post(ctx, binary, cp, op, pp, modes, st, seq, extra=["-reuse", "-mismatch", mm])
    if os.path.exists(mm):
        for m in lib.read_ndjson(mm):
            st["rejected"] += 1
            if st["reports"] < MAX_REPORTS:
                if ctx.violation("post:history-dependent:%s:%s" % (stratum, mode_name(m["mode"]).split("/")[0]),
                                 "a long-lived postprocess.Processor produced the tree %s for the plan n=%d deps=%s (mode %s) after other plans, "
                                 "a fresh Processor produces %s for the same plan: the result depends on the plans processed before" % (
                                     show(m["reused"]), m["c"]["n"], m["c"]["deps"], mode_name(m["mode"]), show(m["fresh"])),
                                 {"kind": "post-reuse", "c": m["c"], "mode": m["mode"], "reused": m["reused"], "fresh": m["fresh"]}):
                    st["reports"] += 1
                else:
                    st["known"] += 1
    return op, pp, len(seq)


def post_validate(ctx, binary, stratum, cases, modes, st):
    """Run the real post-processor on the cases, let TLC judge every observation."""
    cp = ctx.path("cases-%s.ndjson" % stratum)
    op = ctx.path("obs-%s.ndjson" % stratum)
    pp = ctx.path("panics-%s.ndjson" % stratum)
    lib.write_ndjson(cp, cases)
    drive_post(ctx, binary, cp, op, pp, modes, st, cases)
    return post_validate_files(ctx, [op], [pp], st, tag=stratum)


def post_validate_files(ctx, obs_files, panic_files, st, tag="all"):
    for pp in panic_files:
        for p in lib.read_ndjson(pp):
            if st["reports"] < MAX_REPORTS:
                st["reports"] += 1
                ctx.violation("post:panic:%s" % mode_name(p["mode"]).split("/")[0],
                              "postprocess.Processor panicked (%s) on case %s in mode %s" % (p.get("panic"), json.dumps(p["c"]), mode_name(p["mode"])),
                              {"kind": "post", "c": p["c"], "mode": p["mode"], "panic": p.get("panic")})
            st["rejected"] += 1
    op = obs_files[0]
    if len(obs_files) > 1:
        op = ctx.path("obs-%s.ndjson" % tag)
        with open(op, "w") as out:
            for f in obs_files:
                with open(f) as inp:
                    for line in inp:
                        out.write(line)
    nobs = sum(1 for _ in open(op))
    if nobs == 0:
        return 0, 0
    r = ctx.tlc(SPEC, "Trace_FTPost", "Trace_FTPost.cfg", workers=1, env={"TRACE": op}, timeout=3000, deadlock=False,
                count=False, tag="post-validation-%s" % tag)
    if r.ok:
        return nobs, nobs
    if not r.printed or r.generated != nobs + 1:
        print(r.out[-3000:])
        raise lib.Inconclusive("validation of the post-processor observations failed in an unexpected way: %s" % r.error)
    rows = lib.read_ndjson(op)
    for rej in r.printed:
        o = rows[rej["line"] - 1]
        st["bad_obs"].add((o["id"], mode_name(o["mode"])) if not o.get("real") else ("fed", o["id"]))
    for rej in r.printed:
        if st["reports"] >= MAX_REPORTS:
            break
        o = rows[rej["line"] - 1]
        if o.get("real"):
            st["reports"] += 1
            ctx.violation("fed:plan:%s" % rej["verdict"],
                          "the fetch tree %s the real engine planned for %s (deps %s) is rejected by Trace_FTPost!RealVerdict: %s" % (
                              show(o["tree"]), o["id"], o["deps"], rej["verdict"]),
                          {"kind": "fedplan", "grp": o["id"], "tree": o["tree"], "deps": o["deps"], "verdict": rej["verdict"]})
            continue
        st["reports"] += 1
        ctx.violation("post:%s:%s:%s" % (rej["verdict"], o["c"].get("s", tag), mode_name(o["mode"]).split("/")[0]),
                      "tree %s produced by the real post-processor (mode %s) for the plan n=%d deps=%s kind=%s cls=%s ds=%s ent=%s is rejected by "
                      "FTPlan!Verdict: %s" % (show(o["tree"]), mode_name(o["mode"]), o["c"]["n"], o["c"]["deps"], o["c"]["kind"], o["c"]["cls"],
                                              o["c"]["ds"], o["c"]["ent"], rej["verdict"]),
                      {"kind": "post", "c": o["c"], "mode": o["mode"], "tree": o["tree"], "verdict": rej["verdict"]})
    st["rejected"] += len(r.printed)
    return nobs, nobs - len(r.printed)


def nontrivial_case(c):
    return any(len(d) > 0 for d in c["deps"])


# ------------------------------------------------------------------------------------------------ part (b)
def interleaves(steps):
    """some request does something between the prepare and the finish of another one"""
    open_ = set()
    for s in steps:
        if s["a"][0] in "TUH" or s["a"].endswith("H"):
            return True
        if s["a"] == "P":
            if open_:
                return True
            open_.add(s["f"])
        elif s["a"] == "F":
            open_.discard(s["f"])
            if open_:
                return True
    return False


def split_traces(rows, k):
    """cut an event stream into k chunks at reset boundaries"""
    starts = [i for i, r in enumerate(rows) if r["ev"] == "reset"]
    if not starts:
        return []
    k = max(1, min(k, len(starts)))
    per = (len(starts) + k - 1) // k
    chunks = []
    for c in range(0, len(starts), per):
        a = starts[c]
        b = starts[c + per] if c + per < len(starts) else len(rows)
        chunks.append(rows[a:b])
    return chunks


def validate_chunk(ctx, name, rows, sched_by_id, res_by_id, st):
    """TLC trace validation of one chunk; a rejected trace is reported, cut out, and validation continues."""
    path = ctx.path("ev-%s.ndjson" % name)
    validated = 0
    for attempt in range(8):
        rows = [r for r in rows if r["ev"] != "end"]
        if not rows:
            break
        ntr = sum(1 for r in rows if r["ev"] == "reset")
        lib.write_ndjson(path, rows + [END])
        r = ctx.tlc(SPEC, "Trace_FTRun", "Trace_FTRun.cfg", workers=1, env={"TRACE": path}, timeout=3000, deadlock=False,
                    count=False, tag="trace-validation-%s" % name)
        if r.ok:
            return validated + ntr
        line = what = None
        if r.violated:
            ls = [int(x.split("=")[1]) for x in r.out.splitlines() if x.strip().startswith("/\\ l = ")]
            if ls:
                line = ls[-1] - 1
            what = "invariant %s is false on a trace recorded from the real loader" % r.violated
        else:
            for x in r.out.splitlines():
                if "TRACE_STUCK_AT_LINE" in x:
                    line = int(x.replace(">>", "").split(",")[-1].strip())
                    what = "the recorded trace is not a behaviour of FTRun (the guard of the event does not hold)"
        if line is None:
            print(r.out[-3000:])
            raise lib.Inconclusive("trace validation failed in an unexpected way: %s" % r.error)
        allrows = rows + [END]
        start = max(i for i in range(min(line, len(allrows))) if allrows[i]["ev"] == "reset")
        end = next((i for i in range(start + 1, len(allrows)) if allrows[i]["ev"] in ("reset", "end")), len(allrows))
        cid = allrows[start]["id"]
        ev = allrows[line - 1] if line - 1 < len(allrows) else {"ev": "<eof>"}
        evname = ev["ev"]
        if line - 1 == end or evname in ("reset", "end"):
            evname = "unfinished"
            what = "the run ended although not every planned request was prepared and merged exactly once (or it never returned)"
        elif evname == "return":
            what = "the resolver returned although not every planned request was prepared and merged exactly once, or it returned an error"
        sc = sched_by_id.get(cid, {})
        key = "%srun:%s:%s" % ("ghost:" if sc.get("ghost") else "", r.violated or "nonconformance", evname)
        if sc.get("terr"):
            what += " [request %d fails with a transport error]" % sc["terr"]
        if sc.get("ghost"):
            what += " [plan with a ghost request %s: a nested fetch whose fetch path selects no item]" % sc["ghost"]
        if st["reports"] < MAX_REPORTS:
            if ctx.violation(key, "%s; schedule %s of plan %s deps=%s, event #%d %s" % (
                    what, cid, show(sc["tree"]) if sc else "?", sc.get("deps"), line - start, json.dumps(ev)),
                    {"kind": sc.get("kind", "run"), "schedule": sc, "events": allrows[start:end], "result": res_by_id.get(cid),
                     "failing_event_index": line - start, "tlc": r.violated or "stuck"}):
                st["reports"] += 1
            else:
                st["known"] += 1
        st["rejected"] += 1
        validated += sum(1 for x in allrows[:start] if x["ev"] == "reset")
        rows = allrows[end:]
    else:
        left = sum(1 for x in rows if x["ev"] == "reset")
        if left:
            ctx.notes.append("trace validation of chunk %s stopped after 8 rejected traces; %d traces were not validated" % (name, left))
    return validated


def validate_runs(ctx, name, events_path, scheds, results, st, par):
    rows = lib.read_ndjson(events_path)
    by_id = {s["id"]: s for s in scheds}
    res_by_id = {r["id"]: r for r in results}
    # traces of ghost plans (known finding: many of them are rejected, every rejection costs a TLC run) get their own chunk so
    # that they cannot use up the attempts of the others
    ghost_rows, other_rows, cur = [], [], None
    for r in rows:
        if r["ev"] == "reset":
            cur = ghost_rows if by_id.get(r["id"], {}).get("ghost") else other_rows
        if cur is not None and r["ev"] != "end":
            cur.append(r)
    chunks = split_traces(other_rows, par) + ([ghost_rows] if ghost_rows else [])
    with concurrent.futures.ThreadPoolExecutor(max_workers=max(1, len(chunks))) as ex:
        futs = [ex.submit(validate_chunk, ctx, "%s-%d" % (name, i), ch, by_id, res_by_id, st) for i, ch in enumerate(chunks)]
        return sum(f.result() for f in futs)


def go_side(ctx, results, scheds, st, baseline=None, hand_built=True):
    """observations that need no oracle"""
    by_id = {s["id"]: s for s in scheds}
    groups = {}
    unreal = 0

    def report(key, what, r):
        # plans with a ghost request exist to watch one defect: their keys are kept apart from all others
        if by_id[r["id"]].get("ghost") and not key.startswith("ghost:"):
            key = "ghost:" + key
        if st["reports"] < MAX_REPORTS:
            if ctx.violation(key, what, {"kind": by_id[r["id"]].get("kind", "run"), "schedule": by_id[r["id"]], "result": r}):
                st["reports"] += 1

    for r in results:
        s = by_id[r["id"]]
        plan = "%s deps=%s%s%s%s" % (show(s["tree"]), s["deps"], (" kinds=%s" % s["kinds"]) if s.get("kinds") else "", (" ghost=%s (fetch path selects no item)" % s["ghost"]) if s.get("ghost") else "",
                                   (" request %d fails (transport error)" % s["terr"]) if s.get("terr") else "")
        if r["unrealised"]:
            unreal += 1
        if r["wedged"]:
            report("run:wedged", "the resolver never returned after every gate was opened; schedule %s of plan %s" % (r["id"], plan), r)
            continue
        if r["err"]:
            report("run:resolver-error", "the resolver failed with %r; schedule %s of plan %s" % (r["err"], r["id"], plan), r)
            continue
        if r.get("probe_moved"):
            report("run:lock", "a request entered a [db] section (ld.prepared / ld.merging / the errored-fetch bookkeeping before ld.loaded) while another "
                               "request was parked inside one; "
                               "schedule %s of plan %s" % (r["id"], plan), r)
        if hand_built:
            nleaves = len([x for x in json.dumps(s["tree"]).split('"k": "F"')]) - 1
            broken = bad_set(s["deps"], s.get("terr", 0))
            # transitive dependants of the failed request are never issued; the failed request itself was (once)
            never = {str(f) for f in broken if f != s.get("terr", 0)}
            bad = {f: c for f, c in r["ds_calls"].items() if c != 1 or f in never}
            nleaves -= len(never - set(r["ds_calls"]))
            ghost = {str(f) for f in s.get("ghost", [])}
            # a request that selects no parent item has nothing to read: it may be issued (once) or not at all
            bad = {f: c for f, c in bad.items() if not (f in ghost and c <= 1)}
            missing = nleaves - len(set(r["ds_calls"]) | ghost)
            if bad or missing:
                report("run:request-count", "data sources were not invoked exactly once per planned request (calls per request %s, %d requests planned); "
                                            "schedule %s of plan %s" % (r["ds_calls"], nleaves, r["id"], plan), r)
            # (for a ghost request the dependency-ordered evaluation leaves its field null and everything else untouched)
            if r["data"] != r["expect_data"]:
                report("run:response-differs", "response data %s differs from the dependency-ordered evaluation %s; schedule %s steps %s of plan %s" % (
                    r["data"], r["expect_data"], r["id"], [(x["f"], x["a"]) for x in s["steps"]], plan), r)
            nerr = len([f for f in s.get("fail", []) if f not in broken]) + (1 if s.get("terr", 0) else 0)
            if len(r["errors"]) != nerr:
                report("run:errors-count", "%d errors in the response, %d requests answered with errors / failed; schedule %s of plan %s" % (
                    len(r["errors"]), nerr, r["id"], plan), r)
        elif baseline is not None:
            b = baseline[r["grp"]]
            if r["data"] != b[0] or r["errors"] != b[1]:
                report("fed:response-differs", "federated response under schedule %s differs from the ungated execution of the same operation (%s): %s vs %s" % (
                    r["id"], r["grp"], r["raw"][:300], b[2][:300]), r)
        g = groups.setdefault(r["grp"], r)
        if g is not r and (g["data"] != r["data"] or g["errors"] != r["errors"]):
            which = "data" if g["data"] != r["data"] else "errors (as multisets)"
            report("%srun:order-dependent-%s" % ("ghost:" if s.get("ghost") else "", which.split()[0]), "two completion orders of the same plan %s give different %s: schedule %s -> %s ; schedule %s -> %s" % (
                plan, which, g["id"], g["raw"][:400], r["id"], r["raw"][:400]), r)
    return unreal


def drive_run(ctx, binary, sp, ep, rp, scheds, st):
    """Run ftexec / ftfed; a crash of the process (a panic in a goroutine of the code under test cannot be recovered by the
    driver) is attributed to the schedule being executed, reported, and the run continues after it. Returns the results."""
    prog = sp + ".progress"
    start = 0
    crashed = set()
    for crash in range(8):
        args = ["-in", sp, "-out", ep, "-res", rp, "-progress", prog]
        if start:
            args += ["-from", str(start)]
        p = ctx.run_bin(binary, args, timeout=6000, check=False)
        if p.returncode == 0:
            break
        if p.returncode == 3 or not os.path.exists(prog):
            raise lib.Inconclusive("harness %s exited %d: %s" % (os.path.basename(binary), p.returncode, p.stderr[-500:]))
        with open(prog) as f:
            txt = f.read().split()
        if not txt:
            raise lib.Inconclusive("harness %s exited %d before its first schedule" % (os.path.basename(binary), p.returncode))
        line = int(txt[0])
        sc = scheds[line - 1]
        crashed.add(sc["id"])
        reason = next((x for x in p.stderr.splitlines() if x.startswith("panic:") or x.startswith("fatal error")), "exit %d" % p.returncode)
        st["rejected"] += 1
        if st["reports"] < MAX_REPORTS:
            if ctx.violation("run:crash", "the process crashed (%s) while the real resolver executed schedule %s steps %s of plan %s deps=%s" % (
                    reason, sc["id"], [(x["f"], x["a"]) for x in sc["steps"]], show(sc["tree"]), sc["deps"]),
                    {"kind": sc.get("kind", "run"), "schedule": sc, "crash": reason, "stderr": p.stderr[-3000:]}):
                st["reports"] += 1
        start = line
    else:
        ctx.notes.append("%s: more than 8 crashes, the remaining schedules were not run" % os.path.basename(binary))
    results = lib.read_ndjson(rp) if os.path.exists(rp) else []
    done = {r["id"] for r in results}
    return results, [s for s in scheds if s["id"] in done], crashed


def gen_schedules(ctx, plans, probes, tag, timeout=1800, simulate=None):
    """TLC enumerates every schedule of every plan of the list (plans: dicts with tree, deps); simulate=N: N random behaviours."""
    tp = ctx.path("plans-%s.ndjson" % tag)
    lib.write_ndjson(tp, [{"tree": p["tree"], "deps": p["deps"], "terr": p.get("terr", 0)} for p in plans])
    if not plans:
        return []
    kw = {"simulate": simulate, "depth": 100, "seed": ctx.seed, "workers": 1} if simulate else {"workers": 8}
    g = ctx.tlc_must_pass(SPEC, "Gen_FTRun", "Gen_FTRun_probe.cfg" if probes else "Gen_FTRun.cfg", timeout=timeout,
                          deadlock=False, env={"TREES": tp}, tag="gen-schedules-%s" % tag, **kw)
    uniq = {}
    for x in g.printed:
        uniq[lib.sha(x)] = x
    return list(uniq.values())


def reduce_deps(deps):
    """transitive reduction: only the direct dependencies (so that a dependant of a dependant does NOT depend on the root itself)"""
    n = len(deps)
    clo = [set(d) for d in deps]
    for _ in range(n):
        for f in range(n):
            for d in list(clo[f]):
                clo[f] |= clo[d - 1]
    return [sorted(d for d in deps[f] if not any(d in clo[e - 1] for e in deps[f] if e != d)) for f in range(n)]


def bad_set(deps, terr):
    """the failed request and everything that (transitively) reads from it"""
    bad = set()
    if terr:
        bad.add(terr)
        changed = True
        while changed:
            changed = False
            for f in range(1, len(deps) + 1):
                if f not in bad and any(d in bad for d in deps[f - 1]):
                    bad.add(f)
                    changed = True
    return bad


def pick_fail(rng, plan):
    ids = [i + 1 for i in range(len(plan["deps"]))]
    if rng.random() < 0.5:
        return []
    return sorted(rng.sample(ids, min(len(ids), rng.choice([1, 1, 2]))))


# ------------------------------------------------------------------------------------------------ replay
def replay(ctx, bins):
    with open(ctx.replay_in) as f:
        rep = json.load(f)
    case = rep["case"]
    st = {"reports": 0, "rejected": 0, "known": 0, "bad_obs": set()}
    cov = {"unreal": 0, "validated": 0, "replayed": 0, "distinct": set(), "distinct_all": set(), "samples": []}
    if case.get("kind") in ("post", "post-reuse"):   # (a history-dependent tree is re-judged with a fresh Processor only)
        modes = case.get("modes") or mode_name(case["mode"])
        post_validate(ctx, bins["postprocess"], "replay", [{"id": "replay", "c": case["c"]}], modes, st)
    elif case.get("kind") == "fed":
        s = case["schedule"]
        sp, ep, rp = ctx.path("sched-r.ndjson"), ctx.path("events-r.ndjson"), ctx.path("results-r.ndjson")
        lib.write_ndjson(sp, [s])
        results, done, _ = drive_run(ctx, bins["ftfed"], sp, ep, rp, [s], st)
        if results:
            go_side(ctx, results, done, st, baseline=None, hand_built=False)
            validate_runs(ctx, "replay", ep, done, results, st, 1)
    else:
        # one schedule, or several schedules of one plan (order dependence needs two runs)
        ss = case.get("schedules") or [case["schedule"]]
        sp, ep, rp = ctx.path("sched-r.ndjson"), ctx.path("events-r.ndjson"), ctx.path("results-r.ndjson")
        lib.write_ndjson(sp, ss)
        results, done, _ = drive_run(ctx, bins["ftexec"], sp, ep, rp, ss, st)
        for r in results:
            ctx.log("replay %s -> %s %s" % (r["id"], r["raw"], r["err"]))
        if results:
            go_side(ctx, results, done, st)
            validate_runs(ctx, "replay", ep, done, results, st, 1)
    ctx.coverage.update({"traces_validated_against_impl": 1, "evaluations": 1, "distinct_nontrivial": 1, "exhaustive": False,
                         "rule": "replay of one recorded counterexample", "samples": [case]})


# ------------------------------------------------------------------------------------------------ main
def load_own_findings(ctx):
    """findings.d/C08.json is this check's fragment of known-findings.json; honour it even before the coordinator merged it"""
    frag = os.environ.get("VERIF_C08_FINDINGS") or os.path.join(lib.VERIF, "findings.d", "C08.json")
    known = ctx.known()
    if os.path.exists(frag):
        with open(frag) as f:
            for e in json.load(f):
                if not any(k.get("property") == e.get("property") and k.get("key") == e.get("key") for k in known):
                    known.append(e)


def run(ctx):
    load_own_findings(ctx)
    rng = random.Random(ctx.seed)
    quick = ctx.quick()
    bins = {}
    for b in ("postprocess", "ftexec", "ftfed"):
        # private copy: other agents' mutant runs remove /verif/.build-* directories at any moment
        built = ctx.build(b)
        bins[b] = ctx.path("bin-" + b)
        try:
            shutil.copy2(built, bins[b])
        except OSError as e:
            raise lib.Inconclusive("the freshly built driver %s disappeared before it could be copied: %s" % (b, e))
    if ctx.replay_in:
        return replay(ctx, bins)   # (own findings fragment already loaded above)
    st = {"reports": 0, "rejected": 0, "known": 0, "bad_obs": set()}
    # ---- 1. model checking ----------------------------------------------------------------------
    if quick:
        # one run: every tree over <= 4 fetches with its most demanding graph + every graph with <= 2 edges for the trees over <= 3
        ctx.tlc_must_pass(SPEC, "MC_FT", "MC_FT_4mix.cfg", workers=8, timeout=900, tag="mc-trees<=4-maxdeps+graphs<=2edges(n<=3)+faults(n<=3)")
    else:
        ctx.tlc_must_pass(SPEC, "MC_FT", "MC_FT_4.cfg", workers=8, timeout=900, tag="mc-trees<=4-max+direct-deps-every-failing-request")
        ctx.tlc_must_pass(SPEC, "MC_FT", "MC_FT_3all.cfg", workers=8, timeout=1800, tag="mc-trees<=3-all-graphs")
        ctx.tlc_must_pass(SPEC, "MC_FT", "MC_FT_5.cfg", workers=8, timeout=2400, tag="mc-trees<=5-maxdeps")
    # (both quick and thorough runs above include the fault model: one failing request, bad propagation, FaultOK)
    r = ctx.tlc(SPEC, "MC_FT", "MC_FT_faultneg.cfg", workers=4, timeout=600, count=False, tag="mc-negative-skip-not-transitive")
    if r.violated != "Theorem":
        raise lib.Inconclusive("sanity: a skip that is not transitive must violate the theorem in the model, got %r" % r.error)
    r = ctx.tlc(SPEC, "MC_FT", "MC_FT_bad.cfg", workers=4, timeout=600, count=False, tag="mc-negative-unordered-dependency")
    if r.violated != "Unconditional":
        raise lib.Inconclusive("sanity: a dependency the tree does not order must violate DepsRespected in the model, got %r" % r.error)

    # ---- 2. part (a): structural ------------------------------------------------------------------
    if quick:
        gens = [("all", 4)]      # one TLC run: plain/multi/dedup n <= 4, paths / defer n <= 3
        n_a = {"plain": 4, "multi": 4, "paths": 3, "dedup": 4, "defer": 3}
        cap_a = {"multi": 4000}
    else:
        gens = [("plain", 5), ("multi", 4), ("paths", 4), ("dedup", 5), ("defer", 4)]
        n_a = {"plain": 5, "multi": 4, "paths": 4, "dedup": 5, "defer": 4}
        cap_a = {"paths": 40000}
    by_stratum = {}
    for name, n in gens:
        g = ctx.tlc_must_pass(SPEC, "Gen_FTDag", "Gen_FTDag_%s_%d.cfg" % (name, n), workers=8, timeout=2400, deadlock=False,
                              tag="gen-dags-%s-%d" % (name, n))
        for c in g.printed:
            by_stratum.setdefault(c["s"], {})[lib.sha(c)] = c
    obs_total = obs_ok = 0
    distinct_a = set()
    cases_total = 0
    samples = []
    exhaustive_a = True
    plain_obs_path = None
    reuse_files, reuse_cases = [], 0
    for stratum in ("plain", "multi", "paths", "dedup", "defer"):
        cases = [by_stratum.get(stratum, {})[k] for k in sorted(by_stratum.get(stratum, {}))]
        total = len(cases)
        if stratum in cap_a and total > cap_a[stratum]:
            rng.shuffle(cases)
            cases = cases[:cap_a[stratum]]
            exhaustive_a = False
        ctx.log("part (a) %s n<=%d: %d cases generated, %d replayed in modes %s" % (stratum, n_a[stratum], total, len(cases), MODES[stratum]))
        cs = [{"id": "%s-%06d" % (stratum, i), "c": c} for i, c in enumerate(cases)]
        if quick:
            # one validation run for all strata (JVM start-up dominates): drive now, judge below
            cp, op, pp = ctx.path("cases-%s.ndjson" % stratum), ctx.path("obs-%s.ndjson" % stratum), ctx.path("panics-%s.ndjson" % stratum)
            lib.write_ndjson(cp, cs)
            drive_post(ctx, bins["postprocess"], cp, op, pp, MODES[stratum], st, cs)
            rop, rpp, nre = reuse_lane(ctx, bins["postprocess"], stratum, cs, MODES[stratum], st, rng, 1000 if stratum == "multi" else 10 ** 9)
            reuse_files.append((rop, rpp))
        else:
            nobs, nok = post_validate(ctx, bins["postprocess"], stratum, cs, MODES[stratum], st)
            obs_total += nobs
            obs_ok += nok
            rop, rpp, nre = reuse_lane(ctx, bins["postprocess"], stratum, cs, MODES[stratum], st, rng, 8000)
            nobs, nok = post_validate_files(ctx, [rop], [rpp], st, tag=stratum + "-reuse")
            obs_total += nobs
            obs_ok += nok
        reuse_cases += nre
        cases_total += len(cases)
        nmodes = len(MODES[stratum].split(","))
        for c in cases:
            if nontrivial_case(c):
                h = lib.sha(c)
                for k in range(nmodes):
                    distinct_a.add((h, k))
        if stratum == "plain":
            plain_obs_path = ctx.path("obs-plain.ndjson")
        if cases:
            samples.append({"part": "a/" + stratum, "case": cases[len(cases) // 2]})
    # the real federated plans of the query menu are judged structurally as well
    fpp = ctx.path("fed-plans.ndjson")
    ctx.run_bin(bins["ftfed"], ["-plan", "-out", fpp], timeout=600)
    fed = lib.read_ndjson(fpp)
    fed_obs = ctx.path("obs-fedplans.ndjson")
    lib.write_ndjson(fed_obs, [{"id": p["grp"], "real": True, "tree": p["tree"], "deps": p["deps"]} for p in fed])
    files = [fed_obs] + ([ctx.path("obs-%s.ndjson" % x) for x in n_a] + [f for f, _ in reuse_files] if quick else [])
    nobs, nok = post_validate_files(ctx, files, ([ctx.path("panics-%s.ndjson" % x) for x in n_a] + [p for _, p in reuse_files]) if quick else [],
                                    st, tag="all")
    obs_total += nobs
    obs_ok += nok

    # ---- 3. part (b): dynamic ---------------------------------------------------------------------
    cov = {"unreal": 0, "validated": 0, "replayed": 0, "distinct": set(), "distinct_all": set(), "samples": []}
    par = 6
    plans = []   # every plan executed in part (b): tree, deps, grp, src (+ fail for hand-built, query/mode for federated)
    # (i) every alternating tree over <= 4 fetches with its most demanding dependency graph
    t = ctx.tlc_must_pass(SPEC, "Gen_FTTrees", "Gen_FTTrees_%d.cfg" % (4 if quick else 5), workers=4, timeout=1800, deadlock=False,
                          count=False, tag="gen-trees")
    trees = sorted(t.printed, key=lambda x: json.dumps(x, sort_keys=True))
    small = [p for p in trees if len(p["deps"]) <= 3]
    four = [p for p in trees if len(p["deps"]) == 4]
    five = [p for p in trees if len(p["deps"]) == 5]
    if quick:
        rng.shuffle(four)
        four = four[:30]
    rng.shuffle(five)
    five = five[:40] if not quick else []
    for i, p in enumerate(small + four + five):
        p.update({"grp": "T%04d" % i, "src": "tree", "fail": pick_fail(rng, p), "probe": len(p["deps"]) <= 3})
    if not quick:
        for p in rng.sample(four, 40):
            p["probe"] = True
    plans += small + four + five
    # (i') the same small trees with one request turned into a "ghost": a non-entity nested fetch whose fetch path selects
    # no item (null / absent ancestor), concurrent with every other request (no dependencies, read by nobody)
    ghosts = []
    for p in small:
        n = len(p["deps"])
        sinks = [f for f in range(1, n + 1) if not any(f in d for d in p["deps"])]
        # the ghost itself reads nothing (it has no parent item): it must not have dependencies of its own either
        cand = [f for f in sinks if not p["deps"][f - 1] and n > 1]
        if cand:
            ghosts.append({"tree": p["tree"], "deps": p["deps"], "src": "tree", "fail": [], "probe": False, "ghost": [rng.choice(cand)]})
    ghost_open = any(k.get("property") == "C08" and k.get("status") == "open" and str(k.get("key", "")).startswith("ghost:") for k in ctx.known())
    if quick and ghost_open:
        # while the finding is open: only plans without dependencies. The defect then shows python side; a dependent request
        # that loses its input is rejected by TLC, and every rejected trace costs another TLC run (thorough only)
        ghosts = [p for p in ghosts if not any(p["deps"])]
    rng.shuffle(ghosts)
    if quick:
        ghosts = ghosts[:6]
    for i, p in enumerate(ghosts):
        p["grp"] = "G%04d" % i
    plans += ghosts
    # (i'') faults: the same trees with only the DIRECT dependencies (transitive reduction: a dependant of a dependant does not
    # depend on the root itself) and one request whose data source fails with a transport error; chains of length >= 3 and
    # diamonds explicitly. Its transitive dependants must never be issued, everything else exactly once.
    def L(i):
        return {"k": "F", "id": i, "m": [i], "c": []}

    def N(k, *c):
        return {"k": k, "id": 0, "m": [], "c": list(c)}
    explicit = [
        (N("S", L(1), L(2), L(3), L(4)), [[], [1], [2], [3]]),                       # chain of 4
        (N("S", L(1), N("P", L(2), L(3)), L(4)), [[], [1], [1], [2, 3]]),            # diamond
        (N("S", L(3), L(1), N("P", L(4), L(2))), [[3], [1], [], [1]]),               # chain + fork, ids not topological
        (N("P", N("S", L(1), L(2), L(3)), L(4)), [[], [1], [2], []]),                # chain next to an independent request
    ]
    faults = []
    for p in small + rng.sample(four, min(len(four), 6 if quick else 25)):
        if len(p["deps"]) >= 2:
            faults += [{"tree": p["tree"], "deps": reduce_deps(p["deps"]), "terr": t} for t in range(1, len(p["deps"]) + 1)]
    rng.shuffle(faults)
    faults = faults[:30 if quick else 10 ** 9]
    for tree, deps in explicit:
        faults += [{"tree": tree, "deps": deps, "terr": t} for t in range(1, len(deps) + 1)]
    for i, p in enumerate(faults):
        # lock probes of the errored-fetch bookkeeping need a sibling of the failing request: probe every fault plan
        p.update({"grp": "E%04d" % i, "src": "tree", "fail": [], "probe": True, "fault": True})
    plans += faults
    # (i-k) fetch KINDS: the same trees whose direct dependencies form a forest, realised with root SingleFetch / EntityFetch /
    # BatchEntityFetch (cmd/ftexec entity.go): entity results are merged INTO the objects / list elements the parent produced,
    # so parallel siblings take the batch merge path on shared items
    kinds_plans = []
    for p in small + four:
        red = reduce_deps(p["deps"])
        if len(red) < 2 or any(len(d) > 1 for d in red) or not any(red):
            continue
        arr, kd = {}, {}
        order = sorted(range(1, len(red) + 1), key=lambda f: len(bad_set(red, f)), reverse=True)   # parents before children
        for f in order:
            if not red[f - 1]:
                kd[f], arr[f] = "S", False
            else:
                par = red[f - 1][0]
                kd[f] = "B" if arr[par] else rng.choice(["E", "B", "B"])
                arr[f] = arr[par] or kd[f] == "B"
        kinds = [kd[f] for f in range(1, len(red) + 1)]
        kinds_plans.append({"tree": p["tree"], "deps": red, "kinds": kinds, "src": "tree", "fail": pick_fail(rng, p), "probe": True, "kinded": True})
    rng.shuffle(kinds_plans)
    kinds_plans = kinds_plans[:14 if quick else 150]
    for i, p in enumerate(kinds_plans):
        p["grp"] = "K%04d" % i
    plans += kinds_plans
    # (ii) trees the REAL post-processor produced in part (a) (plain stratum), with the declared dependencies
    real = {}
    if plain_obs_path and os.path.exists(plain_obs_path):
        with open(plain_obs_path) as f:
            for line in f:
                o = json.loads(line)
                if 2 <= o["c"]["n"] <= 4 and (o["id"], mode_name(o["mode"])) not in st["bad_obs"]:
                    real.setdefault(lib.sha([o["tree"], o["c"]["deps"]]), {"tree": o["tree"], "deps": o["c"]["deps"]})
    real = [real[k] for k in sorted(real)]
    rng.shuffle(real)
    real = real[:30 if quick else 150]
    for i, p in enumerate(real):
        p.update({"grp": "R%04d" % i, "src": "real", "fail": pick_fail(rng, p), "probe": False})
    plans += real
    # (iii) real federated plans of the query menu
    fed = [p for p in fed if ("fed", p["grp"]) not in st["bad_obs"]]
    baseline = {}
    for p in fed:
        doc = json.loads(p["response"])
        errs = sorted(json.dumps(e, sort_keys=True, separators=(",", ":")) for e in doc.get("errors", []) or [])
        baseline[p["grp"]] = (json.dumps(doc.get("data"), sort_keys=True, separators=(",", ":")), errs, p["response"])
        p.update({"src": "fed", "probe": (p["nleaves"] <= 4) or not quick})
    plans += fed
    # TLC: every schedule of every plan; one lock probe per behaviour for the probe plans
    caps = {"tree": (600, 24000), "real": (8, 30), "fed": (40, 10 ** 9)}   # (quick, thorough); real, fed: per plan
    bfs_plans = [p for p in plans if len(p["deps"]) <= 4 or p["src"] != "tree"]
    plain = gen_schedules(ctx, bfs_plans, False, "all", timeout=3000)
    pplans = [p for p in plans if p["probe"]]
    probes = gen_schedules(ctx, pplans, True, "probe", timeout=3000)
    chosen = []
    if five:
        # up to 113 400 schedules per tree over 5 fetches: random behaviours instead of all
        for x in gen_schedules(ctx, five, False, "trees5", timeout=3000, simulate=6000):
            chosen.append((five[x["idx"] - 1], x))
    by_plan = {}
    pos = {id(p): i + 1 for i, p in enumerate(plans)}
    for x in plain:
        x["idx"] = pos[id(bfs_plans[x["idx"] - 1])]
        by_plan.setdefault(x["idx"], []).append(x)
    big_tree = []
    for idx in sorted(by_plan):
        p = plans[idx - 1]
        xs = sorted(by_plan[idx], key=lambda x: json.dumps(x, sort_keys=True))
        if p.get("kinded"):
            rng.shuffle(xs)
            chosen += [(p, x) for x in xs[:8 if quick else 40]]
        elif p.get("fault"):
            rng.shuffle(xs)
            chosen += [(p, x) for x in xs[:6 if quick else 30]]   # fault plans: a seed sample of the schedules of each plan
        elif p["src"] in ("real", "fed"):
            rng.shuffle(xs)
            xs = xs[:caps[p["src"]][0 if quick else 1]]
            chosen += [(p, x) for x in xs]
        elif p["src"] == "tree" and len(p["deps"]) >= 4:
            big_tree += [(p, x) for x in xs]
        else:
            chosen += [(p, x) for x in xs]
    cap = caps["tree"][0 if quick else 1]
    if len(big_tree) > cap:
        rng.shuffle(big_tree)
        big_tree = big_tree[:cap]
    chosen += big_tree
    pr = {"tree": [], "fed": [], "fault": [], "kinded": []}
    for x in sorted(probes, key=lambda x: json.dumps(x, sort_keys=True)):
        p = pplans[x["idx"] - 1]
        if p.get("fault"):
            # the probe of the errored-fetch bookkeeping: the failing request's data source returns while a sibling is parked
            # inside a [db] section
            if any(st_["a"] == "TF" and st_["f"] == p["terr"] for st_ in x["steps"]):
                pr["fault"].append((p, x))
        elif p.get("kinded"):
            pr["kinded"].append((p, x))
        else:
            pr[p["src"]].append((p, x))
    for src, capq, capt in (("tree", 100, 1300), ("fed", 80, 3000), ("fault", 40, 600), ("kinded", 30, 500)):
        rng.shuffle(pr[src])
        chosen += pr[src][:capq if quick else capt]
    hand, feds = [], []
    for i, (p, x) in enumerate(chosen):
        sc = {"id": "%s-%06d" % (p["src"], i), "grp": p["grp"], "tree": p["tree"], "deps": p["deps"], "init": x["init"], "steps": x["steps"]}
        if p["src"] == "fed":
            sc.update({"kind": "fed", "query": p["query"], "mode": p["mode"]})
            feds.append(sc)
        else:
            sc.update({"kind": "run", "fail": p["fail"], "arena": (i % 2 == 1), "ghost": p.get("ghost", []), "terr": p.get("terr", 0),
                       "kinds": p.get("kinds", [])})
            hand.append(sc)
    ctx.log("part (b): %d plans (%d trees, %d post-processor trees, %d federated), %d + %d schedules generated, %d hand-built + %d federated chosen" % (
        len(plans), len(small + four + five), len(real), len(fed), len(plain), len(probes), len(hand), len(feds)))
    events = []
    results_all = []
    for name, binary, scheds in (("hand", bins["ftexec"], hand), ("fed", bins["ftfed"], feds)):
        if not scheds:
            continue
        sp, ep, rp = ctx.path("sched-%s.ndjson" % name), ctx.path("events-%s.ndjson" % name), ctx.path("results-%s.ndjson" % name)
        lib.write_ndjson(sp, scheds)
        results, scheds, crashed = drive_run(ctx, binary, sp, ep, rp, scheds, st)
        if not crashed and len(results) != len(scheds):
            raise lib.Inconclusive("%s produced %d results for %d schedules" % (os.path.basename(binary), len(results), len(scheds)))
        if not results:
            continue
        cov["unreal"] += go_side(ctx, results, scheds, st, baseline=baseline if name == "fed" else None, hand_built=(name == "hand"))
        events += lib.read_ndjson(ep)
        results_all += results
        cov["samples"].append({"part": "b/" + name, "schedule": scheds[len(scheds) // 2], "result": results[len(scheds) // 2]})
    allp = ctx.path("events-all.ndjson")
    lib.write_ndjson(allp, events)
    cov["validated"] += validate_runs(ctx, "all", allp, hand + feds, results_all, st, par if quick else 12)
    cov["replayed"] += len(hand) + len(feds)
    cov["fed_plans"] = ["%s %s" % (p["grp"], show(p["tree"])) for p in fed]
    for s in hand + feds:
        h = lib.sha([s["grp"], s.get("fail"), s.get("arena"), s.get("kinds"), s["steps"]])
        cov["distinct_all"].add(h)
        if interleaves(s["steps"]):
            cov["distinct"].add(h)

    if cov["unreal"]:
        ctx.notes.append("%d schedules contained a step the real code could not take as scheduled (drained, validated anyway)" % cov["unreal"])
    if st["rejected"] > st["known"] and not ctx.violations:
        raise lib.Inconclusive("observations were rejected by TLC but no violation was reported")
    ctx.coverage.update({
        "traces_validated_against_impl": obs_ok + cov["validated"],
        "evaluations": obs_total + cov["replayed"],
        "distinct_nontrivial": len(distinct_a) + len(cov["distinct"]),
        "rule": "part (a): one evaluation = one (labelled dependency DAG with decoration, post-processor mode) run through the real "
                "postprocess.Processor and judged by TLC; non-trivial = the DAG has at least one edge; distinct by (case hash, mode). "
                "part (b): one evaluation = one TLC-generated schedule forced on the real loader and validated by TLC; non-trivial = some "
                "request acts between the prepare and the finish of another one (or a lock probe); distinct by (plan, failing requests, resolver entry point, steps)",
        "part_a": {"reuse_lane_plans": reuse_cases, "cases": cases_total, "observations": obs_total, "accepted": obs_ok, "bounds": n_a, "exhaustive_within_bounds": exhaustive_a},
        "part_b": {"schedules_replayed": cov["replayed"], "traces_accepted": cov["validated"], "distinct_schedules": len(cov["distinct_all"]),
                   "unrealised_schedules": cov["unreal"], "federated_plans": cov.get("fed_plans", [])},
        "samples": (samples + cov["samples"])[:8],
        "invariants_on_traces": ["Inv_DepsRespected", "Inv_SawAllDeps", "guards of FTRun (point order per request, [db] exclusion, hold/unhold)"],
        "exhaustive": (not quick) and exhaustive_a,
    })
    ctx.assumptions += [
        "part (a): flat plans are synthetic (every labelled DAG on <= 4 (quick) / 5 (thorough) fetches); identical requests have identical "
        "dependencies up to identical requests; response-path patterns come from a 6-entry menu and are pruned when the implied nested "
        "dependencies contradict the declared ones (cycle)",
        "part (b): schedules are forced at ld.prepare (before the data lock) and at the data source / RoundTripper; code between two points of "
        "one request is treated as atomic; hand-built plans use SingleFetch requests merging at distinct root fields, plus (family K) "
        "EntityFetch / BatchEntityFetch requests merging into the objects and list elements of their parent; MultiEntityFetch is executed "
        "only in the federated runs",
        "the data lock is observed only through ld.merging..ld.merged and through requests parked inside a [db] section (lock probes)",
        "TLC, the harness fakes, fedenv and the example subgraphs are trusted",
    ]
