"""C20 helper: import v2/pkg/grpctest/testdata/products.graphqls into the spec form (module GQLShapeProducts).

`python3 checks/c20_schema.py` rewrites spec/core/GQLShapeProducts.tla; checks/c20.py regenerates the text on
every run and refuses to continue (INCONCLUSIVE) if the committed module is out of date w.r.t. the SDL in the
tree under test.

Hand-maintained tables (everything else comes from the SDL):
  ROOTS          root fields operations are generated for (all of them are covered by mapping.DefaultGRPCMapping)
  ARG_POOLS      argument values per field with arguments (always sent as variables)
  EXCLUDE        fields never selected (with the reason)
  NONDET         coordinates whose *value* MockService draws from math/rand  -> compared by shape only
  SERVICE_NULL   coordinates where MockService itself delivers no value for a non-null field
"""
import json
import os
import re
import sys

VERIF = os.path.dirname(os.path.dirname(os.path.abspath(__file__)))

ROOTS = {
    "Query": ["users", "user", "nestedType", "recursiveType", "typeFilterWithArguments", "typeWithMultipleFilterFields",
              "complexFilterType", "calculateTotals", "categories", "category", "categoriesByKind", "categoriesByKinds",
              "filterCategories", "randomPet", "allPets", "search", "randomSearchResult", "nullableFieldsType",
              "nullableFieldsTypeById", "allNullableFieldsTypes", "blogPost", "blogPostById", "allBlogPosts", "author",
              "authorById", "allAuthors", "testContainer", "testContainers", "_entities"],
    "Mutation": ["createUser", "performAction"],
}

STORAGE_REP = {
    "__typename": "Storage", "id": "s1", "itemCount": 7, "restockData": {"lastRestockDate": "2024-05-01"},
    "tags": ["red", "green", "blue"], "optionalTags": ["opt1", "opt2"],
    "metadata": {"capacity": 120, "zone": "A", "priority": 2},
    "metadataHistory": [{"capacity": 100, "zone": "A", "priority": 1}, {"capacity": 110, "zone": "B", "priority": 3}],
    "storageKind": "ELECTRONICS", "categoryInfo": {"kind": "BOOK", "name": "Books"},
}
STORAGE_REP2 = dict(STORAGE_REP, id="s2", itemCount=0, tags=["grey"], optionalTags=None, storageKind="OTHER",
                    metadata={"capacity": 5, "zone": "Z", "priority": 9}, metadataHistory=[])

# (Type, field) -> list of argument sets; one argument set = list of (argument name, JSON value[, fixed variable name])
ARG_POOLS = {
    ("Query", "_entities"): [
        [("representations", [{"__typename": "Product", "id": "p1"}, STORAGE_REP, {"__typename": "Product", "id": "p2"}], "representations")],
        [("representations", [STORAGE_REP2, STORAGE_REP], "representations")],
    ],
    ("Query", "user"): [[("id", "1")], [("id", "42")]],
    ("Query", "typeFilterWithArguments"): [[("filterField1", "alpha"), ("filterField2", "beta")]],
    ("Query", "typeWithMultipleFilterFields"): [[("filter", {"filterField1": "x", "filterField2": "y"})]],
    ("Query", "complexFilterType"): [[("filter", {"filter": {"name": "n", "filterField1": "a", "filterField2": "b", "pagination": {"page": 1, "perPage": 5}}})]],
    ("Query", "calculateTotals"): [[("orders", [
        {"orderId": "o1", "customerName": "c1", "lines": [{"productId": "p1", "quantity": 2, "modifiers": ["x", "y"]}, {"productId": "p2", "quantity": 3}]},
        {"orderId": "o2", "customerName": "c2", "lines": []}])]],
    ("Query", "category"): [[("id", "c1")]],
    ("Query", "categoriesByKind"): [[("kind", "BOOK")], [("kind", "ELECTRONICS")]],
    ("Query", "categoriesByKinds"): [[("kinds", ["BOOK", "FURNITURE"])]],
    ("Query", "filterCategories"): [[("filter", {"category": "ELECTRONICS", "pagination": {"page": 1, "perPage": 2}})]],
    ("Query", "search"): [[("input", {"query": "x", "limit": 4})]],
    ("Query", "nullableFieldsTypeById"): [[("id", "full-data")], [("id", "partial-data")], [("id", "minimal-data")], [("id", "not-found")]],
    ("Query", "blogPostById"): [[("id", "simple")], [("id", "complex")], [("id", "not-found")], [("id", "7")]],
    ("Query", "authorById"): [[("id", "minimal")], [("id", "experienced")], [("id", "not-found")], [("id", "7")]],
    ("Query", "testContainer"): [[("id", "t1")]],
    ("Category", "productCount"): [[("filters", {"minPrice": 1.5, "inStock": True})], [("filters", None)]],
    ("Category", "popularityScore"): [[("threshold", 5)], [("threshold", None)]],
    ("Category", "categoryMetrics"): [[("metricType", "popularity_score")], [("metricType", "unavailable")]],
    ("Category", "mascot"): [[("includeVolume", True)], [("includeVolume", False)]],
    ("Category", "categoryStatus"): [[("checkHealth", True)], [("checkHealth", False)]],
    ("Category", "childCategories"): [[("include", True)]],
    ("Category", "optionalCategories"): [[("include", True)], [("include", False)]],
    ("Subcategory", "itemCount"): [[("filters", {"inStock": True, "searchTerm": "t"})]],
    ("CategoryMetrics", "normalizedScore"): [[("baseline", 2.5)]],
    ("CategoryMetrics", "relatedCategory"): [[("include", True)]],
    ("Product", "shippingEstimate"): [[("input", {"destination": "INTERNATIONAL", "weight": 10.5, "expedited": True})]],
    ("Product", "recommendedCategory"): [[("maxPrice", 100)]],
    ("Product", "mascotRecommendation"): [[("includeDetails", True)]],
    ("Product", "stockStatus"): [[("checkAvailability", True)], [("checkAvailability", False)]],
    ("Product", "productDetails"): [[("includeExtended", True)]],
    ("TestContainer", "details"): [[("includeExtended", True)], [("includeExtended", False)]],
    ("Storage", "storageStatus"): [[("checkHealth", True)]],
    ("Storage", "linkedStorages"): [[("depth", 2)]],
    ("Storage", "nearbyStorages"): [[("radius", 3)], [("radius", None)]],
    ("Storage", "tagsByLengths"): [[("lengths", [3, 5])], [("lengths", None)]],
    ("Storage", "filteredTagSummary"): [[("prefix", "r")]],
    ("Storage", "multiFilteredTagSummary"): [[("prefixes", ["r", "g"]), ("maxResults", 1)]],
    ("Storage", "nullableFilteredTagSummary"): [[("prefix", None)], [("prefix", "g")]],
    ("Mutation", "createUser"): [[("input", {"name": "Bob"})]],
    ("Mutation", "performAction"): [[("input", {"type": "error_action", "payload": "p"})], [("input", {"type": "publish", "payload": "p"})]],
}

# never selected, with the reason
EXCLUDE = {
    ("Subcategory", "featuredCategory"): "MockService does not implement ResolveSubcategoryFeaturedCategory",
    # @requires fields whose external inputs are abstract types (representations would need typed sub-objects)
    ("Storage", "itemInfo"): "requires abstract external input", ("Storage", "operationReport"): "requires abstract external input",
    ("Storage", "securitySummary"): "requires abstract external input", ("Storage", "itemHandlerInfo"): "requires abstract external input",
    ("Storage", "itemSpecsInfo"): "requires abstract external input", ("Storage", "deepItemInfo"): "requires abstract external input",
}
# entity types the _entities generator may look up (Warehouse: MockService.LookupWarehouseById deliberately
# returns one entity too few, an error scenario of the repo's own tests)
ENTITY_MEMBERS = ["Product", "Storage"]

# value drawn from math/rand in MockService (grep rand. in v2/pkg/grpctest/mockservice*.go):
#   (root field or "*", parent type, field); the whole subtree below the coordinate is compared by shape only
NONDET = [
    ("randomPet", "Query", "randomPet"),                    # mockservice.go: rand.Intn(2) picks Cat/Dog, rand volume
    ("randomSearchResult", "Query", "randomSearchResult"),  # mockservice.go: rand.Intn(3) picks the member type
    ("createUser", "User", "id"),                           # mockservice.go: user-<rand>
    ("_entities", "Storage", "location"),                   # mockservice_lookup.go: Location <rand>
    ("_entities", "Warehouse", "location"),
    ("createBlogPost", "BlogPost", "id"), ("createAuthor", "Author", "id"),
    ("createNullableFieldsType", "NullableFieldsType", "id"),
]
# MockService leaves these non-null fields unset (protobuf has no null): the datasource can only emit null
SERVICE_NULL = [
    # (root field or "*", parent type, field); found with a full-selection calibration run over every root
    ("*", "RecursiveType", "recursiveType"),   # QueryRecursiveType builds 3 levels
    ("*", "Owner", "pet"),                     # never populated
    # QueryAuthor fills Author.writtenPosts with BlogPosts that lack the nested-list wrappers
    ("author", "BlogPost", "tagGroups"), ("author", "BlogPost", "relatedTopics"),
    ("author", "BlogPost", "commentThreads"), ("author", "BlogPost", "categoryGroups"),
]

SCALARS = ["ID", "String", "Int", "Float", "Boolean"]


def strip_comments(s):
    out = []
    for line in s.splitlines():
        # no string in this SDL contains '#'
        i = line.find("#")
        out.append(line if i < 0 else line[:i])
    return "\n".join(out)


TOKEN = re.compile(r'\s*(?:("(?:[^"\\]|\\.)*")|([A-Za-z_][A-Za-z0-9_]*)|(\.\.\.|[!$()\[\]{}:=|@&]))')


def tokenize(s):
    toks, i = [], 0
    s = s.replace(",", " ")
    while True:
        while i < len(s) and s[i].isspace():
            i += 1
        if i >= len(s):
            return toks
        m = TOKEN.match(s, i)
        if not m:
            raise ValueError("SDL: cannot tokenize at %r" % s[i:i + 30])
        toks.append(m.group(1) or m.group(2) or m.group(3))
        i = m.end()


class P:
    def __init__(self, toks):
        self.t, self.i = toks, 0

    def peek(self):
        return self.t[self.i] if self.i < len(self.t) else None

    def next(self):
        x = self.t[self.i]
        self.i += 1
        return x

    def expect(self, x):
        y = self.next()
        if y != x:
            raise ValueError("SDL: expected %r got %r at %d" % (x, y, self.i))

    def type_ref(self):
        if self.peek() == "[":
            self.next()
            inner = self.type_ref()
            self.expect("]")
            t = {"k": "list", "of": inner}
        else:
            t = {"k": "named", "name": self.next()}
        if self.peek() == "!":
            self.next()
            t = {"k": "nn", "of": t}
        return t

    def value(self):
        x = self.next()
        if x == "[":
            while self.peek() != "]":
                self.value()
            self.next()
        elif x == "{":
            while self.peek() != "}":
                self.next()
                self.expect(":")
                self.value()
            self.next()
        return x

    def directives(self):
        ds = {}
        while self.peek() == "@":
            self.next()
            name = self.next()
            args = {}
            if self.peek() == "(":
                self.next()
                while self.peek() != ")":
                    an = self.next()
                    self.expect(":")
                    args[an] = self.value()
                self.next()
            ds[name] = args
        return ds

    def args_def(self):
        args = []
        if self.peek() == "(":
            self.next()
            while self.peek() != ")":
                an = self.next()
                self.expect(":")
                at = self.type_ref()
                if self.peek() == "=":
                    self.next()
                    self.value()
                self.directives()
                args.append((an, at))
            self.next()
        return args

    def fields(self, with_args=True):
        fs = []
        self.expect("{")
        while self.peek() != "}":
            name = self.next()
            args = self.args_def() if with_args else []
            self.expect(":")
            t = self.type_ref()
            if self.peek() == "=":
                self.next()
                self.value()
            ds = self.directives()
            fs.append({"name": name, "args": args, "type": t, "dirs": ds})
        self.next()
        return fs


def parse_sdl(text):
    p = P(tokenize(strip_comments(text)))
    types = {}
    while p.peek() is not None:
        kw = p.next()
        if kw in ("type", "interface"):
            name = p.next()
            impl = []
            if p.peek() == "implements":
                p.next()
                while p.peek() not in ("{", "@"):
                    x = p.next()
                    if x != "&":
                        impl.append(x)
            ds = p.directives()
            types[name] = {"kind": "OBJECT" if kw == "type" else "INTERFACE", "fields": p.fields(), "implements": impl, "dirs": ds}
        elif kw == "input":
            name = p.next()
            p.directives()
            types[name] = {"kind": "INPUT", "fields": p.fields(with_args=False)}
        elif kw == "union":
            name = p.next()
            p.directives()
            p.expect("=")
            ms = []
            while True:
                if p.peek() == "|":
                    p.next()
                ms.append(p.next())
                if p.peek() != "|":
                    break
            types[name] = {"kind": "UNION", "members": ms}
        elif kw == "enum":
            name = p.next()
            p.directives()
            p.expect("{")
            vs = []
            while p.peek() != "}":
                vs.append(p.next())
                p.directives()
            p.next()
            types[name] = {"kind": "ENUM", "values": vs}
        elif kw == "scalar":
            name = p.next()
            p.directives()
            types[name] = {"kind": "SCALAR"}
        elif kw == "directive":
            p.expect("@")
            p.next()
            p.args_def()
            if p.peek() == "repeatable":
                p.next()
            p.expect("on")
            while True:
                if p.peek() == "|":
                    p.next()
                p.next()
                if p.peek() != "|":
                    break
        else:
            raise ValueError("SDL: unexpected %r" % kw)
    for s in SCALARS:
        types.setdefault(s, {"kind": "SCALAR"})
    return types


def type_str(t):
    if t["k"] == "nn":
        return type_str(t["of"]) + "!"
    if t["k"] == "list":
        return "[" + type_str(t["of"]) + "]"
    return t["name"]


def named_of(t):
    return t["name"] if t["k"] == "named" else named_of(t["of"])


def tla_str(s):
    return json.dumps(s)


def tla_type(t):
    if t["k"] == "named":
        return '[k |-> "named", name |-> %s]' % tla_str(t["name"])
    return '[k |-> "%s", of |-> %s]' % (t["k"], tla_type(t["of"]))


def tla_fun(pairs, indent="  "):
    """( "a" :> x @@ "b" :> y ) -- works for any key spelling (e.g. _Entity)"""
    if not pairs:
        return "<<>>"
    return "(" + ("\n%s@@ " % indent).join("%s :> %s" % (tla_str(k), v) for k, v in pairs) + ")"


def tla_seq(items):
    return "<<" + ", ".join(items) + ">>"


def tla_set(items):
    return "{" + ", ".join(items) + "}"


def possible(types, name):
    t = types[name]
    if t["kind"] == "OBJECT":
        return [name]
    if t["kind"] == "UNION":
        return list(t["members"])
    if t["kind"] == "INTERFACE":
        return [n for n, x in types.items() if x["kind"] == "OBJECT" and name in x.get("implements", [])]
    return []


def gen_fields(types, tn):
    """generatable fields of an object/interface type, in SDL order"""
    out = []
    for f in types[tn].get("fields", []):
        key = (tn, f["name"])
        if key in EXCLUDE or "external" in f["dirs"]:
            continue
        if tn in ROOTS:
            if f["name"] not in ROOTS[tn]:
                continue
        if f["args"] and key not in ARG_POOLS:
            continue
        out.append(f["name"])
    return out


def entity_fed(types):
    fed = []
    for tn in ENTITY_MEMBERS:
        key = types[tn]["dirs"].get("key", {}).get("fields", '"id"')
        fed.append({"type": tn, "field": "", "sel": json.loads(key)})
        for f in types[tn]["fields"]:
            if "requires" in f["dirs"] and (tn, f["name"]) not in EXCLUDE:
                fed.append({"type": tn, "field": f["name"], "sel": json.loads(f["dirs"]["requires"]["fields"])})
    return fed


def generate(sdl_text):
    types = parse_sdl(sdl_text)
    comp = [n for n, t in types.items() if t["kind"] in ("OBJECT", "INTERFACE", "UNION")]
    lines = []
    a = lines.append
    a("-------------------------- MODULE GQLShapeProducts --------------------------")
    a("(* GENERATED by checks/c20_schema.py from v2/pkg/grpctest/testdata/products.graphqls -- do not edit. *)")
    a("(* The GraphQL schema served by grpctest.MockService through mapping.DefaultGRPCMapping, in the   *)")
    a("(* table form used by GQLShape, plus the generation tables (roots, argument pools, exclusions).    *)")
    a("EXTENDS TLC")
    a("")
    kinds = [(n, tla_str(t["kind"])) for n, t in types.items() if t["kind"] != "INPUT"]
    a("TypeKind ==\n  " + tla_fun(kinds))
    a("")
    a("\\* possible runtime object types of a composite type")
    a("Possible ==\n  " + tla_fun([(n, tla_set([tla_str(m) for m in possible(types, n)])) for n in comp]))
    a("")
    a("MemberSeqOf ==\n  " + tla_fun([(n, tla_seq([tla_str(m) for m in possible(types, n)])) for n in comp]))
    a("")
    a("EnumValues ==\n  " + tla_fun([(n, tla_set([tla_str(v) for v in t["values"]])) for n, t in types.items() if t["kind"] == "ENUM"]))
    a("")
    ft = []
    for n in comp:
        fs = types[n].get("fields", [])
        if fs:
            ft.append((n, tla_fun([(f["name"], tla_type(f["type"])) for f in fs], indent="       ")))
    a("\\* declared type of every field (all fields of the SDL, selected or not)")
    a("FieldType ==\n  " + tla_fun(ft))
    a("")
    gf = []
    for n in comp:
        if types[n]["kind"] == "UNION":
            gf.append((n, "<<>>"))
        else:
            gf.append((n, tla_seq([tla_str(x) for x in gen_fields(types, n)])))
    a("\\* fields the generator may select (covered by the mapping, argument pool available, not @external)")
    a("GenFields ==\n  " + tla_fun(gf))
    a("")
    gm = []
    for n in comp:
        ms = possible(types, n) if types[n]["kind"] != "OBJECT" else []
        if n == "_Entity":
            ms = list(ENTITY_MEMBERS)
        gm.append((n, tla_seq([tla_str(m) for m in ms])))
    a("\\* type conditions the generator may use under an abstract type")
    a("GenMembers ==\n  " + tla_fun(gm))
    a("")
    pools = {}
    for (tn, fn), sets in sorted(ARG_POOLS.items()):
        fdef = next(f for f in types[tn]["fields"] if f["name"] == fn)
        atypes = dict(fdef["args"])
        tsets = []
        for s in sets:
            targs = []
            for arg in s:
                an, val = arg[0], arg[1]
                var = arg[2] if len(arg) > 2 else ""
                targs.append('[name |-> %s, type |-> %s, var |-> %s, val |-> %s, str |-> %s]' % (
                    tla_str(an), tla_str(type_str(atypes[an])), tla_str(var), tla_str(json.dumps(val, separators=(",", ":"))),
                    tla_str(val if isinstance(val, str) else "")))
            tsets.append(tla_seq(targs))
        pools.setdefault(tn, []).append((fn, tla_seq(tsets)))
    a("\\* argument sets per field with arguments: ArgPool[type][field] = sequence of argument sets; val = JSON text,")
    a("\\* str = the value itself if it is a string / enum value (used by the data rules of GQLShapeData), else \"\"")
    a("ArgPool ==\n  " + tla_fun([(tn, tla_fun(fs, indent="       ")) for tn, fs in pools.items()]))
    a("HasArgs ==\n  " + tla_fun([(n, tla_set([tla_str(f["name"]) for f in types[n].get("fields", []) if f["args"] and (n, f["name"]) in ARG_POOLS])) for n in comp]))
    a("")
    a("\\* @requires fields: resolved from the representations, only selectable directly in an entity fragment")
    a("RequiresFields ==\n  " + tla_fun([(n, tla_set([tla_str(f["name"]) for f in types[n].get("fields", []) if "requires" in f["dirs"]])) for n in comp]))
    a("")
    a("QueryRoots == " + tla_seq([tla_str(x) for x in ROOTS["Query"]]))
    a("MutationRoots == " + tla_seq([tla_str(x) for x in ROOTS["Mutation"]]))
    a("")
    fed = entity_fed(types)
    a("\\* plan.FederationFieldConfigurations handed to the datasource for _entities operations (keys + @requires)")
    a("EntityFed == " + tla_seq(['[type |-> %s, field |-> %s, sel |-> %s]' % (tla_str(f["type"]), tla_str(f["field"]), tla_str(f["sel"])) for f in fed]))
    a("")
    a("\\* value-nondeterministic coordinates (MockService uses math/rand): compared by shape only")
    a("NonDet == " + tla_set(["<<%s, %s, %s>>" % tuple(tla_str(x) for x in c) for c in NONDET]))
    a("\\* non-null fields MockService leaves unset")
    a("ServiceNull == " + tla_set(["<<%s, %s, %s>>" % tuple(tla_str(x) for x in c) for c in SERVICE_NULL]))
    a("=============================================================================")
    return "\n".join(lines) + "\n"


def sdl_path(repo):
    return os.path.join(repo, "v2", "pkg", "grpctest", "testdata", "products.graphqls")


if __name__ == "__main__":
    repo = os.environ.get("VERIF_REPO", "/repo")
    with open(sdl_path(repo)) as f:
        text = generate(f.read())
    out = os.path.join(VERIF, "spec", "core", "GQLShapeProducts.tla")
    with open(out, "w") as f:
        f.write(text)
    print("wrote", out, len(text), "bytes")
