"""C19 — WebSocket server obeys graphql-ws / graphql-transport-ws on any message sequence.

Pipeline (design.d/C19.md):
  1. TLC model-checks the protocol acceptors (spec/conc/WSServerTransportWS.tla, WSServerGraphQLWS.tla) composed with
     a concurrent reference server and every client sequence / engine interleaving of the small configuration
     (MC_WSServer): the acceptor never rejects the reference server, no deadlock, every obligation is discharged.
     Negative control: the model of the code as it is ("pinned") must be rejected.
  2. TLC generates schedules (Gen_WSServer): client message sequences over the protocol alphabet interleaved with
     engine events and the init timeout; BFS = every schedule with <= 3 client messages, -simulate for 4-5.
  3. harness/cmd/wsserver replays every schedule into the real websocket.HandleWithOptions /
     UniversalProtocolHandler / ExecutorEngine (scripted TransportClient, or the real Client + frame codec over a
     scripted net.Conn; gated executors) and records inputs, outputs, close codes, engine events.
  4. TLC runs every recorded log through the acceptors (Trace_WSServer) and prints the verdict per trace.
"""
import concurrent.futures
import json
import os
import random
import re
import shutil

import lib

PROPS = {"OutputAllowed": "OutputAllowed", "CloseCode": "OutputAllowed (prescribed close code)", "NoStartBeforeInit": "NoStartBeforeInit",
         "OneTerminal": "OneTerminal", "NothingAfterTerminal": "NothingAfterTerminal", "NeverWedged": "NeverWedged",
         "NoPanic": "NeverWedged (no crash)"}
VARIANTS = {"init": 3, "initrej": 2, "ping": 2, "unknown": 3, "malformed": 6, "binary": 3, "subbad": 8,
            "readerr": 7}   # readerr (conn mode): 0 = the transport fails the read, 1-6 = corrupt but aligned frames through the real codec
FRAGS = [2, 3, 12, 13]      # conn mode: message sent as 2/3 fragments (+10: a WebSocket ping control frame in between)
END = {"ev": "end", "a": "", "id": "", "k": 0, "n": 0, "code": 0}


def own_findings():
    # C19_FINDINGS: an alternative fragment (used to try findings.d/C19.json.after-fix against a worktree with the fixes)
    p = os.environ.get("C19_FINDINGS") or os.path.join(lib.VERIF, "findings.d", "C19.json")
    try:
        with open(p) as f:
            return json.load(f)
    except FileNotFoundError:
        return []


def fixes_in_code():
    """Which repairs the code under test has = the defects whose entries in the findings fragment are `fixed`.
    The generator's model of the code (WSServerImpl, Impl = "pinned", constant Fixes) follows it, so that the
    generated schedules stay realisable; the acceptors do not change."""
    st = {}
    for k in own_findings():
        d = k.get("defect")
        if d:
            st.setdefault(d, set()).add(k.get("status"))
    return sorted(d for d, v in st.items() if v == {"fixed"} and d in ("D8a", "D8b", "F4", "F5"))


def gen_cfg_dir(ctx, fixes):
    """Copies of the generator configurations with Fixes set (later spec dirs override earlier ones in ctx.tlc)."""
    d = ctx.path("gencfg")
    os.makedirs(d, exist_ok=True)
    val = "{%s}" % ", ".join('"%s"' % f for f in fixes)
    src = os.path.join(lib.SPEC, "conc")
    for fn in os.listdir(src):
        if fn.startswith("Gen_WSServer_") and fn.endswith(".cfg"):
            with open(os.path.join(src, fn)) as f:
                txt = f.read()
            with open(os.path.join(d, fn), "w") as f:
                f.write(re.sub(r"Fixes = \{[^}]*\}", "Fixes = " + val, txt))
    return d


def norm_last(last):
    if last.startswith("in.sub"):
        return "in.sub"
    if last.startswith("in.comp"):
        return "in.comp"
    return last


def finding_key(proto, v):
    # protocol : state of the operation the last environment event refers to : reason : detail : last environment event
    return "%s:%s:%s:%s:%s" % (proto, v["ctx"] or "-", v["bad"], v["det"], norm_last(v["last"]))


def make_case(cid, proto, mode, steps, rng=None):
    out = []
    for s in steps:
        s = dict(s)
        s["v"] = 0
        if rng is not None and proto == "gws" and s["t"] == "in" and s["sym"] == "ping":
            s["sym"] = rng.choice(["ping", "pong", "unknown", "binary"])   # all alike for graphql-ws; the generator uses one
        if rng is not None and s["t"] == "in" and s["sym"] in VARIANTS:
            s["v"] = rng.randrange(VARIANTS[s["sym"]])
        if rng is not None and mode == "conn" and s["t"] == "in" and s["sym"] != "readerr" and rng.random() < 0.3:
            s["frag"] = rng.choice(FRAGS)
        out.append(s)
    if any(s.get("hold") for s in out):
        mode = "tc"   # the write gate sits in the scripted TransportClient
    return {"id": cid, "proto": proto, "mode": mode, "steps": out}


def v2_steps(steps):
    """The schedule as it can be realised with the REAL ExecutorV2 on a tiny engine (static Query.hello, no Subscription
    type): a query delivers `result` (valid document) or `error` (invalid document, wire variant 1); every round of a
    subscription fails.  None if the schedule needs anything else (scripted data, a held write)."""
    out = [dict(s, v=0) for s in steps]
    kinds = {}
    for i, s in enumerate(out):
        if s["t"] == "in" and (s["sym"].startswith("sub") or s["sym"] == "missingid"):
            kinds[i + 1] = "s" if s["sym"] in ("sub1s", "sub2s", "sub2ds") else "q"
    first = {}
    for s in out:
        if s.get("hold") or s["t"] in ("release", "broken", "tick", "initgo") or s.get("sym") in ("subbad", "initslow"):
            return None
        if s["t"] == "eng":
            if s["what"] == "qflush":
                return None
            kd = kinds.get(s["k"])
            if kd is None or (kd == "s" and s["what"] != "error"):
                return None
            if kd == "q":
                first.setdefault(s["k"], s["what"])
    for k, what in first.items():
        if what == "error" and out[k - 1]["sym"] == "sub1dq":
            return None      # the two-operation document is valid: its query cannot be made to fail
        out[k - 1]["v"] = 1 if what == "error" else 0
    return out


def sig(case):
    return lib.sha([case["proto"], case["mode"], [(s["t"], s.get("sym"), s.get("v"), s.get("id"), s.get("k"), s.get("what"), s.get("hold"), s.get("frag")) for s in case["steps"]]])


def nontrivial(case):
    ins = [s for s in case["steps"] if s["t"] == "in"]
    return len(ins) >= 2 and (any(s["t"] != "in" for s in case["steps"]) or len({s["sym"] for s in ins}) >= 2)


def replay_chunk(ctx, binary, idx, cases, env=None):
    """Run one chunk in a child process. A crash of a goroutine inside the code under test kills the child:
    the crashing case is reported and the rest of the chunk is run in a fresh process."""
    cp = ctx.path("cases-%03d.ndjson" % idx)
    ep = ctx.path("events-%03d.ndjson" % idx)
    rp = ctx.path("results-%03d.ndjson" % idx)
    lib.write_ndjson(cp, cases)
    for p in (ep, rp):
        if os.path.exists(p):
            os.remove(p)
    crashes = []
    skip = 0
    for _ in range(20):
        p = ctx.run_bin(binary, ["-in", cp, "-out", ep, "-res", rp, "-skip", str(skip)], timeout=3000, check=False, env=env)
        if p.returncode == 0:
            break
        marks = re.findall(r"^CASE (\d+) (\S+)$", p.stderr, re.M)
        if not marks:
            print(p.stderr[-3000:])
            raise lib.Inconclusive("harness wsserver exited %d without having started a case" % p.returncode)
        n, cid = int(marks[-1][0]), marks[-1][1]
        tail = p.stderr[p.stderr.rfind("CASE %d " % n):]
        crashes.append((cid, tail[:4000]))
        skip = n
        if skip >= len(cases):
            break
    return ep, rp, crashes


def validate_chunk(ctx, idx, ep):
    with open(ep, "a") as f:
        f.write(json.dumps(END) + "\n")
    r = ctx.tlc("conc", "Trace_WSServer", "Trace_WSServer.cfg", workers=1, env={"TRACE": ep}, timeout=2400, deadlock=False,
                count=False, tag="trace-validation-%03d" % idx, heap="3g")
    if not r.ok:
        print(r.out[-3000:])
        raise lib.Inconclusive("trace validation did not run to the end of the log (%s) - harness/validator problem, not a verdict" % (r.error or r.violated))
    return r.printed


def binding_selfcheck(ctx, rows):
    """Drop / corrupt events of a real accepted trace: the validator must reject every tampered copy."""
    def variant(name, f):
        out = [dict(rows[0], id=name)]
        out += f([dict(r) for r in rows[1:]])
        return out
    def drop_ack(rs):
        i = next(i for i, r in enumerate(rs) if r["ev"] == "out" and r["a"] == "connection_ack")
        return rs[:i] + rs[i + 1:]
    def wrong_code(rs):
        for r in rs:
            if r["ev"] == "close":
                r["code"] = 4400 if r["code"] != 4400 else 4401
        return rs
    def drop_close(rs):
        return [r for r in rs if r["ev"] != "close"]
    def dup_terminal(rs):
        i = max(i for i, r in enumerate(rs) if r["ev"] == "out" and r["a"] == "complete")
        return rs[:i + 1] + [dict(rs[i])] + rs[i + 1:]
    def swap(rs):
        i = next(i for i, r in enumerate(rs) if r["ev"] == "out" and r["a"] in ("next", "data"))
        rs[i], rs[i + 1] = rs[i + 1], rs[i]
        return rs
    tampered = [variant("orig", lambda rs: rs), variant("drop-ack", drop_ack), variant("dup-terminal", dup_terminal), variant("swap", swap)]
    if any(r["ev"] == "close" for r in rows):
        tampered += [variant("wrong-code", wrong_code), variant("drop-close", drop_close)]
    p = ctx.path("selfcheck.ndjson")
    lib.write_ndjson(p, [r for t in tampered for r in t])
    verdicts = {v["id"]: v for v in validate_chunk(ctx, 999, p)}
    if verdicts["orig"]["bad"]:
        raise lib.Inconclusive("binding self-check: the untampered trace is rejected")
    for t in tampered[1:]:
        name = t[0]["id"]
        if not verdicts[name]["bad"]:
            raise lib.Inconclusive("binding self-check: the validator accepted a tampered trace (%s)" % name)
    return [t[0]["id"] for t in tampered[1:]]


def run(ctx):
    rng = random.Random(ctx.seed)
    quick = ctx.quick()
    # known findings: this property's own fragment is authoritative for its keys (the coordinator merges it into
    # known-findings.json / swaps it for the .after-fix variant when the repairs are committed)
    own = own_findings()
    own_keys = {k.get("key") for k in own}
    known = [k for k in ctx.known() if not (k.get("property") == "C19" and k.get("key") in own_keys)] + own
    ctx._known = known
    fixes = fixes_in_code()
    gdirs = ["conc", gen_cfg_dir(ctx, fixes)]
    if fixes:
        ctx.log("the code under test is modelled with the repairs %s" % fixes)
    built = ctx.build("wsserver")
    # private copy: other checks / mutant runs clean the shared build directories while this one is running
    binary = ctx.path("wsserver-bin")
    shutil.copy(built, binary)
    os.chmod(binary, 0o755)

    if ctx.replay_in:
        with open(ctx.replay_in) as f:
            rep = json.load(f)
        cases = [rep["case"]["case"]]
        return replay_and_judge(ctx, binary, cases, 1, single=True)

    # ---- 1. model checking ------------------------------------------------------------------------
    # the reference server with and without the echo of a client complete (quick: the echoing one, which is what the code does)
    mcs = ["tws_echo", "gws_echo"] if quick else ["tws_echo", "tws_noecho", "gws_echo", "gws_noecho"]
    with concurrent.futures.ThreadPoolExecutor(max_workers=6) as ex:
        futs = {c: ex.submit(ctx.tlc, "conc", "MC_WSServer", "MC_WSServer_%s.cfg" % c, workers=(5 if c.startswith("gws") else 2), timeout=1500,
                             tag="mc-" + c) for c in mcs}
        negs = {c: ex.submit(ctx.tlc, "conc", "MC_WSServer", "MC_WSServer_%s_pinned.cfg" % c, workers=2, timeout=600, count=False,
                             tag="mc-negative-" + c) for c in ("tws", "gws")}
        gens = {p: ex.submit(ctx.tlc, gdirs, "Gen_WSServer", "Gen_WSServer_%s_3.cfg" % p, workers=2, timeout=900, deadlock=False,
                             tag="gen-%s-3" % p) for p in ("tws", "gws")}
        gensx = {p: ex.submit(ctx.tlc, gdirs, "Gen_WSServer", "Gen_WSServer_%s_x.cfg" % p, workers=2, timeout=900, deadlock=False,
                              tag="gen-%s-x" % p) for p in ("tws", "gws")}
        for c, f in futs.items():
            r = f.result()
            if not r.ok:
                print(r.out[-4000:])
                raise lib.Inconclusive("TLC did not pass on MC_WSServer_%s (%s) - model-level problem, not a verdict about the code" % (c, r.error))
        for c, f in negs.items():
            r = f.result()
            if r.violated != "NothingAfterTerminal":
                raise lib.Inconclusive("sanity: the acceptor should reject the pinned server model (%s), got %r" % (c, r.error))
        gen3 = {p: f.result() for p, f in gens.items()}
        genx = {p: f.result() for p, f in gensx.items()}
    if not quick:
        # a larger configuration of the reference server (4 client messages, 3 engine events)
        with concurrent.futures.ThreadPoolExecutor(max_workers=2) as ex:
            fs = [ex.submit(ctx.tlc, "conc", "MC_WSServer", "MC_WSServer_%s_echo_4.cfg" % p, workers=6, timeout=2400, tag="mc-%s-echo-4" % p)
                  for p in ("tws", "gws")]
            for f in fs:
                r = f.result()
                if not r.ok:
                    print(r.out[-4000:])
                    raise lib.Inconclusive("TLC did not pass on the larger MC_WSServer configuration (%s)" % r.error)

    # ---- 2. generate ----------------------------------------------------------------------------------
    cases = []
    exhaustive = {}
    for p in ("tws", "gws"):
        r = gen3[p]
        if not r.ok:
            print(r.out[-3000:])
            raise lib.Inconclusive("generator Gen_WSServer_%s_3 failed: %s" % (p, r.error))
        uniq = {}
        for b in r.printed:
            uniq[lib.sha(b["steps"])] = b["steps"]
        scheds = [uniq[k] for k in sorted(uniq)]
        exhaustive[p] = len(scheds)
        # schedules that end with a transport broken for good cost a read-error time-out (150ms) each
        # schedules with a timer step (keep-alive tick: <= 60ms; slow InitFunc raced by the init timeout: 400ms) are sampled too
        def timed(x):
            return any(y["t"] == "tick" or y.get("sym") == "initslow" for y in x)
        tim = [x for x in scheds if timed(x) and x[-1]["t"] != "broken"]
        scheds = [x for x in scheds if not timed(x) or x[-1]["t"] == "broken"]
        rng.shuffle(tim)
        tim = tim[:(300 if quick else 6000)]
        bro = [x for x in scheds if x[-1]["t"] == "broken"]
        bro_re = [x for x in bro if any(y.get("sym") == "readerr" for y in x)]     # read error, ..., persistent read errors
        bro_other = [x for x in bro if not any(y.get("sym") == "readerr" for y in x)]
        scheds = [x for x in scheds if x[-1]["t"] != "broken"]
        rng.shuffle(bro_re)
        rng.shuffle(bro_other)
        if quick:
            bro = bro_re[:120] + bro_other[:40]
        else:
            bro = (bro_re + bro_other) if p == "tws" else (bro_re + bro_other[:3000])
        if quick and p == "gws":
            # the legacy protocol never closes: 15^3 message sequences x engine interleavings; quick takes a seed-selected part,
            # biased to the schedules with <= 1 engine event
            small = [x for x in scheds if sum(1 for y in x if y["t"] == "eng") <= 1]
            rest = [x for x in scheds if sum(1 for y in x if y["t"] == "eng") > 1]
            rng.shuffle(small)
            rng.shuffle(rest)
            scheds = small[:4800] + rest[:1200]
        if not quick and p == "gws" and len(scheds) > 80000:
            # thorough budget (<= ~30 min): the legacy protocol's <= 3-message family (~190k schedules) is sampled by seed;
            # graphql-transport-ws <= 3 messages stays exhaustive
            rng.shuffle(scheds)
            scheds = scheds[:80000]
        ctx.log("%s: %d schedules with <= 3 client messages generated, %d + %d (broken transport) + %d (timer steps) replayed" % (
            p, exhaustive[p], len(scheds), len(bro), len(tim)))
        for i, st in enumerate(scheds + bro + tim):
            cases.append(make_case("%s-x-%06d" % (p, i), p, "tc", st))
        # every payload shape of an undeserializable subscribe (missing, string, array, number, null, {} ...), before and after init
        sb = [x for x in scheds if any(y.get("sym") == "subbad" for y in x)]
        if quick:
            sb = sorted(sb, key=len)[:150]
        nsb = 0
        for i, st in enumerate(sb):
            for v in range(1, VARIANTS["subbad"]):
                c = make_case("%s-b-%06d-%d" % (p, i, v), p, "tc" if (i + v) % 2 else "conn", st)
                for y in c["steps"]:
                    if y.get("sym") == "subbad":
                        y["v"] = v
                cases.append(c)
                nsb += 1
        # targeted configuration: the two-operation document (operation selected by operationName) and queries that flush a
        # chunk before their result, next to / after subscriptions
        r = genx[p]
        if not r.ok:
            print(r.out[-3000:])
            raise lib.Inconclusive("generator Gen_WSServer_%s_x failed: %s" % (p, r.error))
        ux = {}
        for b in r.printed:
            ux[lib.sha(b["steps"])] = b["steps"]
        xs = [ux[k] for k in sorted(ux)]
        def subs_then_flush(x):
            seen = False
            for y in x:
                if y["t"] == "in" and y["sym"] in ("sub1s", "sub2ds"):
                    seen = True
                if y["t"] == "eng" and y["what"] == "qflush" and seen:
                    return True
            return False
        def writer_reused(x):
            """a stopped subscription's goroutine has ended (its pooled result writer is back in the pool) before the
            flushing query starts"""
            kinds = {i + 1: y["sym"] for i, y in enumerate(x) if y["t"] == "in"}
            for y in x:
                if y["t"] == "eng" and y["what"] == "qflush":
                    start = y["k"]          # index (1-based) of the subscribe that created the flushing query
                    stopped = set()
                    for i, z in enumerate(x[:start - 1]):
                        if z["t"] == "in" and z["sym"] == "comp1":
                            stopped.add("1")
                        if z["t"] == "eng" and z["what"] in ("fin", "error") and kinds.get(z["k"]) in ("sub1s",) and "1" in stopped:
                            return True
            return False
        xf = sorted([x for x in xs if subs_then_flush(x)], key=lambda x: not writer_reused(x))
        nre = sum(1 for x in xf if writer_reused(x))
        head, tail = xf[:nre], xf[nre:]
        rng.shuffle(head)
        rng.shuffle(tail)
        xf = head[:(400 if quick else len(head))] + tail
        xd = [x for x in xs if not any(y.get("what") == "qflush" for y in x) and
              {"sub1dq", "sub2ds"} <= {y.get("sym") for y in x}]
        rng.shuffle(xd)
        if quick:
            xf, xd = xf[:700], xd[:400]
        for i, st in enumerate(xf):
            c = make_case("%s-f-%06d" % (p, i), p, "tc", st)
            c["pool1"] = True     # run with one P and no GC: the engine's pooled result writers are re-used deterministically
            cases.append(c)
        nd = 0
        for i, st in enumerate(xd):
            cases.append(make_case("%s-d-%06d" % (p, i), p, "tc", st))
            v2s = v2_steps(st)
            if v2s is not None and any(y["t"] == "eng" for y in v2s):
                cases.append({"id": "%s-w-%06d" % (p, i), "proto": p, "mode": "v2", "steps": v2s})
                nd += 1
        ctx.log("%s: %d subscribe-payload cases, %d flush-after-subscription schedules (of %d; pooled writer re-used in %d), %d two-operation-document schedules (%d with "
                "the real ExecutorV2)" % (p, nsb, len(xf), len([x for x in xs if subs_then_flush(x)]), nre, len(xd), nd))
        # the same schedules over the real frame codec, with seed-chosen wire variants of the symbols
        conn = scheds if p == "tws" else rng.sample(scheds, min(len(scheds), 1500 if quick else 20000))
        conn = conn + (bro[:60] if quick else bro[:2000]) + (tim[:100] if quick else tim[:2000])
        for i, st in enumerate(conn):
            cases.append(make_case("%s-c-%06d" % (p, i), p, "conn", st, rng))
        # the schedules the real ExecutorV2 can realise (gated, not scripted): the same acceptor judges them
        v2 = [x for x in (v2_steps(st) for st in scheds) if x is not None and any(y["t"] == "eng" for y in x)]
        if quick and len(v2) > 1000:
            v2 = rng.sample(v2, 1000)
        for i, st in enumerate(v2):
            cases.append({"id": "%s-v-%06d" % (p, i), "proto": p, "mode": "v2", "steps": st})
        ctx.log("%s: %d schedules replayed with the real ExecutorV2" % (p, len(v2)))
        # longer sequences (4-5 client messages, <= 3 engine events): sampled
        num = (3000 if quick else 30000)
        g5 = ctx.tlc(gdirs, "Gen_WSServer", "Gen_WSServer_%s_5.cfg" % p, workers=1, simulate=num, depth=9, seed=ctx.seed, timeout=1800,
                     deadlock=False, tag="gen-%s-5-simulate" % p)
        if not g5.ok:
            print(g5.out[-3000:])
            raise lib.Inconclusive("generator Gen_WSServer_%s_5 (-simulate) failed: %s" % (p, g5.error))
        uniq5 = {}
        for b in g5.printed:
            if sum(1 for x in b["steps"] if x["t"] == "in") >= 4:
                uniq5[lib.sha(b["steps"])] = b["steps"]
        long = [uniq5[k] for k in sorted(uniq5)]
        rng.shuffle(long)
        slow = [x for x in long if x[-1]["t"] == "broken"][:(40 if quick else 3000)]
        long = [x for x in long if x[-1]["t"] != "broken"]
        long = long[:(900 if quick else 20000)] + slow
        ctx.log("%s: %d distinct sampled schedules with 4-5 client messages" % (p, len(long)))
        for i, st in enumerate(long):
            cases.append(make_case("%s-s-%06d" % (p, i), p, "tc" if i % 2 == 0 else "conn", st, rng))
    if not quick:
        # graphql-transport-ws: every schedule with <= 4 client messages and <= 2 engine events
        g4 = ctx.tlc(gdirs, "Gen_WSServer", "Gen_WSServer_tws_4.cfg", workers=6, timeout=1800, deadlock=False, tag="gen-tws-4")
        if not g4.ok:
            raise lib.Inconclusive("generator Gen_WSServer_tws_4 failed: %s" % g4.error)
        uniq = {}
        for b in g4.printed:
            if sum(1 for x in b["steps"] if x["t"] == "in") == 4:
                uniq[lib.sha(b["steps"])] = b["steps"]
        exhaustive["tws4"] = len(uniq)
        keys4 = sorted(uniq)
        if len(keys4) > 80000:
            rng.shuffle(keys4)
            keys4 = sorted(keys4[:80000])
            exhaustive["tws4_replayed_sample"] = len(keys4)
        for i, k in enumerate(keys4):
            cases.append(make_case("tws-y-%06d" % i, "tws", "tc", uniq[k]))
        ctx.log("tws: %d schedules with exactly 4 client messages" % len(uniq))

    nproc = 8
    replay_and_judge(ctx, binary, cases, nproc)
    ctx.coverage["exhaustive_schedule_counts"] = exhaustive
    ctx.coverage["exhaustive"] = False  # tws <= 3 messages is exhaustive in both tiers; the larger families are seed-selected samples
    ctx.assumptions += [
        "the environment is sequential: one client message / engine event / timeout at a time, the next one only after the observable "
        "completion marker of the previous one (handler reads again, executor back at its gate or returned to the pool); finer "
        "interleavings of the handler and operation goroutines are covered by the model only",
        "executors are harness fakes that ignore cancellation until told (an event 'in flight' when the client completes the operation); "
        "at most one such event per cancelled execution",
        "keep-alive / heartbeat intervals are set to 1h (no timer-driven output), the subscription poll interval to 1ms, the init timeout to "
        "400ms in schedules with a timeout step (1h otherwise)",
        "graphql-ws connection_terminate is not in the alphabet; read errors are injected below the frame codec (no corrupt frame bytes); the read-error "
        "time-out is 150ms in schedules with a broken transport (1h otherwise), the graphql-ws keep-alive 3ms in schedules with a refused init",
    ]


def replay_and_judge(ctx, binary, cases, nproc, single=False):
    by_id = {c["id"]: c for c in cases}
    # ---- 3. replay ------------------------------------------------------------------------------------
    # interleave the cases over the chunks so that slow ones (timeout steps) are spread evenly
    nchunks = max(1, min(nproc, len(cases) // 50 + 1))
    limit = 6000   # cases per TLC validation run
    while (len(cases) + nchunks - 1) // nchunks > limit:
        nchunks += nproc
    pool1 = [c for c in cases if c.get("pool1")]
    rest = [c for c in cases if not c.get("pool1")]
    chunks = [rest[i::nchunks] for i in range(nchunks)]
    envs = [None] * len(chunks)
    if pool1:
        k1 = max(1, min(4, len(pool1) // 200 + 1))
        chunks += [pool1[i::k1] for i in range(k1)]
        envs += [{"GOMAXPROCS": "1", "GOGC": "off"}] * k1
    results = {}
    verdicts = {}
    crashes = []
    eps = []
    with concurrent.futures.ThreadPoolExecutor(max_workers=nproc) as ex:
        futs = [ex.submit(replay_chunk, ctx, binary, i, ch, envs[i]) for i, ch in enumerate(chunks)]
        for f in futs:
            ep, rp, cr = f.result()
            eps.append(ep)
            crashes += cr
            for r in lib.read_ndjson(rp):
                results[r["id"]] = r
    # a case in which a completion marker did not arrive in time is run once more, alone (the box may just be overloaded);
    # only what the second run shows counts ("reproducibly never returns")
    again = [by_id[i] for i, r in results.items() if r["wedged"]]
    unjudged = set()
    if again and not single:
        rerun = again[:64]
        unjudged = {c["id"] for c in again[64:]}      # not run twice => not judged (counted in the notes)
        ctx.log("%d cases with a late completion marker: %d are run again, %d left unjudged" % (len(again), len(rerun), len(unjudged)))
        k = max(1, min(nproc, len(rerun) // 8 + 1))
        with concurrent.futures.ThreadPoolExecutor(max_workers=k) as ex:
            futs = [ex.submit(replay_chunk, ctx, binary, 900 + i, rerun[i::k]) for i in range(k)]
            for f in futs:
                ep, rp, cr = f.result()
                eps.append(ep)
                crashes += cr
                for r in lib.read_ndjson(rp):
                    results[r["id"]] = r
        if unjudged:
            ctx.notes.append("%d cases with a late completion marker were not re-run and are not judged" % len(unjudged))
    # ---- 4. validate --------------------------------------------------------------------------------------
    first_rows = None
    with concurrent.futures.ThreadPoolExecutor(max_workers=nproc) as ex:
        futs = [ex.submit(validate_chunk, ctx, i, ep) for i, ep in enumerate(eps)]
        for f in futs:   # in order: the verdicts of the re-run chunk (last) replace the first ones
            for v in f.result():
                verdicts[v["id"]] = v
    # ---- verdicts ---------------------------------------------------------------------------------------------
    if len(crashes) > 3:
        ctx.log("%d cases crashed the server process; the first 3 are reported" % len(crashes))
    for cid, tail in crashes[:3]:
        c = by_id[cid]
        m = re.search(r"^(panic: .*|fatal error: .*)$", tail, re.M)
        ctx.violation("%s:panic:%s" % (c["proto"], (m.group(1) if m else "crash")[:80]),
                      "the server process crashed while handling case %s: %s" % (cid, (m.group(1) if m else tail[-300:])),
                      {"case": c, "stderr": tail})
    per_key = {}
    unreal = 0
    wedged = 0
    accepted = 0
    rejected = 0
    samples = []
    events_by_case = None
    for c in cases:
        cid = c["id"]
        r = results.get(cid)
        v = verdicts.get(cid)
        if r is None or cid in unjudged:
            continue  # crashed case (reported above) / late case that was not run twice
        if v is None:
            raise lib.Inconclusive("no verdict for case %s" % cid)
        if r["unrealised"]:
            unreal += 1
            if unreal <= 5:
                ctx.log("unrealised steps in case %s: %s (steps: %s)" % (cid, r["unrealised"], " ".join(step_str(s) for s in c["steps"])))
        if r["wedged"]:
            wedged += 1
        if v["cls"] == "Harness":
            raise lib.Inconclusive("the recorded log of case %s is not well-formed (%s %s) - harness problem" % (cid, v["bad"], v["det"]))
        if not v["bad"]:
            if not v["complete"]:
                raise lib.Inconclusive("trace of case %s ended without the handler having exited and without a verdict" % cid)
            accepted += 1
            if len(samples) < 3 and nontrivial(c) and (len(samples) == 0 or c["proto"] != samples[-1]["case"]["proto"]):
                samples.append({"case": c, "wire": r["wire"], "verdict": "accepted"})
            continue
        rejected += 1
        key = finding_key(c["proto"], v)
        per_key.setdefault(key, []).append(cid)
        if len(per_key[key]) <= 2:
            if events_by_case is None:
                events_by_case = load_events(ctx)
            what = "%s violated on a log recorded from the real server (%s): %s [%s] after %s (%s); case %s, steps %s; server wrote %s" % (
                PROPS.get(v["cls"], v["cls"]), "graphql-transport-ws" if c["proto"] == "tws" else "graphql-ws", v["bad"], v["det"], v["last"],
                v["ctx"], cid, " ".join(step_str(s) for s in c["steps"]), json.dumps(r["wire"])[:300])
            ctx.violation(key, what, {"case": c, "events": events_by_case.get(cid), "wire": r["wire"], "verdict": v, "result": r})
    for k, ids in sorted(per_key.items()):
        ctx.log("rejected: %5d traces  %s  (e.g. %s)" % (len(ids), k, ids[0]))
    ctx.log("replayed %d cases: %d accepted, %d rejected, %d crashed; %d with unrealised steps, %d wedged" % (
        len(cases), accepted, rejected, len(crashes), unreal, wedged))
    if unreal:
        ctx.notes.append("%d schedules contained a step the real server could not take as scheduled (skipped; the recorded log is validated anyway)" % unreal)
    if not single:
        if unreal > len(cases) // 20 and not ctx.violations:
            raise lib.Inconclusive("%d of %d schedules were not realisable on the code although nothing was rejected - the generator's model of the "
                                   "code is off" % (unreal, len(cases)))
        # binding demonstration on a real accepted trace with an operation and (if possible) a close frame
        if events_by_case is None:
            events_by_case = load_events(ctx)
        cand = None
        for c in cases:
            v = verdicts.get(c["id"])
            if v and not v["bad"] and c["proto"] == "tws":
                evs = events_by_case.get(c["id"], [])
                if any(e["ev"] == "out" and e["a"] == "complete" for e in evs) and any(e["ev"] == "out" and e["a"] == "next" for e in evs) \
                        and any(e["ev"] == "close" for e in evs):
                    cand = evs
                    break
        if cand is None:
            for c in cases:
                v = verdicts.get(c["id"])
                evs = events_by_case.get(c["id"], [])
                if v and not v["bad"] and any(e["ev"] == "out" and e["a"] == "complete" for e in evs) and \
                        any(e["ev"] == "out" and e["a"] in ("next", "data") for e in evs) and \
                        any(e["ev"] == "out" and e["a"] == "connection_ack" for e in evs):
                    cand = evs
                    break
        if cand is not None:
            ctx.coverage["binding_selfcheck_rejected"] = binding_selfcheck(ctx, cand)
        else:
            ctx.notes.append("binding self-check skipped: no accepted trace with an operation in this run")
    distinct = {sig(c) for c in cases if nontrivial(c)}
    ctx.coverage.update({
        "traces_validated_against_impl": len(verdicts),
        "evaluations": len(cases),
        "distinct_nontrivial": len(distinct),
        "rule": "one case = one TLC-generated schedule (client message sequence over the 17-symbol alphabet - incl. transport read errors / corrupt frames, undeserializable subscribe payloads, refused and slow inits, connection_terminate - interleaved with engine events "
                "data/fin/result/error, the init timeout, a transport broken for good, a keep-alive / heartbeat interval and held terminal writes) replayed into the real server in one mode (tc: scripted "
                "TransportClient + scripted executors; conn: real Client + frame codec over a scripted net.Conn; v2: scripted TransportClient + the "
                "real ExecutorV2 on a small engine); distinct by (protocol, mode, steps incl. wire variants); non-trivial = at least two "
                "client messages and (an engine event / timeout, or two different symbols)",
        "samples": samples,
        "accepted": accepted,
        "rejected": rejected,
        "rejected_by_key": {k: len(v) for k, v in sorted(per_key.items())},
        "crashed": len(crashes),
        "unrealised_schedules": unreal,
        "properties_on_traces": ["OutputAllowed", "NoStartBeforeInit", "OneTerminal", "NothingAfterTerminal", "NeverWedged"],
    })


def step_str(s):
    if s["t"] == "broken":
        return "transport-broken"
    if s["t"] in ("initgo", "tick"):
        return s["t"]
    if s["t"] == "in":
        return s["sym"] + ("/v%d" % s["v"] if s.get("v") else "") + ("/frag%d" % s["frag"] if s.get("frag") else "")
    if s["t"] == "eng":
        return "eng(%s#%d,%s%s)" % (s["id"] or "<none>", s["k"], s["what"], ",write-held" if s.get("hold") else "")
    if s["t"] == "release":
        return "release(%s#%d)" % (s["id"] or "<none>", s["k"])
    return s["t"]


def load_events(ctx):
    out = {}
    cur = None
    for fn in sorted(os.listdir(ctx.scratch)):
        if fn.startswith("events-") and fn.endswith(".ndjson"):
            for e in lib.read_ndjson(os.path.join(ctx.scratch, fn)):
                if e["ev"] == "reset":
                    cur = out[e["id"]] = []   # a re-run of a case (later file) replaces the first recording
                if e["ev"] == "end":
                    continue
                if cur is not None:
                    cur.append(e)
    return out
