"""C18 — Upstream subscription connections are multiplexed without cross-talk.

Pipeline (DESIGN.md §5 C18, design.d/C18.md):
  1. TLC model-checks spec/conc/WSMux.tla (the upstream WebSocket multiplexer at the grain of its critical
     sections, modelled as the code is): Routed, TerminalLocal, NothingAfterTerminal, SharedOnlyIfSameKey, NoLeak,
     NoStall hold; the pinned protocol (Fixes = {}) violates CancelIsolated in exactly the three recorded shapes
     (negative runs); the model of the tree under test (Fixes = the repairs whose findings are marked fixed in
     findings.d/C18.json) must also satisfy CancelIsolated* / NoStaleEntry / AllTracked for the repaired parts.
  2. TLC (Gen_WSMux) enumerates / samples behaviours as schedules of environment actions (Subscribe calls,
     ctx cancellations - also before the call and while a shared connection is dialled / initialised -, gate
     releases of the upstream server, scripted next/complete/error frames, drops, idle waits).
  3. harness/cmd/wsmux forces every schedule on the real subscriptionclient against an in-process WebSocket
     (and SSE) server; no source hook; the combined log is recorded.
  4. TLC (Trace_WSMux) validates every recorded log against WSMux: each event must be an enabled action /
     a true observation, all invariants are evaluated in every state, a trace must end quiescent with
     Stats() and the server's connection count as the specification says.
"""
import concurrent.futures as cf
import json
import os
import random
import re
import shutil

import lib

INVS = ["TypeOK", "Routed", "TerminalLocal", "NothingAfterTerminal", "SharedOnlyIfSameKey", "NoLeak", "NoStall"]
NEGATIVE = ["CancelIsolatedDial", "CancelIsolatedWrite", "CancelIsolatedClose"]
TIMING_EVENTS = ("end", "idlewait", "stats", "srv.open", "quiet")
IDLE_MS = 30
FINDINGS_FRAGMENT = os.environ.get("VERIF_C18_FRAGMENT") or os.path.join(lib.VERIF, "findings.d", "C18.json")
# finding key -> name of the repair in WSMux.tla (constant Fixes); the repair is assumed present iff the entry is "fixed"
FIX_OF_KEY = {"ws:CancelIsolated:foreign_dial": "dial", "ws:CancelIsolated:foreign_write": "write",
              "ws:CancelIsolated:foreign_close": "close", "ws:bookkeeping:removeConn-by-key": "map",
              "ws:PingTimeout:spurious": "ping"}
INV_OF_FIX = {"dial": ["CancelIsolatedDial"], "write": ["CancelIsolatedWrite"], "close": ["CancelIsolatedClose"],
              "map": ["NoStaleEntry", "AllTracked"], "ping": ["NoSpuriousPing"]}
KEY_OF_BLAME = {"spurious_ping": "ws:PingTimeout:spurious"}

WHAT = {
    "spurious_ping": "a healthy connection (its upstream answered every ping) was closed by the ping loop as if the pong were overdue, "
                     "all its subscriptions got a connection error",
    "foreign_dial": "a subscriber that did not cancel got the dialling subscriber's context cancellation from the coalesced dial",
    "foreign_write": "a subscriber with an already cancelled ctx wrote its subscribe frame on the shared connection; "
                     "coder/websocket closed the socket and every other subscription on it failed with a connection error",
    "foreign_close": "a subscriber found the connection in the pool but it was closed before it registered because the "
                     "last other subscriber was cancelled; Subscribe failed with 'connection closed'",
}

MC_CFG = """CONSTANTS
  N = %(N)d
  NK = 2
  MaxConn = %(MaxConn)d
  MaxFrames = %(F)d
  MaxCancels = %(C)d
  Fixes = %(Fixes)s
  CfgSet <- %(CfgSet)s
SPECIFICATION %(spec)s
INVARIANTS %(invs)s
CHECK_DEADLOCK FALSE
"""


def load_fragment_findings(ctx):
    """known-findings.json is merged by the coordinator from findings.d/*.json; our fragment is the fresher source
    (it is swapped when fixes are committed), so its entries replace those with the same key.
    Returns the set of repairs that are in the tree according to the statuses."""
    known = list(ctx.known())
    try:
        with open(FINDINGS_FRAGMENT) as f:
            for k in json.load(f):
                known = [x for x in known if not (x.get("property") == k.get("property") and x.get("key") == k.get("key"))]
                known.append(k)
    except FileNotFoundError:
        pass
    ctx._known = known
    return {FIX_OF_KEY[k["key"]] for k in known if k.get("property") == "C18" and k.get("status") == "fixed" and k.get("key") in FIX_OF_KEY}


def tla_set(xs):
    return "{" + ", ".join('"%s"' % x for x in sorted(xs)) + "}"


def prepare_specs(ctx, fixes):
    """Private copy of spec/conc with the constant Fixes of every WSMux configuration set to the repairs in the tree;
    the repairs that start over (dial, close) dial again, so the generator configurations get one more connection."""
    d = ctx.path("spec-conc")
    os.makedirs(d, exist_ok=True)
    src = os.path.join(lib.SPEC, "conc")
    for f in os.listdir(src):
        if not (f.endswith(".tla") or f.endswith(".cfg")):
            continue
        with open(os.path.join(src, f)) as fh:
            t = fh.read()
        if f.endswith(".cfg") and "Fixes = {}" in t:
            t = t.replace("Fixes = {}", "Fixes = " + tla_set(fixes))
            if fixes & {"dial", "close"} and not f.startswith("Trace_"):
                t = re.sub(r"MaxConn = (\d+)", lambda m: "MaxConn = %d" % (int(m.group(1)) + 1), t)
        with open(os.path.join(d, f), "w") as fh:
            fh.write(t)
    return d


def mc(ctx, name, N, MaxConn, F, C, fixes, invs, spec="Spec", timeout=2400, count=True, workers=None, simulate=None,
       cfgset="Configs"):
    d = ctx.path("mc-" + name)
    os.makedirs(d, exist_ok=True)
    for f in ("WSMux.tla", "MC_WSMux.tla"):
        with open(os.path.join(lib.SPEC, "conc", f)) as src, open(os.path.join(d, f), "w") as dst:
            dst.write(src.read())
    cfg = "MC_WSMux_%s.cfg" % name
    with open(os.path.join(d, cfg), "w") as f:
        f.write(MC_CFG % {"N": N, "MaxConn": MaxConn, "F": F, "C": C, "Fixes": tla_set(fixes), "CfgSet": cfgset,
                          "spec": spec, "invs": " ".join(invs)})
    if simulate:
        return ctx.tlc(d, "MC_WSMux", cfg, timeout=timeout, deadlock=False, count=count, tag="mc-" + name + "-simulate",
                       workers=workers, simulate=simulate, depth=90, seed=ctx.seed)
    return ctx.tlc(d, "MC_WSMux", cfg, timeout=timeout, deadlock=True, count=count, tag="mc-" + name, workers=workers)


def interesting(b):
    steps = b["steps"]
    calls = [s for s in steps if s["a"] == "Call"]
    if len(calls) < 2:
        return False
    keys = [b["key"][s["s"] - 1] for s in calls]
    shared = len(set(keys)) < len(keys)
    other = any(s["a"] in ("Cancel", "Send", "Close", "Reject", "InitFail", "IdleWait") for s in steps)
    return shared and other


def score(b):
    steps = b["steps"]
    kinds = {s["a"] for s in steps}
    return (2 if interesting(b) else 0) + len(kinds) / 10.0 + min(len(steps), 10) / 20.0


def tokens(b):
    """Abstract each step by what it means at that point (approximate replay of the schedule): who is cancelled in which
    phase (before the call / dialler or waiter while the upgrade or the ack is outstanding / subscribed), whether a call
    dials, joins a dial or re-uses a connection, whether a frame is addressed to a live or a cancelled subscription."""
    key, dialler = b["key"], b.get("dialler") or []
    conns = []  # [key, state, members]
    called, cancelled, conn_of = set(), set(), {}
    toks = []
    for st in b["steps"]:
        a, s_, c_ = st["a"], st["s"], st["c"]
        if a == "Call":
            called.add(s_)
            nxt = len(conns)
            if nxt < len(dialler) and dialler[nxt] == s_:
                closing = any(c[0] == key[s_ - 1] and c[1] == "heldclosing" for c in conns)
                conns.append([key[s_ - 1], "gate_up" if s_ not in cancelled else "dead", {s_}])
                conn_of[s_] = nxt
                toks.append("Call:dial" + (":precancelled" if s_ in cancelled else "")
                            + (":while-same-key-connection-is-shutting-down" if closing else ""))
            else:
                cand = [i for i, c in enumerate(conns) if c[0] == key[s_ - 1] and c[1] != "dead"]
                if cand:
                    i = cand[-1]
                    conns[i][2].add(s_)
                    conn_of[s_] = i
                    toks.append(("Call:join:" if conns[i][1] != "open" else "Call:reuse:") + conns[i][1]
                                + (":precancelled" if s_ in cancelled else ""))
                else:
                    toks.append("Call:other")
        elif a == "Cancel":
            if s_ not in called:
                toks.append("Cancel:pre")
            elif s_ in conn_of:
                i = conn_of[s_]
                role = "dialler" if i < len(dialler) and dialler[i] == s_ else "joiner"
                others = len([m for m in conns[i][2] if m not in cancelled and m != s_])
                toks.append("Cancel:%s:%s:%d" % (role, conns[i][1], min(others, 2)))
            else:
                toks.append("Cancel:other")
            cancelled.add(s_)
            if s_ in conn_of and b["idle"] == "zero":
                c = conns[conn_of[s_]]
                if c[1] == "open" and len(c) > 3 and c[3] and not [m for m in c[2] if m not in cancelled]:
                    c[1] = "heldclosing"  # closed flag set, close handshake held by the upstream: still in the pool
        elif a in ("Upgrade", "Ack", "Reject", "InitFail", "Close"):
            i = c_ - 1
            n = len([m for m in conns[i][2] if m not in cancelled]) if 0 <= i < len(conns) else 0
            if 0 <= i < len(conns):
                conns[i][1] = {"Upgrade": "gate_ack", "Ack": "open"}.get(a, "dead")
            toks.append("%s%s:%d" % (a, st.get("k", ""), min(n, 2)))
        elif a == "Send":
            sib = 0
            if s_ in conn_of:
                sib = len([m for m in conns[conn_of[s_]][2] if m not in cancelled and m != s_])
            toks.append("Send-%s%s:%s%s%s" % (st["k"], st.get("v", "-"), "late" if s_ in cancelled else "live",
                                              ":selfcancel:sib%d" % min(sib, 1) if st.get("sc") else "",
                                              ":spawn:sib%d" % min(sib, 1) if st.get("sp") else ""))
            if st.get("sc"):
                cancelled.add(s_)
            if st.get("sp"):
                t_ = st["sp"]
                called.add(t_)
                if s_ in conn_of:
                    conns[conn_of[s_]][2].add(t_)
                    conn_of[t_] = conn_of[s_]
        elif a in ("HoldClose", "Release"):
            i = c_ - 1
            n = len([m for m in conns[i][2] if m not in cancelled]) if 0 <= i < len(conns) else 0
            if 0 <= i < len(conns):
                while len(conns[i]) < 4:
                    conns[i].append(False)
                conns[i][3] = a == "HoldClose"
                if a == "Release" and conns[i][1] == "heldclosing":
                    conns[i][1] = "dead"
            toks.append("%s:%d" % (a, min(n, 2)))
        elif a == "Mute":
            i = c_ - 1
            n = len([m for m in conns[i][2] if m not in cancelled]) if 0 <= i < len(conns) else 0
            others = len([1 for j, c in enumerate(conns) if j != i and c[1] == "open" and [m for m in c[2] if m not in cancelled]])
            if 0 <= i < len(conns):
                conns[i][1] = "dead"
            toks.append("Mute:%d:others%d" % (min(n, 2), min(others, 1)))
        else:
            toks.append(a)
    return toks


def features(b):
    """Shape of a behaviour: outcome the specification predicts per subscriber, and 1/2/3-grams of its abstract steps
    (per idle mode).  Used to pick a sample in which every outcome and local pattern the generator produced occurs."""
    toks = tokens(b)
    out = set()
    if any(b.get("bad") or []):
        called = [st["s"] for st in b["steps"] if st["a"] == "Call"]
        out.add(("bad", b["idle"], tuple(x in called for x, bad in enumerate(b["bad"], 1) if bad)))
        toks = ["bad"] + toks
    for e in b.get("exp") or []:
        out.add(("out", b["idle"], e.get("pc"), e.get("err"), e.get("blame"), min(len(e.get("h") or []), 2)))
    for n in (1, 2, 3):
        for i in range(len(toks) - n + 1):
            out.add((b["idle"],) + tuple(toks[i:i + n]))
    return out


def lonely_bad(b):
    bad = [i + 1 for i, x in enumerate(b.get("bad") or []) if x]
    if not bad:
        return False
    sb = bad[0]
    called = [st["s"] for st in b["steps"] if st["a"] == "Call"]
    exp = b.get("exp") or []
    return (sb in called and sb <= len(exp) and exp[sb - 1].get("err") == "encode"
            and not any(t != sb and b["key"][t - 1] == b["key"][sb - 1] for t in called))


def select(beh, cap, rng):
    """Lazy-greedy pattern cover (3/4 of the budget), then the highest scores."""
    import heapq
    order = list(beh)
    rng.shuffle(order)
    feats = [features(b) for b in order]
    seen, picked = set(), []
    # phase 1: every predicted outcome (who ends how, blamed on what) at least once
    for i, f in enumerate(feats):
        o = {x for x in f if x[0] == "out"}
        if not o <= seen and len(picked) < cap // 4:
            seen |= f
            picked.append(i)
    # phase 2: local patterns
    done = set(picked)
    heap = [(-len(f - seen), i) for i, f in enumerate(feats) if i not in done]
    heapq.heapify(heap)
    while heap and len(picked) < cap * 3 // 4:
        g, i = heapq.heappop(heap)
        gain = len(feats[i] - seen)
        if gain == 0:
            continue
        if heap and -heap[0][0] > gain:
            heapq.heappush(heap, (-gain, i))
            continue
        seen |= feats[i]
        picked.append(i)
    ps = set(picked)
    chosen = [order[i] for i in picked]
    rest = [b for i, b in enumerate(order) if i not in ps]
    rest.sort(key=score, reverse=True)
    ni = [b for b in rest if interesting(b)]
    no = [b for b in rest if not interesting(b)]
    room = cap - len(chosen)
    chosen += ni[:room * 5 // 6]
    chosen += no[:cap - len(chosen)]
    return chosen, len(seen)


def to_schedule(idx, b, rng, mode="ws"):
    n = len(b["key"])
    proto = rng.choice(["gtws", "gtws", "gws", "gws", "auto"])
    variant = rng.choice(["endpoint", "hdr", "proto", "payload", "nopayload",
                          "payload-type", "payload-bool", "payload-split", "payload-nested"])
    if b.get("ping"):
        # only graphql-transport-ws has client pings: every connection of the schedule must speak it
        proto = rng.choice(["gtws", "auto"])
        if variant == "proto" and proto == "gtws":
            variant = "payload-type"
    if mode == "sse":
        proto = rng.choice(["post", "get"])
        variant = rng.choice(["endpoint", "hdr"])
    # every fourth schedule goes through the data-source wrapper (graphql_subscription_client.go); it has no idle timeout
    level = "ds" if b["idle"] == "zero" and rng.random() < 0.25 else "client"
    if b.get("reent"):
        level = "client"  # the data-source wrapper does not hand the unsubscribe function to the updater
    steps = b["steps"]
    if mode == "sse":
        variant = rng.choice(["endpoint", "hdr"])
        # SSE framing of every event: the same event written in one of the forms the grammar allows
        framing = {"complete": ["plain", "bare", "bare", "emptydata", "comment", "crlf"],
                   "next": ["plain", "noevent", "comment", "multiline", "crlf"],
                   "error": ["plain", "comment", "multiline", "crlf"]}
        steps = [dict(st, f=rng.choice(framing[st["k"]])) if st["a"] == "Send" else st for st in steps]
    return {"id": "%s%d-%06d" % (mode, n, idx), "mode": mode, "level": level, "proto": proto, "variant": variant,
            "idle_ms": 0 if b["idle"] == "zero" else IDLE_MS, "key": b["key"], "bad": b.get("bad") or [False] * n, "ping": bool(b.get("ping")),
            "hold": bool(b.get("hold")), "reent": bool(b.get("reent")),
            "dialler": b["dialler"], "reach": b.get("reach"),
            "steps": steps, "expect": b.get("exp")}


def run_harness(ctx, binary, scheds, tag, shards):
    """Run the schedules in `shards` parallel harness processes; returns (event files, results)."""
    parts = [scheds[i::shards] for i in range(shards)]
    parts = [p for p in parts if p]
    files = []

    def one(i, part):
        sp = ctx.path("sched-%s-%d.ndjson" % (tag, i))
        ep = ctx.path("events-%s-%d.ndjson" % (tag, i))
        rp = ctx.path("results-%s-%d.ndjson" % (tag, i))
        lib.write_ndjson(sp, [{k: v for k, v in s.items() if k != "expect"} for s in part])
        ctx.run_bin(binary, ["-in", sp, "-out", ep, "-res", rp], timeout=3000)
        return ep, lib.read_ndjson(rp)

    results = []
    with cf.ThreadPoolExecutor(max_workers=len(parts) or 1) as ex:
        for ep, res in ex.map(lambda a: one(*a), enumerate(parts)):
            files.append(ep)
            results += res
    return files, results


_FINDING_RE = re.compile(r'<<"FINDING", "([^"]*)", "([^"]*)", (\d+)>>')


SPECDIR = {"d": "conc"}  # set by _run: private copy of spec/conc with Fixes substituted


def trace_module(events_path):
    return "Trace_SSEMux" if "-sse" in os.path.basename(events_path) else "Trace_WSMux"


def tlc_validate(ctx, events_path):
    """One TLC run over one event file. Returns (ok, findings, failure) with failure = (line, violated|None)."""
    mod = trace_module(events_path)
    r = ctx.tlc(SPECDIR["d"], mod, mod + ".cfg", workers=1, env={"TRACE": events_path}, timeout=2400,
                deadlock=False, count=False, tag="trace-validation", heap="3g")
    findings = set(_FINDING_RE.findall(r.out))
    if r.ok:
        return True, findings, None
    line = None
    if r.violated:
        ls = [int(x.split("=")[1]) for x in r.out.splitlines() if x.strip().startswith("/\\ l = ")]
        if ls:
            line = ls[-1] - 1
    else:
        for x in r.out.splitlines():
            if "TRACE_STUCK_AT_LINE" in x:
                line = int(x.replace(">>", "").split(",")[-1].strip())
    if line is None:
        print(r.out[-3000:])
        raise lib.Inconclusive("trace validation failed in an unexpected way: %s" % r.error)
    return False, findings, (line, r.violated)


def validate_file(ctx, events_path):
    """Validate one file; rejected traces are cut out and the rest is validated again.
    Returns (#accepted traces, findings, rejected=[(trace id, rows, index of offending event, violated)])."""
    accepted = 0
    findings = set()
    rejected = []
    for _ in range(8):
        rows = lib.read_ndjson(events_path)
        if not rows:
            break
        ok, fs, fail = tlc_validate(ctx, events_path)
        if ok:
            findings |= fs
            accepted += sum(1 for r in rows if r["ev"] == "reset")
            return accepted, findings, rejected
        line, violated = fail
        line = max(1, min(line, len(rows)))
        start = max(i for i in range(line) if rows[i]["ev"] == "reset")
        end = next((i for i in range(start + 1, len(rows)) if rows[i]["ev"] == "reset"), len(rows))
        rejected.append((rows[start]["id"], rows[start:end], line - 1 - start, violated))
        done_ids = {r["id"] for r in rows[:start] if r["ev"] == "reset"}
        findings |= {f for f in fs if f[0] in done_ids}
        accepted += len(done_ids)
        rest = rows[end:]
        if not rest:
            return accepted, findings, rejected
        lib.write_ndjson(events_path, rest)
    return accepted, findings, rejected  # more than 8 rejected traces in one batch: the rest stays unvalidated


def validate_all(ctx, files):
    acc = 0
    findings = set()
    rejected = []
    with cf.ThreadPoolExecutor(max_workers=max(1, min(len(files), 8))) as ex:
        for a, f, r in ex.map(lambda p: validate_file(ctx, p), files):
            acc += a
            findings |= f
            rejected += r
    return acc, findings, rejected


def report(ctx, binary, sched_by_id, results_by_id, findings, rejected):
    for tid, blame, s in sorted(findings):
        ctx.violation(KEY_OF_BLAME.get(blame, "ws:CancelIsolated:" + blame),
                      "%s (subscriber %s of schedule %s; blame assigned by Trace_WSMux)" % (WHAT.get(blame, blame), s, tid),
                      {"schedule": sched_by_id.get(tid), "result": results_by_id.get(tid), "blame": blame, "subscriber": int(s)})
    retried = 0
    for tid, rows, idx, violated in rejected:
        evn = rows[idx] if 0 <= idx < len(rows) else {"ev": "<eof>"}
        sched = sched_by_id.get(tid)
        # ping schedules run on real timers as a whole (a pong that is late by more than the ping interval on an
        # overloaded box closes a healthy connection): any rejection there gets the one retry as well
        if violated is None and sched is not None and (evn.get("ev") in TIMING_EVENTS or sched.get("ping")):
            # "stalled / leaked" judgements depend on real timers and on the quiescence detector: one retry with
            # generous slack before it counts (DESIGN §5 C18 soundness notes)
            retried += 1
            s2 = dict(sched)
            s2["id"] = tid + "-retry"
            s2["slack_ms"] = 1000
            files, _ = run_harness(ctx, binary, [s2], "retry-%s-%s" % (tid, sched.get("mode", "ws")), 1)
            a, _, rej2 = validate_file(ctx, files[0])
            if not rej2:
                ctx.notes.append("schedule %s: end-of-trace judgement failed once and passed on retry with more slack" % tid)
                continue
            _, rows, idx, violated = rej2[0]
            evn = rows[idx] if 0 <= idx < len(rows) else {"ev": "<eof>"}
        if violated:
            key = "ws:%s" % violated
            what = "invariant %s is false on a trace recorded from the real code" % violated
        elif evn.get("ev") in TIMING_EVENTS:
            key = "ws:stalled-or-leaked:%s" % evn.get("ev")
            what = ("after the schedule and its epilogue the real client was quiet, but the specification still has something "
                    "to do or counts connections differently (a subscriber or frame is stalled, or a connection leaked)")
        else:
            key = "ws:nonconformance:%s" % evn.get("ev")
            what = "recorded trace is not a behaviour of %s: no enabled action matches the event" % (
                "SSEMux" if sched and sched.get("mode") == "sse" else "WSMux")
        ctx.violation(key, "%s; schedule %s, event #%d %s" % (what, tid, idx, json.dumps(evn)),
                      {"schedule": sched, "events": rows, "failing_event_index": idx, "tlc": violated or "stuck",
                       "result": results_by_id.get(tid)})
    return retried


def go_side(ctx, scheds_by_id, results):
    unreal = 0
    for r in results:
        s = scheds_by_id.get(r["id"])
        if r.get("panic"):
            ctx.violation("ws:panic", "panic in the subscription client: %s (schedule %s)" % (r["panic"], r["id"]), {"schedule": s, "result": r})
        if r.get("wedged"):
            ctx.violation("ws:wedged", "Subscribe of %s never returned although its ctx was cancelled (schedule %s)" % (r["wedged"], r["id"]),
                          {"schedule": s, "result": r})
        if r.get("unrealised"):
            unreal += 1
    return unreal


def run(ctx):
    try:
        _run(ctx)
    except lib.Inconclusive:
        raise
    except Exception as e:  # infrastructure trouble (vanished build dir, unreadable file ...) is never a verdict
        import traceback
        traceback.print_exc()
        raise lib.Inconclusive("check infrastructure failed: %r" % (e,))


def _run(ctx):
    fixes = load_fragment_findings(ctx)
    SPECDIR["d"] = specdir = prepare_specs(ctx, fixes)
    pos = INVS + [i for f in sorted(fixes) for i in INV_OF_FIX[f]]
    ctx.log("repairs in the tree according to findings.d/C18.json: %s" % (tla_set(fixes),))
    rng = random.Random(ctx.seed)
    # other agents remove /verif/.build-* while testing their mutants: keep a private copy of the binary
    binary = shutil.copy(ctx.build("wsmux"), ctx.path("wsmux-bin"))
    quick = ctx.quick()

    # ---- replay of a stored counterexample ----------------------------------------------------------
    if ctx.replay_in:
        with open(ctx.replay_in) as f:
            case = json.load(f)["case"]
        s = case["schedule"]
        files, results = run_harness(ctx, binary, [s], "replay-%s" % s.get("mode", "ws"), 1)
        by_id = {s["id"]: s}
        res_by_id = {r["id"]: r for r in results}
        go_side(ctx, by_id, results)
        acc, findings, rejected = validate_all(ctx, files)
        report(ctx, binary, by_id, res_by_id, findings, rejected)
        ctx.coverage.update({"traces_validated_against_impl": acc, "evaluations": 1, "distinct_nontrivial": 1,
                             "rule": "replay of one stored schedule", "samples": [{"schedule": s, "result": results[0]}], "exhaustive": False})
        return

    # ---- 1. model checking (in parallel with generation) ------------------------------------------
    pool = cf.ThreadPoolExecutor(max_workers=8)
    jobs = {}
    retrying = bool(fixes & {"dial", "close"})  # these repairs dial again: bigger model, see design.d/C18.md
    mcn = 3 if retrying else 2
    if quick:
        if retrying:
            jobs["mc2"] = pool.submit(mc, ctx, "2", 2, mcn, 2, 2, fixes, pos, spec="SpecQ", workers=6, timeout=900)
        else:
            jobs["mc2"] = pool.submit(mc, ctx, "2", 2, mcn, 2, 1, fixes, pos, workers=6, timeout=900)
    else:
        if retrying:
            # full interleaving of the repaired protocol is 15-44 M states even for 2 subscribers (design.d/C18.md):
            # exhaustive with a slow upstream, random behaviours with full interleaving
            jobs["mc2"] = pool.submit(mc, ctx, "2", 2, mcn, 2, 2, fixes, pos, spec="SpecQ", workers=6)
            jobs["mc2sim"] = pool.submit(mc, ctx, "2sim", 2, mcn, 2, 2, fixes, pos, workers=4, simulate=200000)
        else:
            jobs["mc2"] = pool.submit(mc, ctx, "2", 2, mcn, 3, 2, fixes, pos, workers=6)
        jobs["mc3q"] = pool.submit(mc, ctx, "3q", 3, mcn + 1, 1, 1, fixes, pos, spec="SpecQ", workers=6)
        if fixes != set(INV_OF_FIX):
            # the fully repaired protocol satisfies everything (slow upstream; full interleaving measured in design.d/C18.md)
            jobs["fixed"] = pool.submit(mc, ctx, "fixed", 2, 3, 2, 2, set(INV_OF_FIX),
                                        INVS + ["CancelIsolated", "NoStaleEntry", "AllTracked", "NoSpuriousPing"], spec="SpecQ", workers=4)
    # requests that cannot be encoded, client pings with an upstream that stops answering (slow upstream)
    jobs["mcx"] = pool.submit(mc, ctx, "x", 2, mcn, 1 if quick else 2, 1 if quick else 2, fixes, pos, spec="SpecQ", workers=4,
                              cfgset="ConfigsX")
    # the pinned protocol violates CancelIsolated in exactly the recorded shapes (the specification is not vacuous)
    for inv in NEGATIVE:
        jobs["neg-" + inv] = pool.submit(mc, ctx, "neg-" + inv, 2, 2, 1, 2, set(), [inv], count=False, workers=2, timeout=600)
    jobs["gen2"] = pool.submit(ctx.tlc, specdir, "Gen_WSMux", "Gen_WSMux_2.cfg", timeout=1200, deadlock=False, workers=4, tag="gen-2")
    jobs["gen3"] = pool.submit(ctx.tlc, specdir, "Gen_WSMux", "Gen_WSMux_3.cfg", timeout=1700, deadlock=False, workers=1,
                               simulate=1200 if quick else 40000, depth=120, seed=ctx.seed, tag="gen-3-simulate")
    jobs["mcsse"] = pool.submit(ctx.tlc, specdir, "MC_SSEMux", "MC_SSEMux_2.cfg", timeout=900, deadlock=False, workers=2, tag="mc-sse-2")
    jobs["gensse"] = pool.submit(ctx.tlc, specdir, "Gen_SSEMux", "Gen_SSEMux_2.cfg", timeout=900, deadlock=False, workers=2, tag="gen-sse-2")
    if not quick:
        jobs["gensse3"] = pool.submit(ctx.tlc, specdir, "Gen_SSEMux", "Gen_SSEMux_3.cfg", timeout=1700, deadlock=False, workers=1,
                                      simulate=8000, depth=80, seed=ctx.seed, tag="gen-sse-3-simulate")
    if not quick:
        jobs["sim3"] = pool.submit(ctx.tlc, specdir, "MC_WSMux", "MC_WSMux_3_sim.cfg", timeout=1700, deadlock=False, workers=4,
                                   simulate=150000, depth=80, seed=ctx.seed, tag="mc-3-simulate")

    # ---- 2. generation --------------------------------------------------------------------------------
    g2 = jobs["gen2"].result()
    g3 = jobs["gen3"].result()
    for g in (g2, g3):
        if not g.ok:
            print(g.out[-3000:])
            raise lib.Inconclusive("generator run failed: %s" % g.error)
    uniq = {}
    for b in g2.printed + g3.printed:
        uniq.setdefault(lib.sha([b["key"], b["idle"], b.get("bad"), b.get("ping"), b.get("hold"), b.get("reent"), b["steps"]]), b)
    beh = sorted(uniq.values(), key=lambda b: lib.sha(b))
    rng.shuffle(beh)
    n_int = sum(1 for b in beh if interesting(b))
    # three strata so that the extra configurations do not crowd out the plain ones
    cap = 500 if quick else 12000
    strata = [([b for b in beh if not any(b.get("bad") or []) and not b.get("ping") and not b.get("hold") and not b.get("reent")], cap * 52 // 100),
              ([b for b in beh if any(b.get("bad") or [])], cap * 13 // 100),
              ([b for b in beh if b.get("ping") and any(st["a"] == "Mute" for st in b["steps"])], cap * 9 // 100),
              ([b for b in beh if b.get("ping") and not any(st["a"] == "Mute" for st in b["steps"])], cap * 2 // 100),
              ([b for b in beh if b.get("hold") and any(st["a"] == "HoldClose" for st in b["steps"])], cap * 12 // 100),
              ([b for b in beh if b.get("reent") and any(st.get("sc") or st.get("sp") for st in b["steps"])], cap * 12 // 100)]
    chosen, npat = [], 0
    for part, k in strata:
        # the narrow window first: a Subscribe arriving while a connection of its key is between "closed" and "left the pool"
        must = [b for b in part if b.get("hold") and any("shutting-down" in t for t in tokens(b))]
        # ... and: the un-encodable request is the only subscription its connection ever had (the failed write must
        # still let the connection close)
        must += [b for b in part if lonely_bad(b)]
        rng.shuffle(must)
        must = must[:k // 2]
        if must:
            ids = {id(b) for b in must}
            part = [b for b in part if id(b) not in ids]
            k -= len(must)
            chosen += must
        c, n = select(part, k, rng) if part else ([], 0)
        chosen += c
        npat += n
    ctx.log("generated %d distinct behaviours (%d interesting: >= 2 subscribers of one key + a cancel/frame/fault); %d chosen "
            "covering %d local patterns" % (len(beh), n_int, len(chosen), npat))
    scheds = [to_schedule(i, b, rng) for i, b in enumerate(chosen)]
    ctx.log("classes in the sample: %d with an un-encodable request, %d with pings (%d Mute), %d with >= 2 next frames of different "
            "field sets, %d close frames with a code, %d look-alike init payload pairs" % (
                sum(1 for x in scheds if any(x["bad"])), sum(1 for x in scheds if x["ping"]),
                sum(1 for x in scheds if any(st["a"] == "Mute" for st in x["steps"])),
                sum(1 for x in scheds if len({st.get("v") for st in x["steps"] if st["a"] == "Send" and st["k"] == "next"}) >= 2),
                sum(1 for x in scheds if any(st["a"] == "Close" and st["k"] for st in x["steps"])),
                sum(1 for x in scheds if x["variant"].startswith("payload-") and len(set(x["key"])) > 1))
            + "; %d with a held close handshake, %d with a re-entrant handler (%d self-cancel, %d subscribe-inside)" % (
                sum(1 for x in scheds if any(st["a"] == "HoldClose" for st in x["steps"])),
                sum(1 for x in scheds if any(st.get("sc") or st.get("sp") for st in x["steps"])),
                sum(1 for x in scheds if any(st.get("sc") for st in x["steps"])),
                sum(1 for x in scheds if any(st.get("sp") for st in x["steps"]))))
    gs = [jobs["gensse"].result()] + ([jobs["gensse3"].result()] if not quick else [])
    usse = {}
    for g in gs:
        if not g.ok:
            print(g.out[-3000:])
            raise lib.Inconclusive("SSE generator run failed: %s" % g.error)
        for b in g.printed:
            usse.setdefault(lib.sha([len(b["key"]), b["steps"]]), b)
    bsse = sorted(usse.values(), key=lambda b: lib.sha(b))
    rng.shuffle(bsse)
    csse, npat_sse = select(bsse, 80 if quick else 2000, rng)
    for b in csse:
        b["key"] = [rng.choice([1, 2]) for _ in b["key"]]  # SSE never shares: the option tuple only selects endpoint / headers
    sse = [to_schedule(i, b, rng, mode="sse") for i, b in enumerate(csse)]
    ctx.log("SSE: %d distinct behaviours, %d chosen covering %d local patterns" % (len(bsse), len(sse), npat_sse))
    allsched = scheds + sse
    by_id = {s["id"]: s for s in allsched}

    # ---- 3. replay on the real client -----------------------------------------------------------------
    files, results = run_harness(ctx, binary, scheds, "all-ws", 6 if quick else 8)
    f2, r2 = run_harness(ctx, binary, sse, "all-sse", 2 if quick else 4)
    files += f2
    results += r2
    res_by_id = {r["id"]: r for r in results}
    unreal = go_side(ctx, by_id, results)

    # ---- 4. trace validation ---------------------------------------------------------------------------
    acc, findings, rejected = validate_all(ctx, files)
    retried = report(ctx, binary, by_id, res_by_id, findings, rejected)

    # ---- model-checking verdicts (model-level problems are never violations) ----------------------------
    for name, j in jobs.items():
        if name.startswith("gen"):
            continue
        if name == "mcsse" and not j.result().ok:
            print(j.result().out[-3000:])
            raise lib.Inconclusive("TLC did not pass on SSEMux (%s) - model-level problem" % j.result().error)
        r = j.result()
        if name.startswith("neg-"):
            inv = name[4:]
            if r.violated != inv:
                raise lib.Inconclusive("sanity: the model of the code as it is should violate %s (known shape), got %r" % (inv, r.error))
        elif not r.ok:
            print(r.out[-4000:])
            raise lib.Inconclusive("TLC did not pass on %s (%s) - model-level problem, not a verdict about the code" % (name, r.error))
    pool.shutdown()

    if unreal:
        ctx.notes.append("%d schedules contained a step the real code could not take as scheduled (validated anyway)" % unreal)
    distinct = {lib.sha([s["mode"], s["level"], s["proto"], s["variant"], s["idle_ms"], s["key"], s["bad"], s["ping"], s["hold"], s["reent"], s["steps"]]) for s in allsched
                if sum(1 for x in s["steps"] if x["a"] == "Call") >= 2 and any(x["a"] != "Call" for x in s["steps"])}
    sample_ids = [s["id"] for s in (scheds[:2] + sse[:1])]
    ctx.coverage.update({
        "traces_validated_against_impl": acc,
        "evaluations": len(results),
        "distinct_nontrivial": len(distinct),
        "rule": "one case = one TLC-generated schedule of environment actions (2-3 subscribers over 2 option tuples: Subscribe calls, "
                "cancellations at any point, upgrade/ack gates, next/complete/error frames, drops, idle waits) forced on the real "
                "subscription client with a random protocol (graphql-transport-ws, graphql-ws, auto) and key-distinguishing component; "
                "SSE cases are generated by the driver script; distinct by (mode, protocol, variant, idle, keys, steps); non-trivial = "
                "at least two Subscribe calls and one other action",
        "samples": [{"schedule": by_id[i], "result": res_by_id.get(i)} for i in sample_ids],
        "unrealised_schedules": unreal,
        "retried_end_judgements": retried,
        "foreign_cancel_observations": len(findings),
        "invariants_on_traces": INVS,
        "expected_negative_model_runs": NEGATIVE,
        "repairs_modelled": sorted(fixes),
        "model_invariants": pos,
        "exhaustive": False,
    })
    ctx.assumptions += [
        "no source hook: only environment actions are scheduled (Subscribe, ctx cancel, server gates, frames); the code's internal "
        "steps run freely between two environment actions and are composed silently by the trace specification",
        "quiescence = no TCP byte/close in flight on any wrapped connection and no runnable goroutine (two consecutive samples)",
        "ack/write timeouts 2 min; pings off except in the ping configurations (every 500 ms, pong timeout 150 ms, the server answers "
        "at once until a Mute step); idle timeout 0 or %d ms, waited for with slack and one retry" % IDLE_MS,
        "the upstream server fake and TLC are trusted; <= 3 subscribers, 2 option tuples, <= 3 frames per schedule",
    ]
