"""C10 — @defer delivers the same data incrementally with a well-formed stream.

Pipeline (design.d/C10.md):
  1. TLC model-checks spec/resolve/Defer.tla (all forests <= MaxD defers x anchor patterns x fetch outcomes x
     interleavings): the acceptor DeferStream accepts every emitted frame sequence, counter arithmetic, model-level
     reconstruction, termination (WF). Two negative controls (no lock, descriptor without group) must be rejected.
  2. TLC generates operations (Gen_DeferQ: decorations of a menu of base queries with @defer fragments) and
     schedule seeds (Gen_DeferSched: priority lists, writer parking, faults).
  3. harness/cmd/deferx executes every operation on the real federated engine: reference (@defer stripped),
     @defer(if:false), ungated, and once per schedule seed with the completion order of the deferred subgraph
     exchanges forced by gates.
  4. TLC validates every recorded run (Trace_DeferStream): acceptor on the frames, Merge(initial, incrementals)
     == data of the reference executions, Complete once after the last frame, no overlapping writer calls.
"""
import json
import os
import random
import subprocess
import concurrent.futures as cf

import lib

TAGS = ["FramesAtomic", "CompletedOnceAfterPending", "NothingForUnannounced", "HasNextFalseExactlyLast",
        "Terminates", "Applies", "Reconstructs", "IfFalseEqual", "NoWriteAfterDisconnect", "ReleasesOnDisconnect"]


# ----------------------------------------------------------------------------------------- rendering
class Op:
    """One generated operation (a state of Gen_DeferQ)."""

    def __init__(self, st):
        self.st = st
        self.nodes = st["nodes"]          # 0-based list, node ids are 1-based
        self.frags = st["frags"]
        self.inn = st["in"]
        self.dup = st["dup"]
        self.root = st["root"]
        self.al = set(st.get("al") or [])
        self.nc = st.get("nc") or [""] * len(self.nodes)
        self.reuse = st.get("reuse") or []
        self.cvars = {}

    def kids(self, h):
        return [i + 1 for i, n in enumerate(self.nodes) if n["p"] == h]

    def node(self, x):
        return self.nodes[x - 1]

    def members(self, j):
        """direct members of fragment j: ('n', x) nodes, ('d', x) copies, ('f', k) nested fragments"""
        out = [("n", i + 1) for i, f in enumerate(self.inn) if f == j]
        out += [("d", i + 1) for i, f in enumerate(self.dup) if f == j]
        out += [("f", k + 1) for k, fr in enumerate(self.frags) if fr["up"] == j]
        return out

    def pos(self, item):
        kind, v = item
        if kind in ("n", "d"):
            return v
        ms = self.members(v)
        return min(self.pos(i) for i in ms) if ms else 10 ** 6

    def frag_tc(self, j):
        return self.frags[j - 1]["tc"]

    def host_type(self, h):
        return self.root if h == 0 else self.node(h)["ty"]

    def cond(self, c, var):
        """@skip/@include text for condition code c (skipT, inclVF, ...); variable conditions use $var."""
        if not c:
            return ""
        d = "skip" if c.startswith("skip") else "include"
        if "V" in c:
            self.cvars[var] = c.endswith("T")
            return " @%s(if: $%s)" % (d, var)
        return " @%s(if: %s)" % (d, "true" if c.endswith("T") else "false")

    def directive(self, j, variant):
        return self.defer_directive(j, variant) + self.cond(self.frags[j - 1].get("cond", ""), "cf%d" % j)

    def defer_directive(self, j, variant):
        fr = self.frags[j - 1]
        if variant == "strip":
            return ""
        args = []
        mode = fr["mode"]
        if mode in ("varTrue", "varFalse"):
            args.append("if: $v%d" % j)
        elif variant == "iffalse" or mode == "ifFalse":
            args.append("if: false")
        if fr["label"]:
            args.append('label: "L%d"' % j)
        return " @defer" + ("(%s)" % ", ".join(args) if args else "")

    def field(self, x, variant, copy=False):
        n = self.node(x)
        if n["ty"] == "":
            return n["f"] + ("" if copy else self.cond(self.nc[x - 1], "cn%d" % x))
        # an aliased field keeps its alias in every copy (same response position, the copies merge)
        name = ("a%d: %s" % (x, n["f"])) if x in self.al else n["f"]
        if not copy:
            name += self.cond(self.nc[x - 1], "cn%d" % x)
        if copy:
            leafs = [y for y in self.kids(x) if self.node(y)["ty"] == "" and self.node(y)["tc"] == ""]
            return "%s { %s }" % (name, " ".join(self.node(y)["f"] for y in leafs))
        return "%s { %s }" % (name, self.selset(x, variant))

    def render_items(self, items, variant, outer_tc):
        """items: list of ('n'|'d'|'f', id) inside one selection set / fragment whose type condition is outer_tc."""
        items = sorted(items, key=lambda it: (self.pos(it), 0 if it[0] == "f" else 1))
        out = []
        i = 0
        while i < len(items):
            kind, v = items[i]
            if kind == "f":
                out.append(self.fragment(v, variant))
                i += 1
                continue
            tc = self.node(v)["tc"]
            if tc and tc != outer_tc:
                # group consecutive plain fields with the same type condition
                grp = []
                while i < len(items) and items[i][0] != "f" and self.node(items[i][1])["tc"] == tc:
                    grp.append(items[i])
                    i += 1
                out.append("... on %s { %s }" % (tc, " ".join(self.field(x, variant, k == "d") for k, x in grp)))
                continue
            out.append(self.field(v, variant, kind == "d"))
            i += 1
        return " ".join(out)

    def selset(self, h, variant):
        items = [("n", x) for x in self.kids(h) if self.inn[x - 1] == 0]
        items += [("f", k + 1) for k, fr in enumerate(self.frags) if fr["host"] == h and fr["up"] == 0]
        text = self.render_items(items, variant, "")
        # plain copies of deferred fields: before the rest (even node id) or after (odd)
        before = [x for x in self.kids(h) if self.dup[x - 1] == 0 and x % 2 == 0]
        after = [x for x in self.kids(h) if self.dup[x - 1] == 0 and x % 2 == 1]
        parts = []
        if before:
            parts.append(self.render_items([("d", x) for x in before], variant, ""))
        if text:
            parts.append(text)
        if after:
            parts.append(self.render_items([("d", x) for x in after], variant, ""))
        for r in self.reuse:
            if r["host"] == h:
                d = ""
                if r["d"] and variant != "strip":
                    d = " @defer(if: false)" if variant == "iffalse" else " @defer"
                parts.append("...F%d%s" % (r["f"], d))
        return " ".join(parts)

    def fragment(self, j, variant):
        fr = self.frags[j - 1]
        tc = self.frag_tc(j)
        body = self.render_items(self.members(j), variant, tc)
        cond = tc or (self.host_type(fr["host"]) if (fr["typed"] or fr["kind"] == "spread") else "")
        if fr["kind"] == "spread":
            self.defs.append("fragment F%d on %s { %s }" % (j, cond, body))
            return "...F%d%s" % (j, self.directive(j, variant))
        return "...%s%s { %s }" % (" on " + cond if cond else "", self.directive(j, variant), body)

    def text(self, variant):
        self.defs = []
        self.cvars = {}
        body = self.selset(0, variant)
        varz = dict(self.cvars)
        if variant != "strip":
            for j, fr in enumerate(self.frags, 1):
                if fr["mode"] in ("varTrue", "varFalse"):
                    varz["v%d" % j] = (fr["mode"] == "varTrue") and variant == "defer"
        head = "query Q"
        if varz:
            head += "(%s)" % ", ".join("$%s: Boolean!" % v for v in sorted(varz))
        q = "%s { %s }" % (head, body)
        if self.defs:
            q += " " + " ".join(self.defs)
        return q, (json.dumps(varz, sort_keys=True) if varz else "")

    def active_defers(self):
        return sum(1 for fr in self.frags if fr["mode"] in ("on", "varTrue"))


def make_case(cid, st, scheds, max_orders):
    op = Op(st)
    q, v = op.text("defer")
    r, rv = op.text("strip")
    f, fv = op.text("iffalse")
    return {"id": cid, "query": q, "vars": v, "ref": r, "refVars": rv, "ifFalse": f, "ifFalseVars": fv,
            "nulls": [st["nul"]] if st["nul"] else [], "scheds": scheds, "maxOrders": max_orders}


# ----------------------------------------------------------------------------------------- replay + validation
def run_chunk(ctx, binary, idx, cases):
    cp = ctx.path("cases-%03d.ndjson" % idx)
    ep = ctx.path("events-%03d.ndjson" % idx)
    rp = ctx.path("results-%03d.ndjson" % idx)
    lib.write_ndjson(cp, cases)
    env = dict(os.environ)
    env["VERIF_SEED"] = str(ctx.seed)
    try:
        p = subprocess.run([binary, "-in", cp, "-out", ep, "-res", rp], stdout=subprocess.PIPE, stderr=subprocess.PIPE,
                           text=True, timeout=2400, env=env, cwd=ctx.scratch)
    except subprocess.TimeoutExpired:
        raise lib.Inconclusive("deferx timed out on chunk %d" % idx)
    if p.returncode != 0:
        # a crash of the driver process = a panic escaped the engine (recovered panics are reported per run)
        return idx, ep, rp, p.returncode, (p.stderr or "")[-3000:]
    return idx, ep, rp, 0, ""


def validate_chunk(ctx, idx, ep):
    r = ctx.tlc("resolve", "Trace_DeferStream", "Trace_DeferStream.cfg", workers=1, env={"TRACE": ep}, timeout=2400,
                deadlock=False, count=False, tag="trace-validation-%03d" % idx, heap="3g")
    return idx, r


def selftest_binding(ctx, ep, verdict_of):
    """Binding demonstration on real recorded runs: drop a frame, flip the last hasNext, corrupt one delivered leaf,
    swap two frames -- the validator must reject each corrupted run (and accept the original)."""
    rows = lib.read_ndjson(ep)
    # first run with >= 3 frames that was accepted
    runs, cur = [], []
    for r in rows:
        if r["ev"] == "case":
            cur = [r]
        else:
            cur.append(r)
            if r["ev"] == "end":
                runs.append(cur)
    pick = None
    for run in runs:
        fr = [x for x in run if x["ev"] == "frame"]
        if len(fr) >= 3 and verdict_of.get(run[0]["id"]) == [] and run[-1]["cmp"] and any(x["inc"] for x in fr):
            pick = run
            break
    if pick is None:
        raise lib.Inconclusive("binding selftest: no accepted run with >= 3 frames found")

    def clone(tag):
        c = json.loads(json.dumps(pick))
        c[0]["id"] = c[-1]["id"] = "selftest/" + tag
        return c

    muts = {}
    c = clone("drop-frame")
    del c[2]
    muts["drop-frame"] = c
    c = clone("flip-hasnext")
    c[-2]["hasNext"] = True
    muts["flip-hasnext"] = c
    c = clone("hasnext-early")
    c[1]["hasNext"] = False
    muts["hasnext-early"] = c
    c = clone("corrupt-leaf")

    def corrupt(v):
        if v["t"] == "o":
            for k in sorted(v["o"]):
                if corrupt(v["o"][k]):
                    return True
            return False
        if v["t"] == "l":
            return any(corrupt(e) for e in v["l"])
        v["s"] = v["s"] + "~"
        return True
    for x in c:
        if x["ev"] == "frame" and x["inc"]:
            if corrupt(x["inc"][0]["data"]):
                break
    muts["corrupt-leaf"] = c
    c = clone("swap-frames")
    c[1], c[2] = c[2], c[1]
    muts["swap-frames"] = c
    c = clone("complete-twice")
    c[-1]["complete"] = 2
    muts["complete-twice"] = c
    c = clone("unannounced")
    for x in c:
        if x["ev"] == "frame" and x["inc"]:
            x["inc"][0]["id"] = "99"
            break
    muts["unannounced"] = c
    c = clone("original")
    muts["original"] = c
    sp = ctx.path("selftest.ndjson")
    lib.write_ndjson(sp, [x for m in muts.values() for x in m])
    r = ctx.tlc("resolve", "Trace_DeferStream", "Trace_DeferStream.cfg", workers=1, env={"TRACE": sp}, timeout=600,
                deadlock=False, count=False, tag="binding-selftest")
    if not r.ok:
        print(r.out[-3000:])
        raise lib.Inconclusive("binding selftest: TLC failed: %s" % r.error)
    got = {p["id"].split("/", 1)[1]: p["verdict"] for p in r.printed if p.get("kind") == "verdict"}
    for tag in muts:
        v = got.get(tag)
        if tag == "original":
            if v != []:
                raise lib.Inconclusive("binding selftest: the unmodified run was rejected: %r" % v)
        elif not v:
            raise lib.Inconclusive("binding selftest: corrupted run %s was ACCEPTED by the validator" % tag)
    return {k: got[k] for k in muts}



# ----------------------------------------------------------------------------------------- classification (keys only)
def _load(s):
    try:
        return json.loads(s)
    except Exception:
        return None


def py_apply(frames):
    """Replays the merge outside TLC, only to explain a rejected run (the verdict is TLC's): returns the merged data and
    a list of (kind, path) problems: kind in dead-anchor | null-in-subpath | missing-path | conflict | unannounced."""
    problems = []
    docs = [_load(f) for f in frames]
    if not docs or not isinstance(docs[0], dict):
        return None, [("unparsable", ())]
    data = docs[0].get("data")
    paths = {}
    for d in docs:
        if not isinstance(d, dict):
            continue
        for p in d.get("pending") or []:
            paths[p.get("id")] = list(p.get("path") or [])
        if d is docs[0]:
            continue
        for it in d.get("incremental") or []:
            if it.get("id") not in paths:
                problems.append(("unannounced", ()))
                continue
            npend = len(paths[it["id"]])
            path = paths[it["id"]] + list(it.get("subPath") or [])
            cur = data
            ok = True
            for i, seg in enumerate(path):
                if cur is None:
                    # a null ON the announced pending.path = the anchor itself is dead; below it = inside subPath
                    problems.append(("dead-anchor" if i <= npend else "null-in-subpath", tuple(x for x in path[:i] if isinstance(x, str))))
                    ok = False
                    break
                try:
                    cur = cur[seg]
                except (KeyError, IndexError, TypeError):
                    problems.append(("missing-path", tuple(x for x in path[:i + 1] if isinstance(x, str))))
                    ok = False
                    break
            if ok and cur is None:
                problems.append(("dead-anchor" if len(path) <= npend else "null-in-subpath", tuple(x for x in path if isinstance(x, str))))
                ok = False
            if ok:
                _deep_merge(cur, it.get("data"), tuple(x for x in path if isinstance(x, str)), problems)
    return data, problems


def _deep_merge(a, b, path, problems):
    if isinstance(a, dict) and isinstance(b, dict):
        for k, v in b.items():
            if k in a and (isinstance(a[k], (dict, list)) and type(a[k]) is type(v)):
                _deep_merge(a[k], v, path + (k,), problems)
            elif k in a and a[k] != v:
                problems.append(("conflict", path + (k,)))
            else:
                a[k] = v
    elif isinstance(a, list) and isinstance(b, list) and len(a) == len(b):
        for x, y in zip(a, b):
            if isinstance(x, (dict, list)) and type(x) is type(y):
                _deep_merge(x, y, path, problems)
            elif x != y:
                problems.append(("conflict", path))
    elif a != b:
        problems.append(("conflict", path))


def diff_paths(exp, got, path=()):
    """(kind, field path without list indices) for every difference; kind in missing | extra | different."""
    out = []
    if isinstance(exp, dict) and isinstance(got, dict):
        for k in exp:
            if k not in got:
                out.append(("missing", path + (k,)))
            else:
                out += diff_paths(exp[k], got[k], path + (k,))
        for k in got:
            if k not in exp:
                out.append(("extra", path + (k,)))
    elif isinstance(exp, list) and isinstance(got, list) and len(exp) == len(got):
        for x, y in zip(exp, got):
            out += diff_paths(x, y, path)
    elif exp != got:
        out.append(("different", path))
    return out


def classify(tag, row, info):
    """Sub-key naming the shape of the failure, so that a known finding only covers its own root cause."""
    if tag == "Reconstructs":
        merged, problems = py_apply(row["frames"])
        ref = _load(info.get("ref") or "null")
        exp = ref.get("data") if isinstance(ref, dict) else None
        diffs = diff_paths(exp, merged)
        orphans = [tuple(f["path"]) for f in info.get("deferredFields") or [] if f["orphan"]]
        if diffs and all(k == "missing" and any(p[:len(o)] == o for o in orphans) for k, p in diffs):
            return "orphan-field", sorted({".".join(p) for _, p in diffs})
        return "other", sorted({k + ":" + ".".join(p) for k, p in diffs})[:6]
    if tag == "Applies":
        merged, problems = py_apply(row["frames"])
        kinds = sorted({k for k, _ in problems})
        if kinds == ["null-in-subpath"]:
            return "null-in-subpath", sorted({".".join(p) for _, p in problems})
        return "+".join(kinds) or "other", sorted({k + ":" + ".".join(p) for k, p in problems})[:6]
    if tag == "NoWriteAfterDisconnect":
        after = row["calls"].split("x", 1)[1] if "x" in row["calls"] else ""
        # W = a failed Write, X = a failed Flush; one single failed Write per still pending group = the group tried to start
        # its (error) frame, got the error and stopped
        if "X" not in after and after.count("W") <= max(1, len(info.get("groups") or [])):
            return "one-write-per-pending-group", [after]
        return "other", [after]
    return "-", []


def _k_matches(ctx, key):
    return any(k.get("property") == ctx.prop and k.get("status") == "open" and lib._key_match(k.get("key"), key) for k in ctx.known())


def sched_key(s):
    return json.dumps(s, sort_keys=True)


def run(ctx):
    rng = random.Random(ctx.seed)
    quick = ctx.quick()
    binary = ctx.build("deferx")
    # findings of this property that are not merged into known-findings.json yet (findings.d/C10.json is their source)
    try:
        with open(os.path.join(lib.VERIF, "findings.d", "C10.json")) as f:
            mine = json.load(f)
        have = {(k.get("property"), k.get("key")) for k in ctx.known()}
        ctx._known = ctx.known() + [k for k in mine if (k.get("property"), k.get("key")) not in have]
    except FileNotFoundError:
        pass

    replay = ctx.replay_in is not None
    if replay:
        # bin/check C10 --replay <file>: re-execute the recorded operation under the recorded schedule and judge it again
        with open(ctx.replay_in) as f:
            rec = json.load(f)["case"]
        case = dict(rec["case"])
        case["scheds"] = [rec["schedule"]] if rec.get("schedule") else []
        case["maxOrders"] = 0
        cases = [case]
        st_by_id = {case["id"]: rec.get("generator_state")}
    else:
        # ---- 1. model checking ---------------------------------------------------------------------------------
        ctx.tlc_must_pass("resolve", "Defer", "MC_Defer_3.cfg" if quick else "MC_Defer_4.cfg", timeout=2400, workers=8,
                          tag="mc-defer")
        neg = ctx.tlc("resolve", "Defer", "MC_Defer_nolock.cfg", timeout=600, workers=4, count=False, tag="mc-negative-nolock")
        if neg.violated != "FramesAtomic":
            raise lib.Inconclusive("sanity: without the DataBuffer lock the model must violate FramesAtomic, got %r" % neg.error)
        neg = ctx.tlc("resolve", "Defer", "MC_Defer_nogroup.cfg", timeout=600, workers=4, count=False, tag="mc-negative-nogroup")
        if neg.violated != "HasNextFalseExactlyLast":
            raise lib.Inconclusive("sanity: a descriptor without fetch group must violate HasNextFalseExactlyLast, got %r" % neg.error)

        # ---- 2. generation ---------------------------------------------------------------------------------------
        g1 = ctx.tlc_must_pass("resolve", "Gen_DeferQ", "Gen_DeferQ_bfs1.cfg", timeout=900, workers=4, deadlock=False, tag="gen-ops-bfs1")
        gp = ctx.tlc_must_pass("resolve", "Gen_DeferQ", "Gen_DeferQ_pin.cfg", timeout=900, workers=4, deadlock=False, tag="gen-ops-pinned-family")
        nsim = 80 if quick else 900
        gs = ctx.tlc_must_pass("resolve", "Gen_DeferQ", "Gen_DeferQ_sim.cfg", timeout=1800, workers=1, deadlock=False,
                               simulate=nsim, depth=8, seed=ctx.seed, tag="gen-ops-simulate")
        gk = ctx.tlc_must_pass("resolve", "Gen_DeferSched", "Gen_DeferSched_5.cfg", timeout=600, workers=1, deadlock=False, tag="gen-sched")

        def uniq(states):
            d = {}
            for s in states:
                d.setdefault(lib.sha(s), s)
            return list(d.values())
        ops1 = uniq(g1.printed)
        opsP = uniq(gp.printed)   # focused family: sibling fragments sharing an object field with a fragment nested inside it
        opsS = [s for s in uniq(gs.printed) if len(s["acts"]) >= 2]
        scheds = uniq(gk.printed)
        cuts = [s for s in scheds if s["cut"]]
        denies = [s for s in scheds if s["deny"]]
        plain = [s for s in scheds if not s["park"] and not s["fault"] and not s["cut"] and not s["deny"]]
        parks = [s for s in scheds if s["park"]]
        faults = [s for s in scheds if s["fault"]]
        ctx.log("generated: %d single-action operations x <=1 aliased ancestor (BFS, exhaustive), %d operations of the focused "
                "shared-object family (BFS, exhaustive), %d sampled deeper operations, %d schedule seeds (%d orders, %d park, %d fault)" % (
                    len(ops1), len(opsP), len(opsS), len(scheds), len(plain), len(parks), len(faults)))
        rng.shuffle(ops1)
        rng.shuffle(opsS)
        plain1 = [o for o in ops1 if not o["al"]]
        alias1 = [o for o in ops1 if o["al"]]
        if quick:
            def has_cond(o):
                return any(o["nc"]) or any(f["cond"] for f in o["frags"])
            condS = [o for o in opsS if has_cond(o)]
            reuseS = [o for o in opsS if o["reuse"]]
            restS = [o for o in opsS if not has_cond(o) and not o["reuse"]]
            chosen = plain1[:110] + alias1[:100] + opsP + condS[:90] + reuseS[:70] + restS[:150]
        else:
            chosen = ops1 + opsP + opsS[:2000]
        if os.environ.get("C10_OPS"):  # developer knob: "<bfs>,<sim>"
            a, b = os.environ["C10_OPS"].split(",")
            chosen = ops1[:int(a)] + opsP + opsS[:int(b)]

        def pick_scheds():
            if quick:
                return rng.sample(plain, 7) + rng.sample(parks, 3) + rng.sample(faults, 2) + rng.sample(cuts, 2) + rng.sample(denies, 2)
            # all 120 orders over 5 indices (the driver restricts them to the observed exchanges and de-duplicates)
            return plain + rng.sample(parks, 12) + rng.sample(faults, 10) + rng.sample(cuts, 10) + rng.sample(denies, 12)
        # different generator states can print the same operation (e.g. creation order of the fragments)
        seen_text, uniq_chosen = set(), []
        for st in chosen:
            k = (Op(st).text("defer"), st["nul"])
            if k not in seen_text:
                seen_text.add(k)
                uniq_chosen.append(st)
        chosen = uniq_chosen
        cases = []
        for i, st in enumerate(chosen):
            cases.append(make_case("c%05d" % i, st, pick_scheds(), 14 if quick else 80))
        st_by_id = {c["id"]: st for c, st in zip(cases, chosen)}
    by_id = {c["id"]: c for c in cases}

    # ---- 3. replay (several driver processes: quiescence detection is per process) -------------------------------
    nproc = 6
    chunks = [cases[i::nproc] for i in range(nproc)]
    chunks = [c for c in chunks if c]
    results = []
    with cf.ThreadPoolExecutor(max_workers=nproc) as ex:
        futs = [ex.submit(run_chunk, ctx, binary, i, ch) for i, ch in enumerate(chunks)]
        for f in futs:
            results.append(f.result())
    ctx.log("replayed %d operations in %d driver processes" % (len(cases), len(chunks)))
    for idx, ep, rp, rc, err in results:
        if rc != 0:
            ctx.violation("driver-crash", "the driver process died (panic escaped the engine?): %s" % err[-800:],
                          {"chunk": idx, "stderr": err})
    # ---- 4. validation -----------------------------------------------------------------------------------------
    verdicts = {}
    plans = {}
    model_bad = {}
    info_runs = {}
    with cf.ThreadPoolExecutor(max_workers=nproc) as ex:
        futs = [ex.submit(validate_chunk, ctx, idx, ep) for idx, ep, rp, rc, err in results if rc == 0]
        for f in futs:
            idx, r = f.result()
            if not r.ok:
                print(r.out[-4000:])
                raise lib.Inconclusive("trace validation did not complete on chunk %d: %s" % (idx, r.error))
            for p in r.printed:
                if p.get("kind") == "verdict":
                    verdicts[p["id"]] = p["verdict"]
                    if p.get("model"):
                        model_bad[p["id"]] = p["model"]
                    if p.get("info"):
                        info_runs[p["id"]] = p["info"]
                elif p.get("kind") == "plan":
                    plans[p["id"]] = p
    runs = {}
    caseinfo = {}
    for idx, ep, rp, rc, err in results:
        if rc != 0:
            continue
        for row in lib.read_ndjson(rp):
            if row["kind"] == "run":
                runs[row["id"]] = row
            else:
                caseinfo[row["id"]] = row
    missing = [rid for rid in runs if rid not in verdicts]
    if missing:
        raise lib.Inconclusive("%d runs were not judged by TLC (e.g. %s)" % (len(missing), missing[0]))

    # ---- verdicts ------------------------------------------------------------------------------------------------
    n_runs = n_gated = n_faulted = n_parked = n_parkrel = n_cmp = n_unreal = n_stream = n_cut = n_deny = 0
    orders = set()
    distinct = set()
    tree_bad = groups_bad = 0
    samples = []
    rejected_runs = {}
    for rid, row in sorted(runs.items()):
        n_runs += 1
        c = by_id[row["case"]]
        info = caseinfo[row["case"]]
        sch = row["sched"]
        if sch:
            n_gated += 1
        if row.get("cut"):
            n_cut += 1
        if sch and sch.get("deny"):
            n_deny += 1
        if row["applied"]:
            n_faulted += 1
        if row["parked"]:
            n_parked += 1
        if row["parkRelease"]:
            n_parkrel += 1
        if row["cmp"]:
            n_cmp += 1
        if row["notQuiet"] or row["unknown"]:
            n_unreal += 1
        if len(row["frames"]) > 1:
            n_stream += 1
        orders.add((row["case"], tuple(row["order"] or []), sch and sch["park"], sch and sch["parkAt"], sch and sch["fault"], sch and sch["faultAt"], sch and sch.get("cut"), sch and sch.get("cutAt"), sch and sch.get("deny"), sch and sch.get("dmode")))
        if len(row["frames"]) > 1:
            distinct.add(lib.sha([c["query"], c["nulls"], row["order"], sch and [sch["park"], sch["parkAt"], sch["fault"], sch["faultAt"], sch.get("cut"), sch.get("cutAt"), sch.get("deny"), sch.get("dmode")]]))
        pl = plans.get(rid)
        if pl and not pl["tree"]:
            tree_bad += 1
        if pl and not pl["groups"]:
            groups_bad += 1
        v = verdicts[rid]
        if row["err"].startswith("panic"):
            v = v + ["Panic"]
        for tag in v:
            sub, detail = classify(tag, row, info)
            key = "%s|%s|%s|nulls=%s|%s" % (tag, "faulted" if (row["applied"] or (sch and sch.get("deny"))) else ("cut" if row.get("cut") else "nofault"), sub, ",".join(c["nulls"]), c["query"])
            what = "%s violated (%s %s): %s; operation %s vars=%s nulls=%s schedule=%s realised order=%s" % (
                tag, sub, detail, EXPLAIN.get(tag, ""), c["query"], c["vars"] or "{}", c["nulls"], json.dumps(sch), row["order"])
            rejected_runs[tag + "|" + sub] = rejected_runs.get(tag + "|" + sub, 0) + 1
            if len(ctx.violations) >= 40:
                # enough replay files; the remaining rejected runs are counted in runs_rejected_by_class
                if not _k_matches(ctx, key):
                    continue
            ctx.violation(key, what, {"case": c, "generator_state": st_by_id[row["case"]], "schedule": sch, "realised_order": row["order"],
                                      "frames": row["frames"], "reference": info.get("ref"), "ifFalse": info.get("ifFalse"),
                                      "exchanges": info.get("exchanges"), "descriptors": info.get("descs"), "tree": info.get("tree"),
                                      "verdict": v, "writer_calls": row["calls"], "engine_error": row["err"]})
        if len(samples) < 4 and sch and len(row["frames"]) > 2:
            samples.append({"operation": c["query"], "nulls": c["nulls"], "schedule": sch, "realised_order": row["order"],
                            "frames": row["frames"], "verdict": v})
    # reference executions that failed outright (engine error on a generated operation) are generator problems
    bad_ref = [i for i, info in caseinfo.items() if info["refErr"] or info["ifFalseErr"] or info["refFrames"] != 1 or info["ifFalseFrames"] != 1]
    if bad_ref:
        info = caseinfo[bad_ref[0]]
        ctx.notes.append("%d generated operations were rejected by the engine without @defer (e.g. %s: %s)" % (
            len(bad_ref), by_id[bad_ref[0]]["ref"], info["refErr"]))
        if len(bad_ref) > len(caseinfo) // 10:
            raise lib.Inconclusive("generator produces operations the engine rejects: %s -> %s" % (by_id[bad_ref[0]]["ref"], info["refErr"]))
    rejected = [i for i, info in caseinfo.items() if info.get("learnErr") and (i + "/free") not in runs]
    for i in sorted(rejected):
        info = caseinfo[i]
        if i in bad_ref:
            continue  # the operation is not executable without @defer either: generator problem, noted above
        # the engine answers the operation without @defer and with if:false, but returns an error instead of a stream
        # for the @defer variant: nothing is delivered at all
        c = by_id[i]
        rejected_runs["Reconstructs|engine-error"] = rejected_runs.get("Reconstructs|engine-error", 0) + 1
        if len(ctx.violations) < 40:
            sub = "engine-error"
            if "must be unique, but was already used" in info["learnErr"] and ("@skip" in c["query"] or "@include" in c["query"]) \
                    and c["query"].count('label: "') == len(set(x.split('"')[0] for x in c["query"].split('label: "')[1:])):
                # every label occurs once in the text: the uniqueness rule saw one directive twice (node revisit after a
                # @skip(if:true)/@include(if:false) deletion)
                sub = "engine-error-label-revisit"
            ctx.violation("Reconstructs|nofault|%s|nulls=%s|%s" % (sub, ",".join(c["nulls"]), c["query"]),
                          "the engine executes the operation without @defer and with @defer(if:false) but fails with %r for the @defer variant "
                          "(no frame is written): operation %s vars=%s nulls=%s" % (info["learnErr"][:300], c["query"], c["vars"] or "{}", c["nulls"]),
                          {"case": c, "generator_state": st_by_id[i], "schedule": None, "engine_error": info["learnErr"],
                           "reference": info.get("ref"), "ifFalse": info.get("ifFalse")})
    n_defer_plans = sum(1 for i in caseinfo.values() if i["isDefer"])
    if replay:
        for rid, row in sorted(runs.items()):
            print("run %s schedule=%s realised order=%s verdict=%s" % (rid, json.dumps(row["sched"]), row["order"], verdicts[rid]))
            for fr in row["frames"]:
                print("   ", fr)
        ctx.coverage.update({"traces_validated_against_impl": len(verdicts), "evaluations": n_runs, "distinct_nontrivial": len(distinct),
                             "exhaustive": False, "samples": samples})
        return
    # ---- binding demonstration ------------------------------------------------------------------------------------
    st = None
    for idx, ep, rp, rc, err in results:
        if rc == 0:
            try:
                st = selftest_binding(ctx, ep, verdicts)
                break
            except lib.Inconclusive as e:
                last = e
    if st is None:
        raise last
    if info_runs:
        rid = sorted(info_runs)[0]
        ctx.notes.append("for information, outside the statement (C10 does not quantify over subgraph faults): in %d runs with an injected "
                         "failure an incremental item could not be applied at pending.path ++ subPath (parent delivered null / nothing, "
                         "nested child still announced), e.g. %s schedule=%s" % (len(info_runs), by_id[runs[rid]["case"]]["query"], json.dumps(runs[rid]["sched"])))
    if model_bad:
        rid = sorted(model_bad)[0]
        ctx.notes.append("model conformance: %d runs contain a frame that is not a step of Defer.tla (e.g. %s: %s; %s)" % (
            len(model_bad), rid, model_bad[rid], by_id[runs[rid]["case"]]["query"]))
    if tree_bad or groups_bad:
        ctx.notes.append("model conformance: %d runs whose real DeferTree differs from BuildTree(descriptors), %d runs with a "
                         "descriptor that has no fetch group (assumption AllGroups of Defer.tla)" % (tree_bad, groups_bad))
    ctx.coverage.update({
        "traces_validated_against_impl": len(verdicts),
        "evaluations": n_runs,
        "distinct_nontrivial": len(distinct),
        "rule": "one evaluation = one execution of a generated @defer operation on the real federated engine under one schedule "
                "(ungated, or a forced completion order of the deferred subgraph exchanges, optionally with the writer parked "
                "inside a frame or one injected fetch failure), judged by TLC; distinct by (operation text, data universe, "
                "realised release order, park/fault); non-trivial = the response was an incremental stream (>= 2 frames)",
        "operations": len(cases),
        "operations_with_defer_plan": n_defer_plans,
        "operations_rejected_by_engine": len(rejected),
        "gated_runs": n_gated,
        "distinct_realised_schedules": len(orders),
        "runs_with_reference_comparison": n_cmp,
        "runs_with_injected_failure": n_faulted,
        "runs_with_client_disconnect": n_cut,
        "runs_with_authorization_denial": n_deny,
        "runs_with_writer_parked": n_parked,
        "runs_with_exchange_completed_while_parked": n_parkrel,
        "unrealised_schedules": n_unreal,
        "tree_nonconforming": tree_bad,
        "descriptor_without_group": groups_bad,
        "runs_with_frame_not_a_model_step": len(model_bad),
        "info_runs_inapplicable_item_under_injected_failure": len(info_runs),
        "binding_selftest": st,
        "runs_rejected_by_class": rejected_runs,
        "samples": samples,
        "exhaustive": False,
        "exhaustive_part": "all single-action decorations of the 5 menu queries x <=1 aliased ancestor are %s; the focused shared-object family is always replayed; model checking is exhaustive for <= %d defers" % (
            "replayed" if not quick else "generated (a seed-selected subset is replayed)", 3 if quick else 4),
    })
    ctx.assumptions += [
        "the reference semantics is the engine's own answer to the same operation with the directive removed and with if:false (C01 judges that answer)",
        "data universes: the static federationtesting data, optionally with one nullable field name rewritten to null in every subgraph response (same rewrite in all executions)",
        "completion orders are forced at the subgraph transport (a response is released only when the process is quiescent); code between two releases runs unscheduled",
        "with an injected failure only the stream-protocol clauses are judged (frames atomic, pending/completed discipline, hasNext, termination); data placement under faults is outside the statement (C07 covers faults) and only reported for information",
        "<= 4 fragments per operation, <= 5 gated exchanges distinguished by priority",
    ]


EXPLAIN = {
    "FramesAtomic": "a flushed chunk is not exactly one frame document / writer calls overlapped",
    "CompletedOnceAfterPending": "an announced id was not completed exactly once after its announcement",
    "NothingForUnannounced": "data was delivered for an id that is not pending",
    "HasNextFalseExactlyLast": "hasNext is not false exactly on the last frame",
    "Terminates": "the stream was not closed exactly once after the last frame / the engine never returned",
    "Applies": "an incremental item cannot be applied: pending.path ++ subPath does not exist in the data delivered so far, or it overwrites a delivered value with a different one",
    "Reconstructs": "initial data + incrementals applied at pending.path ++ subPath differs from the data of the same query without @defer",
    "IfFalseEqual": "the query with @defer(if:false) returns different data than the query without @defer",
    "NoWriteAfterDisconnect": "the writer was called again after a writer call had failed (client gone, request context cancelled)",
    "ReleasesOnDisconnect": "goroutines were left behind after the client disconnected",
    "Panic": "the engine panicked",
}
