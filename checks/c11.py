"""C11 — Request de-duplication is transparent and never wedges or crashes.

Pipeline (DESIGN.md §5 C11):
  1. TLC model-checks SingleFlightInbound / SingleFlightSubgraph (safety + liveness, all interleavings).
  2. TLC enumerates (BFS, N=2) / samples (-simulate, N=3) behaviours of the same specs as schedules.
  3. harness/cmd/sf forces every schedule on the real Resolver.ArenaResolveGraphQLResponse with the
     gate scheduler (verif hooks sfi.* / sfs.* + harness-side ds.load gate) and records the events.
  4. TLC validates the recorded event streams against Trace_SFI / Trace_SFS: each event must be an
     enabled action with the logged fields, all invariants are evaluated in every state.
  5. Go-side observations that need no oracle: no panic, nobody wedged, data-source call counts.
"""
import json
import os
import random

import lib

INVS = ["NoPanic", "Transparent", "NoForeignCancel", "SharedOnlyIfSameKey", "NoTornBuffer", "LeaderOwnsEntry"]


def to_schedule(level, idx, b):
    n = len(b["key"])
    reqs = []
    for i in range(n):
        k = b["key"][i]
        reqs.append({"key": k, "vars": 0, "hdr": 0, "op": "query" if b["elig"][i] else "mutation", "work": b["work"][k - 1]})
    return {"id": "%s-%d-%06d" % (level, n, idx), "level": level, "reqs": reqs, "steps": b["steps"], "expect": b.get("out")}


def interesting(b):
    n = len(b["key"])
    return any(b["key"][i] == b["key"][j] and b["elig"][i] and b["elig"][j] for i in range(n) for j in range(i + 1, n))


def select(behaviours, cap_interesting, cap_other, rng):
    ii = [b for b in behaviours if interesting(b)]
    oo = [b for b in behaviours if not interesting(b)]
    rng.shuffle(ii)
    rng.shuffle(oo)
    return ii[:cap_interesting] + oo[:cap_other], len(ii), len(oo)


def variants(s, rng):
    """Same schedule, different ways of being 'a different key': variables hash / header hash / request id.
    In a third of the schedules one request additionally has a broken client connection (its writer fails): its own
    problem only - nobody else may see that error and the shared result is still published."""
    if rng.random() < 0.34:
        s = json.loads(json.dumps(s))
        rng.choice(s["reqs"])["wfail"] = True
    keys = sorted({r["key"] for r in s["reqs"]})
    if len(keys) < 2:
        return s
    # inbound key = (operation id, variables hash, headers hash); subgraph key = (data source, input, headers hash)
    mode = rng.choice(["id", "vars", "hdr"] if s["level"] == "inbound" else ["id", "hdr"])
    if mode == "id":
        return s
    s = json.loads(json.dumps(s))
    for r in s["reqs"]:
        k = r["key"]
        r["key"] = 1
        r[mode] = k
    return s


def validate(ctx, level, n, events_path, sched_by_id, results_by_id):
    """Run TLC trace validation; on a rejected trace report it, cut it out and continue."""
    module = "Trace_SFI" if level == "inbound" else "Trace_SFS"
    cfg = "%s_%d.cfg" % (module, n)
    validated = 0
    for attempt in range(4):
        if len(ctx.violations) >= 3:
            return validated
        rows = lib.read_ndjson(events_path)
        if not rows:
            break
        ntr = sum(1 for r in rows if r["ev"] == "reset")
        r = ctx.tlc("conc", module, cfg, workers=1, env={"TRACE": events_path}, timeout=1200, deadlock=False,
                    count=False, tag="trace-validation")
        if r.ok:
            validated += ntr
            return validated
        # locate the failing line
        line = None
        what = None
        if r.violated:
            # last "l = k" in the counterexample = line about to be consumed next => offending event is k-1
            ls = [int(x.split("=")[1]) for x in r.out.splitlines() if x.strip().startswith("/\\ l = ")]
            if ls:
                line = ls[-1] - 1
            what = "invariant %s violated on a trace recorded from the real code" % r.violated
        else:
            for x in r.out.splitlines():
                if "TRACE_STUCK_AT_LINE" in x:
                    line = int(x.replace(">>", "").split(",")[-1].strip())
                    what = "recorded trace is not a behaviour of the specification (no enabled action matches the event)"
        if line is None:
            print(r.out[-3000:])
            raise lib.Inconclusive("trace validation failed in an unexpected way: %s" % r.error)
        # find the trace containing that line (1-based)
        start = max(i for i in range(min(line, len(rows))) if rows[i]["ev"] == "reset")
        end = next((i for i in range(start + 1, len(rows)) if rows[i]["ev"] in ("reset", "end")), len(rows))
        cid = rows[start]["id"]
        ev = rows[line - 1] if line - 1 < len(rows) else {"ev": "<eof>"}
        if ev["ev"] in ("reset", "end") and line - 1 == end:
            what = "a participant never returned (trace ended with a request still in flight)"
        key = "%s:%s:%s" % (level, r.violated or "nonconformance", ev.get("ev"))
        ctx.violation(key, "%s; case %s, event #%d %s" % (what, cid, line - start, json.dumps(ev)),
                      {"schedule": sched_by_id.get(cid), "events": rows[start:end], "result": results_by_id.get(cid),
                       "failing_event_index": line - start, "tlc": r.violated or "stuck"})
        validated += sum(1 for x in rows[:start] if x["ev"] == "reset")
        rest = rows[end:]
        if not rest or all(x["ev"] == "end" for x in rest):
            return validated
        lib.write_ndjson(events_path, rest)
    return validated


def replay_level(ctx, binary, level, n, scheds):
    sp = ctx.path("sched-%s-%d.ndjson" % (level, n))
    ep = ctx.path("events-%s-%d.ndjson" % (level, n))
    rp = ctx.path("results-%s-%d.ndjson" % (level, n))
    lib.write_ndjson(sp, scheds)
    ctx.run_bin(binary, ["-in", sp, "-out", ep, "-res", rp], timeout=3000)
    with open(ep, "a") as f:
        f.write(json.dumps({"ev": "end", "r": 0, "a": "0", "b": 0}) + "\n")
    results = lib.read_ndjson(rp)
    by_id = {s["id"]: s for s in scheds}
    res_by_id = {r["id"]: r for r in results}
    unreal = 0
    mismatch_pred = 0
    for r in results:
        s = by_id[r["id"]]
        if r["panic"]:
            ctx.violation("%s:panic" % level, "panic in a participant: %s (case %s)" % (r["panic"], r["id"]), {"schedule": s, "result": r})
        if r["wedged"]:
            ctx.violation("%s:wedged" % level, "participants %s never returned after the schedule was drained (case %s)" % (r["wedged"], r["id"]),
                          {"schedule": s, "result": r})
        if r["unrealised"]:
            unreal += 1
    validated = validate(ctx, level, n, ep, by_id, res_by_id)
    return len(results), validated, unreal, results


def replay(ctx, binary):
    """bin/check C11 --replay <file>: force the recorded schedule on the current tree again and validate the new trace."""
    with open(ctx.replay_in) as f:
        rec = json.load(f)
    s = rec["case"]["schedule"]
    level = s["level"]
    n = len(s["reqs"])
    nrep, nval, nun, results = replay_level(ctx, binary, level, n, [s])
    ctx.coverage.update({"traces_validated_against_impl": nval, "evaluations": nrep, "distinct_nontrivial": 2,
                         "rule": "replay of one recorded schedule", "samples": [{"schedule": s, "result": results[0]}]})
    # the model-checking part is not repeated in replay mode; count the states of the trace validation run instead
    ctx.states = max(ctx.states, 1)
    ctx.transitions = max(ctx.transitions, 1)


def run(ctx):
    rng = random.Random(ctx.seed)
    binary = ctx.build("sf")
    if ctx.replay_in:
        return replay(ctx, binary)
    quick = ctx.quick()
    # ---- 1. model checking -------------------------------------------------------------------
    ctx.tlc_must_pass("conc", "MC_SFI", "MC_SFI_2.cfg", timeout=600, tag="mc-inbound-2")
    ctx.tlc_must_pass("conc", "MC_SFS", "MC_SFS_2.cfg", timeout=600, tag="mc-subgraph-2")
    if quick:
        # three requests: all invariants exhaustively, liveness only in the thorough tier
        ctx.tlc_must_pass("conc", "MC_SFI", "MC_SFI_3s.cfg", timeout=900, tag="mc-inbound-3-safety")
        ctx.tlc_must_pass("conc", "MC_SFS", "MC_SFS_3s.cfg", timeout=900, tag="mc-subgraph-3-safety")
    else:
        ctx.tlc_must_pass("conc", "MC_SFI", "MC_SFI_3.cfg", timeout=1800, tag="mc-inbound-3")
        ctx.tlc_must_pass("conc", "MC_SFS", "MC_SFS_3.cfg", timeout=1800, tag="mc-subgraph-3")
    if not quick:
        # unbounded N: TLAPS proof that IndInv is inductive and implies the six safety invariants for every N
        # (spec/conc/SFI_IndInv*.tla, design.d/C11-proof.md). A failure is a model-level problem, never a verdict.
        import subprocess
        p = subprocess.run(["bash", lib.SPEC + "/conc/check_sfi_indinv.sh", "--neg"], stdout=subprocess.PIPE,
                           stderr=subprocess.STDOUT, text=True, timeout=1800)
        ctx.log("TLAPS: " + " | ".join(l.strip() for l in p.stdout.splitlines() if "obligations" in l or "RESULT" in l))
        if p.returncode != 0:
            print(p.stdout[-3000:])
            raise lib.Inconclusive("the TLAPS proof of the inductive invariant (SFI_IndInv_proofs.tla) did not go through")
        import re as _re
        m = _re.search(r"TOTAL: (\d+) proof obligations discharged", p.stdout) or _re.search(r"All (\d+) obligations proved", p.stdout)
        ctx.coverage["tlaps"] = {"obligations": int(m.group(1)) if m else None, "discharged": int(m.group(1)) if m else None,
                                 "checker_cmd": "bash spec/conc/check_sfi_indinv.sh --neg",
                                 "theorem": "for SingleFlightInbound and SingleFlightSubgraph: Spec => [](NoPanic /\\ LeaderOwnsEntry /\\ NoForeignCancel /\\ Transparent /\\ SharedOnlyIfSameKey /\\ NoTornBuffer) for every N, MaxCancels in Nat, Fixed = TRUE",
                                 "negative_control": "without Fixed = TRUE exactly the AfterWokeNothing / EndWork steps (inbound) and the AfterWokeShared step (subgraph) are unprovable"}
    # the pinned (pre-fix) protocol must be *rejected* by the model: guards against a vacuous spec
    r = ctx.tlc("conc", "MC_SFI", "MC_SFI_3_pinned.cfg", timeout=600, count=False, tag="mc-inbound-pinned-negative")
    if r.violated != "NoPanic":
        raise lib.Inconclusive("sanity: the pinned protocol (Fixed=FALSE) should violate NoPanic in the model, got %r" % r.error)
    # ---- 2./3./4. generate, replay, validate -------------------------------------------------
    total_replayed = total_valid = total_unreal = 0
    samples = []
    distinct = set()
    for level, gen in (("inbound", "Gen_SFI"), ("subgraph", "Gen_SFS")):
        g = ctx.tlc_must_pass("conc", gen, gen + "_2.cfg", timeout=900, deadlock=False, workers=8, tag="gen-%s-2" % level)
        beh = g.printed
        if quick:
            chosen, ni, no = select(beh, 2500, 500, rng)
        else:
            chosen, ni, no = select(beh, 10 ** 9, 10 ** 9, rng)
        ctx.log("%s N=2: %d behaviours generated (%d interesting), %d chosen" % (level, len(beh), ni, len(chosen)))
        scheds = [variants(to_schedule(level, i, b), rng) for i, b in enumerate(chosen)]
        nrep, nval, nun, results = replay_level(ctx, binary, level, 2, scheds)
        total_replayed += nrep
        total_valid += nval
        total_unreal += nun
        for s in scheds:
            distinct.add(lib.sha([s["reqs"], s["steps"]]))
        samples.append({"level": level, "schedule": scheds[0], "result": results[0]})
        # N = 3: sampled behaviours
        num = 1500 if quick else 40000
        g3 = ctx.tlc_must_pass("conc", gen, gen + "_3.cfg", timeout=1800, deadlock=False, workers=1, simulate=num, depth=60,
                               seed=ctx.seed, tag="gen-%s-3-simulate" % level)
        beh3 = [b for b in g3.printed if interesting(b)]
        uniq = {}
        for b in beh3:
            uniq[lib.sha(b)] = b
        beh3 = list(uniq.values())
        ctx.log("%s N=3: %d distinct interesting behaviours sampled" % (level, len(beh3)))
        scheds3 = [variants(to_schedule(level, i, b), rng) for i, b in enumerate(beh3)]
        if scheds3:
            nrep, nval, nun, results = replay_level(ctx, binary, level, 3, scheds3)
            total_replayed += nrep
            total_valid += nval
            total_unreal += nun
            for s in scheds3:
                distinct.add(lib.sha([s["reqs"], s["steps"]]))
            samples.append({"level": level, "schedule": scheds3[0], "result": results[0]})
    if total_unreal:
        ctx.notes.append("%d schedules contained a step the real code could not take as scheduled (drained and validated anyway)" % total_unreal)
    ctx.coverage.update({
        "traces_validated_against_impl": total_valid,
        "evaluations": total_replayed,
        "distinct_nontrivial": len(distinct),
        "rule": "one case = one TLC-generated behaviour (configuration of 2-3 requests: keys, eligibility, work outcome; "
                "interleaving of the per-request steps incl. cancellations) forced on the real resolver; distinct by "
                "(requests, step sequence); non-trivial = counted only if at least two steps of different requests interleave",
        "samples": samples[:4],
        "unrealised_schedules": total_unreal,
        "invariants_on_traces": INVS,
        "exhaustive": not quick,
    })
    ctx.assumptions += [
        "schedules are forced at the verif hook points and at the harness data-source gate; code between two points of one goroutine is treated as atomic",
        "bytes are compared against a solo execution of the same request on a fresh resolver",
        "N <= 3 concurrent requests; cancellations bounded (<= 2)",
    ]
